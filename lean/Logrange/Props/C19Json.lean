import Logrange.Proofs.RegistryJson
import Logrange.Props.C19
import Logrange.Generated.C19
/-!
# C19 — the registry survives a restart **through the concrete text of `pipes.dat`**

`Props/C19.lean` proves `registry_survives_restart` on a machine whose disk holds the saved LIST (the JSON codec as a contract).
Here the disk holds BYTES: `pipes.dat` is `encPipes` = Go 1.23's `json.Marshal([]Pipe)` (string escaping with `escapeHTML`,
invalid UTF-8 written as the escape of U+FFFD), read back by `decPipes` = `json.Unmarshal` on the fragment the encoder emits
(all string escapes, surrogate pairs, raw invalid bytes → U+FFFD) and `Service.Init`'s loop into the map (`loadMap`: a later
duplicate name overwrites). `Model/RegistryJson.lean`, `Proofs/RegistryJson.lean`; the model is compared with the real
`encoding/json` and with the real `pipes.dat` of a running server by the harness (section `codec`).

* For definitions whose three strings are **valid UTF-8** the byte machine simulates the list machine step by step
  (`jstep_sim`), so the registry survives every restart and crash (`registry_survives_restart_json`), and DESCRIBE after a
  restart reports the definition given (`describe_after_restart_json`).
* Outside UTF-8 the property fails on the real code (shared finding F-C07-902 of C07, witness there): a name changes
  (`cex_json_changes_name`), two pipes become one (`cex_json_merges_names`, `cex_restart_loses_a_pipe`).
-/
namespace Logrange.Props.C19Json
open Go Logrange.Registry Logrange.Props.C19

/-- the codec is exact on UTF-8 definitions, for every list of pipes (quotes, backslashes, control bytes, `<`, U+2028 …) -/
theorem pipes_dat_round_trip (ps : List Pipe) (h : ps.all pipeUtf8 = true) : decPipes (encPipes ps) = some ps :=
  codec_round_trip_utf8 ps h

/-- …and in general it is exact up to `encoding/json`'s replacement of invalid UTF-8 -/
theorem pipes_dat_round_trip_general (ps : List Pipe) : decPipes (encPipes ps) = some (ps.map sanitizePipe) :=
  decPipes_encPipes ps

/-- **The registry survives a clean restart (and a crash) through the JSON text of `pipes.dat`**: from an empty directory,
after EVERY sequence of create / ensure / delete / get operations, restarts and crashes whose definitions are valid UTF-8, a
further clean restart is not refused, leaves exactly the registry that was there and the file that encodes it; so does a crash.
Save points as in `registry_survives_restart` (regenerated facts `cfgNow`). -/
theorem registry_survives_restart_json (acc : Pipe → Bool) (ops : List POp) (h : ops.all opUtf8 = true) :
    (jstep cfgNow acc (jrun cfgNow acc ⟨[], none⟩ ops) .restart).1.mem = (jrun cfgNow acc ⟨[], none⟩ ops).mem ∧
    (jstep cfgNow acc (jrun cfgNow acc ⟨[], none⟩ ops) .restart).1.file = some (encPipes (jrun cfgNow acc ⟨[], none⟩ ops).mem) ∧
    (jstep cfgNow acc (jrun cfgNow acc ⟨[], none⟩ ops) .restart).2 = none ∧
    (jstep cfgNow acc (jrun cfgNow acc ⟨[], none⟩ ops) .crash).1.mem = (jrun cfgNow acc ⟨[], none⟩ ops).mem ∧
    (jstep cfgNow acc (jrun cfgNow acc ⟨[], none⟩ ops) .crash).2 = none := by
  have h0 : JSim ⟨[], none⟩ ⟨[], none⟩ := ⟨rfl, rfl, List.nodup_nil, by simp, by intro l hl; cases hl⟩
  have hs := jrun_sim cfgNow acc ops _ _ h0 h
  have hr := jstep_sim cfgNow acc _ _ .restart hs rfl
  have hc := jstep_sim cfgNow acc _ _ .crash hs rfl
  obtain ⟨pr, pc1, pc2⟩ := registry_survives_restart acc ops
  obtain ⟨⟨hrm, hrf, _⟩, hrr⟩ := hr
  obtain ⟨⟨hcm, _, _⟩, hcr⟩ := hc
  rw [pr] at hrm hrf hrr
  refine ⟨?_, ?_, ?_, ?_, ?_⟩
  · rw [hrm]; exact hs.1.symm
  · rw [hrf]; simp [hs.1]
  · rw [hrr]
  · rw [hcm, pc1]; exact hs.1.symm
  · rw [hcr, pc2]

/-- non-vacuity: a definition with a quote, a backslash, `<`, a newline, `é` and U+2028 in its name is valid UTF-8; created, then a
restart: it is there, unchanged -/
example :
    opUtf8 (.op (.create ⟨[0x61, 0x22, 0x5c, 0x3c, 0x0a, 0xc3, 0xa9, 0xe2, 0x80, 0xa8], [97, 61, 49], []⟩ true)) = true ∧
    (jrun cfgNow (fun _ => true) ⟨[], none⟩
      [.op (.create ⟨[0x61, 0x22, 0x5c, 0x3c, 0x0a, 0xc3, 0xa9, 0xe2, 0x80, 0xa8], [97, 61, 49], []⟩ true), .restart]).mem =
      [⟨[0x61, 0x22, 0x5c, 0x3c, 0x0a, 0xc3, 0xa9, 0xe2, 0x80, 0xa8], [97, 61, 49], []⟩] := by decide +kernel

/-- **DESCRIBE PIPE after a restart reports the definition given** (UTF-8 definitions): create `p` under a fresh name at the end
of any history, restart through the file, `GetPipe` — the three strings are the ones given. (`cmdDescribePipe` prints them with
`%s`; that the conditions `cmdCreatePipe` stores are the printer's normal form of the statement is C12's round trip.) -/
theorem describe_after_restart_json (acc : Pipe → Bool) (ops : List POp) (h : ops.all opUtf8 = true) (p : Pipe)
    (hp : pipeUtf8 p = true) (hacc : acc p = true)
    (hfresh : ((jrun cfgNow acc ⟨[], none⟩ ops).mem).find p.name = none) :
    (jrun cfgNow acc ⟨[], none⟩ (ops ++ [.op (.create p true), .restart, .op (.get p.name)])).mem.find p.name = some p := by
  have h0 : JSim ⟨[], none⟩ ⟨[], none⟩ := ⟨rfl, rfl, List.nodup_nil, by simp, by intro l hl; cases hl⟩
  -- the byte machine after `ops ++ [create p]` equals the list machine, which survives the restart
  have hsurv := registry_survives_restart_json acc (ops ++ [POp.op (.create p true)])
    (by simp only [List.all_append, h, Bool.true_and, List.all_cons, List.all_nil, Bool.and_true, opUtf8, opU, hp])
  have hrun : ∀ (a b : List POp) (s : JState), jrun cfgNow acc s (a ++ b) = jrun cfgNow acc (jrun cfgNow acc s a) b := by
    intro a
    induction a with
    | nil => intro b s; rfl
    | cons o os ih => intro b s; simp only [List.cons_append, jrun]; exact ih b _
  have e1 : ops ++ [POp.op (.create p true), .restart, .op (.get p.name)] =
      (ops ++ [POp.op (.create p true)]) ++ [.restart, .op (.get p.name)] := by simp
  rw [e1, hrun]
  simp only [jrun]
  -- the get does not change the registry
  have hget : ∀ (s : JState), (jstep cfgNow acc s (.op (.get p.name))).1.mem = s.mem := by
    intro s
    simp only [jstep, jopStep, withAcc, step]
    split <;> rfl
  rw [hget, hsurv.1]
  -- the registry after `ops ++ [create p]`
  rw [hrun]
  simp only [jrun, jstep, jopStep, withAcc, hacc, step, create, hfresh]
  simp [Reg.find]

/-! ## for the definitions `CreatePipe` accepts

`newPPipe` refuses a definition that is not valid UTF-8 (/repo 3cf6638; regenerated fact `newPPipeRequiresUtf8`), so the
acceptance function of the model (`acc`, the conditions parse AND the strings are UTF-8) implies `pipeUtf8`: the hypothesis on the
operations disappears — every history, whatever definitions the callers offer. -/

/-- `newPPipe` refuses non-UTF-8 definitions: read from the source on every run -/
theorem newPPipe_requires_utf8 : Generated.C19.newPPipeRequiresUtf8 = true := by decide

/-- an operation whose definition is refused by `newPPipe` changes neither machine -/
theorem refused_op_changes_nothing (cfg : PCfg) (acc : Pipe → Bool) (j : JState) (s : PState) (o : POp)
    (hacc : ∀ q, acc q = true → pipeUtf8 q = true) (ho : opUtf8 o = false) :
    (jstep cfg acc j o).1 = j ∧ (pstep cfg acc s o).1 = s := by
  cases o with
  | restart => simp [opUtf8] at ho
  | crash => simp [opUtf8] at ho
  | op o =>
    cases o with
    | delete n => simp [opUtf8, opU] at ho
    | get n => simp [opUtf8, opU] at ho
    | create q b =>
      have hq : acc q = false := by
        cases h : acc q with
        | false => rfl
        | true => have := hacc q h; simp [opUtf8, opU, this] at ho
      constructor
      · simp only [jstep, jopStep, withAcc, hq, step, create, savesAfter, changes]
        cases j.mem.find q.name <;> simp
      · simp only [pstep, opStep, withAcc, hq, step, create, savesAfter, changes]
        cases s.mem.find q.name <;> simp
    | ensure q b =>
      have hq : acc q = false := by
        cases h : acc q with
        | false => rfl
        | true => have := hacc q h; simp [opUtf8, opU, this] at ho
      constructor
      · simp only [jstep, jopStep, withAcc, hq, step, ensure, savesAfter, changes]
        cases j.mem.find q.name with
        | none => simp
        | some x => simp only []; split <;> simp
      · simp only [pstep, opStep, withAcc, hq, step, ensure, savesAfter, changes]
        cases s.mem.find q.name with
        | none => simp
        | some x => simp only []; split <;> simp

theorem jrun_sim_accepted (acc : Pipe → Bool) (hacc : ∀ q, acc q = true → pipeUtf8 q = true) :
    ∀ (ops : List POp) (j : JState) (s : PState), JSim j s → JSim (jrun cfgNow acc j ops) (prun cfgNow acc s ops) := by
  intro ops
  induction ops with
  | nil => intro j s h; exact h
  | cons o os ih =>
    intro j s h
    simp only [jrun, prun]
    cases ho : opUtf8 o with
    | true => exact ih _ _ (jstep_sim cfgNow acc j s o h ho).1
    | false =>
      obtain ⟨e1, e2⟩ := refused_op_changes_nothing cfgNow acc j s o hacc ho
      rw [e1, e2]; exact ih _ _ h

/-- **The registry survives a clean restart through the JSON text of `pipes.dat` — for the definitions `CreatePipe` accepts**:
whatever definitions the callers offer (any bytes), after every history a further restart or crash is not refused and leaves the
registry that was there and the file that encodes it. `hacc`: what `newPPipe` accepts is valid UTF-8 (fact
`newPPipe_requires_utf8`; the harness offers non-UTF-8 definitions to the real service and demands the refusal). -/
theorem registry_survives_restart_accepted (acc : Pipe → Bool) (hacc : ∀ q, acc q = true → pipeUtf8 q = true) (ops : List POp) :
    (jstep cfgNow acc (jrun cfgNow acc ⟨[], none⟩ ops) .restart).1.mem = (jrun cfgNow acc ⟨[], none⟩ ops).mem ∧
    (jstep cfgNow acc (jrun cfgNow acc ⟨[], none⟩ ops) .restart).1.file = some (encPipes (jrun cfgNow acc ⟨[], none⟩ ops).mem) ∧
    (jstep cfgNow acc (jrun cfgNow acc ⟨[], none⟩ ops) .restart).2 = none ∧
    (jstep cfgNow acc (jrun cfgNow acc ⟨[], none⟩ ops) .crash).1.mem = (jrun cfgNow acc ⟨[], none⟩ ops).mem ∧
    (jstep cfgNow acc (jrun cfgNow acc ⟨[], none⟩ ops) .crash).2 = none := by
  have h0 : JSim ⟨[], none⟩ ⟨[], none⟩ := ⟨rfl, rfl, List.nodup_nil, by simp, by intro l hl; cases hl⟩
  have hs := jrun_sim_accepted acc hacc ops _ _ h0
  have hr := jstep_sim cfgNow acc _ _ .restart hs rfl
  have hc := jstep_sim cfgNow acc _ _ .crash hs rfl
  obtain ⟨pr, pc1, pc2⟩ := registry_survives_restart acc ops
  obtain ⟨⟨hrm, hrf, _⟩, hrr⟩ := hr
  obtain ⟨⟨hcm, _, _⟩, hcr⟩ := hc
  rw [pr] at hrm hrf hrr
  refine ⟨?_, ?_, ?_, ?_, ?_⟩
  · rw [hrm]; exact hs.1.symm
  · rw [hrf]; simp [hs.1]
  · rw [hrr]
  · rw [hcm, pc1]; exact hs.1.symm
  · rw [hcr, pc2]

/-- a name that is not valid UTF-8 does not survive the restart (the file holds U+FFFD instead); two such names merge —
the byte machine against the list machine on `create ff, create fe, restart` (shared with C07: finding F-C07-902) -/
theorem cex_non_utf8_name_does_not_survive :
    decPipes (encPipes [⟨[0xff], [], []⟩]) = some [⟨[0xEF, 0xBF, 0xBD], [], []⟩] ∧
    ((jrun ⟨true, true, true⟩ (fun _ => true) ⟨[], none⟩
        [.op (.create ⟨[0xff], [97], []⟩ true), .op (.create ⟨[0xfe], [98], []⟩ true), .restart]).mem,
     (prun ⟨true, true, true⟩ (fun _ => true) ⟨[], none⟩
        [.op (.create ⟨[0xff], [97], []⟩ true), .op (.create ⟨[0xfe], [98], []⟩ true), .restart]).mem) =
    ([⟨[0xEF, 0xBF, 0xBD], [97], []⟩], [⟨[0xfe], [98], []⟩, ⟨[0xff], [97], []⟩]) :=
  ⟨cex_json_changes_name, cex_restart_loses_a_pipe⟩

end Logrange.Props.C19Json
