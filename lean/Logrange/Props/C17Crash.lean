import Logrange.Proofs.ScanCrash
import Logrange.Proofs.ScanLag
import Logrange.Props.C17
/-!
# C17 — the crash clause at every point of the two-step save of `scanner.json`

Property theorems only. Model: `Model/ScanCrash.lean` (the worker LTS of `Model/ScanWorker.lean` with
`persistState()` split into the write of `scanner.json.tmp` and the rename; every reachable state is a crash point,
the next session starts from `disk`). Lemmas: `Proofs/ScanCrash.lean`.
-/
namespace Logrange.Props.C17Crash
open Logrange.ScanWorker Logrange.ScanCrash

/-- **`crash_any_point_resends_bounded`** the crash clause at EVERY point, also between the write of
`scanner.json.tmp` and its rename (every configuration, every interleaving of worker steps, consumer, stop-on-EOF,
cancel, begin and rename of periodic and final saves, any length): what `scanner.json` holds is the session's start
offset or the parser position at a confirm rendez-vous; each such position is the start plus the bytes of a prefix
of the confirmed records (an end of a confirmed record); it is at most the in-memory offset, which is at most the
end of the confirmed bytes; the confirmed end at the moment the stored content was marshalled is at most the
confirmed end now, and unless that marshal fell between a confirm rendez-vous and its `setOffset` the stored offset
equals it: a crash at this very point re-sends exactly what was confirmed since the content on disk was marshalled;
and the confirmed records are a prefix of what the parser returned. -/
theorem crash_any_point_resends_bounded (c : Cfg) (start : Nat) (tr : List CL) :
    let x := crun c (cinit start) tr
    x.disk ∈ start :: x.s.ends ∧
    (∀ e ∈ x.s.ends, ∃ k, k ≤ x.s.confirmed.length ∧ e = start + bytesOf (x.s.confirmed.take k)) ∧
    x.disk ≤ x.s.offset ∧ x.s.offset ≤ start + bytesOf x.s.confirmed ∧
    x.diskConf ≤ start + bytesOf x.s.confirmed ∧
    (x.diskWin = false → x.disk = x.diskConf) ∧
    x.s.confirmed <+: x.s.readLog := by
  intro x
  have h : CInv x := cinv_run c tr (cinit start) (cinv_init start)
  have hst : x.s.start = start := crun_start c tr (cinit start)
  have hmem := h.diskMem
  have hends := h.winv.endsOk
  have hoff := h.winv.offEq
  have hconf := h.confLe
  rw [hst] at hmem hends
  simp only [confEnd, hst] at hoff hconf
  exact ⟨hmem, hends, h.diskLe, by omega, hconf, h.noRace, h.winv.pre⟩

/-- a crash between the two steps of a save: the record was confirmed, its offset set and marshalled into the
temporary file (`persisted = 2`), `scanner.json` still holds 0 — the restart re-sends the 2 confirmed bytes, which
were confirmed since the last completed save (`diskConf = 0`); once the rename is done the file holds 2 -/
example :
    let tr : List CL := [.w .step, .w (.next (.record [97, 10])), .w .step, .w .send, .w .confirm, .w .setOffset,
      .saveBegin false]
    let x := crun ⟨1, true, true⟩ (cinit 0) tr
    let y := crun ⟨1, true, true⟩ (cinit 0) (tr ++ [.saveRename])
    x.saving = true ∧ x.disk = 0 ∧ x.diskConf = 0 ∧ x.s.persisted = 2 ∧ x.s.offset = 2 ∧ x.s.confirmed = [[97, 10]] ∧
    x.s.ends = [2] ∧ y.saving = false ∧ y.disk = 2 ∧ y.diskConf = 2 ∧ y.diskWin = false := by decide

/-- a save whose marshal falls between the confirm rendez-vous and `setOffset` stores the old offset although the
record is confirmed: `diskWin = true`, `disk = 0 < diskConf = 2` -/
example :
    let x := crun ⟨1, true, true⟩ (cinit 0) [.w .step, .w (.next (.record [97, 10])), .w .step, .w .send, .w .confirm,
      .saveBegin false, .w .setOffset, .saveRename]
    x.saving = false ∧ x.disk = 0 ∧ x.diskConf = 2 ∧ x.diskWin = true ∧ x.s.offset = 2 := by decide

/-- **`state_file_old_or_new_at_every_point`** `scanner.json` holds the newest marshalled content, or — while a save
is between its two steps — the one before it, which is not ahead of the newest; the newest marshalled offset is at
most the in-memory offset. -/
theorem state_file_old_or_new_at_every_point (c : Cfg) (start : Nat) (tr : List CL) :
    let x := crun c (cinit start) tr
    (x.saving = false → x.disk = x.s.persisted) ∧
    (x.saving = true → x.disk ≤ x.s.persisted) ∧ x.s.persisted ≤ x.s.offset := by
  intro x
  have h : CInv x := cinv_run c tr (cinit start) (cinv_init start)
  exact ⟨fun hs => (h.idle hs).1, h.busy, h.winv.perLe⟩

/-- both cases occur: between the two steps the file holds the older content (0, the newest is 2), a second
`saveBegin` is not enabled while the first save is not renamed, after the rename the file holds the newest -/
example :
    let tr : List CL := [.w .step, .w (.next (.record [97, 10])), .w .step, .w .send, .w .confirm, .w .setOffset,
      .saveBegin false]
    let x := crun ⟨1, true, true⟩ (cinit 0) tr
    (x.saving = true ∧ x.disk = 0 ∧ x.s.persisted = 2) ∧
    cstep ⟨1, true, true⟩ x (.saveBegin false) = none ∧
    (crun ⟨1, true, true⟩ x [.saveRename]).saving = false ∧
    (crun ⟨1, true, true⟩ x [.saveRename]).disk = 2 ∧
    (crun ⟨1, true, true⟩ x [.saveRename]).s.persisted = 2 := by decide

/-- **`graceful_final_save_exact`** graceful stop (the code as it is now: the final persist waits for the worker,
fix c6aad9a; every interleaving): once the FINAL save is complete — marshalled and renamed, and not yet replaced by
a later one —, `scanner.json` holds exactly the end of the confirmed bytes, and the worker has left its loop, so
that end does not move any more: the next session re-sends no confirmed byte and skips none. -/
theorem graceful_final_save_exact (k start : Nat) (tr : List CL) :
    let x := crun (Logrange.Props.C17.codeCfg k) (cinit start) tr
    x.diskFinal = true → x.disk = start + bytesOf x.s.confirmed ∧ x.s.pc = .done := by
  intro x hdf
  have hfact : Generated.C17.finalPersistAfterWorkersWait = true := by decide
  have hcfg : (Logrange.Props.C17.codeCfg k).finalAfterWorkers = true := hfact
  have hg : GInv x := ginv_run _ hcfg tr (cinit start) (cinv_init start) (ginv_init start)
  have hst : x.s.start = start := crun_start _ tr (cinit start)
  obtain ⟨hpc, hd⟩ := hg.fin hdf
  simp only [confEnd, hst] at hd
  exact ⟨hd, hpc⟩

/-- the hypothesis is met: record confirmed, offset set, cancel, the worker leaves its loop, the final save is
marshalled and renamed — the file holds 2 = the end of the confirmed bytes; a final save asked for right after the
cancel (the worker still in its loop) is not enabled -/
example :
    let pre : List CL := [.w .step, .w (.next (.record [97, 10])), .w .step, .w .send, .w .confirm, .w .setOffset,
      .w .cancel]
    let x := crun (Logrange.Props.C17.codeCfg 1) (cinit 0) (pre ++ [.w .step, .w .step, .saveBegin true, .saveRename])
    (x.diskFinal = true ∧ x.disk = 2 ∧ x.s.pc = .done ∧ x.s.confirmed = [[97, 10]]) ∧
    cstep (Logrange.Props.C17.codeCfg 1) (crun (Logrange.Props.C17.codeCfg 1) (cinit 0) pre) (.saveBegin true) = none := by
  decide

/-- **`inner_state_reachable`** the inner system of the split-save system is a reachable state of the one-step-save
LTS: every theorem about `run` (`offset_is_confirmed_end`, `crash_resends_bounded`, `rotated_file_drained`, …) holds
for the worker part of every state of the split-save system. -/
theorem inner_state_reachable (c : Cfg) (start : Nat) (tr : List CL) :
    ∃ tr' : List L, (crun c (cinit start) tr).s = run c (init start) tr' :=
  crun_inner c (init start) tr (cinit start) [] rfl

/-- the split-save trace with both steps of the save and the worker's `setOffset` in between has the inner state
of the one-step trace with the persist at the place of `saveBegin` -/
example :
    (crun ⟨1, true, true⟩ (cinit 0) [.w .step, .w (.next (.record [97, 10])), .w .step, .w .send, .w .confirm,
      .saveBegin false, .w .setOffset, .saveRename]).s =
    run ⟨1, true, true⟩ (init 0) [.step, .next (.record [97, 10]), .step, .send, .confirm, .persist, .setOffset] := by
  decide

/-! ## the size of the lag of a save that falls into the confirm-to-`setOffset` window -/

/-- **`window_lag_is_one_event`** the SIZE of the lag (worker LTS with the one-step save; every configuration with
`recsPerEvent ≥ 1`, every interleaving, any length): what the last persist stored is the start offset plus the bytes
of the first `j` confirmed records, the confirmed end at the moment of that persist the start plus the bytes of the
first `j + m` of them; `m = 0` unless the persist ran between a confirm rendez-vous and its `setOffset`, and then
`1 ≤ m ≤ recsPerEvent`: the stored offset lags behind by exactly the one event that was just confirmed — its `m`
consecutive confirmed records `confirmed[j .. j+m)`. -/
theorem window_lag_is_one_event (c : Cfg) (hk : 1 ≤ c.recsPerEvent) (start : Nat) (tr : List L) :
    let s := run c (init start) tr
    ∃ j m, j + m ≤ s.confirmed.length ∧ m ≤ c.recsPerEvent ∧
      s.persisted = start + bytesOf (s.confirmed.take j) ∧
      s.confAtPersist = start + bytesOf (s.confirmed.take (j + m)) ∧
      (s.persistInWindow = false → m = 0) ∧ (s.persistInWindow = true → 1 ≤ m) :=
  Logrange.ScanWorker.window_lag_is_one_event c hk start tr

/-- the window case occurs (`j = 0`, `m = 1`): the persist runs between the confirm rendez-vous and `setOffset`; it
stores 0 = the end of 0 confirmed records while the confirmed end is 2 = the end of 1 confirmed record -/
example :
    let s := run ⟨1, true, true⟩ (init 0) [.step, .next (.record [97, 10]), .step, .send, .confirm, .persist]
    s.persisted = 0 ∧ s.confAtPersist = 2 ∧ s.persistInWindow = true ∧ s.confirmed = [[97, 10]] ∧
    s.persisted = 0 + bytesOf (s.confirmed.take 0) ∧ s.confAtPersist = 0 + bytesOf (s.confirmed.take (0 + 1)) := by
  decide

/-- the upper bound is met (`recsPerEvent = 2`, `j = 0`, `m = 2`): an event of two records is confirmed, the persist
in the window stores 0 while the confirmed end is 4 = the end of 2 confirmed records; and after `setOffset` the next
persist is outside the window and stores the confirmed end (`j = 2`, `m = 0`) -/
example :
    let tr : List L := [.step, .next (.record [97, 10]), .step, .step, .step, .next (.record [98, 10]), .step, .send,
      .confirm, .persist]
    let s := run ⟨2, true, true⟩ (init 0) tr
    let t := run ⟨2, true, true⟩ (init 0) (tr ++ [.setOffset, .persist])
    (s.persisted = 0 ∧ s.confAtPersist = 4 ∧ s.persistInWindow = true ∧ s.confirmed = [[97, 10], [98, 10]] ∧
     s.confAtPersist = 0 + bytesOf (s.confirmed.take (0 + 2))) ∧
    (t.persisted = 4 ∧ t.confAtPersist = 4 ∧ t.persistInWindow = false ∧
     t.persisted = 0 + bytesOf (t.confirmed.take 2)) := by
  decide

/-- **`crash_window_lag_is_one_event`** the same at every point of the two-step save: what `scanner.json` holds is
the start offset plus the bytes of the first `j` confirmed records, the confirmed end at the moment that content was
marshalled the start plus the bytes of the first `j + m` of them; `m = 0` unless the marshal fell between a confirm
rendez-vous and its `setOffset`, and then `1 ≤ m ≤ recsPerEvent`: a crash then re-sends, of what was confirmed
before the marshal, exactly one event — at least 1 and at most `recsPerEvent` consecutive confirmed records (plus
whatever was confirmed since, see `crash_any_point_resends_bounded`). -/
theorem crash_window_lag_is_one_event (c : Cfg) (hk : 1 ≤ c.recsPerEvent) (start : Nat) (tr : List CL) :
    let x := crun c (cinit start) tr
    ∃ j m, j + m ≤ x.s.confirmed.length ∧ m ≤ c.recsPerEvent ∧
      x.disk = start + bytesOf (x.s.confirmed.take j) ∧
      x.diskConf = start + bytesOf (x.s.confirmed.take (j + m)) ∧
      (x.diskWin = false → m = 0) ∧ (x.diskWin = true → 1 ≤ m) :=
  Logrange.ScanCrash.crash_window_lag_is_one_event c hk start tr

/-- the window case occurs for the state file (`j = 0`, `m = 1`): the marshal falls between the confirm rendez-vous and
`setOffset`, the rename comes after it; `scanner.json` holds 0 = the end of 0 confirmed records, the confirmed end at
the marshal was 2 = the end of 1 confirmed record; while a LATER save is between its two steps the file still holds
that content although the inner `persisted` has moved on to 2 -/
example :
    let tr : List CL := [.w .step, .w (.next (.record [97, 10])), .w .step, .w .send, .w .confirm,
      .saveBegin false, .w .setOffset, .saveRename]
    let x := crun ⟨1, true, true⟩ (cinit 0) tr
    let y := crun ⟨1, true, true⟩ (cinit 0) (tr ++ [.saveBegin false])
    (x.disk = 0 ∧ x.diskConf = 2 ∧ x.diskWin = true ∧ x.s.confirmed = [[97, 10]] ∧
     x.disk = 0 + bytesOf (x.s.confirmed.take 0) ∧ x.diskConf = 0 + bytesOf (x.s.confirmed.take (0 + 1))) ∧
    (y.saving = true ∧ y.disk = 0 ∧ y.diskConf = 2 ∧ y.diskWin = true ∧ y.s.persisted = 2 ∧
     y.s.persistInWindow = false) := by
  decide


end Logrange.Props.C17Crash
