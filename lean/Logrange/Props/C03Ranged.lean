import Logrange.Proofs.RdRngFwd
import Logrange.Proofs.RdRngBwd
import Logrange.Proofs.RdRngWin
import Logrange.Proofs.RdRngPaging
import Logrange.Proofs.RdRngQueryLift
import Logrange.Proofs.RdRngGrow
import Logrange.Generated.C03
/-!
# C03 with RANGE — the ranged journal iterator (`partition.JIterator` + `chkSelector`) and paging over it

Property theorems only. Model: `Model/RdSelector.lean` (`rGet/rNext/rSetPos/rAdvance/rEnsure`, `getPosForward/Backward`,
`getChunkStatus` with its status cache, `checkPosOrAdvance/Reduce`), function by function. The time index is NOT part of
this model: each chunk value carries the window `[minPos, maxPos]` that `updatePoss` answers for it, and the theorems take
**window soundness** as their input contract — `WinSound j lo hi`: every record of a chunk whose timestamp lies in the range
has its index inside the chunk's window (windows may be wider than the range; that is what C02 proves about the index, and
what the harness checks on the real selector's windows on every run). The re-check of every delivered event against the
range (`fiterator.fitInRange`) is part of the cursor model (`passes`), so wider windows are harmless.

`wflat j` = the records the windows admit, in stored order; `wIdx j s` = the iterator's index into it.
`RWF j s` holds for every state reachable from a fresh iterator by `SetPos` (no chunk open), `SetBackward`, `Get`, `Next`,
`Release` over the fixed journal `j`.
-/
namespace Logrange.Props.C03Ranged
open Logrange.Rd

/-- the code shapes the ranged model and its theorems rest on, regenerated from /repo on every run: `fiterator.Get`
re-checks every event against both range bounds (so windows wider than the range are harmless — `passR` in `paging_ranged`),
and `JIterator.Next` leaves a chunk when its chunk iterator steps outside `[minPos, maxPos]` (`rNext`) -/
theorem code_shape_facts_ranged :
    Logrange.Generated.C03.fiteratorRechecksRange = true ∧
    Logrange.Generated.C03.nextLeavesChunkOutsideWindow = true ∧
    Logrange.Generated.C03.fwdEndPosFromDecisionCount = true ∧
    Logrange.Generated.C03.advanceKeepsIteratorPos = true := by decide

/-- what the model driver prints for `it.spec` on a ranged iterator (`rSpecDrain`, compared with a drain of the real
`partition.JIterator` in its current direction on every run) is what the model iterator delivers, whenever its executable
well-formedness test `rwfB` holds — forward, and backward under `PosIds` / `bw_ChunkBound` -/
theorem ranged_drain_is_spec (j : Journal) (s : RIt) (n : Nat) (hs : Sorted j) (h : rwfB j s = true)
    (hn : (wflat j).length ≤ n) :
    RWF j s ∧ (s.bkwd = false → rDrain j n s = rSpecDrain j s) ∧
    (s.bkwd = true → PosIds j → bw_ChunkBound j → rDrain j n s = rSpecDrain j s) :=
  ⟨rf_rwfB_sound h, fun hb => rf_spec_drain_fwd j s n hs h hb hn,
   fun hb hp hcb => rb_spec_drain_bwd j s n hs hp hcb h hb hn⟩

/-- `Get` of the ranged iterator returns the admitted record at its index (EOF = none left) and keeps the index -/
theorem ranged_get_forward (j : Journal) (s : RIt) (hs : Sorted j) (hw : RWF j s) (hb : s.bkwd = false) :
    (rGet j s).2 = (wflat j)[wIdx j s]? ∧ wIdx j (rGet j s).1 = wIdx j s ∧ RWF j (rGet j s).1 :=
  let h := rGetFwd j s hs hw hb; ⟨h.1, h.2.2.2.1, h.2.1⟩

/-- `Next` advances the index by exactly one admitted record (it stays at the end) -/
theorem ranged_next_forward (j : Journal) (s : RIt) (hs : Sorted j) (hw : RWF j s) (hb : s.bkwd = false) :
    wIdx j (rNext j s) = min (wIdx j s + 1) (wflat j).length ∧ RWF j (rNext j s) :=
  let h := rNextFwd j s hs hw hb; ⟨h.2.2.2, h.1⟩

/-- from ANY well-formed state, with any fuel: the first `n` admitted records from the iterator's index on -/
theorem ranged_drain_take (j : Journal) (s : RIt) (n : Nat) (hs : Sorted j) (hw : RWF j s) (hb : s.bkwd = false) :
    rDrain j n s = ((wflat j).drop (wIdx j s)).take n := rf_drain_eq j s n hs hw hb

/-- after `k` rounds of `Get; Next` the iterator stands `k` admitted records further (or at the end) -/
theorem ranged_pos_after (j : Journal) (s : RIt) (k : Nat) (hs : Sorted j) (hw : RWF j s) (hb : s.bkwd = false) :
    wIdx j (rStepK j k s) = min (wIdx j s + k) (wflat j).length :=
  (rf_pos_after j s k hs hw hb).1

/-- **ranged_iter_enumerates** (forward): for ALL sorted journals, chunk layouts (empty chunks, empty windows), windows
that are sound for the range, and ALL positions: draining the ranged iterator from the position and re-checking the range
(as `fiterator.Get` does) yields exactly the stored records from that position on whose timestamp is in the range, in
stored order — the filter of what the un-ranged iterator yields (`C03.iter_enumerates`). -/
theorem ranged_iter_enumerates (j : Journal) (p : Pos) (n : Nat) (lo hi : Option Int) (hs : Sorted j)
    (hw : WinSound j lo hi) (hn : (flat j).length ≤ n) :
    (rDrain j n (rSetPos j {} p)).filter (inRange lo hi) = (recordsFrom j p).filter (inRange lo hi) ∧
    (rDrain j n (rSetPos j {} p)).filter (inRange lo hi) = (drain j n (setPos j {} p)).filter (inRange lo hi) := by
  obtain ⟨h1, h2, h3, h4⟩ := rw_setPos_fresh j p
  have hwf : RWF j (rSetPos j {} p) := by unfold RWF; rw [h1]; exact Or.inl h4
  have hidx : wIdx j (rSetPos j {} p) = wflatIdx j p := by unfold wIdx rEffPos; rw [h1]; simp [h2]
  have hd : rDrain j n (rSetPos j {} p) = (wflat j).drop (wflatIdx j p) := by
    rw [rf_drain_eq j _ n hs hwf h3, hidx]
    apply List.take_of_length_le
    have := rp_wflat_length_le j
    simp only [List.length_drop]; omega
  have hf := rwn_filter_from hs (hw.toF (f := inRange lo hi) (fun _ h => h)) p
  have e1 : (rDrain j n (rSetPos j {} p)).filter (inRange lo hi) = (recordsFrom j p).filter (inRange lo hi) := by
    rw [hd, hf]; rfl
  refine ⟨e1, ?_⟩
  obtain ⟨g1, g2, g3⟩ := setPos_fresh j p
  have hwl : WF j (setPos j {} p) := by unfold WF; rw [g1]; trivial
  have := Logrange.Rd.iter_enumerates j (setPos j {} p) n hs hwl g3 hn
  rw [e1, this]; unfold effPos; rw [g1]; simp [g2]

/-! ### backward (hypotheses as for the library iterator: `PosIds` — no chunk id 0 —, `bw_ChunkBound` — ≤ 2^32 records per chunk) -/

/-- backward `Get` returns the admitted record just before the iterator's count (EOF at 0) and keeps the count -/
theorem ranged_get_backward (j : Journal) (s : RIt) (hs : Sorted j) (hp : PosIds j) (hcb : bw_ChunkBound j)
    (hw : RWF j s) (hb : s.bkwd = true) :
    (rGet j s).2 = (if wbCount j s = 0 then none else (wflat j)[wbCount j s - 1]?) ∧
    wbCount j (rGet j s).1 = wbCount j s ∧ RWF j (rGet j s).1 :=
  let h := rGetBwd j s hs hp hcb hw hb; ⟨h.1, h.2.2.2.1, h.2.1⟩

/-- backward `Next` steps back over exactly one admitted record -/
theorem ranged_next_backward (j : Journal) (s : RIt) (hs : Sorted j) (hp : PosIds j) (hcb : bw_ChunkBound j)
    (hw : RWF j s) (hb : s.bkwd = true) :
    wbCount j (rNext j s) = wbCount j s - 1 ∧ RWF j (rNext j s) :=
  let h := rNextBwd j s hs hp hcb hw hb; ⟨h.2.2, h.1⟩

/-- **ranged_iter_enumerates, backward**: from ANY position, switched backward and drained, with the range re-check: exactly
the stored records at or before that position whose timestamp is in the range, in REVERSED stored order. -/
theorem ranged_iter_enumerates_backward (j : Journal) (p : Pos) (n : Nat) (lo hi : Option Int) (hs : Sorted j)
    (hp : PosIds j) (hcb : bw_ChunkBound j) (hw : WinSound j lo hi) (hn : (flat j).length ≤ n) :
    (rDrain j n (rSetBackward (rSetPos j {} p) true)).filter (inRange lo hi) =
      (((flat j).take (flatIdx j ⟨p.cid, p.idx + 1⟩)).filter (inRange lo hi)).reverse := by
  obtain ⟨h1, h2, h3, h4⟩ := rw_setPos_fresh j p
  have hci : (rSetBackward (rSetPos j {} p) true).ci = none := h1
  have hwf : RWF j (rSetBackward (rSetPos j {} p) true) := by unfold RWF; rw [hci]; exact Or.inl h4
  have hcnt : wbCount j (rSetBackward (rSetPos j {} p) true) = wflatIdx j ⟨p.cid, p.idx + 1⟩ := by
    unfold wbCount; rw [hci]
    have e1 : (rSetPos j {} p).cid = p.cid := congrArg Pos.cid h2
    have e2 : (rSetPos j {} p).idx = p.idx := congrArg Pos.idx h2
    show wflatIdx j ⟨(rSetPos j {} p).cid, (rSetPos j {} p).idx + 1⟩ = _
    rw [e1, e2]
  rw [rb_drain_eq j _ n hs hp hcb hwf rfl, hcnt, List.take_of_length_le (by
      have := rp_wflat_length_le j
      simp only [List.length_reverse, List.length_take]; omega),
    List.filter_reverse, rwn_filter_upto hs (hw.toF (f := inRange lo hi) (fun _ h => h))]

/-- **paging with RANGE** (one partition, ± WHERE), for ALL sorted journals, windows sound for the range, limit lists and
per-page environment choices (the held cursor object continues | a new cursor is built from the position text): the
concatenated pages are the first Σ limits of the stored events that match (range re-check and WHERE), in stored order.
`pagesR` = `newCursor` over the ranged iterator under the `fiterator`, first page from `head`, page = read loop + `commit`. -/
theorem paging_ranged (name : Nat) (w : Bool) (lo hi : Option Int) (j : Journal) (l0 : Nat) (steps : List PStep)
    (hs : Sorted j) (hw : WinSound j lo hi) (hfix : ∀ st ∈ steps, st.jrnl = j) :
    (pagesR lo hi name w j l0 steps).flatten =
      ((flat j).filter (passR lo hi w)).take (l0 + (steps.map (·.limit)).sum) := by
  rw [rp_paging lo hi rGetFwd rNextFwd hs l0 steps hfix,
    rwn_filter_wflat (hw.toF (f := passR lo hi w) (fun r h => by
      simp only [passR, Bool.and_eq_true] at h; exact h.2))]

/-- **paging with RANGE at the request level** (`Querier.Query` + provider: limit clamp by the regenerated `QueryMaxLimit`,
cache flag, held cursor found by id + `ApplyState`, new cursor otherwise, ids zeroed for un-held cursors; client modes
follow / evicted / id zeroed / position only), one partition, ± WHERE, fixed store -/
theorem paging_query_level_ranged (j : Journal) (w : Bool) (lo hi : Option Int) (l0 : Nat) (steps : List Step)
    (hs : Sorted j) (hw : WinSound j lo hi) (hall : ∀ s ∈ steps, s.store' = none) :
    (pages Logrange.Generated.C03.queryMaxLimit { store := [(0, j)] }
        { query := some (qRng lo hi w), limit := l0, wait := true } steps).flatten
      = ((flat j).filter (passR lo hi w)).take
          ((l0 :: steps.map (·.limit)).map (fun l => min l Logrange.Generated.C03.queryMaxLimit)).sum := by
  rw [rq_pages lo hi rGetFwd rNextFwd hs _ l0 true steps hall,
    rwn_filter_wflat (hw.toF (f := passR lo hi w) (fun r h => by
      simp only [passR, Bool.and_eq_true] at h; exact h.2))]

/-! ### appends between pages under RANGE: the contract needed from the index side (C02) — stated, not used yet -/

/-- **window monotonicity under appends** (request to C02's owner): when a partition grows (`Grows j j'`: appends only),
the window the selector computes for the grown journal still admits everything the old window admitted that is in range,
never re-opens below the old lower end of a chunk that was already partly read, and every in-range record of `j'` is
admitted (`WinSound j'`). With this, a settled position keeps its admitted-index (`wflatIdx j' p = wflatIdx j p` restricted to
in-range records) and `appends_between_pages` carries over to RANGE as `position_survives_appends` did for the library
iterator. Formally, per chunk id: the in-range records of the old chunk value sit at the same indices, inside both windows. -/
def WinMonotone (j j' : Journal) (lo hi : Option Int) : Prop :=
  Grows j j' ∧ WinSound j lo hi ∧ WinSound j' lo hi ∧
  ∀ c ∈ j, ∀ c' ∈ j', c.id = c'.id →
    (∀ (k : Nat) (r : Rec), c.recs[k]? = some r → inRange lo hi r = true → c'.minPos ≤ k ∧ k ≤ c'.maxPos) ∧
    (∀ (k : Nat) (r : Rec), c'.recs[k]? = some r → c'.minPos ≤ k → k < c.minPos → k < c.cnt → inRange lo hi r = false)

/-- **appends_between_pages with RANGE**: when the journal grows between pages (`GrowsChainR`: appends only, every journal
value sorted and with windows SOUND for the range — which for the real time index is `Props/C02Win.lean`:
`rd_window_sound_pipeline`, `win_monotone_of_win_sound`/`win_monotone_pipeline` being the body of `WinMonotone` above —, pages
after a change served by a new cursor built from the position text, a held cursor only while the journal is unchanged), the
concatenated pages are a prefix of the matching events of the FINAL journal in stored order — nothing twice, nothing foreign,
later appends later — and if the last page came back shorter than its limit they are all of them. -/
theorem appends_between_pages_ranged (name : Nat) (w : Bool) (lo hi : Option Int) (j0 : Journal) (l0 : Nat)
    (steps : List PStep) (hne : j0 ≠ []) (hs : Sorted j0) (hw : WinSound j0 lo hi) (hch : GrowsChainR lo hi j0 steps) :
    ∃ R, (flat (lastJ j0 steps)).filter (passR lo hi w) = (pagesR lo hi name w j0 l0 steps).flatten ++ R ∧
      (∀ st evs, steps.getLast? = some st → (pagesR lo hi name w j0 l0 steps).getLast? = some evs →
        evs.length < st.limit → R = []) :=
  rg_pages_grow lo hi j0 l0 steps hne hs hw hch

/-! ### non-vacuity and the boundary of `RWF`, evaluated by the kernel -/

def rr (l : Nat) (t : Int) (k : Bool := true) : Rec := { lbl := l, ts := t, keep := k }
/-- three chunks: window narrower than the chunk but WIDER than the range; an empty chunk; a chunk wholly outside -/
def jw : Journal :=
  [⟨10, [rr 0 10, rr 1 11, rr 2 12 false, rr 3 12, rr 4 13, rr 5 14], 1, 4⟩, ⟨20, [], 0, maxU32⟩,
   ⟨30, [rr 6 14, rr 7 15], maxU32, maxU32⟩, ⟨40, [rr 8 12, rr 9 13, rr 10 20], 0, 1⟩]

example : Sorted jw ∧ WinSound jw (some 12) (some 13) := by
  refine ⟨by unfold Sorted jw; decide, ?_⟩
  intro c hc k r hr hin
  simp only [jw, List.mem_cons, List.mem_nil_iff, or_false] at hc
  rcases hc with rfl | rfl | rfl | rfl
  · match k, hr with
    | 0, hr | 1, hr | 5, hr => simp at hr; subst hr; simp [inRange, rr] at hin
    | 2, _ | 3, _ | 4, _ => simp
    | k + 6, hr => simp at hr
  · simp at hr
  · match k, hr with
    | 0, hr | 1, hr => simp at hr; subst hr; simp [inRange, rr] at hin
    | k + 2, hr => simp at hr
  · match k, hr with
    | 0, _ | 1, _ => simp
    | 2, hr => simp at hr; subst hr; simp [inRange, rr] at hin
    | k + 3, hr => simp at hr

/-- the chain of `paging_ranged` on `jw` with WHERE: a fresh cursor, then the same one -/
example : (pagesR (some 12) (some 13) 0 true jw 1 [⟨.fresh, 1, jw⟩, ⟨.same, 5, jw⟩]).flatten
    = [rr 3 12, rr 4 13, rr 8 12, rr 9 13] := by decide +kernel

/-- the request-level chain on `jw` with WHERE: follow, then position only -/
example : (pages Logrange.Generated.C03.queryMaxLimit { store := [(0, jw)] }
      { query := some (qRng (some 12) (some 13) true), limit := 1, wait := true }
      [{ resume := .follow, limit := 1, wait := true }, { resume := .posOnly, limit := 7 }]).flatten
    = [rr 3 12, rr 4 13, rr 8 12, rr 9 13] := by decide +kernel

/-- `ranged_iter_enumerates` on `jw` for positions before/inside/between/after the chunks and `tail` -/
theorem ranged_iter_enumerates_jw :
    ∀ cid ∈ [0, 9, 10, 11, 20, 25, 30, 40, 41, tailCid], ∀ idx ∈ [0, 1, 2, 3, 5, 6, maxU32],
      (rDrain jw 12 (rSetPos jw {} ⟨cid, idx⟩)).filter (inRange (some 12) (some 13))
        = (recordsFrom jw ⟨cid, idx⟩).filter (inRange (some 12) (some 13)) := by decide +kernel

/-- why `RWF` excludes a chunk iterator standing BEFORE its window: `SetPos` into the open chunk is not window-checked by
the code (`JIterator.SetPos` only moves the chunk iterator), and `Next` then leaves the chunk as soon as the next index is
outside the window — the admitted records 2..4 of chunk 10 are skipped. Positions the system hands out are never before
a sound window (they are positions of matching events or end positions), so paging is not affected. -/
theorem cex_setpos_into_open_chunk_before_window :
    let jx : Journal := [⟨10, [rr 0 10, rr 1 11, rr 2 12, rr 3 12, rr 4 13, rr 5 14], 2, 4⟩,
                         ⟨40, [rr 8 12, rr 9 13, rr 10 20], 0, 1⟩]
    let s := (rGet jx {}).1                       -- chunk 10 open at index 2
    (rDrain jx 12 (rSetPos jx s ⟨10, 0⟩)).map (·.lbl) = [0, 8, 9] ∧
    (rDrain jx 12 (rSetPos jx {} ⟨10, 0⟩)).map (·.lbl) = [2, 3, 4, 8, 9] := by decide +kernel

/-- non-vacuity: the chunk grows between two pages (its window with it), the second page is served by a new cursor -/
example :
    let j0 : Journal := [⟨10, [rr 0 10, rr 1 12, rr 2 12], 1, 2⟩]
    let j1 : Journal := [⟨10, [rr 0 10, rr 1 12, rr 2 12, rr 3 13, rr 4 14], 1, 3⟩, ⟨20, [rr 5 12], 0, maxU32⟩]
    (pagesR (some 12) (some 13) 0 false j0 1 [⟨.fresh, 5, j1⟩]).flatten = [rr 1 12, rr 2 12, rr 3 13, rr 5 12] := by
  decide +kernel

end Logrange.Props.C03Ranged
