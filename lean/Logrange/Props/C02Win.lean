import Logrange.Proofs.PipeWin
import Logrange.Proofs.PipeWrite
import Logrange.Proofs.PipeIter
/-!
# C02 — what the iterator models of C03/C16 (`Rd*`) may assume about the windows, proved from the pipeline model; and
`Service.Write` as one event of the history model

* `win_monotone_of_win_sound`, `rd_window_sound_pipeline`, `win_monotone_pipeline`: `Rd.WinSound` and the body of `Rd.WinMonotone`
  (Props/C03Ranged) for the `Rd` journal read off a pipeline state (`PipeWin.rdJournal`), for every monotone history and every
  continuation of it. `WinMonotone` turns out to need nothing beyond `WinSound` of both journals + `Grows` + distinct chunk ids.
* `service_write_is_call`: the former run-time link "the OnWrite calls of `WriteLoop.serviceWrite` are the pieces of a
  `PipeHist` call" as a theorem (the driver still checks it on every write: `PIPEHIST-DIFFERS`).
-/
namespace Logrange.Props.C02Win
open Logrange Logrange.Rd Logrange.PipeHist Logrange.PipeWin

/-- **win_monotone_of_win_sound** — the body of `Rd.WinMonotone j j' lo hi` follows from: `j'` is `j` after appends (`Grows`), the
chunk ids of `j'` are distinct (`Sorted`), and both journals have sound windows. (An old in-range record keeps its index and
is in range, so the new window contains it; a record of the old part below the OLD lower end is out of range because the old
window was sound.) No further property of the index is needed. -/
theorem win_monotone_of_win_sound (j j' : Journal) (lo hi : Option Int) (hg : Grows j j') (hs : Sorted j')
    (h1 : WinSound j lo hi) (h2 : WinSound j' lo hi) :
    Grows j j' ∧ WinSound j lo hi ∧ WinSound j' lo hi ∧
    ∀ c ∈ j, ∀ c' ∈ j', c.id = c'.id →
      (∀ (k : Nat) (r : Rec), c.recs[k]? = some r → Rd.inRange lo hi r = true → c'.minPos ≤ k ∧ k ≤ c'.maxPos) ∧
      (∀ (k : Nat) (r : Rec), c'.recs[k]? = some r → c'.minPos ≤ k → k < c.minPos → k < c.cnt → Rd.inRange lo hi r = false) :=
  winMonotone_of_winSound j j' lo hi hg hs h1 h2

/-- **rd_window_sound_pipeline** — `Rd.WinSound` (the input contract of the ranged iterator theorems of C03/C16) holds for the
journal read off the pipeline state after every monotone history of Write calls and rebuilds (hypotheses of
`range_eq_filter_pipeline`), for every RANGE; `mk` labels the records, only `(mk k i t).ts = t` matters. -/
theorem rd_window_sound_pipeline (mk : Nat → Nat → Int → Rec) (hmk : ∀ k i t, (mk k i t).ts = t) (evs : List Ev)
    (hs : (allTs evs).Pairwise (· ≤ ·)) (hb : ∀ t ∈ allTs evs, Points.minI64 ≤ t ∧ t ≤ RebuildHist.maxI64) (hok : HistOK {} evs)
    (hsmall : ∀ l ∈ (run evs).tss, l.length ≤ 4294967295) (lo hi : Option Int) :
    WinSound (rdJournal mk (run evs) (RangedIter.rangeOf lo hi).1 (RangedIter.rangeOf lo hi).2) lo hi :=
  rdJournal_winSound mk hmk evs hs hb hok hsmall lo hi

/-- **win_monotone_pipeline** — `WinMonotone` between the journal after a monotone history `evs` and the journal after ANY
continuation `evs'` (more Write calls into the last chunk and new chunks, rebuilds of any chunk) that keeps the history
monotone: TRUE. -/
theorem win_monotone_pipeline (mk : Nat → Nat → Int → Rec) (hmk : ∀ k i t, (mk k i t).ts = t) (evs evs' : List Ev)
    (hs : (allTs (evs ++ evs')).Pairwise (· ≤ ·)) (hb : ∀ t ∈ allTs (evs ++ evs'), Points.minI64 ≤ t ∧ t ≤ RebuildHist.maxI64)
    (hok1 : HistOK {} evs) (hok : HistOK {} (evs ++ evs'))
    (hs1 : (allTs evs).Pairwise (· ≤ ·)) (hb1 : ∀ t ∈ allTs evs, Points.minI64 ≤ t ∧ t ≤ RebuildHist.maxI64)
    (hsmall : ∀ l ∈ (run (evs ++ evs')).tss, l.length ≤ 4294967295)
    (hsmall1 : ∀ l ∈ (run evs).tss, l.length ≤ 4294967295) (lo hi : Option Int) :
    Grows (rdJournal mk (run evs) (RangedIter.rangeOf lo hi).1 (RangedIter.rangeOf lo hi).2)
        (rdJournal mk (run (evs ++ evs')) (RangedIter.rangeOf lo hi).1 (RangedIter.rangeOf lo hi).2) ∧
      WinSound (rdJournal mk (run evs) (RangedIter.rangeOf lo hi).1 (RangedIter.rangeOf lo hi).2) lo hi ∧
      WinSound (rdJournal mk (run (evs ++ evs')) (RangedIter.rangeOf lo hi).1 (RangedIter.rangeOf lo hi).2) lo hi ∧
      ∀ c ∈ rdJournal mk (run evs) (RangedIter.rangeOf lo hi).1 (RangedIter.rangeOf lo hi).2,
        ∀ c' ∈ rdJournal mk (run (evs ++ evs')) (RangedIter.rangeOf lo hi).1 (RangedIter.rangeOf lo hi).2, c.id = c'.id →
        (∀ (k : Nat) (r : Rec), c.recs[k]? = some r → Rd.inRange lo hi r = true → c'.minPos ≤ k ∧ k ≤ c'.maxPos) ∧
        (∀ (k : Nat) (r : Rec), c'.recs[k]? = some r → c'.minPos ≤ k → k < c.minPos → k < c.cnt → Rd.inRange lo hi r = false) :=
  winMonotone_pipeline mk hmk evs evs' hs hb hok1 hok hs1 hb1 hsmall hsmall1 lo hi

/-- three records in chunk 1 (window of `RANGE [2:3]` = the whole chunk: too few records for an index point inside) -/
example : (rdJournal (fun k i t => ⟨100 * k + i, t, true⟩) (run [.call [⟨true, [1, 2, 3]⟩]]) 2 3).map
    (fun c => (c.id, c.recs.map (·.ts), c.minPos, c.maxPos)) = [(10, [1, 2, 3], 0, 4294967295)] := by decide

/-- **service_write_is_call** — `Service.Write` (`WriteLoop.serviceWrite` followed by `CIndex.onWrite` for every OnWrite call:
`RangedIter.writeWith`, the op the driver runs for `rw.write` and the harness compares with the real write) is ONE `call` event
of the history model: there are pieces with the shape `HistOK` asks for (`CallOKt`) that carry exactly the written
timestamps in order, and the chunk index and the journal after the call are those of `PipeHist.step`. `JInv j tss`: the
write loop's journal stands for the records `tss` (dense ids, counts, `0 < maxSize`). An EMPTY write on a full / absent last
chunk creates an empty chunk (`writeWith_is_call_needs_hne`), hence the last hypothesis. -/
theorem service_write_is_call (j : WriteLoop.J) (cidx : CIndex.St) (tss : List (List Int)) (recs : List WriteLoop.Rec)
    (hj : PipeWrite.JInv j tss) (hne : recs ≠ [] ∨ ∃ c, j.chunks.getLast? = some c ∧ c.size < j.maxSize) :
    ∃ pieces : List PartHist.Piece,
      CallOKt tss pieces ∧ (pieces.map (·.l)).flatten = recs.map (·.ts) ∧
      (RangedIter.writeWith {} j cidx recs).2.1 = (step ⟨cidx, tss⟩ (.call pieces)).cidx ∧
      PipeWrite.JInv (RangedIter.writeWith {} j cidx recs).1 (step ⟨cidx, tss⟩ (.call pieces)).tss :=
  PipeWrite.writeWith_is_call j cidx tss recs hj hne


/-- **scan_eq_abs_scan** — the former run-time link "stateful iterator = abstract scan" as a theorem: on ANY pipeline state (chunk
index, records, range arbitrary) a fresh forward cursor of the executable iterator model — `ensureChkIt`/`getPosForward` with the
statuses `rebuildChunkStatuses` computes once and caches, chunk-iterator clamping and its `cached` flag, `Get`/`Next`/`advanceChunk`
(incl. the 008ef8e end position), `fiterator` skipping records out of range, every fuel bound — delivers exactly `PipeRead.absScan`
(journal chunk ids are the dense ids × 10). Paging (`page ≠ 0`: cursor re-creation) stays a driver test (field `abs`). -/
theorem scan_eq_abs_scan (s : RangedIter.St) (hf : PipeScan.Fresh s) (fuel : Nat) (hfuel : PipeScan.total s + 2 ≤ fuel) :
    (RangedIter.scan s 0 fuel).2.toList = (PipeRead.absScan s).map (fun kp => (10 * (kp.1 + 1), kp.2)) :=
  PipeScan.scan_eq_absScan s hf fuel hfuel

/-- **range_eq_filter_iterator** — C02 end to end through the stateful iterator model: for every monotone history of Write calls
and rebuilds (hypotheses of `range_eq_filter_pipeline`) and every range, what `RangedIter.scan` — the function the driver
answers `r.scan` with and the harness compares with the real `JIterator`/`fiterator` — delivers from a fresh cursor is the
list of (chunk id, index) of exactly the records with `rmin ≤ ts ≤ rmax`, in stored order. -/
theorem range_eq_filter_iterator (evs : List Ev) (hs : (allTs evs).Pairwise (· ≤ ·))
    (hb : ∀ t ∈ allTs evs, Points.minI64 ≤ t ∧ t ≤ RebuildHist.maxI64) (hok : HistOK {} evs)
    (hsmall : ∀ l ∈ (run evs).tss, l.length ≤ 4294967295) (rmin rmax : Int) (fuel : Nat)
    (hfuel : ((run evs).tss.map (·.length)).sum + 2 ≤ fuel) :
    (RangedIter.scan (toSt (run evs) rmin rmax) 0 fuel).2.toList =
      ((fullRead (run evs).tss 0).filter (fun kq => decide (rmin ≤ tsAt (run evs).tss kq ∧ tsAt (run evs).tss kq ≤ rmax))).map
        (fun kp => (10 * (kp.1 + 1), kp.2)) :=
  run_scan_eq_filter evs hs hb hok hsmall rmin rmax fuel hfuel

example : (RangedIter.scan (toSt (run [.call [⟨true, [1, 2, 3]⟩, ⟨true, [4, 5]⟩], .rebuild 0 2, .call [⟨false, [6]⟩]]) 3 5) 0 8).2.toList =
    [(10, 2), (20, 0), (20, 1)] := by decide

end Logrange.Props.C02Win
