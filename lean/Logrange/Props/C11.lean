import Logrange.Proofs.WaitLts
import Logrange.Generated.C11
/-!
# C11 — Readers waiting at the end of a stream are woken by new data

Property theorems only (model: `Logrange/Model/WaitLts.lean`, lemmas: `Logrange/Proofs/WaitLts.lean`).
What a model cannot exhibit — the actual latency ("promptly, well before the timeout"), goroutine scheduling
fairness, timers — is *measured* by the harness (`harness/cmd/c11`); C11 is therefore **partial** by nature.
The pipe-worker clause is C10's `no_stranded_data` (`Logrange/Props/C10.lean`).
-/
namespace Logrange.Props.C11
open Logrange.WaitLts

/-- structural facts the shape of the model relies on (re-read from the source on every run) -/
theorem model_shape_facts :
    Generated.C11.waitOneWaiterPerPartition = true ∧ Generated.C11.waitStartsWithCurrentPos = true ∧
    Generated.C11.waiterCancelsTheRest = true ∧ Generated.C11.waitReturnsCtxErr = true ∧
    Generated.C11.queryLoopWaitCondition = true ∧ Generated.C11.queryLoopFreshTimeout = true ∧
    Generated.C11.queryLoopBreaksOnTimeout = true ∧ Generated.C11.queryLoopComparesClampedLimit = true := by decide

/-- **End of data means "at the end position"**: when the forward `Get` of the journal iterator answers EOF, the
iterator's position is the end position built from the (second) count read `c₂`, and every record below the first read
`c₁` had been returned. So the position a waiter is started with (`it.Pos()`, fact `waitStartsWithCurrentPos`) is below
the confirmed count exactly when something was confirmed after that read — the `lockCheck` then returns at once. -/
theorem eof_pos_is_end (idx c1 c2 : Nat) (h : (jget idx c1 c2).1 = .eof) :
    (jget idx c1 c2).2 = c2 ∧ c1 ≤ idx := by
  unfold jget at *
  by_cases hlt : idx < c1
  · simp [hlt] at h
  · simp [hlt]; omega

/-- … for every underlying iterator of a multi-partition reader (the mixer reports EOF only when all of them do) -/
theorem eof_pos_is_end_all (parts : List (Nat × Nat × Nat))
    (h : ∀ p, p ∈ parts → (jget p.1 p.2.1 p.2.2).1 = .eof) :
    ∀ p, p ∈ parts → (jget p.1 p.2.1 p.2.2).2 = p.2.2 := by
  intro p hp; exact (eof_pos_is_end _ _ _ (h p hp)).1

/-- **No lost wake-up** (all interleavings of the writer's append / confirm / `OnNewData` steps with any number of
waiters' increment / locked check / subscribe / sleep / wake / cancel / return steps, waiters restarted any number
of times — back-to-back waits —, any start positions): a waiter that sleeps on an open subscription while data
beyond its position is confirmed has an `OnNewData` call pending that will close its subscription. -/
theorem no_lost_wakeup (nWaiters stored : Nat) (ls : List Label) (w : Nat) (x : WSt) :
    let st := run (init nWaiters stored) ls
    st.ws[w]? = some x → x.pc = .asleep → x.sub = true → x.pos < st.cfrmd → 0 < st.pendNotif + st.pendClose := by
  intro st hx hpc hsub hlt
  have _facts := model_shape_facts
  exact (run_winv _ ls (winv_init nWaiters stored)).1 w x hx (Or.inl ⟨hpc, hsub⟩) hlt

/-- the same for a waiter that has passed its locked check and is about to subscribe -/
theorem no_lost_wakeup_before_subscribe (nWaiters stored : Nat) (ls : List Label) (w : Nat) (x : WSt) :
    let st := run (init nWaiters stored) ls
    st.ws[w]? = some x → x.pc = .holding → x.pos < st.cfrmd → 0 < st.pendNotif + st.pendClose ∧ st.lock = some w := by
  intro st hx hpc hlt
  have hI := run_winv _ ls (winv_init nWaiters stored)
  exact ⟨hI.1 w x hx (Or.inr hpc) hlt, hI.2 w x hx hpc⟩

/-- **The sleeper's next step is enabled**: once the writer side is idle (no `OnNewData` pending), a sleeping waiter
with confirmed data beyond its position finds its channel closed — its `wake` step can be taken (and the following
locked check returns nil: `wake_then_returns`). -/
theorem wake_enabled (nWaiters stored : Nat) (ls : List Label) (w : Nat) (x : WSt) :
    let st := run (init nWaiters stored) ls
    st.ws[w]? = some x → x.pc = .asleep → x.pos < st.cfrmd → st.pendNotif = 0 → st.pendClose = 0 →
    (step st (.wake w)).isSome = true := by
  intro st hx hpc hlt h1 h2
  have hsub : x.sub = false := by
    cases hs : x.sub with
    | false => rfl
    | true =>
      have h3 : 0 < st.pendNotif + st.pendClose := no_lost_wakeup nWaiters stored ls w x hx hpc hs hlt
      omega
  simp [step, hx, hpc, hsub]

/-- after the wake-up the locked check sees the data and the call returns nil (`woke`) -/
theorem wake_then_returns (st : State) (w : Nat) (x : WSt) (hx : st.ws[w]? = some x) (hpc : x.pc = .counted)
    (hlt : x.pos < st.cfrmd) (hl : st.lock = none) :
    ∃ st', step st (.lockCheck w) = some st' ∧ ∃ y, st'.ws[w]? = some y ∧ y.pc = .returning ∧ y.woke = true := by
  have hlen := lt_of_getElem?_some hx
  have hs : step st (.lockCheck w) = some { st with ws := st.ws.set w { x with pc := .returning, woke := true } } := by
    simp [step, hx, hpc, hl, hlt]
  refine ⟨_, hs, { x with pc := .returning, woke := true }, ?_, rfl, rfl⟩
  exact List.getElem?_set_self hlen

/-- a sleeping waiter can always be cancelled when the listener lock is free (the sibling's return, the timeout) -/
theorem cancel_enabled (st : State) (w : Nat) (x : WSt) (hx : st.ws[w]? = some x) (hpc : x.pc = .asleep)
    (hl : st.lock = none) : (step st (.cancel w)).isSome = true := by
  simp [step, hx, hpc, hl]

/-! ### the Query loop -/

/-- **The loop answers** over real partitions: with whatever the successive waits bring (events, wake-ups that bring
nothing the query selects, time-outs), the loop of `Querier.Query` ends within `scriptMeasure + 1` iterations. -/
theorem query_answers_partial (wt lim limit : Nat) (s : Script) (acc : List Nat) :
    queryLoop scriptCur wt lim (scriptMeasure s + 1) limit s acc ≠ .outOfFuel :=
  queryLoop_script_terminates wt lim _ limit s acc (Nat.lt_succ_self _)

/-- the cursor `GetOrCreate` returns when no partition matches, as the source defines it now -/
def emptyCurNow : Cur Unit := emptyCur Generated.C11.emptyCursorWaitReturnsAtOnce

/-- **F11 repaired** (2ae8d4c; formerly `cex_empty_cursor_spins`): `emptyCursor.WaitNewData` blocks until the wait
context ends and reports that, so a query over no partition — waiting or not, any limit — leaves the loop in its
**first iteration** with an empty answer: `Get` is EOF, the wait reports the timeout, the loop breaks. Fuel bound: 1. -/
theorem query_answers_empty_cursor (wt lim : Nat) :
    ∀ fuel, 0 < fuel → queryLoop emptyCurNow wt lim fuel lim () [] = .ok [] := by
  have hfact : Generated.C11.emptyCursorWaitReturnsAtOnce = false := by decide
  have _hblocks : Generated.C11.emptyCursorWaitBlocksUntilCtxEnds = true := by decide
  intro fuel hf
  cases fuel with
  | zero => omega
  | succ f =>
    unfold queryLoop
    by_cases h : lim = 0
    · simp [h]
    · have hg : emptyCurNow.get () = (none, ()) := rfl
      have hw : emptyCurNow.wait () = (.timeout, ()) := by
        simp [emptyCurNow, emptyCur, hfact]
      simp only [h, if_false, hg, hw]
      split <;> rfl

/-- what the loop did before the repair, kept as a statement about the model's other branch: with a `WaitNewData`
that returns nil at once, a waiting query over no partition has no answer for any amount of fuel -/
theorem unrepaired_empty_cursor_would_spin (wt lim : Nat) (hw : 0 < wt) (hl : 0 < lim) :
    ∀ fuel, queryLoop (emptyCur true) wt lim fuel lim () [] = .outOfFuel :=
  queryLoop_empty_spins lim wt hl hw

/-- the full statement for the Query loop: every query answers — over real partitions and over none. -/
def C11_query_full : Prop :=
  (∀ wt lim limit (s : Script) acc, ∃ fuel, queryLoop scriptCur wt lim fuel limit s acc ≠ .outOfFuel) ∧
  (∀ wt lim, ∃ fuel, queryLoop emptyCurNow wt lim fuel lim () [] ≠ .outOfFuel)

/-- **Holds** since the repair of F11 (with explicit fuel: `scriptMeasure + 1`, resp. 1). -/
theorem query_answers : C11_query_full := by
  constructor
  · intro wt lim limit s acc
    exact ⟨scriptMeasure s + 1, query_answers_partial wt lim limit s acc⟩
  · intro wt lim
    refine ⟨1, ?_⟩
    rw [query_answers_empty_cursor wt lim 1 (by omega)]
    intro h; cases h

/-! ### the RPC path -/

/-- the two Query loops as the source has them now -/
def backendShape : LoopShape :=
  ⟨Generated.C11.backendLoopShape.1, Generated.C11.backendLoopShape.2.1, Generated.C11.backendLoopShape.2.2, false⟩
def rpcShape : LoopShape :=
  ⟨Generated.C11.rpcLoopShape.1, Generated.C11.rpcLoopShape.2.1, Generated.C11.rpcLoopShape.2.2,
   Generated.C11.rpcEarlyEmptyForZeroLimit⟩

/-- **The RPC server's Query is the backend's Query** as far as reading and waiting go: for every cursor, wait timeout,
limit and cursor state, `rpc.ServerQuerier.query` (which differs in the shape read from the source only by answering
empty before it creates a cursor when `lim == 0 && WaitTimeout <= 0`) returns what `backend.Querier.Query` returns.
Everything proved about `queryLoop` — it answers within the fuel bound, it re-reads after a wake-up, it waits again with a
fresh timeout after a wake-up that brought nothing selected — therefore holds for both paths. -/
theorem rpc_query_equals_backend_query {σ : Type} (c : Cur σ) (wt lim fuel : Nat) (s : σ) (hf : 0 < fuel) :
    queryCall rpcShape c wt lim fuel s = queryCall backendShape c wt lim fuel s := by
  have h1 : rpcShape = ⟨true, true, true, true⟩ := by decide
  have h2 : backendShape = ⟨true, true, true, false⟩ := by decide
  rw [h1, h2]
  unfold queryCall
  by_cases h : lim = 0 ∧ wt = 0
  · obtain ⟨hl, hw⟩ := h
    subst hl; subst hw
    cases fuel with
    | zero => omega
    | succ f => simp [queryLoop]
  · have : (lim == 0 && wt == 0) = false := by
      cases hl : (lim == 0) <;> cases hw : (wt == 0) <;> simp_all
    simp [this]

/-- both calls are the `queryLoop` of the theorems above -/
theorem backend_query_is_queryLoop {σ : Type} (c : Cur σ) (wt lim fuel : Nat) (s : σ) :
    queryCall backendShape c wt lim fuel s = queryLoop c wt lim fuel lim s [] := by
  have h2 : backendShape = ⟨true, true, true, false⟩ := by decide
  rw [h2]; simp [queryCall]

/-! ### the request's `Limit` (the page cap `QueryMaxLimit`) -/

/-- how the two functions treat the request's `Limit`, as the source has it now -/
def backendLimit : LimitShape := ⟨Generated.C11.backendLimitShape.1, Generated.C11.backendLimitShape.2⟩
def rpcLimit : LimitShape := ⟨Generated.C11.rpcLimitShape.1, Generated.C11.rpcLimitShape.2⟩

/-- **The wait condition compares with the clamped limit**: for every `Limit` a client can send — below, at and beyond
`QueryMaxLimit` — a request is the `queryCall` of the theorems above over `min Limit QueryMaxLimit`, on both paths. So
everything proved about `queryCall`/`queryLoop` (it waits at end of data, re-reads after a wake-up, waits again with a fresh
timeout) holds for requests with an oversized `Limit` too. -/
theorem query_request_is_clamped_call {σ : Type} (c : Cur σ) (wt reqLimit fuel : Nat) (s : σ) :
    queryRequest rpcShape rpcLimit Generated.C11.queryMaxLimit c wt reqLimit fuel s
      = queryCall rpcShape c wt (min reqLimit Generated.C11.queryMaxLimit) fuel s ∧
    queryRequest backendShape backendLimit Generated.C11.queryMaxLimit c wt reqLimit fuel s
      = queryCall backendShape c wt (min reqLimit Generated.C11.queryMaxLimit) fuel s := by
  have h1 : rpcLimit = ⟨true, true⟩ := by decide
  have h2 : backendLimit = ⟨true, true⟩ := by decide
  rw [h1, h2]
  constructor <;> simp [queryRequest, queryCall]

/-- **A waiting request of any positive `Limit` waits and returns the next event** — also `Limit > QueryMaxLimit`
(seeded change C11-9 made exactly those requests answer empty at once): at end of data, with a wait timeout, the event the
first wake-up brings is the answer, on both paths. -/
theorem big_limit_request_waits (wt reqLimit e : Nat) (hw : 0 < wt) (hl : 0 < reqLimit) :
    queryRequest rpcShape rpcLimit Generated.C11.queryMaxLimit scriptCur wt reqLimit 3 ([], [some [e]]) = .ok [e] ∧
    queryRequest backendShape backendLimit Generated.C11.queryMaxLimit scriptCur wt reqLimit 3 ([], [some [e]]) = .ok [e] := by
  have hm : 0 < Generated.C11.queryMaxLimit := by decide
  have hq := query_request_is_clamped_call scriptCur wt reqLimit 3 ([], [some [e]])
  have hpos : 0 < min reqLimit Generated.C11.queryMaxLimit := by
    rw [Nat.lt_min]; exact ⟨hl, hm⟩
  have hb : ∀ lim, 0 < lim → queryLoop scriptCur wt lim 3 lim ([], [some [e]]) [] = .ok [e] := by
    intro lim hlim
    have h0 : lim ≠ 0 := by omega
    have h1 : lim - 1 ≠ lim := by omega
    simp [queryLoop, scriptCur, h0, hw, h1]
  rw [hq.1, hq.2, rpc_query_equals_backend_query _ _ _ _ _ (by omega), backend_query_is_queryLoop]
  exact ⟨hb _ hpos, hb _ hpos⟩

/-- the model's other branch (what seeded change C11-9 did): if the wait condition compares the countdown variable with the
REQUEST's limit, a request beyond the cap never waits — whatever would have been written during its timeout, the answer is
empty, at once. -/
theorem unclamped_wait_condition_never_waits (early : Bool) (maxLimit wt reqLimit fuel : Nat) (futs : List (Option (List Nat)))
    (hm : 0 < maxLimit) (hbig : maxLimit < reqLimit) :
    queryRequest ⟨true, true, true, early⟩ ⟨true, false⟩ maxLimit scriptCur wt reqLimit (fuel + 1) ([], futs) = .ok [] := by
  have h0 : min reqLimit maxLimit = maxLimit := Nat.min_eq_right (Nat.le_of_lt hbig)
  have h1 : maxLimit ≠ 0 := by omega
  have h2 : maxLimit ≠ reqLimit := by omega
  simp [queryRequest, h0, h1, h2, queryLoop, scriptCur]

/-! ### the client's stream loop (`api.Select`): back-to-back waits with writes racing the gaps -/

/-- total number of events that become readable over the rounds -/
def roundsTotal : List Round → Nat
  | [] => 0
  | r :: rs => r.gap + r.during + roundsTotal rs

theorem selectStream_at_end (stored : Nat) (rs : List Round) :
    selectStream true stored (.at stored) rs = List.range' stored (roundsTotal rs) := by
  induction rs generalizing stored with
  | nil => simp [selectStream, roundsTotal]
  | cons r rs ih =>
    simp only [selectStream, roundsTotal, Bool.not_true, Bool.and_false, Bool.false_eq_true, if_false]
    rw [ih (stored + r.gap + r.during)]
    have e1 : stored + r.gap + r.during - stored = r.gap + r.during := by omega
    have e2 : stored + r.gap + r.during = stored + (r.gap + r.during) := by omega
    rw [e1, e2, List.range'_append_1]

theorem selectStream_at (n stored : Nat) (r : Round) (rs : List Round) (h : n ≤ stored) :
    selectStream true stored (.at n) (r :: rs) = List.range' n (stored + roundsTotal (r :: rs) - n) := by
  simp only [selectStream, roundsTotal, Bool.not_true, Bool.and_false, Bool.false_eq_true, if_false]
  rw [selectStream_at_end]
  have e1 : stored + r.gap + r.during = n + (stored + r.gap + r.during - n) := by omega
  have e2 : stored + (r.gap + r.during + roundsTotal rs) - n = (stored + r.gap + r.during - n) + roundsTotal rs := by omega
  rw [e2, ← List.range'_append_1, ← e1]

/-- **Back-to-back waits of the documented client loop deliver every event, once, in order — however the writes race the
gaps.** `api.Select` in stream mode as the source has it now (fact `clientSelectTakesNextRequest`: every round continues with
the answer's `NextQueryRequest`), started at a concrete position or at `"tail"`: for every schedule of rounds — events landing
in the gap between an answer and the next request, or during a wait, any number of empty rounds — the handler receives
exactly the events from the first request's position to the end, each once, in stored order. -/
theorem client_stream_delivers_every_event (stored : Nat) (r : Round) (rs : List Round) :
    selectStream Generated.C11.clientSelectTakesNextRequest stored .tail (r :: rs)
      = List.range' (stored + r.gap) (r.during + roundsTotal rs) ∧
    (∀ n, n ≤ stored → selectStream Generated.C11.clientSelectTakesNextRequest stored (.at n) (r :: rs)
      = List.range' n (stored + roundsTotal (r :: rs) - n)) := by
  have hfact : Generated.C11.clientSelectTakesNextRequest = true := by decide
  rw [hfact]
  constructor
  · simp only [selectStream, Bool.not_true, Bool.and_false, Bool.false_eq_true, if_false]
    rw [selectStream_at_end]
    have e1 : stored + r.gap + r.during - (stored + r.gap) = r.during := by omega
    have e3 : stored + r.gap + r.during = (stored + r.gap) + r.during := by omega
    rw [e1, e3, List.range'_append_1]
  · intro n hn; exact selectStream_at n stored r rs hn

/-- the model's other branch (seeded change C11-15: an empty page `continue`s without taking the continuation request): a
stream started at `"tail"` whose first wait expired empty re-resolves `"tail"` — the event that landed in the gap is skipped
and never delivered, although a later event is -/
theorem resent_tail_request_skips_gap_event :
    selectStream false 3 .tail [⟨0, 0⟩, ⟨1, 0⟩, ⟨0, 1⟩] = [4] ∧
    selectStream true 3 .tail [⟨0, 0⟩, ⟨1, 0⟩, ⟨0, 1⟩] = [3, 4] := by decide

/-! ### non-vacuity and the behaviours the harness measures, as kernel-evaluated runs -/

/-- a write racing with the reader going to sleep — append and flush between the reader's EOF (position 3) and its
locked check: the check returns at once -/
example : ((run (init 1 3) [.start 0 3, .append 1, .confirm, .loadWaiters, .inc 0, .lockCheck 0]).ws[0]?).map (fun x => (x.pc, x.woke))
    = some (.returning, true) := by decide
/-- flush between the locked check and the subscription: `OnNewData` finds `waiters > 0`, waits for the lock, closes
the fresh subscription; the waiter wakes and returns -/
example : ((run (init 1 3) [.start 0 3, .inc 0, .append 1, .lockCheck 0, .confirm, .loadWaiters, .closeAll, .subscribe 0,
      .closeAll, .wake 0, .lockCheck 0]).ws[0]?).map (fun x => (x.pc, x.woke)) = some (.returning, true) := by decide
/-- a sleeping reader, then append and flush -/
example : ((run (init 1 3) [.start 0 3, .inc 0, .lockCheck 0, .subscribe 0, .append 2, .confirm, .loadWaiters, .closeAll,
      .wake 0, .lockCheck 0]).ws[0]?).map (fun x => (x.pc, x.woke)) = some (.returning, true) := by decide
/-- the hypotheses of `no_lost_wakeup` are met in the middle of that run: asleep, subscribed, data confirmed, a call pending -/
example : let st := run (init 1 3) [.start 0 3, .inc 0, .lockCheck 0, .subscribe 0, .append 2, .confirm]
    st.ws[0]? = some ⟨.asleep, 3, true, false⟩ ∧ 3 < st.cfrmd ∧ st.pendNotif = 1 := by decide
/-- back-to-back waits of one waiter, two partitions' worth of waiters in one system, a cancelled sibling -/
example : ((run (init 2 0) [.start 0 0, .start 1 0, .inc 0, .inc 1, .lockCheck 0, .subscribe 0, .lockCheck 1, .subscribe 1,
      .append 1, .confirm, .loadWaiters, .closeAll, .wake 0, .lockCheck 0, .ret 0, .cancel 1, .ret 1,
      .start 0 1, .inc 0, .lockCheck 0, .subscribe 0, .append 1, .confirm, .loadWaiters, .closeAll, .wake 0, .lockCheck 0]).ws.map
      (fun x => (x.pc, x.woke))) = [(.returning, true), (.idle, false)] := by decide
/-- the loop re-reads after a wake-up and returns the event; a wake-up that brings nothing selected waits again with a
fresh timeout and then returns empty -/
example : queryLoop scriptCur 5 10 10 10 ([], [some [7]]) [] = .ok [7] := by decide
example : queryCall rpcShape scriptCur 1 10 10 ([], [some [], some [7]]) = .ok [7] := by decide
example : queryCall rpcShape scriptCur 0 0 10 ([1], []) = .ok [] ∧ queryCall backendShape scriptCur 0 0 10 ([1], []) = .ok [] := by decide
example : queryLoop scriptCur 5 10 10 10 ([], [some [], none]) [] = .ok [] := by decide
example : queryLoop scriptCur 5 10 10 10 ([1, 2], [some [3]]) [] = .ok [1, 2] := by decide
example : queryLoop emptyCurNow 1 10 40 10 () [] = .ok [] := by decide
example : queryLoop (emptyCur true) 1 10 40 10 () [] = .outOfFuel := by decide
/-- requests at and beyond the page cap: they wait and return what the wake-up brings; under the other branch the big one does not -/
example : queryRequest rpcShape rpcLimit 10000 scriptCur 1 20000 10 ([], [some [], some [7]]) = .ok [7] := by decide
example : queryRequest backendShape backendLimit 10000 scriptCur 1 10001 10 ([], [some [7]]) = .ok [7] := by decide
example : queryRequest rpcShape ⟨true, false⟩ 10000 scriptCur 1 10000 10 ([], [some [7]]) = .ok [7] ∧
    queryRequest rpcShape ⟨true, false⟩ 10000 scriptCur 1 10001 10 ([], [some [7]]) = .ok [] := by decide

end Logrange.Props.C11
