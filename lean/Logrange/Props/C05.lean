import Logrange.Proofs.Where
import Logrange.Proofs.FIter
import Logrange.Proofs.WhereParse
import Logrange.Proofs.PathMatch
import Logrange.Proofs.PathMatchErr
import Logrange.Generated.C05
/-!
# C05 — WHERE filtering equals the reference meaning of the expression

Property theorems only. Model: `Logrange/Model/{Where,Fields,PathMatch,FIter}.lean`; lemmas:
`Logrange/Proofs/{Where,Fields,FIter}.lean`. Every theorem here is an obligation of the C05 check.

`env : Env` carries what the theorems are parametric in: Go's `strings.ToUpper`/`ToLower` and the time literal
parser (C20). `wellFormed e` is the grammar's guarantee that no OR list is empty.
-/
namespace Logrange.Props.C05
open Go Logrange.Where Logrange.FIter

/-- **The built filter is the reference meaning.** For every WHERE expression the builder accepts — any nesting
depth, any operators, NOT placements and function nestings — and every event with well-formed fields, the closure
built by `whereeval.go` returns exactly `evalRef`: OR = some alternative, AND = all members, NOT = negation of what it
stands before, ts against the parsed literal, msg / first field of that name (missing = empty) through
UPPER()/LOWER(), compared as strings or by shell pattern. -/
theorem where_correct (env : Env) (e : Expr) (f : Pred)
    (hb : buildWhere env (some e) = .ok f) (hw : wellFormed e = true) :
    ∀ ev : Event, Fields.WF ev.fields → f ev = evalRef env e ev := by
  have h := or_agrees env e
  simp only [buildWhere] at hb
  rw [hb] at h
  exact h.2 hw

/-- an absent WHERE clause lets every event through -/
theorem where_absent (env : Env) (f : Pred) (hb : buildWhere env none = .ok f) : ∀ ev, f ev = true := by
  simp only [buildWhere, Except.ok.injEq] at hb
  subst hb; intro ev; rfl

/-- **Rejected exactly when unsupported.** The builder reports an error if and only if some condition of the
expression has no meaning (`supported`: operand is ts / msg / fields:<non-empty>; ts without functions, with
`< > <= >=` and a parsable literal; msg with CONTAINS/PREFIX/SUFFIX/LIKE only; functions UPPER/LOWER with one
parameter; LIKE pattern not malformed). In particular an expression it cannot evaluate is never turned into a
filter (let alone one that is true). -/
theorem where_rejects (env : Env) (e : Expr) :
    (∃ err, buildWhere env (some e) = .error err) ↔ supported env e = false := by
  have h := or_agrees env e
  simp only [buildWhere]
  constructor
  · rintro ⟨err, he⟩
    rw [he] at h; exact h
  · intro hs
    cases hb : buildOrConds env e with
    | error err => exact ⟨err, rfl⟩
    | ok f => rw [hb] at h; rw [h.1] at hs; cases hs

/-- a malformed LIKE pattern makes its condition unsupported, hence (by `where_rejects`) the whole expression rejected -/
theorem like_malformed_rejected (env : Env) (n : Bool) (c : Cond)
    (hmsg : env.lo (leaf c.ident) = sMsg) (hop : env.up c.op = sLIKE)
    (hbad : PathMatch.pathMatch c.value sProbe = none) :
    ∃ err, buildWhere env (some (.cons (.cons (.cond n c) .nil) .nil)) = .error err := by
  rw [where_rejects]
  have hs : subjectOf env c.ident = .msg := by
    have h0 : (sMsg == sTs) = false := by decide
    simp [subjectOf, hmsg, h0]
  have h1 : (sLIKE == sCONTAINS) = false := by decide
  have h2 : (sLIKE == sPREFIX) = false := by decide
  have h3 : (sLIKE == sSUFFIX) = false := by decide
  simp [supported, supportedAnd, supportedX, condSupported, hs, hop, strOpOf, h1, h2, h3, StrOp.forMsg, patternOk, hbad]

/-- **`Fields.Value`** on a well-formed encoding never panics and returns the value of the first field of that name,
or the empty string if there is none. -/
theorem fields_value (f name : Bytes) (h : Fields.WF f) :
    Fields.valueP f name = some ((Fields.firstValue (Fields.pairs f) name).getD []) := by
  obtain ⟨ps, hp⟩ := h
  rw [Fields.valueP_wf f name ps hp]
  simp [Fields.pairs, hp]

/-- **The filtering iterator refines `List.filter`**, over any wrapped iterator that reaches its end within `n`
steps: draining it yields exactly the events the wrapped iterator yields that pass the WHERE function and the time
range — same events, same order, same multiplicity. -/
theorem fiter_refines_filter {σ α : Type} (I : It σ α) (flt rng : α → Bool) (n : Nat) (s : σ)
    (h : Exhausts I n s) (g k : Nat) (hg : n + 1 ≤ g) (hk : n + 1 ≤ k) :
    drain I flt rng g k (new s) = (drainIt I n s).filter (fun e => flt e && rng e) :=
  drain_eq_filter I flt rng n s none g k h hg hk

/-! ### the default range (no RANGE clause) — finding F-C05-902, repaired in /repo d9d7013 -/

/-- the range predicate of a fiterator with the bounds `mn`, `mx` -/
def rangeOf (mn mx : Int) (ev : Where.Event) : Bool := inRange mn mx ev.ts

/-- the range predicate `newFIterator` installs when the statement has no RANGE (constants regenerated from
`pkg/cursor/fiterator.go`, `pkg/model/tmrange.go`, `math`) -/
def defaultRange (ev : Where.Event) : Bool :=
  rangeOf Generated.C05.fiterDefaultRangeMin Generated.C05.fiterDefaultRangeMax ev

/-- what a `SELECT … WHERE e` without RANGE delivers, by `fiter_refines_filter`: the events for which `e` holds **and**
whose timestamp lies in the default range -/
theorem fiter_default_range_meaning {σ : Type} (I : It σ Where.Event) (flt : Where.Pred) (n : Nat) (s : σ)
    (h : Exhausts I n s) :
    drain I flt defaultRange (n+1) (n+1) (new s) = (drainIt I n s).filter (fun e => flt e && defaultRange e) :=
  drain_eq_filter I flt defaultRange n s none (n+1) (n+1) h (Nat.le_refl _) (Nat.le_refl _)

/-- the property's reading: without a RANGE every int64 timestamp is in range -/
def C05_default_range_full : Prop :=
  ∀ ev : Where.Event, -(2^63) ≤ ev.ts → ev.ts < 2^63 → defaultRange ev = true

/-- **Without a RANGE every int64 timestamp is in range** — on the regenerated constants of the no-RANGE branch of
`newFIterator` (`[math.MinInt64, math.MaxInt64]` since /repo d9d7013; with the earlier lower bound `model.MinTimestamp` =
−6795364578871345152 this obligation fails: finding F-C05-902). -/
theorem default_range_full : C05_default_range_full := by
  intro ev h1 h2
  have e : (2 : Int) ^ 63 = 9223372036854775808 := by decide
  have hmin : Generated.C05.fiterDefaultRangeMin ≤ -9223372036854775808 := by decide
  have hmax : 9223372036854775807 ≤ Generated.C05.fiterDefaultRangeMax := by decide
  rw [e] at h1 h2
  simp only [defaultRange, rangeOf, inRange, Bool.and_eq_true, decide_eq_true_eq, ge_iff_le]
  omega

/-- hence **`SELECT … WHERE e` without RANGE delivers exactly `filter e`** of the underlying events (int64 timestamps):
the default range takes nothing away -/
theorem select_where_no_range_exact {σ : Type} (I : It σ Where.Event) (flt : Where.Pred) (n : Nat) (s : σ)
    (h : Exhausts I n s) (h64 : ∀ ev ∈ drainIt I n s, -(2^63) ≤ ev.ts ∧ ev.ts < 2^63) :
    drain I flt defaultRange (n+1) (n+1) (new s) = (drainIt I n s).filter flt := by
  rw [fiter_default_range_meaning I flt n s h]
  apply List.filter_congr
  intro ev hev
  rw [default_range_full ev (h64 ev hev).1 (h64 ev hev).2, Bool.and_true]

/-- never alters, reorders or duplicates: the output is a sublist of the wrapped iterator's output -/
theorem fiter_sublist {σ α : Type} (I : It σ α) (flt rng : α → Bool) (n : Nat) (s : σ) (h : Exhausts I n s) :
    (drain I flt rng (n+1) (n+1) (new s)).Sublist (drainIt I n s) := by
  rw [fiter_refines_filter I flt rng n s h (n+1) (n+1) (Nat.le_refl _) (Nat.le_refl _)]
  exact List.filter_sublist

/-- over a list read forward from its start, the fiterator delivers `items.filter` -/
theorem fiter_list_forward {α : Type} (items : List α) (flt rng : α → Bool) :
    drain (listIt α) flt rng (items.length + 1) (items.length + 1) (new ⟨items, 0, false, false⟩)
      = items.filter (fun e => flt e && rng e) := by
  have hex := listIt_exhausts_fwd items items.length 0 (by omega)
  have hd := listIt_drain_fwd items items.length 0 (by omega)
  have := fiter_refines_filter (listIt α) flt rng items.length ⟨items, ((0 : Nat) : Int), false, false⟩ hex _ _
    (Nat.le_refl _) (Nat.le_refl _)
  rw [hd] at this
  simpa using this

/-- **Why the default range must be the whole int64 range (the other branch, constants as parameters).** With ANY lower
bound `mn` above the int64 minimum, the event stamped `mn − 1` is a legal event for which the WHERE function `flt` is
true, and the filtering iterator with the range `[mn, mx]` delivers nothing — while `List.filter flt` keeps it. Instance:
`mn = model.MinTimestamp = −6795364578871345152`, the default before /repo d9d7013 (finding F-C05-902). -/
theorem cex_narrow_default_range_drops_events (mn mx : Int) (h : -(2^63) < mn) (hm : mn ≤ 2^63) (flt : Where.Pred)
    (msg fields : Bytes) (hf : flt ⟨mn - 1, msg, fields⟩ = true) :
    (-(2^63) ≤ mn - 1 ∧ mn - 1 < 2^63) ∧
    drain (listIt Where.Event) flt (rangeOf mn mx) 2 2 (new ⟨[⟨mn - 1, msg, fields⟩], 0, false, false⟩) = [] ∧
    ([⟨mn - 1, msg, fields⟩] : List Where.Event).filter flt = [⟨mn - 1, msg, fields⟩] := by
  refine ⟨by omega, ?_, by simp [hf]⟩
  have := fiter_list_forward [(⟨mn - 1, msg, fields⟩ : Where.Event)] flt (rangeOf mn mx)
  simp only [List.length_cons, List.length_nil, Nat.zero_add, Nat.reduceAdd] at this
  rw [this]
  have hr : rangeOf mn mx ⟨mn - 1, msg, fields⟩ = false := by
    simp only [rangeOf, inRange, Bool.and_eq_false_iff, decide_eq_false_iff_not]
    left; omega
  simp [hf, hr]

/-- the instance that was the code's default range before the repair -/
theorem cex_F_C05_902_old_default :
    drain (listIt Where.Event) Where.positive (rangeOf (-6795364578871345152) 9223372036854775807) 2 2
      (new ⟨[⟨-6795364578871345153, [109], []⟩], 0, false, false⟩) = [] :=
  (cex_narrow_default_range_drops_events (-6795364578871345152) 9223372036854775807 (by decide) (by decide)
    Where.positive [109] [] rfl).2.1

/-- read backward from position `i` (after `SetBackward(true)`), the fiterator delivers the filter of the reversed prefix -/
theorem fiter_list_backward {α : Type} (items : List α) (flt rng : α → Bool) (i : Nat) (hi : i < items.length) :
    drain (listIt α) flt rng (i + 2) (i + 2) (new ⟨items, (i : Int), true, false⟩)
      = ((items.take (i + 1)).reverse).filter (fun e => flt e && rng e) := by
  have := fiter_refines_filter (listIt α) flt rng (i + 1) ⟨items, (i : Int), true, false⟩ (listIt_exhausts_bwd items i) _ _
    (Nat.le_refl _) (Nat.le_refl _)
  rw [listIt_drain_bwd items i hi] at this
  exact this

/-- the modelled `strings.Contains / HasPrefix / HasSuffix` are infix / prefix / suffix of byte lists -/
theorem string_functions_meaning (s p : Bytes) :
    (contains s p = true ↔ p <:+: s) ∧ (hasPrefix s p = true ↔ p <+: s) ∧ (hasSuffix s p = true ↔ p <:+ s) :=
  ⟨contains_iff_infix s p, hasPrefix_iff s p, hasSuffix_iff s p⟩

/-- `Get` twice without `Next` hands out the same event (the cache), and `SetBackward` / `Next` drop the cache -/
theorem fiter_get_cached {σ α : Type} (I : It σ α) (flt rng : α → Bool) (g : Nat) (f f' : FIt σ α) (e : α)
    (h : get I flt rng (g+1) f = (f', .ok e)) (hv : f'.valid = true) (hle : f'.le = some e) :
    get I flt rng (g+1) f' = (f', .ok e) := by
  simp [Logrange.FIter.get, hv, hle]

theorem fiter_switch_drops_cache {σ α : Type} (I : It σ α) (b : Bool) (f : FIt σ α) :
    (setBackward I b f).valid = false ∧ (next I f).valid = false := ⟨rfl, rfl⟩

/-- **The code's operator tables are the ones the model is written against** (regenerated from
`pkg/lql/whereeval.go` on every run): which comparison each `case` of `buildTsCond`, `buildMsgCond`, `buildFldCond`
and which mapping each function of `buildMsgLeStrFldF` performs, and that the LIKE pre-test assigns the builder's
error (the repair of the malformed-pattern defect), and for the fiterator that `Next`/`SetBackward` drop the cache, that
`fltF && range` decides `valid`, and that the range check has both bounds inclusive. The facts are read structurally
(any loop form, hoisted locals and no-op conversions looked through, same-file helpers followed), so that a
behaviour-preserving refactoring does not change them. -/
theorem code_tables_as_modelled :
    Generated.C05.tsTable = [(sLT, "subj<val"), (sGT, "subj>val"), (sLE, "subj<=val"), (sGE, "subj>=val")] ∧
    Generated.C05.msgTable = [(sCONTAINS, "Contains(subj,val)"), (sPREFIX, "HasPrefix(subj,val)"),
      (sSUFFIX, "HasSuffix(subj,val)"), (sLIKE, "Match(val,subj)")] ∧
    Generated.C05.fldTable = [(sCONTAINS, "Contains(subj,val)"), (sPREFIX, "HasPrefix(subj,val)"),
      (sSUFFIX, "HasSuffix(subj,val)"), (sLIKE, "Match(val,subj)"), (sEQ, "subj==val"), (sNE, "subj!=val"),
      (sGT, "subj>val"), (sLT, "subj<val"), (sGE, "subj>=val"), (sLE, "subj<=val")] ∧
    Generated.C05.fnTable = [(sUPPER, "ToUpper"), (sLOWER, "ToLower")] ∧
    Generated.C05.fnArityIsOne = true ∧
    Generated.C05.operandClassifiedBy = "ToLower" ∧
    Generated.C05.likeTestAssignsErrMsg = true ∧ Generated.C05.likeTestAssignsErrFld = true ∧
    Generated.C05.fiterNextResetsValid = true ∧ Generated.C05.fiterSetBackwardResetsValid = true ∧
    Generated.C05.fiterValidIsFltAndRange = true ∧
    Generated.C05.fiterRangeCheck = "Timestamp>=MinTs&&Timestamp<=MaxTs" ∧
    Generated.C05.tsNumericFallback = "ParseInt(_,10,64);Unix(0,v)" := by decide


/-- **A numeric time literal is compared as the exact integer written.** With an environment that reads numeric literals
exactly (`NumericExact`: the code's last fallback is `strconv.ParseInt(dt, 10, 64)` handed unchanged to `time.Unix(0, v)`
— regenerated fact `tsNumericFallback` in `code_tables_as_modelled`; the harness checks every literal against the exact
value), the filter built for `[NOT] ts <op> <number>` is the integer comparison of the event's timestamp with that
number — at nanosecond magnitudes, at the int64 extremes, everywhere. -/
theorem ts_numeric_literal_exact (env : Env) (hx : NumericExact env) (n : Bool) (c : Cond) (o : TsOp) (i : Int) (f : Pred)
    (hs : subjectOf env c.ident = .ts) (ho : tsOpOf c.op = some o) (hi : decimalInt c.value = some i)
    (hb : buildWhere env (some (.cons (.cons (.cond n c) .nil) .nil)) = .ok f) :
    ∀ ev : Event, Fields.WF ev.fields → f ev = (n != evalTsOp o ev.ts i) := by
  intro ev hev
  rw [where_correct env _ f hb (by simp [wellFormed, wellFormedAnd, wellFormedX]) ev hev]
  simp [evalRef, evalAnd, evalX, condRef, hs, hx _ _ hi, ho]

/-- the SPEC environment of the driver is exact by construction -/
theorem exactEnv_numericExact (env : Env) : NumericExact (exactEnv env) := by
  intro v i h; simp [exactEnv, h]

/-! ### the parser in front of the evaluator (C12's direct recursive-descent parser `Lql.dExpr`, token level) -/

/-- **An unparenthesised token list is read as OR of AND of optionally negated conditions** — NOT binds tighter than
AND, AND tighter than OR: `g1 OR g2 OR …` with `gi = x1 AND x2 AND …` and `xj = [NOT] cond` parses to exactly
`Or [And [x…] …]`, for any number of groups and conditions (conditions with any function nesting). -/
theorem parse_unparenthesised (g : Group) (gs : List Group) (f : Nat)
    (hf : Lql.szExpr (exprOf g gs) ≤ f)
    (hg : atomOk g.1 = true ∧ ∀ x ∈ g.2, atomOk x = true)
    (hgs : ∀ g' ∈ gs, atomOk g'.1 = true ∧ ∀ x ∈ g'.2, atomOk x = true) :
    Lql.dExpr f (tokFlat g gs) = some (exprOf g gs, []) := by
  have hw : Lql.wfExpr (exprOf g gs) = true := by
    simp only [exprOf, Lql.wfExpr, Bool.and_eq_true]
    exact ⟨wfOr_orOf g hg.1 hg.2, wfOrs_orsOf gs hgs⟩
  have := Lql.dExpr_toks (exprOf g gs) f [] hf hw (by simp [Lql.headNot]) (by simp [Lql.headNot])
  rw [toksExpr_exprOf] at this
  simpa using this

/-- and its meaning: some group all of whose (optionally negated) conditions hold -/
theorem unparenthesised_meaning (env : Env) (ev : Event) (g : Group) (gs : List Group) :
    evalRef env (trExpr (exprOf g gs)) ev =
      (g :: gs).any (fun grp => (grp.1 :: grp.2).all (fun x => x.1 != condRef env (trCond x.2) ev)) :=
  evalRef_exprOf env ev g gs

/-- **`a AND b OR NOT c AND d` parses to `Or [And [a, b], And [Not c, d]]`** for arbitrary conditions. -/
theorem parse_or_and_not (a b c d : Lql.Cond) (f : Nat)
    (ha : atomOk (false, a) = true) (hb : atomOk (false, b) = true) (hc : atomOk (true, c) = true)
    (hd : atomOk (false, d) = true)
    (hf : Lql.szExpr (exprOf ((false, a), [(false, b)]) [((true, c), [(false, d)])]) ≤ f) :
    Lql.dExpr f (Lql.toksCond a ++ Lql.tAND :: (Lql.toksCond b ++ Lql.tOR :: Lql.tNOT :: (Lql.toksCond c ++ Lql.tAND :: Lql.toksCond d)))
      = some (.mk (.cons (.mk (.cons (.cond false a) (.cons (.cond false b) .nil)))
              (.cons (.mk (.cons (.cond true c) (.cons (.cond false d) .nil))) .nil)), []) := by
  have := parse_unparenthesised ((false, a), [(false, b)]) [((true, c), [(false, d)])] f hf
    ⟨ha, by simpa using hb⟩ (by simpa using ⟨hc, hd⟩)
  simpa [tokFlat, tokGroup, tokAtom, exprOf, orOf, orsOf, xsOf] using this

/-- **Parser and evaluator compose.** Whatever token list the parser accepts, if the builder accepts the parsed
expression then the built filter is the reference meaning of that expression (no `wellFormed` hypothesis left: the
parser's image is well-formed). -/
theorem parsed_where_correct (env : Env) (f : Nat) (toks : List Lql.Tok) (e : Lql.Expr) (flt : Pred)
    (hp : Lql.dExpr f toks = some (e, [])) (hb : buildWhere env (some (trExpr e)) = .ok flt) :
    ∀ ev : Event, Fields.WF ev.fields → flt ev = evalRef env (trExpr e) ev ∧ flt ev = evalParsed env e ev := by
  intro ev hev
  have h := where_correct env (trExpr e) flt hb (parsed_wellFormed f toks e [] hp) ev hev
  exact ⟨h, by rw [evalParsed_tr]; exact h⟩

/-- **C05 headline: `SELECT … WHERE e` delivers exactly `List.filter (meaning of e)`.** For a WHERE clause whose tokens
the parser reads as `e` and whose expression the builder accepts, reading any underlying iterator (events with
well-formed fields, ends within `n` steps) through the filtering iterator delivers precisely the underlying events for
which `e` holds (and whose timestamp is in the query's range) — same events, same order, once each. -/
theorem select_where_exact {σ : Type} (env : Env) (f : Nat) (toks : List Lql.Tok) (e : Lql.Expr) (flt : Pred)
    (I : It σ Event) (rng : Event → Bool) (n : Nat) (s : σ)
    (hp : Lql.dExpr f toks = some (e, []))
    (hb : buildWhere env (some (trExpr e)) = .ok flt)
    (hex : Exhausts I n s) (hwf : ∀ ev ∈ drainIt I n s, Fields.WF ev.fields)
    (g k : Nat) (hg : n + 1 ≤ g) (hk : n + 1 ≤ k) :
    drain I flt rng g k (new s) = (drainIt I n s).filter (fun ev => evalParsed env e ev && rng ev) := by
  rw [fiter_refines_filter I flt rng n s hex g k hg hk]
  apply List.filter_congr
  intro ev hev
  rw [(parsed_where_correct env f toks e flt hp hb ev (hwf ev hev)).2]


/-! ### LIKE: Go's `path.Match` against the documented pattern language (`Model/PathSpec.lean`) -/

open Logrange.PathSpec in
/-- **`path.Match` is the documented shell pattern semantics on every pattern without `*`** (literals, `\` escapes,
`?`, character classes with ranges and `^`), for every name, valid UTF-8 or not: the algorithm's answer — including
`ErrBadPattern` — is the specification's (`specMatch`: parse the pattern by the documented grammar, then one piece of
the name per item). -/
theorem pathMatch_eq_spec_noStar (p n : Bytes) (h : noStar p = true) :
    PathMatch.pathMatch p n = specMatch p n := pathMatch_noStar p n h

open Logrange.PathSpec in
/-- in the requested form: an answer `b` means the pattern is well formed and `b` says whether the name matches -/
theorem pathMatch_correct_noStar (p n : Bytes) (h : noStar p = true) (b : Bool) :
    PathMatch.pathMatch p n = some b ↔ (WellFormed p ∧ (b = true ↔ Matches p n)) := by
  rw [pathMatch_noStar p n h]
  unfold specMatch WellFormed Matches
  cases hi : items? p with
  | none => simp
  | some its =>
    simp only [Option.map_some, Option.some.injEq, Option.isSome_some, true_and]
    constructor
    · intro hb; subst hb
      exact ⟨fun hm => ⟨its, rfl, hm⟩, fun ⟨its', he, hm⟩ => by cases he; exact hm⟩
    · intro hb
      cases hm : matchItems its n with
      | true => exact (hb.mpr ⟨its, rfl, hm⟩).symm
      | false =>
        cases b with
        | false => rfl
        | true =>
          obtain ⟨its', he, hm'⟩ := hb.mp rfl
          cases he; rw [hm] at hm'; cases hm'

open Logrange.PathSpec in
/-- `ErrBadPattern` exactly on the malformed patterns (no `*`), whatever the name: in particular the builder's
pre-test on the probe name `abc` rejects exactly the patterns that are malformed for every subject -/
theorem pathMatch_malformed_noStar (p n : Bytes) (h : noStar p = true) :
    PathMatch.pathMatch p n = none ↔ ¬ WellFormed p := by
  rw [pathMatch_noStar p n h]
  unfold specMatch WellFormed
  cases items? p <;> simp

open Logrange.PathSpec in
/-- so for a LIKE pattern without `*` the probe decides evaluability on every subject: accepted on `abc` ⇒ never an
error on any name -/
theorem like_probe_sound_noStar (p n : Bytes) (h : noStar p = true) (hp : patternOk p = true) :
    (PathMatch.pathMatch p n).isSome = true := by
  unfold patternOk at hp
  have h1 : ¬ PathMatch.pathMatch p sProbe = none := by
    intro e; rw [e] at hp; cases hp
  have hw : WellFormed p := by
    by_cases hw : WellFormed p
    · exact hw
    · exact absurd ((pathMatch_malformed_noStar p sProbe h).mpr hw) h1
  cases hn : PathMatch.pathMatch p n with
  | some b => rfl
  | none => exact absurd hw ((pathMatch_malformed_noStar p n h).mp hn)


open Logrange.PathSpec in
/-- **`ErrBadPattern` is decided by the pattern alone — every pattern, with `*`, classes, escapes, any bytes, every
name.** Whether `path.Match` reports a malformed pattern equals the algorithm's own syntax check of the pattern's chunks
(`validateRest`), in which the name does not occur. -/
theorem pathMatch_malformed_iff_syntax (p n : Bytes) :
    PathMatch.pathMatch p n = none ↔ PathMatch.validateRest (p.length + 1) p = false := by
  have h := pathMatch_isSome p n
  cases hm : PathMatch.pathMatch p n with
  | none => rw [hm] at h; simp only [Option.isSome_none] at h; simp [← h]
  | some b => rw [hm] at h; simp only [Option.isSome_some] at h; simp [← h]

open Logrange.PathSpec in
/-- hence the error does not depend on the name -/
theorem pathMatch_error_name_independent (p n n' : Bytes) :
    PathMatch.pathMatch p n = none ↔ PathMatch.pathMatch p n' = none := by
  rw [pathMatch_malformed_iff_syntax p n, pathMatch_malformed_iff_syntax p n']

/-- **The builder's LIKE pre-test is sound for every pattern**: a pattern accepted on the probe name `abc` never makes
`path.Match` fail on any subject — so an accepted `x LIKE p` is evaluable on every event (its `res, _ :=` never drops an
error) and `NOT (x LIKE p)` is never true because of an unevaluable pattern. -/
theorem like_probe_sound (p n : Bytes) (hp : patternOk p = true) : (PathMatch.pathMatch p n).isSome = true := by
  unfold patternOk at hp
  cases hn : PathMatch.pathMatch p n with
  | some b => rfl
  | none =>
    rw [(pathMatch_error_name_independent p n sProbe).mp hn] at hp
    cases hp

open Logrange.PathSpec in
/-- **Why the theorem stops at `*`.** With `*` the implementation commits to the leftmost position where the next
chunk matches, and it tries positions byte by byte. On `*?*\xAC` against `€` (E2 82 AC) the specification lets `*` take
the byte E2, `?` the (then invalid) byte 82 and the literal AC the rest — a match; `path.Match` takes `?` = `€` at the
first position and fails. The equality of the byte-wise existential semantics and Go's greedy algorithm is false on
names/patterns that are not valid UTF-8 sequences split at character boundaries. -/
theorem cex_star_greedy_splits_rune :
    PathMatch.pathMatch [42, 63, 42, 0xAC] [0xE2, 0x82, 0xAC] = some false ∧
    specMatch [42, 63, 42, 0xAC] [0xE2, 0x82, 0xAC] = some true := by decide

open Logrange.PathSpec in
/-- the same on plain ASCII: a class may match `/` but `*` may not, and the committed leftmost position is not revised.
`**[^a]*` against `*x*]/`: the specification lets the stars take `*x*]`, the class the `/` and the last star nothing;
`path.Match` commits the class to the first byte and then cannot get the last `*` over the `/`. (Found by the C05
harness, seed 4.) LIKE's meaning in logrange is `path.Match` as implemented (`evalRef` uses the model of the
algorithm), so this is a property of Go's library, not a defect of the WHERE evaluator. -/
theorem cex_star_greedy_class_slash :
    PathMatch.pathMatch [42, 42, 91, 94, 97, 93, 42] [42, 120, 42, 93, 47] = some false ∧
    specMatch [42, 42, 91, 94, 97, 93, 42] [42, 120, 42, 93, 47] = some true := by decide

/-- the constants the model reads are the documented ones -/
theorem code_constants_as_documented :
    Generated.C05.cmpContains = sCONTAINS ∧ Generated.C05.cmpHasPrefix = sPREFIX ∧
    Generated.C05.cmpHasSuffix = sSUFFIX ∧ Generated.C05.cmpLike = sLIKE ∧
    Generated.C05.opndTimestamp = sTs ∧ Generated.C05.opndMessage = sMsg ∧
    Generated.C05.fieldsPrefix = sFieldsColon ∧ Generated.C05.fieldsMinLen = 8 ∧ Generated.C05.fieldsCut = 7 ∧
    Generated.C05.likeTestName = sProbe := by decide

/-- why `where_correct` asks for `wellFormed`: on an (unparsable) empty OR list the builder answers "true" while the
reference meaning of an empty disjunction is "false" -/
theorem cex_empty_or (env : Env) (ev : Event) :
    (∃ f, buildWhere env (some .nil) = .ok f ∧ f ev = true) ∧ evalRef env .nil ev = false :=
  ⟨⟨positive, rfl, rfl⟩, rfl⟩

/-! ### non-vacuity: concrete expressions, events and iterators meet the hypotheses -/

def env0 : Env := tableEnv [] [] [([49, 48], some 10)]
def idOf (s : Bytes) : Ident := .mk s .nil
/-- `fields:a = "x" OR NOT (lower(msg) CONTAINS "b" AND ts < 10)` -/
def e0 : Expr :=
  .cons (.cons (.cond false ⟨idOf [102, 105, 101, 108, 100, 115, 58, 97], sEQ, [120]⟩) .nil)
  (.cons (.cons (.sub true
      (.cons (.cons (.cond false ⟨.mk [108, 111, 119, 101, 114] (.cons (idOf sMsg) .nil), [99, 111, 110, 116, 97, 105, 110, 115], [98]⟩)
             (.cons (.cond false ⟨idOf sTs, sLT, [49, 48]⟩) .nil)) .nil)) .nil) .nil)
/-- ts 9, msg "aBc", fields a=y, a=x (the first `a` counts) -/
def ev0 : Event := ⟨9, [97, 66, 99], Fields.encode [([97], [121]), ([97], [120])]⟩
def ev1 : Event := ⟨10, [97, 66, 99], Fields.encode [([97], [121]), ([97], [120])]⟩

example : wellFormed e0 = true ∧ supported env0 e0 = true := by decide
example : Fields.WF ev0.fields := by decide
example : (match buildWhere env0 (some e0) with | .ok f => (f ev0, f ev1) | .error _ => (true, false)) = (false, true) := by decide
example : (evalRef env0 e0 ev0, evalRef env0 e0 ev1) = (false, true) := by decide
/-- a malformed pattern: `msg LIKE "["` is rejected -/
example : ∃ err, buildWhere env0 (some (.cons (.cons (.cond false ⟨idOf sMsg, [108, 105, 107, 101], [91]⟩) .nil) .nil)) = .error err :=
  like_malformed_rejected env0 false _ (by decide) (by decide) (by decide)
example : Exhausts (listIt Nat) 3 ⟨[1, 2, 3], 0, false, false⟩ := listIt_exhausts_fwd [1, 2, 3] 3 0 rfl
example : drain (listIt Nat) (fun x => x != 2) (fun _ => true) 4 4 (new ⟨[1, 2, 3], 0, false, false⟩) = [1, 3] := by decide

/-- `[a-c]x` (no `*`): well formed, matches `bx`, not `dx`; `[` is malformed -/
example : PathSpec.noStar [91, 97, 45, 99, 93, 120] = true ∧ PathMatch.pathMatch [91, 97, 45, 99, 93, 120] [98, 120] = some true ∧
    PathMatch.pathMatch [91, 97, 45, 99, 93, 120] [100, 120] = some false ∧ PathMatch.pathMatch [91] [97] = none := by decide
/-- the tokens of `msg contains "a" AND ts < "10" OR NOT fields:a = "x" AND msg prefix "b"` -/
def cA : Lql.Cond := ⟨.mk sMsg .nil, [67, 79, 78, 84, 65, 73, 78, 83], [97]⟩
def cB : Lql.Cond := ⟨.mk sTs .nil, sLT, [49, 48]⟩
def cC : Lql.Cond := ⟨.mk [102, 105, 101, 108, 100, 115, 58, 97] .nil, sEQ, [120]⟩
def cD : Lql.Cond := ⟨.mk sMsg .nil, [80, 82, 69, 70, 73, 88], [98]⟩
example : atomOk (false, cA) = true ∧ atomOk (false, cB) = true ∧ atomOk (true, cC) = true ∧ atomOk (false, cD) = true := by decide
example : ∃ e, Lql.dExpr 40 (Lql.toksCond cA ++ Lql.tAND :: (Lql.toksCond cB ++ Lql.tOR :: Lql.tNOT :: (Lql.toksCond cC ++ Lql.tAND :: Lql.toksCond cD))) = some (e, [])
    ∧ (buildWhere env0 (some (trExpr e))).toBool = true :=
  ⟨_, parse_or_and_not cA cB cC cD 40 (by decide) (by decide) (by decide) (by decide) (by decide), by decide⟩

/-- `a*[` is malformed for every name although its first chunk matches; `*[a-c]x*` is accepted by the probe -/
example : PathMatch.pathMatch [97, 42, 91] [97] = none ∧ PathMatch.pathMatch [97, 42, 91] [98] = none ∧
    patternOk [42, 91, 97, 45, 99, 93, 120, 42] = true := by decide

/-- nanosecond magnitude and the int64 extremes are read exactly -/
example : decimalInt [49,53,53,50,51,48,55,54,56,51,49,50,51,52,53,54,55,56,57] = some 1552307683123456789 ∧
    decimalInt [45,57,50,50,51,51,55,50,48,51,54,56,53,52,55,55,53,56,48,56] = some (-9223372036854775808) ∧
    decimalInt [57,50,50,51,51,55,50,48,51,54,56,53,52,55,55,53,56,48,56] = none ∧ decimalInt [32,49,48,32] = some 10 := by decide

end Logrange.Props.C05
