import Logrange.Props.C07
import Logrange.Model.Points
/-! C07 goal 4 (partial): from the recovered index entries to the hull-level RANGE answer, in one theorem. -/
namespace Logrange.Props.C07Hull
open Logrange.Persist Logrange.Generated.C07 Logrange.Props.C07

/-- what a stored index entry promises about its chunk: the hull contains the records it accounts for (the first `recs`) -/
def HullOk (ci : ChkInfo) (ck : Chunk) : Prop := ∀ t ∈ ck.recs.take ci.recs, ci.minTs ≤ t ∧ t ≤ ci.maxTs

/-- **One chunk, after any recovery**: whatever the loaded index says about a monotone chunk — nothing (snapshot missing or
torn), an entry that accounts for all its records (clean stop), or a stale entry that accounts for fewer (crash after
growth) — as long as a present entry keeps its promise (`HullOk`), the entry `syncChunks` hands to a RANGE cursor either has
a hull that contains every record, or accounts for fewer records than the chunk holds (and then the selector leaves the
chunk wholly open, a7caf30). -/
theorem recovered_entry_sound (old : List ChkInfo) (ck : Chunk) (hmono : ck.recs.Pairwise (· ≤ ·))
    (hok : ∀ o, old.find? (fun o => o.id == ck.id) = some o → HullOk o ck) :
    ∀ t ∈ ck.recs, (syncChunk old ck).minTs ≤ t ∧ t ≤ (syncChunk old ck).maxTs := by
  have hf : syncChunksDropsStaleEntries = true := by decide
  have hf2 : syncChunksDropsStaleBeforeHullCopy = true := by decide
  cases hfind : old.find? (fun o => o.id == ck.id) with
  | none => exact hull_after_recover_partial old ck hfind hmono
  | some o =>
    by_cases hs : o.recs < ck.recs.length
    · exact stale_snapshot_sync_first old ck o hfind hmono hs
    · have e : syncChunk old ck = o := by simp [syncChunk, syncChunkC, hfind, hs]
      rw [e]
      intro t ht
      have := hok o hfind
      have e2 : ck.recs.take o.recs = ck.recs := List.take_of_length_le (by omega)
      unfold HullOk at this
      rw [e2] at this
      exact this t ht

/-- **No flushed event becomes hidden from time-range queries after recovery (hull level, whole partition)**: for the chunks
of a partition with monotone timestamps and ANY loaded index whose entries keep their promise, the answer a RANGE query can
give at chunk-hull granularity is exactly the filter. Inside a chunk whose hull meets the range the window is C02's
(`Props/C02Pipe.chunk_window_sound`: the window `updatePoss` computes contains every record in range, for any index state
incl. "index missing" and "unknown tail"). -/
theorem no_event_hidden_after_recovery_hulls (m : CMap) (src : Src) (cks : List Chunk)
    (hmono : ∀ ck ∈ cks, ck.recs.Pairwise (· ≤ ·))
    (hok : ∀ ck ∈ cks, ∀ o, ((alookup m src).getD []).find? (fun o => o.id == ck.id) = some o → HullOk o ck) (lo hi : Int) :
    rangeVisible (hullView m src cks) cks lo hi = rangeSpec cks lo hi := by
  apply range_complete_of_sound_hulls
  · simp [hullView, syncChunks]
  · intro i h ck hh hck t ht
    simp only [hullView, syncChunks, List.getElem?_map] at hh
    rw [hck] at hh
    simp only [Option.map_some, Option.some.injEq] at hh
    subst hh
    have hmem : ck ∈ cks := List.mem_of_getElem? hck
    exact recovered_entry_sound _ ck (hmono ck hmem) (hok ck hmem) t ht

/-- the promise is kept by the hull update of `onWrite` on the chunk's entry: widening by bounds of the batch and raising
`recs` to the new length (the batch is appended to the records the entry accounted for) -/
theorem hullOk_update (ci : ChkInfo) (before batch : List Int) (mn mx : Int) (cid : Nat)
    (h : HullOk ci ⟨cid, before⟩) (hfull : before.length ≤ ci.recs)
    (hb : ∀ t ∈ batch, mn ≤ t ∧ t ≤ mx) :
    HullOk { ci.update mn mx with recs := before.length + batch.length } ⟨cid, before ++ batch⟩ := by
  intro t ht
  have e : (before ++ batch).take (before.length + batch.length) = before ++ batch :=
    List.take_of_length_le (by simp)
  simp only at ht
  rw [e] at ht
  have h0 : ∀ t ∈ before, ci.minTs ≤ t ∧ t ≤ ci.maxTs := by
    intro t ht
    have e2 : before.take ci.recs = before := List.take_of_length_le hfull
    have := h t (by simpa [e2] using ht)
    exact this
  simp only [ChkInfo.update]
  rcases List.mem_append.mp ht with h1 | h1
  · have := h0 t h1
    constructor
    · split <;> omega
    · split <;> omega
  · have := hb t h1
    constructor
    · split <;> omega
    · split <;> omega

/-- a clean stop's entry keeps the promise for the chunk as it is at the next start, and a later growth does not break it
(the entry speaks about a prefix) -/
theorem hullOk_grow (ci : ChkInfo) (cid : Nat) (recs more : List Int) (h : HullOk ci ⟨cid, recs⟩) (hle : ci.recs ≤ recs.length) :
    HullOk ci ⟨cid, recs ++ more⟩ := by
  intro t ht
  apply h t
  simp only at ht ⊢
  rwa [List.take_append_of_le_length hle] at ht

/-- **C07's `HullOk` is C02's hull soundness** (`Points.HullSound`, the `hullOk` field of `RebuildHist.SoundL`) for the entry's
hull, the chunk's records as a position function (`fun q => recs.getD q 0`, which is `PartHist.tsOfList recs` by definition; only
`Model/Points.lean` is imported, so that this check does not build C02's proofs) and the entry's record count — the interface of the
refinement between the recovery model and C02's pipeline state (design-notes/C02.md, "Note for C07") -/
theorem hullOk_iff_c02_hullSound (ci : ChkInfo) (ck : Chunk) (hle : ci.recs ≤ ck.recs.length) :
    HullOk ci ck ↔ Logrange.Points.HullSound ⟨ci.minTs, ci.maxTs⟩ (fun q => ck.recs.getD q 0) ci.recs := by
  constructor
  · intro h p hp
    have hlt : p < ck.recs.length := by omega
    have hm : ck.recs[p] ∈ ck.recs.take ci.recs := by
      rw [List.mem_take_iff_getElem]
      exact ⟨p, by omega, rfl⟩
    have := h _ hm
    simpa [List.getD_eq_getElem?_getD, List.getElem?_eq_getElem hlt] using this
  · intro h t ht
    rw [List.mem_take_iff_getElem] at ht
    obtain ⟨p, hp, rfl⟩ := ht
    have hlt : p < ck.recs.length := by omega
    have := h p (by omega)
    simpa [List.getD_eq_getElem?_getD, List.getElem?_eq_getElem hlt] using this

/-! non-vacuity: a stale entry (2 of 3 records) that keeps its promise, and one that does not -/
example : HullOk ⟨1, 10, 20, 0, 2⟩ ⟨1, [10, 20, 30]⟩ := by
  intro t ht; simp at ht; rcases ht with h | h <;> subst h <;> decide
example : ¬ HullOk ⟨1, 10, 15, 0, 2⟩ ⟨1, [10, 20, 30]⟩ := by
  intro h; have := h 20 (by simp); simp at this

end Logrange.Props.C07Hull
