import Logrange.Model.RdOffset
/-!
# `Querier.Query` and the cursor provider as far as paging sees it

pkg/backend/querier.go (`Query`: limit clamp with `QueryMaxLimit`, `cache` flag, `Offset`, the read loop,
`Release`, `NextQueryRequest`) — api/rpc/querier.go has the same loop —, pkg/cursor/provider.go
(`GetOrCreate`: held cursor + `ApplyState`, otherwise `newCursor`; `Release`: `commit`, id zeroed when the
cursor is not held), pkg/cursor/null.go (`emptyCur`: `Release` answers `State{}`).

The store is the list of partitions (journal name → journal value). `newCursor` sorts its sources by tag line
before it builds the mixer tree (f086c95), so the leaf order is a function of the source set: here the sources
sorted by journal name (the harness' tag lines sort like its partition numbers). A page served while no
partition matches keeps the request's query and position in its next request (a8a4a54).
-/
namespace Logrange.Rd

/-- text of a position: `""`, `head`, `tail`, or `name=pos:name=pos…`; `bad` = anything `applyStatePos` rejects -/
inductive PosText
  | empty | head | tail
  | map (m : List (Nat × Pos))
deriving Repr, DecidableEq, Inhabited

structure Qry where
  text : Nat                       -- identity of the query text (`ApplyState` compares the texts)
  from_ : Option (List Nat) := none -- journal names FROM can match (`none` = every partition)
  where_ : Bool := false
  minTs : Option Int := none
  maxTs : Option Int := none
  ranged : Bool := false
deriving Repr, DecidableEq, Inhabited

structure Req where
  id : Nat := 0
  query : Option Qry := none        -- `none` = empty query text
  pos : PosText := .empty
  limit : Nat := 0
  offset : Int := 0
  wait : Bool := false              -- WaitTimeout > 0
deriving Repr, Inhabited

/-- a cursor the provider holds: `crsr.state` and the cursor -/
structure Held where
  id : Nat
  qtext : Nat
  pos : PosText
  cur : Cur
deriving Inhabited

structure Server where
  store : List (Nat × Journal) := []
  held : List Held := []
  nextId : Nat := 1
deriving Inhabited

structure Page where
  events : List Rec := []
  next : Req := {}
deriving Inhabited

/-- `GetJournals`: the partitions FROM matches, as they exist now -/
def resolve (store : List (Nat × Journal)) (q : Qry) : List (Nat × Journal) :=
  match q.from_ with
  | none => store
  | some l => store.filter (fun p => l.contains p.1)

/-- `sort.Slice(lines, …)`: the sources in tag-line order (insertion sort by journal name) -/
def insertSrc (x : Nat × Journal) : List (Nat × Journal) → List (Nat × Journal)
  | [] => [x]
  | y :: ys => if x.1 ≤ y.1 then x :: y :: ys else y :: insertSrc x ys
def sortSrcs (l : List (Nat × Journal)) : List (Nat × Journal) := l.foldr insertSrc []

/-- `applyPos`: corner position or `applyStatePos` -/
def applyPosText (c : Cur) (p : PosText) : Cur :=
  match p with
  | .empty => applyCorner c false
  | .head => applyCorner c false
  | .tail => applyCorner c true
  | .map m => applyStatePos c m

/-- `newCursor` (`none` = `errNoSources`, served by `emptyCur`) -/
def newCur (store : List (Nat × Journal)) (q : Qry) (p : PosText) : Option Cur :=
  match sortSrcs (resolve store q) with
  | [] => none
  | srcs =>
    let mk : Nat × Journal → Src := fun x =>
      { name := x.1, jrnl := x.2, it := if q.ranged then .rng {} else .lib {} }
    some (applyPosText (mkCur (srcs.map mk) q.where_ q.minTs q.maxTs q.ranged) p)

/-- `crsr.ApplyState` on a held cursor: `none` = error (the provider then builds a new cursor with id 0) -/
def applyState (h : Held) (qtext : Nat) (p : PosText) : Option Held :=
  if h.qtext ≠ qtext then none else
  if h.pos = p then some h else
  match p with
  | .map m =>
    -- 0706090: after the journal iterators were moved the wrapping iterators forget what they buffered at the old
    -- position (the fiterator's cached event, the mixers' selections): `SetBackward(true); SetBackward(false)`
    some { h with pos := p, cur := curSetBackward (curSetBackward (applyStatePos h.cur m) true) false }
  | _ => none      -- "", head, tail do not parse as `name=pos`

/-- the read loop of `Query` -/
def readLoop : Nat → Cur → List Rec → Cur × List Rec
  | 0, c, acc => (c, acc.reverse)
  | n+1, c, acc =>
    let (c, v) := curGet c
    match v with
    | some r => readLoop n (curNext c) (r :: acc)
    | none => (c, acc.reverse)

/-- `Querier.Query` for one request; `maxLimit` = `QueryMaxLimit` -/
def query (maxLimit : Nat) (srv : Server) (req : Req) : Server × Page :=
  let lim := if req.limit > maxLimit then maxLimit else req.limit
  let cache := req.wait || lim ≠ req.limit
  match req.query with
  | none =>
    -- empty query and no Src: no sources, the empty cursor; it hands the request's query and position back
    (srv, { events := [], next := { query := none, pos := req.pos, limit := lim, wait := req.wait } })
  | some q =>
    -- GetOrCreate
    let found : Option Held := if req.id > 0 then srv.held.find? (·.id == req.id) else none
    let applied : Option Held := found.bind (fun h => applyState h q.text req.pos)
    let (isHeld, id, cur?, srv) : Bool × Nat × Option Cur × Server :=
      match applied with
      | some h => (true, h.id, some (setJournals h.cur srv.store), srv)
      | none =>
        let id0 := if found.isSome then 0 else req.id     -- a failed ApplyState zeroes the id
        let (id, srv) := if id0 = 0 then (srv.nextId, { srv with nextId := srv.nextId + 1 }) else (id0, srv)
        (cache, id, newCur srv.store q req.pos, srv)
    match cur? with
    | none => (srv, { events := [], next := { query := some q, pos := req.pos, limit := lim, wait := req.wait } })
    | some c =>
      let c := offset c req.offset
      let (c, evs) := readLoop lim c []
      let (c, posMap) := commit c
      let pos := PosText.map posMap
      if isHeld then
        let h : Held := { id := id, qtext := q.text, pos := pos, cur := c }
        ({ srv with held := h :: srv.held.filter (·.id != id) },
         { events := evs, next := { id := id, query := some q, pos := pos, limit := lim, wait := req.wait } })
      else
        (srv, { events := evs, next := { id := 0, query := some q, pos := pos, limit := lim, wait := req.wait } })

/-- what the client does between two pages -/
inductive Resume
  | follow      -- send NextQueryRequest as it is
  | evicted     -- the same, but the server has dropped its cursors meanwhile
  | zeroId      -- NextQueryRequest with the request id zeroed
  | posOnly     -- the original request with only the position taken over
deriving Repr, DecidableEq, Inhabited

/-- one step of a paging client: the store may have grown (`store'`), then the next request is built -/
structure Step where
  resume : Resume := .follow
  limit : Nat := 1
  wait : Bool := false
  store' : Option (List (Nat × Journal)) := none
deriving Inhabited

def nextReq (orig : Req) (prev : Page) (st : Step) : Req :=
  match st.resume with
  | .follow | .evicted => { prev.next with limit := st.limit, wait := st.wait }
  | .zeroId => { prev.next with id := 0, limit := st.limit, wait := st.wait }
  | .posOnly => { query := orig.query, pos := prev.next.pos, limit := st.limit, wait := st.wait }

/-- a chain of pages: the first request, then one `Step` per further page -/
def pagesFrom (maxLimit : Nat) (orig : Req) : Server → Page → List Step → List (List Rec)
  | _, _, [] => []
  | srv, prev, st :: rest =>
    let srv := match st.store' with | some s => { srv with store := s } | none => srv
    let srv := if st.resume = .evicted then { srv with held := [] } else srv
    let (srv, pg) := query maxLimit srv (nextReq orig prev st)
    pg.events :: pagesFrom maxLimit orig srv pg rest

def pages (maxLimit : Nat) (srv : Server) (orig : Req) (steps : List Step) : List (List Rec) :=
  let (srv, pg) := query maxLimit srv orig
  pg.events :: pagesFrom maxLimit orig srv pg steps

end Logrange.Rd
