import Logrange.Go.Basic
/-!
# C07 — file system under the sequential crash model, codec contracts

A disk is `Path → Option Bytes`. Persistence code is a list of **steps** (`rename a b`, `truncate p`,
`append p bytes`, `remove p`, `link a b`). A **crash cut** stops after any step; an `append` may be cut at any byte prefix.
This is the friendliest crash model (no reordering, no lost renames): a violation under it is a violation
under any real file system; absence of violations is claimed for this model only.

The four persisted files live in three different directories (`tindex/`, `cindex/`, `pipes/`); only the
names inside `pipes/` are computed from user input (`persister.pipeFileName`), so only those can coincide —
`Path.pipesDir fname` is keyed by the *generated* file name, which makes the `pipes.dat` collision a
reachable state of the model, not a special case.

Codecs (`encoding/json` on maps and slices) are contract structures: `dec (enc a) = some a` and
"a strict prefix of an encoding does not decode". Both are checked against `encoding/json` by the harness.
-/
namespace Logrange.Persist

inductive Path where
  | tindexDat
  | tindexBak
  | tindexTmp                  -- `tindex.dat.tmp`
  | cindexDat
  | pipesDir (fname : Bytes)   -- a file of the pipes directory
deriving DecidableEq, Repr

abbrev Files := Path → Option Bytes

def Files.empty : Files := fun _ => none
def Files.set (f : Files) (p : Path) (v : Option Bytes) : Files := fun q => if q = p then v else f q

inductive Step where
  | rename (a b : Path)
  | truncate (p : Path)               -- open(O_CREATE|O_TRUNC)
  | append (p : Path) (bs : Bytes)    -- write
  | remove (p : Path)
  | link (a b : Path)                 -- hard link: `b` becomes a second name of `a`'s content; fails when `b` exists
deriving Repr

def applyStep (f : Files) : Step → Files
  | .rename a b =>
    match f a with
    | none => f                        -- rename of a missing file fails and changes nothing
    | some v => (f.set b (some v)).set a none
  | .truncate p => f.set p (some [])
  | .append p bs => f.set p (some ((f p).getD [] ++ bs))
  | .remove p => f.set p none
  | .link a b =>
    -- the code never rewrites a linked file in place afterwards (it is replaced by a rename), so the shared inode is
    -- modelled as a copy of the content
    match f a, f b with
    | some v, none => f.set b (some v)
    | _, _ => f

def runSteps (f : Files) (steps : List Step) : Files := steps.foldl applyStep f

/-- crash cut: `k` steps completed; if step `k` is an append, `len` of its bytes reached the file -/
structure Cut where
  k : Nat
  len : Nat
deriving Repr

def diskAt (f : Files) (steps : List Step) (c : Cut) : Files :=
  let f' := runSteps f (steps.take c.k)
  match steps[c.k]? with
  | some (.append p bs) => applyStep f' (.append p (bs.take c.len))
  | _ => f'

/-- `ioutil.WriteFile(p, data)` -/
def writeFile (p : Path) (data : Bytes) : List Step := [.truncate p, .append p data]

structure Codec (α : Type) where
  enc : α → Bytes
  dec : Bytes → Option α

structure Codec.Laws {α : Type} (c : Codec α) : Prop where
  rt : ∀ a, c.dec (c.enc a) = some a
  torn : ∀ a n, n < (c.enc a).length → c.dec ((c.enc a).take n) = none

end Logrange.Persist
