import Logrange.Model.JournalW
import Logrange.Model.WireRT
/-!
# `partition.Service.Write` and `iwrapper` — C01

* `IW` is `iwrapper`'s `minTs/maxTs/tsSet`: every `Get` re-marshals the current event and re-applies min/max (`read` is
  never set); the values are (re)initialised while `tsSet` is false and `Get` sets it (regenerated fact
  `Generated.C01.iwrapperUnsetIsFlag`; before /repo commit 6624754 the value 0 meant "unset" — the model follows whichever
  form the source has); `resetMinMaxTs` is never called — the hull accumulates over the whole batch.
* `serviceWrite` is the loop of `Service.Write`: `jrnl.Write`; `n > 0 ⇒ onWriteCIndex(pos.Idx-n, pos.Idx-1,
  {pos.CId, minTs, maxTs})`, the first such iteration fixes `StartPos = (pos.CId, pos.Idx-n)`, every one sets
  `EndPos = pos`; an error ends the loop (it is reported only if nothing was written in that iteration); otherwise
  `iw.Get` peeks at the next event (updating min/max) and the loop continues while there is one.
-/
namespace Logrange.WriteLoopM
open Logrange.JournalW

structure IW where
  minTs : Int := 0
  maxTs : Int := 0
  tsSet : Bool := false
deriving DecidableEq, Repr, Inhabited

/-- the min/max update of `iwrapper.Get` -/
def IW.see (w : IW) (r : Rec) : IW :=
  let unsetMin := if Generated.C01.iwrapperUnsetIsFlag then w.tsSet = false else w.minTs = 0
  let unsetMax := if Generated.C01.iwrapperUnsetIsFlag then w.tsSet = false else w.maxTs = 0
  let mn := if w.minTs > r.ts ∨ unsetMin then r.ts else w.minTs
  let mx := if w.maxTs < r.ts ∨ unsetMax then r.ts else w.maxTs
  ⟨mn, mx, true⟩

/-- one `TsIndexer.OnWrite(src, first, last, RecordsInfo{cid, minTs, maxTs})` -/
structure IndexCall where
  first : Nat
  last : Nat
  cid : Nat
  minTs : Int
  maxTs : Int
deriving DecidableEq, Repr

structure WOut where
  calls : List IndexCall := []
  start : Option (Nat × Nat) := none     -- WriteEvent.StartPos (none = no event emitted)
  endp : Option (Nat × Nat) := none      -- WriteEvent.EndPos
  err : Bool := false                    -- Service.Write returned an error
deriving Repr

def noteWrite (o : WOut) (r : WRes IW) : WOut :=
  if r.n > 0 then
    { o with calls := o.calls ++ [⟨r.pos.2 - r.n, r.pos.2 - 1, r.pos.1, r.st.minTs, r.st.maxTs⟩],
             start := (match o.start with | none => some (r.pos.1, r.pos.2 - r.n) | s => s),
             endp := some r.pos }
  else o

/-- `if err1 != nil { if <guard> { err = … }; break }`: is a failing `jrnl.Write` iteration reported? The guard in the source
is `n <= 0` (regenerated fact `writeErrGuardIsNLeZero`) — and `journal.Write` returns `n = 0` whenever it returns an error, so
every failing iteration is reported; the other shape the extractor knows, `!weInit`, reports only a failure that precedes
the first successful iteration. -/
def errGuard (o1 : WOut) (r : WRes IW) : Bool :=
  if Generated.C01.writeErrGuardIsNLeZero then r.n == 0 else o1.start.isNone

/-- the `for { … }` loop of `Service.Write` -/
def serviceWriteLoop (maxSize : Nat) : Nat → Journal → List Rec → IW → WOut → Journal × WOut
  | 0, j, _, _, o => (j, { o with err := true })
  | fuel+1, j, recs, iw, o =>
    let r := journalWrite maxSize IW.see j recs iw
    let o1 := noteWrite o r
    if r.err then (r.j, { o1 with err := errGuard o1 r })
    else
      match r.rest with
      | [] => (r.j, o1)                                   -- iw.Get → io.EOF → break
      | x :: _ => serviceWriteLoop maxSize fuel r.j r.rest (r.st.see x) o1

def serviceWrite (maxSize : Nat) (j : Journal) (recs : List Rec) : Journal × WOut :=
  serviceWriteLoop maxSize (recs.length + 1) j recs {} {}

/-- **The loop in an environment with faults**: before an iteration's `jrnl.Write` the environment may make it fail with
nothing written (`faultAt written journal`: the next chunk cannot be created — out of descriptors, directory gone —, or the
context/chunk was closed); `written` is the number of records of this batch stored so far. `journal.Write` then returns
`(0, Pos{}, err)` and leaves the journal as it is. -/
def serviceWriteLoopF (faultAt : Nat → Journal → Bool) (maxSize : Nat) :
    Nat → Nat → Journal → List Rec → IW → WOut → Journal × WOut
  | 0, _, j, _, _, o => (j, { o with err := true })
  | fuel+1, w, j, recs, iw, o =>
    let r : WRes IW := if faultAt w j then ⟨j, 0, (0, 0), recs, iw, true⟩ else journalWrite maxSize IW.see j recs iw
    let o1 := noteWrite o r
    if r.err then (r.j, { o1 with err := errGuard o1 r })
    else
      match r.rest with
      | [] => (r.j, o1)
      | x :: _ => serviceWriteLoopF faultAt maxSize fuel (w + r.n) r.j r.rest (r.st.see x) o1

def serviceWriteF (faultAt : Nat → Journal → Bool) (maxSize : Nat) (j : Journal) (recs : List Rec) : Journal × WOut :=
  serviceWriteLoopF faultAt maxSize (recs.length + 1) 0 j recs {} {}

/-- fault pattern "the context is cancelled when record `c` is fetched": every `jrnl.Write` that starts after that fails -/
def faultCancelAt (c : Nat) : Nat → Journal → Bool := fun w _ => decide (1 ≤ w ∧ c ≤ w)

/-- fault pattern "no new chunk can be created" (descriptors exhausted): fails whenever a new chunk is needed -/
def faultNoNewChunk (maxSize : Nat) : Nat → Journal → Bool :=
  fun _ j => match j.getLast? with | none => true | some c => decide (c.size ≥ maxSize)

/-- what `iwrapper.Get` hands to the journal for one event -/
def recOf (e : WireRT.Event) : Rec := ⟨WireRT.tsInt e.ts, e.marshal⟩

/-- positions a list of index calls announces -/
def callPositions (calls : List IndexCall) : List (Nat × Nat) :=
  calls.flatMap (fun c => (List.range (c.last + 1 - c.first)).map (fun i => (c.cid, c.first + i)))

end Logrange.WriteLoopM

namespace Logrange.WriteLoopM
open Logrange.JournalW

/-- unfiltered read of a partition's records (chunk iterator with a `maxRecordSize` buffer, then
`LogEventIterator`: `Unmarshal` into a released event). `none` = the read fails (`ErrBufferTooSmall` for a record
longer than the buffer — a non-EOF error that ends every read of the partition — or an undecodable record). -/
def decodeAll (maxRec : Nat) : List Bytes → Option (List WireRT.Event)
  | [] => some []
  | r :: rs =>
    if r.length > maxRec then none else
    match WireRT.Event.unmarshal [] r with
    | .ok (_, e) => (decodeAll maxRec rs).map (e :: ·)
    | _ => none

def readEvents (maxRec : Nat) (j : Journal) : Option (List WireRT.Event) := decodeAll maxRec (readAll j)

/-- server side of one RPC write (`ServerIngestor.write`): decode the request body, hand the events to
`Service.Write`. `none` = rejected (the client gets an error); `some j'` = acknowledged. -/
def serveWrite (parseKV : Bytes → Option Bytes) (maxChunk : Nat) (j : Journal) (body : Bytes) : Option (Journal × List WireRT.Event) :=
  match WireRT.wpDrain parseKV body with
  | .ok (_, es) =>
    let r := serviceWrite maxChunk j (es.map recOf)
    if r.2.err then none else some (r.1, es)
  | _ => none

/-- the additional check of the proposed repair of F20a (regenerated fact `ingestorChecksRecordSize`): the validation pass of
`wpIterator.init` rejects the whole packet when some event's record — `LogEvent{Msg, Fields: write-level ++ own}.WritableSize()`,
the size `iwrapper` will marshal — exceeds the chunk reader's maximum record size (`maxRec`; 0 = not limited). -/
def sizeRejected (parseKV : Bytes → Option Bytes) (maxRec : Nat) (body : Bytes) : Bool :=
  Generated.C01.ingestorChecksRecordSize && maxRec != 0 &&
    (match WireRT.wpDrainStrict parseKV body with
     | some (_, es) => !es.all (fun e => decide (e.writableSize ≤ maxRec))
     | none => false)

/-- `ServerIngestor.write` with the record-size limit the ingestor knows (`maxRec`) -/
def serveWriteSized (parseKV : Bytes → Option Bytes) (maxChunk maxRec : Nat) (j : Journal) (body : Bytes) :
    Option (Journal × List WireRT.Event) :=
  if sizeRejected parseKV maxRec body then none else serveWrite parseKV maxChunk j body

/-! ## a graceful stop and restart -/

/-- the first `n` records of a journal, chunk boundaries kept -/
def truncJournal : Nat → Journal → Journal
  | _, [] => []
  | n, c :: cs =>
    if n ≥ c.recs.length then c :: truncJournal (n - c.recs.length) cs
    else [⟨c.recs.take n, c.size⟩]

/-- what a partition holds after a graceful stop and a restart on the same directory. `durable` is the number of records (a
prefix of the stored sequence) that were already CONFIRMED — flushed to the chunk files — when the stop began; the rest sits in
the chunk writer's buffer (it is flushed on a timer, `WriteFlushMs`). `partition.Service.Shutdown` syncs every journal
(regenerated fact `shutdownSyncsEveryJournal`, /repo bbe6505), so everything acknowledged survives; the other shape the
extractor knows — `Sync()` only for a journal with a confirmed record — loses the buffered records of a journal that has none. -/
def gracefulRestart (j : Journal) (durable : Nat) : Journal :=
  if Generated.C01.shutdownSyncsEveryJournal then j
  else if durable > 0 then j else truncJournal durable j

end Logrange.WriteLoopM
