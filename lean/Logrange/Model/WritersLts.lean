import Logrange.Go.Basic
/-!
# K concurrent writers to one partition as a labelled transition system — C01

Any number of writers run `partition.Service.Write` on the same journal. The atomic steps are the critical sections of
the library (DESIGN Appendix A.3):

* `submit w batch` — writer `w`, currently outside `Service.Write`, starts a write of `batch`;
* `getChunk w` — `GetChunkForWrite(excludeCid)`: the last chunk, unless there is none or it is the excluded one, in which
  case a new empty chunk is created (the controller re-checks under its semaphore, so this is one step); `w` now
  *holds* a chunk, which need not stay the last one;
* `chunkWrite w` — ONE `Chunk.write` call on the held chunk, under the chunk writer's lock: records of `w`'s pending list
  are appended while `size < maxChunkSize`. `n > 0` ⇒ `journal.Write` returns and `Service.Write` either ends (nothing
  left: the batch is acknowledged) or calls `journal.Write` again (`excludeCid` starts at 0 again); `n = 0` on a full chunk
  ⇒ that chunk is excluded and the writer asks for a chunk again; `n = 0` otherwise (empty batch) ⇒ done.

Between any two steps of one writer any other writer may move: a batch that spans a roll-over may be split by another
writer's records. Chunk id = index + 1. `submitted` is a ghost: the batches a writer has submitted so far, in order.
-/
namespace Logrange.WritersLts

structure TRec where
  w : Nat          -- the writer
  data : Bytes
deriving DecidableEq, Repr

structure Chunk where
  recs : List TRec
  size : Nat
deriving Repr

structure Local where
  pending : List TRec := []
  submitted : List (List TRec) := []
  held : Option Nat := none
  excl : Nat := 0
  active : Bool := false

structure State where
  chunks : List Chunk := []
  loc : Nat → Local := fun _ => {}

inductive Label where
  | submit (w : Nat) (batch : List Bytes)
  | getChunk (w : Nat)
  | chunkWrite (w : Nat)

def readAll (cs : List Chunk) : List TRec := cs.flatMap (·.recs)

/-- records of writer `w`, in stored order -/
def byWriter (w : Nat) (l : List TRec) : List TRec := l.filter (fun r => r.w == w)

/-- how many records one `Chunk.write` call takes: before each record `size ≥ maxSize ⇒ stop` -/
def taken (maxSize : Nat) : Nat → List TRec → Nat
  | _, [] => 0
  | size, r :: rest => if size ≥ maxSize then 0 else 1 + taken maxSize (size + 4 + r.data.length) rest

def sizeOf (l : List TRec) : Nat := (l.map (fun r => 4 + r.data.length)).sum

/-- append `new` to the chunk at index `i` -/
def upd : List Chunk → Nat → List TRec → List Chunk
  | [], _, _ => []
  | c :: cs, 0, new => ⟨c.recs ++ new, c.size + sizeOf new⟩ :: cs
  | c :: cs, i+1, new => c :: upd cs i new

def setLoc (loc : Nat → Local) (w : Nat) (l : Local) : Nat → Local := fun v => if v = w then l else loc v

def step (maxSize : Nat) (s : State) : Label → Option State
  | .submit w batch =>
    let l := s.loc w
    if l.active then none else
    let b := batch.map (fun d => (⟨w, d⟩ : TRec))
    some { s with loc := setLoc s.loc w { pending := b, submitted := l.submitted ++ [b], held := none, excl := 0, active := true } }
  | .getChunk w =>
    let l := s.loc w
    if !l.active || l.held.isSome then none else
    if s.chunks.length = 0 ∨ s.chunks.length = l.excl then
      some { chunks := s.chunks ++ [⟨[], 0⟩], loc := setLoc s.loc w { l with held := some s.chunks.length } }
    else
      some { s with loc := setLoc s.loc w { l with held := some (s.chunks.length - 1) } }
  | .chunkWrite w =>
    let l := s.loc w
    match l.held with
    | none => none
    | some idx =>
      match s.chunks[idx]? with
      | none => none
      | some c =>
        let n := taken maxSize c.size l.pending
        let chunks' := upd s.chunks idx (l.pending.take n)
        if n > 0 then
          let rest := l.pending.drop n
          some { chunks := chunks', loc := setLoc s.loc w { l with pending := rest, held := none, excl := 0, active := !rest.isEmpty } }
        else if c.size ≥ maxSize then
          some { chunks := chunks', loc := setLoc s.loc w { l with held := none, excl := idx + 1 } }
        else
          some { chunks := chunks', loc := setLoc s.loc w { l with held := none, active := false } }

/-- run a schedule; labels that are not enabled are skipped -/
def run (maxSize : Nat) (s : State) : List Label → State
  | [] => s
  | l :: ls => run maxSize ((step maxSize s l).getD s) ls

end Logrange.WritersLts
