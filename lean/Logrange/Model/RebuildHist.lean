import Logrange.Model.ChunkHist
/-!
# One chunk's time index over a history of writes AND rebuilds (abstract `Points` level)

`rebuildPts` mirrors `pkg/tmindex/cindex.go: rebuildIndexInt` with the block tree replaced by `Points.add` (the tree
level mirror is `Logrange.CIndex.rebuildIntWith`): the root is created with the interval `((t0,0),(t0,0))`, then ALL
confirmed records are scanned (record 0 again) keeping a running segment minimum / maximum and the counter `pos1`;
whenever `pos1 - pos0 < sparseSpace` fails after counting a record, the interval `((segMin,pos0),(segMax,pos1))` is handed
to `addInterval` — `pos1` is EXCLUSIVE, one past the last record of the segment — and the segment restarts; at EOF the
final partial segment is written (`writeIndexInterval` ignores `pos0 = pos1`).

`rebuild` is `cindex.rebuildIndex` for a chunk the index knows: `IdxRoot := root`, `idxCorrupted := false`,
`lastRec := 0`, then `update(rInfo)` merges the scanned hull (`{0,0}` when nothing is confirmed) into the chunk's hull.

The rebuilt points do NOT satisfy `Points.IndexSound` (closed-right interval claim); `LookupSound` is what the two
look-ups need and what holds on monotone data. Only core Lean; everything is computable.
-/
namespace Logrange.RebuildHist
open Logrange.Points Logrange.ChunkHist

def maxI64 : Int := 9223372036854775807

/-- what the two look-ups need from an index: every point separates the chunk's positions by its timestamp -/
def LookupSound (tsOf : Nat → Int) (n : Nat) (pts : List Pt) : Prop :=
  (∀ p ∈ pts, ∀ q, q < p.idx → q < n → tsOf q ≤ p.ts) ∧ (∀ p ∈ pts, ∀ q, p.idx < q → q < n → p.ts ≤ tsOf q)

/-- `writeIndexInterval`: nothing for an empty segment, otherwise `addInterval ((segMin,pos0),(segMax,pos1))` -/
def writeSeg (pts : List Pt) (segMin segMax : Int) (pos0 pos1 : Nat) : List Pt :=
  if pos0 = pos1 then pts else add pts ⟨⟨segMin, pos0⟩, ⟨segMax, pos1⟩⟩

/-- the scanning loop of `rebuildIndexInt` over the records not yet read; accumulator: the points written so far, the
segment start `pos0`, the number of records counted `pos1`, the running segment minimum and maximum -/
def scan (sparse : Nat) (segMax0 : Int) : List Int → List Pt → Nat → Nat → Int → Int → List Pt
  | [], pts, pos0, pos1, segMin, segMax => writeSeg pts segMin segMax pos0 pos1        -- io.EOF
  | t :: rest, pts, pos0, pos1, segMin, segMax =>
    if pos1 + 1 - pos0 < sparse then
      scan sparse segMax0 rest pts pos0 (pos1 + 1) (min segMin t) (max segMax t)         -- `continue`
    else
      scan sparse segMax0 rest (writeSeg pts (min segMin t) (max segMax t) pos0 (pos1 + 1)) (pos1 + 1) (pos1 + 1)
        maxI64 segMax0

/-- the Points-level `rebuildIndexInt` over the confirmed records `tss`: no tree for an empty chunk, otherwise the root
interval `((t0,0),(t0,0))` followed by the scan of all records -/
def rebuildPts (sparse : Nat) (segMax0 : Int) (tss : List Int) : List Pt :=
  match tss with
  | [] => []
  | t0 :: _ => scan sparse segMax0 tss (add [] ⟨⟨t0, 0⟩, ⟨t0, 0⟩⟩) 0 0 maxI64 segMax0

/-- `rInfo` of `rebuildIndexInt`: `{0,0}` for an empty chunk, otherwise min / max over all records starting from the
first one -/
def scannedHull : List Int → Hull
  | [] => ⟨0, 0⟩
  | t0 :: rest => ⟨(t0 :: rest).foldl min t0, (t0 :: rest).foldl max t0⟩

/-- `rebuildIndex` (unconditional: the decision whether to rebuild is the caller's) followed by `res.update(rInfo)`.
A chunk the index does not know (`hull = none`: no notification yet) is left alone (`res == nil`). `n` is unchanged. -/
def rebuild (sparse : Nat) (segMax0 : Int) (c : ChunkIdx) (tss : List Int) : ChunkIdx :=
  match c.hull with
  | none => c
  | some h =>
    { c with pts := rebuildPts sparse segMax0 tss, corrupted := false, lastRec := 0,
             hull := some ⟨min h.minTs (scannedHull tss).minTs, max h.maxTs (scannedHull tss).maxTs⟩ }

/-- one event of a chunk's history: a write notification of `k` records with hull `[mn, mx]`, or a rebuild that reads the
first `m` (confirmed) records, `m ≤ n` -/
inductive Op
  | write (k : Nat) (mn mx : Int)
  | rebuild (m : Nat)
deriving DecidableEq, Repr

def step (sparse bigGap : Nat) (segMax0 : Int) (tsOf : Nat → Int) (c : ChunkIdx) : Op → ChunkIdx
  | .write k mn mx => onWrite sparse bigGap c k mn mx
  | .rebuild m => rebuild sparse segMax0 c ((List.range (min m c.n)).map tsOf)

def runOpsFrom (sparse bigGap : Nat) (segMax0 : Int) (tsOf : Nat → Int) (c : ChunkIdx) (ops : List Op) : ChunkIdx :=
  ops.foldl (step sparse bigGap segMax0 tsOf) c

def runOps (sparse bigGap : Nat) (segMax0 : Int) (tsOf : Nat → Int) (ops : List Op) : ChunkIdx :=
  runOpsFrom sparse bigGap segMax0 tsOf {} ops

/-- number of records an event adds to the chunk -/
def Op.recs : Op → Nat
  | .write k _ _ => k
  | .rebuild _ => 0

/-- number of records written by `ops` -/
def totalOps : List Op → Nat
  | [] => 0
  | op :: r => op.recs + totalOps r

/-- the hull a write notification carries for the `k` records at positions `a … a+k-1`: it contains them, its maximum is
attained, its minimum is attained EXCEPT possibly on the first notification of a chunk (`a = 0`: a `Write` call that
rolls over into a new chunk reports the minimum of the whole call so far — over-wide, never too narrow) -/
def RollHull (tsOf : Nat → Int) (a k : Nat) (mn mx : Int) : Prop :=
  (∀ q, a ≤ q → q < a + k → mn ≤ tsOf q ∧ tsOf q ≤ mx) ∧ (∃ q, a ≤ q ∧ q < a + k ∧ tsOf q = mx) ∧
  (a = 0 ∨ ∃ q, a ≤ q ∧ q < a + k ∧ tsOf q = mn) ∧ minI64 ≤ mn

/-- what one event must satisfy when the chunk holds `a` records: a write is non-empty and carries a `RollHull`;
a rebuild may read any prefix (`step` caps `m` at `n`) -/
def OpOk (tsOf : Nat → Int) (a : Nat) : Op → Prop
  | .write k mn mx => 0 < k ∧ RollHull tsOf a k mn mx
  | .rebuild _ => True

/-- every event of the history, started on a chunk holding `a` records, is `OpOk` -/
def OpsExact (tsOf : Nat → Int) : Nat → List Op → Prop
  | _, [] => True
  | a, op :: r => OpOk tsOf a op ∧ OpsExact tsOf (a + op.recs) r

end Logrange.RebuildHist
