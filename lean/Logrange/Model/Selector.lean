import Logrange.Model.CIndex
import Logrange.Model.Points
/-!
# C02 — `pkg/partition/cselector.go`: chunk status, position checks, `updatePoss`; and the library chunk iterator

* `ChkSt` = `chkStatus {minPos, maxPos, count}`; `checkAdvance` = `checkPosOrAdvance`, `checkReduce` =
  `checkPosOrReduce` (uint32 arithmetic: `count − 1` wraps for an empty chunk).
* `updatePossWith` = `chkSelector.updatePoss`, generic in the two answers of the `TsIndexer`
  (`CIndex.Ans`: a position or an error); any error gives the whole-chunk bound on that side and asks the rebuilder.
  The lower bound handed to the index is `Points.lowerAsk` (since fix 94ffdf8: `MinTs − 1`).
* `CIt`, `ciSetPos`, `ciGet`, `ciNext`: the chunk iterator of `github.com/logrange/range` as observed (position clamped to
  `[-1, count]`, `Get` in backward mode pulls a position `≥ count` down to `count − 1`, …) — contract validated by the
  round-0 prototype against the real library on 10 586 steps.
-/
namespace Logrange.Selector
open Logrange

def maxU32 : Nat := 4294967295

structure ChkSt where
  minPos : Nat := 0
  maxPos : Nat := 0
  count : Nat := 0
deriving Inhabited, DecidableEq, Repr

/-- `chkStatus.checkPosOrAdvance` -/
def checkAdvance (st : ChkSt) (pos : Nat) : Nat × Bool :=
  let pos := if pos < st.minPos then st.minPos else pos
  if pos ≥ st.count || pos > st.maxPos then (st.count, false) else (pos, true)

/-- `chkStatus.checkPosOrReduce` -/
def checkReduce (st : ChkSt) (pos : Nat) : Nat × Bool :=
  let pos := if pos > st.maxPos then st.maxPos else pos
  let pos := if pos ≥ st.count then (st.count + 4294967296 - 1) % 4294967296 else pos
  (pos, pos ≥ st.minPos && st.count > 0)

/-- which timestamps `updatePoss` hands to `GetPosForGreaterOrEqualTime` / `GetPosForLessTime` (`none` = not asked) -/
def asks (rmin rmax : Int) (hmin hmax : Int) : Option Int × Option Int :=
  if rmax < hmin || rmin > hmax then (none, none)
  else (if rmin ≥ hmin then some (Points.lowerAsk rmin) else none, if rmax ≤ hmax then some rmax else none)

/-- `chkSelector.updatePoss` given the chunk's hull and the index' two answers (functions of the asked timestamp).
Returns the new window and how many rebuild requests were sent. -/
def updatePossWith (rmin rmax : Int) (hmin hmax : Int) (grEq less : Int → CIndex.Ans) (st : ChkSt) : ChkSt × Nat :=
  if rmax < hmin || rmin > hmax then ({ st with minPos := maxU32, maxPos := maxU32 }, 0)
  else
    let (ag, al) := asks rmin rmax hmin hmax
    let (mn, k1) :=
      match ag with
      | some t =>
        (match grEq t with
         | .ok p => (p, 0)
         | _ => (Generated.C02.updatePossLowerErrPos, 1))     -- regenerated: 0
      | none => (0, 0)
    let (mx, k2) :=
      match al with
      | some t =>
        (match less t with
         | .ok p => (p, 0)
         | _ => (Generated.C02.updatePossUpperErrPos, 1))     -- regenerated: MaxUint32
      | none => (maxU32, 0)
    ({ st with minPos := mn, maxPos := mx }, k1 + k2)

/-! ## chunks and the chunk iterator -/

structure JChunk where
  id : Nat
  cnt : Nat
deriving Repr, Inhabited

abbrev Journal := Array JChunk     -- sorted by id

structure CIt where
  chunk : Nat         -- chunk id it is open on
  pos : Int := 0
  cached : Bool := false
deriving Repr

def findChunk (j : Journal) (id : Nat) : Option JChunk := j.find? (·.id == id)
def cntOf (j : Journal) (id : Nat) : Nat := match findChunk j id with | some c => c.cnt | none => 0

/-- cIterator.SetPos -/
def ciSetPos (cnt : Nat) (c : CIt) (p : Int) : CIt :=
  if p == c.pos then c else
  let cnt : Int := cnt
  let p := if p > cnt then cnt else p
  let p := if p < 0 then -1 else p
  { c with pos := p, cached := false }

/-- cIterator.Get: (iterator, has a record at `pos`) -/
def ciGet (cnt : Nat) (bkwd : Bool) (c : CIt) : CIt × Bool :=
  let cntI : Int := cnt
  if c.cached then (c, true) else
  let c := if bkwd then (if c.pos ≥ cntI then ciSetPos cnt c (cntI - 1) else c) else (if c.pos < 0 then ciSetPos cnt c 0 else c)
  if c.pos < 0 ∨ c.pos ≥ cntI then (c, false)
  else ({ c with cached := true }, true)

def ciNext (cnt : Nat) (bkwd : Bool) (c : CIt) : CIt :=
  let (c, r) := ciGet cnt bkwd c
  let c := if r then (if bkwd then ciSetPos cnt c (c.pos - 1) else { c with pos := c.pos + 1 }) else c
  { c with cached := false }

end Logrange.Selector
