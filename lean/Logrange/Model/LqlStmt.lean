import Logrange.Model.LqlFindings
/-!
# Every LQL statement kind as a direct parser over tokens, and `tokensOf` for whole statements

Same language and same AST as the participle engine on the regenerated grammar with root `Lql`, followed by the typed
application of the captures and the post-check of `ParseLql` (compared with the engine and with the real
`lql.ParseLql` on every generated and mutated statement of every run: field `td` of the driver's `stmt` answer).
`toksLql` is the token sequence `Lql.String()` lexes to. The round-trip theorems are in `Proofs/LqlStmt.lean`.

Engine behaviours reproduced here: a clause struct that matched emptily is nil (bare `SELECT`, `SHOW`, `DESCRIBE` give
an `Lql` with every field nil), whereas `Truncate`, `Partitions`, `Pipes` (unguarded `(@@)?` source: values survive
the swallowed error) and `Create`, `Delete` (a single optional group) are non-nil even when nothing follows.
-/
namespace Logrange.Lql

def kwSELECT : Bytes := [83, 69, 76, 69, 67, 84]
def kwDESCRIBE : Bytes := [68, 69, 83, 67, 82, 73, 66, 69]
def kwSHOW : Bytes := [83, 72, 79, 87]
def kwCREATE : Bytes := [67, 82, 69, 65, 84, 69]
def kwDELETE : Bytes := [68, 69, 76, 69, 84, 69]
def kwFROM : Bytes := [70, 82, 79, 77]
def kwRANGE : Bytes := [82, 65, 78, 71, 69]
def kwWHERE : Bytes := [87, 72, 69, 82, 69]
def kwPOSITION : Bytes := [80, 79, 83, 73, 84, 73, 79, 78]
def kwOFFSET : Bytes := [79, 70, 70, 83, 69, 84]
def kwLIMIT : Bytes := [76, 73, 77, 73, 84]
def kwPARTITION : Bytes := [80, 65, 82, 84, 73, 84, 73, 79, 78]
def kwPARTITIONS : Bytes := [80, 65, 82, 84, 73, 84, 73, 79, 78, 83]
def kwPIPE : Bytes := [80, 73, 80, 69]
def kwPIPES : Bytes := [80, 73, 80, 69, 83]
def kwTAIL : Bytes := [84, 65, 73, 76]
def kwHEAD : Bytes := [72, 69, 65, 68]
def kwLBR : Bytes := [91]
def kwRBR : Bytes := [93]
def kwCOLON : Bytes := [58]

/-- a guarded optional clause `("KW" body)?`: once the keyword matched the body must parse -/
def dKwClause {α : Type} (kw : Bytes) (body : List Tok → Option (α × List Tok)) : List Tok → Option (Option α × List Tok)
  | [] => some (none, [])
  | t :: r =>
    if litMatch t kw then
      match body r with
      | some (a, r') => some (some a, r')
      | none => none
    else some (none, t :: r)

def kwClauseToks {α : Type} (kw : Bytes) (bodyToks : α → List Tok) : Option α → List Tok
  | none => []
  | some a => tKw kw :: bodyToks a

/-- `@Number` into `*int64` / `*int` (`strconv.ParseInt(s, 0, 64)`) -/
def dIntTok : List Tok → Option (Int × List Tok)
  | [] => none
  | n :: r => if n.t == .number then (match parseInt0 n.v with | some i => some (i, r) | none => none) else none
def intTokToks (i : Int) : List Tok := [⟨.number, decInt i⟩]

/-- `Position`: `(@"TAIL"|@"HEAD"|@String|@Ident)` — every alternative captures the token's text -/
def dPosTok : List Tok → Option (Bytes × List Tok)
  | [] => none
  | t :: r => if litMatch t kwTAIL || litMatch t kwHEAD || t.t == .string || t.t == .ident then some (t.v, r) else none
def posTokToks (p : Bytes) : List Tok := [⟨.string, p⟩]

/-- an optional literal `("lit")?` -/
def dOptLit (kw : Bytes) : List Tok → Bool × List Tok
  | [] => (false, [])
  | t :: r => if litMatch t kw then (true, r) else (false, t :: r)

/-- `(@String)?` into a `*DateTime` (capture through the opaque date parser `dp`; a failing capture fails the parse) -/
def dOptDate (dp : Bytes → Option Int) : List Tok → Option (Option Int × List Tok)
  | [] => some (none, [])
  | s :: r =>
    if s.t == .string then (match dp s.v with | some v => some (some v, r) | none => none) else some (none, s :: r)

/-- `(":" @String "]")?` -/
def dRangeTail (dp : Bytes → Option Int) : List Tok → Option (Option Int × List Tok)
  | [] => some (none, [])
  | c :: r =>
    if litMatch c kwCOLON then
      match r with
      | s :: q :: r' =>
        if s.t == .string && litMatch q kwRBR then (match dp s.v with | some v => some (some v, r') | none => none) else none
      | _ => none
    else some (none, c :: r)

/-- `Range`: `("[")? (@String)? (":" @String "]")?`; the struct must not match emptily, and `ParseLql`'s post-check
(regenerated fact) rejects a Range without any time point -/
def dRangeBody (dp : Bytes → Option Int) (toks : List Tok) : Option (Range × List Tok) :=
  match dOptDate dp (dOptLit kwLBR toks).2 with
  | none => none
  | some (p1, t2) =>
    match dRangeTail dp t2 with
    | none => none
    | some (p2, t3) =>
      if !(dOptLit kwLBR toks).1 && p1.isNone && p2.isNone then none      -- matched emptily: `"RANGE" @@` fails
      else if Logrange.Generated.C12.parseLqlRejectsEmptyRange && p1.isNone && p2.isNone then none
      else some (⟨p1, p2⟩, t3)

def dateTok (rd : Int → Bytes) (v : Int) : Tok := ⟨.string, rd v⟩
def optDateToks (rd : Int → Bytes) : Option Int → List Tok
  | none => []
  | some v => [dateTok rd v]
def rangeTailToks (rd : Int → Bytes) : Option Int → List Tok
  | none => []
  | some v => [tKw kwCOLON, dateTok rd v, tKw kwRBR]
/-- what `Range.makeString` prints: one quoted instant, or `[` (instant)? `:` instant `]` -/
def rangeToks (rd : Int → Bytes) (r : Range) : List Tok :=
  (if r.p2.isSome then [tKw kwLBR] else []) ++ (optDateToks rd r.p1 ++ rangeTailToks rd r.p2)

/-- `(@String)?` into `*string` (the SELECT format) -/
def dOptFormat : List Tok → Option Bytes × List Tok
  | [] => (none, [])
  | t :: r => if t.t == .string then (some t.v, r) else (none, t :: r)

/-- `Select`: `(@String)? ("FROM" @@)? ("RANGE" @@)? ("WHERE" @@)? ("POSITION" @@)? ("OFFSET" @Number)? ("LIMIT" @Number)?` -/
def dSelectBody (dp : Bytes → Option Int) (f : Nat) (toks : List Tok) : Option Select :=
  match dKwClause kwFROM (dSource f) (dOptFormat toks).2 with
  | none => none
  | some (src, t1) =>
    match dKwClause kwRANGE (dRangeBody dp) t1 with
    | none => none
    | some (rng, t2) =>
      match dKwClause kwWHERE (dExpr f) t2 with
      | none => none
      | some (wh, t3) =>
        match dKwClause kwPOSITION dPosTok t3 with
        | none => none
        | some (pos, t4) =>
          match dKwClause kwOFFSET dIntTok t4 with
          | none => none
          | some (off, t5) =>
            match dKwClause kwLIMIT dIntTok t5 with
            | some (lim, []) => some { format := (dOptFormat toks).1, source := src, range := rng, where_ := wh, position := pos, offset := off, limit := lim }
            | _ => none

def isEmptySelect (s : Select) : Bool :=
  s.format.isNone && s.source.isNone && s.range.isNone && s.where_.isNone && s.position.isNone && s.offset.isNone && s.limit.isNone

/-- `Partitions` / `Pipes`: `(@@)? ("OFFSET" @Number)? ("LIMIT" @Number)?` (unguarded source as in `Truncate`) -/
def dSrcOffLim (f : Nat) (toks : List Tok) : Option (Option Source × Option Int × Option Int) :=
  match dOptSource f toks with
  | none => none
  | some (src, t1) =>
    match dKwClause kwOFFSET dIntTok t1 with
    | none => none
    | some (off, t2) =>
      match dKwClause kwLIMIT dIntTok t2 with
      | some (lim, []) => some (src, off, lim)
      | _ => none

/-- `Pipe`: `"PIPE" @Ident ("FROM" @@)? ("WHERE" @@)?` -/
def dPipeBody (f : Nat) : List Tok → Option Pipe
  | p :: n :: r =>
    if litMatch p kwPIPE && n.t == .ident then
      match dKwClause kwFROM (dSource f) r with
      | none => none
      | some (src, t1) =>
        match dKwClause kwWHERE (dExpr f) t1 with
        | some (wh, []) => some { name := n.v, from_ := src, where_ := wh }
        | _ => none
    else none
  | _ => none

/-- after `DESCRIBE`: nothing (every field of `Lql` stays nil), `PARTITION {tags}` or `PIPE name` -/
def dDescribeRest : List Tok → Option Lql
  | [] => some {}
  | p :: r =>
    match r with
    | [] => none
    | x :: r' =>
      match r' with
      | _ :: _ => none
      | [] =>
        if litMatch p kwPARTITION && x.t == .tags then
          (match KV.tagParse x.v with | some m => some { describe := some { partition := some m } } | none => none)
        else if litMatch p kwPIPE && x.t == .ident then some { describe := some { pipe := some x.v } }
        else none

/-- after `SHOW`: nothing, `PARTITIONS …` or `PIPES …` -/
def dShowRest (f : Nat) : List Tok → Option Lql
  | [] => some {}
  | k :: r' =>
    if litMatch k kwPARTITIONS then
      (match dSrcOffLim f r' with
       | some (s, o, l) => some { show_ := some { partitions := some { source := s, offset := o, limit := l } } }
       | none => none)
    else if litMatch k kwPIPES then
      (match dSrcOffLim f r' with
       | some (s, o, l) => some { show_ := some { pipes := some { void := s, offset := o, limit := l } } }
       | none => none)
    else none

/-- after `CREATE`: nothing (`Create` with a nil pipe) or the pipe definition -/
def dCreateRest (f : Nat) : List Tok → Option Lql
  | [] => some { create := some {} }
  | t :: r => match dPipeBody f (t :: r) with | some p => some { create := some { pipe := some p } } | none => none

/-- after `DELETE`: nothing or `PIPE name` -/
def dDeleteRest : List Tok → Option Lql
  | [] => some { delete := some {} }
  | p :: r =>
    match r with
    | [] => none
    | n :: r' =>
      match r' with
      | _ :: _ => none
      | [] => if litMatch p kwPIPE && n.t == .ident then some { delete := some { pipeName := some n.v } } else none

def dSelectRest (dp : Bytes → Option Int) (f : Nat) (r : List Tok) : Option Lql :=
  match dSelectBody dp f r with
  | some s => if isEmptySelect s then some {} else some { select := some s }
  | none => none

def dTruncateRest (dp : Bytes → Option Int) (f : Nat) (r : List Tok) : Option Lql :=
  match dTruncBody dp f r with
  | some tr => some { truncate := some tr }
  | none => none

/-- `lql.ParseLql` on tokens: first-match over the six statement keywords, then the statement's struct; every token
must be consumed -/
def directLqlFuel (dp : Bytes → Option Int) (f : Nat) : List Tok → Option Lql
  | [] => none
  | t :: r =>
    if litMatch t kwSELECT then dSelectRest dp f r
    else if litMatch t kwDESCRIBE then dDescribeRest r
    else if litMatch t kwTRUNCATE then dTruncateRest dp f r
    else if litMatch t kwSHOW then dShowRest f r
    else if litMatch t kwCREATE then dCreateRest f r
    else if litMatch t kwDELETE then dDeleteRest r
    else none

def directLql (dp : Bytes → Option Int) (toks : List Tok) : Option Lql := directLqlFuel dp (directFuel toks) toks

/-! ## tokensOf for whole statements (what `Lql.String()` lexes to) -/

def formatToks : Option Bytes → List Tok
  | none => []
  | some f => if f.isEmpty then [] else [⟨.string, f⟩]

def selectTail4 (s : Select) : List Tok :=
  kwClauseToks kwPOSITION posTokToks s.position ++ (kwClauseToks kwOFFSET intTokToks s.offset ++ kwClauseToks kwLIMIT intTokToks s.limit)

def toksSelect (rd : Int → Bytes) (s : Select) : List Tok :=
  formatToks s.format ++ (kwClauseToks kwFROM toksSource s.source ++ (kwClauseToks kwRANGE (rangeToks rd) s.range
    ++ (kwClauseToks kwWHERE toksExpr s.where_ ++ selectTail4 s)))

def offLimToks (off lim : Option Int) : List Tok :=
  kwClauseToks kwOFFSET intTokToks off ++ kwClauseToks kwLIMIT intTokToks lim

def toksPipe (p : Pipe) : List Tok :=
  tKw kwPIPE :: ⟨.ident, p.name⟩ :: (kwClauseToks kwFROM toksSource p.from_ ++ kwClauseToks kwWHERE toksExpr p.where_)

def tagsTok (m : TagMap) : Tok := ⟨.tags, KV.LB :: (KV.line m ++ [KV.RB])⟩

def toksShow (s : ShowS) : List Tok :=
  match s.partitions, s.pipes with
  | some p, _ => tKw kwPARTITIONS :: (optSourceToks p.source ++ offLimToks p.offset p.limit)
  | none, some p => tKw kwPIPES :: offLimToks p.offset p.limit          -- `Pipes.Void` is never printed
  | none, none => []

def toksDescribe (d : Describe) : List Tok :=
  match d.partition, d.pipe with
  | some m, _ => [tKw kwPARTITION, tagsTok m]
  | none, some n => [tKw kwPIPE, ⟨.ident, n⟩]
  | none, none => []

/-- in the order `Lql.String()` concatenates the six printers (at most one is non-nil in the parser's image) -/
def toksLql (rd : Int → Bytes) (l : Lql) : List Tok :=
  (match l.select with | some s => tKw kwSELECT :: toksSelect rd s | none => [])
  ++ (match l.describe with | some d => tKw kwDESCRIBE :: toksDescribe d | none => [])
  ++ (match l.truncate with | some t => toksTruncate rd t | none => [])
  ++ (match l.show_ with | some s => tKw kwSHOW :: toksShow s | none => [])
  ++ (match l.create with | some c => tKw kwCREATE :: (match c.pipe with | some p => toksPipe p | none => []) | none => [])
  ++ (match l.delete with | some d => tKw kwDELETE :: (match d.pipeName with | some n => [tKw kwPIPE, ⟨.ident, n⟩] | none => []) | none => [])

end Logrange.Lql
