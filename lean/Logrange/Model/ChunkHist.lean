import Logrange.Model.Points
/-!
# One chunk's time index over a write history (`cindex.onWrite`, abstract `Points` level)

`onWrite` mirrors `pkg/tmindex/cindex.go: onWrite` for one chunk: the hull `[MinTs, MaxTs]` is widened first; a chunk
that is already corrupted only keeps its hull; a batch that ends fewer than `sparseSpace` records after the last indexed
record is skipped; a chunk that has no index root yet and is notified more than `20·sparseSpace` records late is marked
corrupted (index dropped); otherwise the interval of the batch is handed to `addInterval` (`Points.add`).
Only core Lean; everything is computable.
-/
namespace Logrange.ChunkHist
open Logrange.Points

/-- abstract state of one chunk in the chunk index -/
structure ChunkIdx where
  n : Nat := 0                 -- records written to the chunk so far
  pts : List Pt := []          -- the level-0 points of its index tree
  hull : Option Hull := none   -- MinTs/MaxTs (none before the first write)
  lastRec : Nat := 0           -- position of the last indexed record
  corrupted : Bool := false    -- index dropped (look-ups answer ErrTmIndexCorrupted)
deriving DecidableEq, Repr

/-- the hull after a batch with hull `[mn, mx]` -/
def newHull (old : Option Hull) (mn mx : Int) : Hull :=
  match old with
  | none => ⟨mn, mx⟩
  | some h => ⟨min h.minTs mn, max h.maxTs mx⟩

/-- one OnWrite notification: `k ≥ 1` new records at positions `n … n+k-1` with the batch hull `[mn, mx]` -/
def onWrite (sparse bigGap : Nat) (c : ChunkIdx) (k : Nat) (mn mx : Int) : ChunkIdx :=
  let first := c.n
  let last := c.n + k - 1
  let hull : Hull := newHull c.hull mn mx
  if c.corrupted = true then { c with n := c.n + k, hull := some hull }
  else if c.lastRec > 0 ∧ last - c.lastRec < sparse then { c with n := c.n + k, hull := some hull }
  else if c.pts = [] ∧ last - c.lastRec > bigGap then
    { c with n := c.n + k, hull := some hull, corrupted := true, pts := [] }
  else { c with n := c.n + k, hull := some hull, pts := add c.pts ⟨⟨mn, first⟩, ⟨mx, last⟩⟩, lastRec := last }

/-- the index as the selector sees it -/
def idxOf (c : ChunkIdx) : Option (List Pt) := if c.corrupted then none else some c.pts

structure Batch where
  k : Nat
  mn : Int
  mx : Int
deriving DecidableEq, Repr

/-- the chunk index after the notifications `bs`, starting from `c` -/
def runFrom (sparse bigGap : Nat) (c : ChunkIdx) (bs : List Batch) : ChunkIdx :=
  bs.foldl (fun c b => onWrite sparse bigGap c b.k b.mn b.mx) c

/-- the chunk index after the notifications `bs` of a fresh chunk -/
def run (sparse bigGap : Nat) (bs : List Batch) : ChunkIdx := runFrom sparse bigGap {} bs

/-- number of records written by `bs` -/
def total (bs : List Batch) : Nat := (bs.map (·.k)).sum

/-- `[mn, mx]` is the exact hull of the `k` records at positions `a … a+k-1` -/
def ExactHull (tsOf : Nat → Int) (a k : Nat) (mn mx : Int) : Prop :=
  (∀ q, a ≤ q → q < a + k → mn ≤ tsOf q ∧ tsOf q ≤ mx) ∧
  (∃ q, a ≤ q ∧ q < a + k ∧ tsOf q = mx) ∧
  (∃ q, a ≤ q ∧ q < a + k ∧ tsOf q = mn)

/-- every batch of the history, written from position `a` on, is non-empty and carries its exact hull -/
def BatchesExact (tsOf : Nat → Int) : Nat → List Batch → Prop
  | _, [] => True
  | a, b :: r => 0 < b.k ∧ ExactHull tsOf a b.k b.mn b.mx ∧ BatchesExact tsOf (a + b.k) r

end Logrange.ChunkHist
