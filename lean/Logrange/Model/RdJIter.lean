import Logrange.Model.RdJournal
/-!
# The library's chunk iterator and journal iterator (contract A.1 / A.2 of DESIGN.md)

`chunkfs.cIterator` and `journal.JIterator` of github.com/logrange/range, function by function, as state
machines over a journal value that is passed to every call (so it may have grown since the last one).
Un-ranged reads use this iterator (`itfactory.Itearator` with a nil range).
-/
namespace Logrange.Rd

/-- `cIterator`: `pos ∈ [-1, cnt]`, `cached` = `res != nil` -/
structure CIt where
  chunk : Nat
  pos : Int := 0
  cached : Bool := false
deriving Repr, DecidableEq

/-- `cIterator.SetPos` -/
def ciSetPos (j : Journal) (c : CIt) (p : Int) : CIt :=
  if p = c.pos then c else
  let cnt : Int := cntOf j c.chunk
  let p := if p > cnt then cnt else p
  let p := if p < 0 then -1 else p
  { c with pos := p, cached := false }

/-- `cIterator.Get` (`none` = io.EOF) -/
def ciGet (j : Journal) (bkwd : Bool) (c : CIt) : CIt × Option Rec :=
  if c.cached then (c, recAt j c.chunk c.pos.toNat) else
  let cnt : Int := cntOf j c.chunk
  let c := if bkwd then (if c.pos ≥ cnt then ciSetPos j c (cnt - 1) else c)
           else (if c.pos < 0 then ciSetPos j c 0 else c)
  if c.pos < 0 ∨ c.pos ≥ cnt then (c, none)
  else ({ c with cached := true }, recAt j c.chunk c.pos.toNat)

/-- `cIterator.Next` -/
def ciNext (j : Journal) (bkwd : Bool) (c : CIt) : CIt :=
  let (c, r) := ciGet j bkwd c
  let c := match r with
    | some _ => if bkwd then ciSetPos j c (c.pos - 1) else { c with pos := c.pos + 1 }
    | none => c
  { c with cached := false }

/-- `journal.JIterator` -/
structure It where
  cid : Nat := 0
  idx : Nat := 0
  ci : Option CIt := none
  bkwd : Bool := false
deriving Repr, DecidableEq

/-- `getChunkByIdOrGreater`: first chunk with id ≥ cid, else the last chunk -/
def orGreater (j : Journal) (cid : Nat) : Option Chunk :=
  match j.find? (fun c => cid ≤ c.id) with
  | some c => some c
  | none => j.getLast?

/-- `getChunkByIdOrLess`: last chunk with id ≤ cid, nil when the first chunk is already greater -/
def orLess (j : Journal) (cid : Nat) : Option Chunk :=
  match j with
  | [] => none
  | c0 :: _ => if c0.id > cid then none else (j.filter (fun c => c.id ≤ cid)).getLast?

/-- `ensureChkIt`; the flag is io.EOF -/
def ensure (j : Journal) (it : It) : It × Bool :=
  match it.ci with
  | some _ => (it, false)
  | none =>
    match (if it.bkwd then orLess j it.cid else orGreater j it.cid) with
    | none => (it, true)
    | some chk =>
      let it1 := if chk.id < it.cid then { it with cid := chk.id, idx := chk.cnt } else it
      if chk.id < it.cid ∧ ¬ it.bkwd then (it1, true) else
      let it2 := if chk.id > it1.cid then { it1 with cid := chk.id, idx := 0 } else it1
      let c := ciSetPos j { chunk := chk.id } it2.idx
      ({ it2 with ci := some c, idx := c.pos.toNat }, false)

/-- `advanceChunk` -/
def advance (j : Journal) (it : It) : It × Bool :=
  let it := { it with ci := none }
  let it := if it.bkwd then { it with cid := it.cid - 1, idx := maxU32 } else { it with cid := it.cid + 1, idx := 0 }
  ensure j it

/-- the `for err == io.EOF { advanceChunk … }` loop of `Get`; every round opens a chunk further on in the
list, so `j.length + 1` rounds are enough (the real loop has no bound) -/
def getLoop (j : Journal) : Nat → It → It × Option Rec
  | 0, it => (it, none)
  | fuel + 1, it =>
    match it.ci with
    | none => (it, none)
    | some c =>
      let (c', r) := ciGet j it.bkwd c
      match r with
      | some l => ({ it with ci := some c' }, some l)
      | none =>
        let (it', eof) := advance j { it with ci := some c' }
        if eof then (it', none) else getLoop j fuel it'

/-- `JIterator.Get` -/
def get (j : Journal) (it : It) : It × Option Rec :=
  let (it, eof) := ensure j it
  if eof then (it, none) else getLoop j (j.length + 2) it

/-- `JIterator.Next` -/
def next (j : Journal) (it : It) : It :=
  let (it, _) := get j it
  match it.ci with
  | none => it
  | some c =>
    let c' := ciNext j it.bkwd c
    if c'.pos < 0 then (advance j { it with ci := some c' }).1
    else { it with ci := some c', idx := c'.pos.toNat }

/-- `JIterator.SetPos` -/
def setPos (j : Journal) (it : It) (p : Pos) : It :=
  if p.cid = it.cid ∧ p.idx = it.idx then it else
  let it := if p.cid ≠ it.cid then { it with ci := none } else it
  let it := match it.ci with
    | some c => { it with ci := some (ciSetPos j c p.idx) }
    | none => it
  { it with cid := p.cid, idx := p.idx }

/-- `JIterator.SetBackward` (the chunk iterator takes the flag from the journal iterator at every call here) -/
def setBackward (it : It) (b : Bool) : It := { it with bkwd := b }

/-- `JIterator.Release`: the chunk iterator drops its buffered record -/
def release (it : It) : It :=
  match it.ci with
  | some c => { it with ci := some { c with cached := false } }
  | none => it

def It.pos (it : It) : Pos := ⟨it.cid, it.idx⟩

end Logrange.Rd
