import Logrange.Model.ITree
/-!
# C02 — `pkg/tmindex/cindex.go` for one partition: per-chunk hull, index root, `lastRec`, `corrupted`

`onWrite` (hull update; a chunk first seen with `firstRec > 0` is corrupted; skip when fewer than `sparseSpace`
records arrived since the last point; a first interval spanning more than `sparseSpace·20` records is corrupted;
otherwise `arrangeRoot` / `ckiCtrlr.onWrite` on the block tree), `getPosForGreaterOrEqualTime`, `getPosForLessTime`
(hull short-cuts, `errAllMatches`, MaxUint32), `getRecordsInfo`, `rebuildIndex`/`rebuildIndexInt` (segments of
`sparseSpace` records, exclusive end position, segment maximum starting from `Generated.C02.rebuildSegmentMaxInit` = 0: finding #41), `readData`.
The tree of a chunk is the inductive model `ITree.T` (the one the tree theorems are proved about; compared with the real
block tree — and with the array model `IdxTree` — in the harness section `tree`).
-/
namespace Logrange.CIndex
open Logrange

def sparseSpace : Nat := Generated.C02.sparseSpace
def bigGap : Nat := Generated.C02.sparseSpace * Generated.C02.bigGapFactor
def maxU32 : Nat := 4294967295
def u32sub (a b : Nat) : Nat := (a + 4294967296 - b) % 4294967296

structure Chk where
  id : Nat
  minTs : Int
  maxTs : Int
  root : Option ITree.T := none
  lastRec : Nat := 0
  corrupted : Bool := false
  recs : Nat := 0                  -- `Recs`: number of the chunk's records the hull accounts for (0 = unknown)
  loaded : Bool := false           -- read from the snapshot file and not yet compared with the chunk / written (7ea0278)
deriving Inhabited

structure St where
  chunks : List Chk := []          -- in insertion order (the code appends)

inductive R | ok | corrupted
deriving DecidableEq

def updLast (cs : List Chk) (f : Chk → Chk) : List Chk :=
  match cs.reverse with
  | [] => []
  | l :: r => (f l :: r).reverse

def updChk (cs : List Chk) (cid : Nat) (f : Chk → Chk) : List Chk :=
  cs.map (fun c => if c.id == cid then f c else c)

def onWrite (s : St) (first last : Nat) (cid : Nat) (mn mx : Int) : St × R :=
  let (chunks, newChk) :=
    match s.chunks.getLast? with
    | none => ([({ id := cid, minTs := mn, maxTs := mx } : Chk)], true)
    | some l =>
      if l.id != cid then (s.chunks ++ [({ id := cid, minTs := mn, maxTs := mx } : Chk)], true)
      else
        -- a snapshot entry that does not account for the records in front of the batch: as a chunk notified from the middle
        let middle := Generated.C02.staleDropOnlyForSnapshotEntries && l.loaded && first > l.recs
        (updLast s.chunks (fun c => { c with minTs := min c.minTs mn, maxTs := max c.maxTs mx, loaded := false }), middle)
  -- proposed repair of F-C02-901: "late" is decided by `Recs` as it was before this notification
  let late := Generated.C02.onWriteLateByRecs && decide (last + 1 ≤ (match chunks.getLast? with | some l => l.recs | none => 0))
  let chunks := updLast chunks (fun c => { c with recs := if Generated.C02.onWriteRecsNeverDecrease then max c.recs (last + 1) else last + 1 })
  let s := { s with chunks := chunks }
  match chunks.getLast? with
  | none => (s, .ok)
  | some l =>
    if l.corrupted then (s, .corrupted)
    else if newChk && first > 0 then ({ s with chunks := updLast chunks (fun c => { c with corrupted := true, root := none }) }, .corrupted)
    else if late || l.lastRec > 0 && ((Generated.C02.onWriteSkipsLateNotification && last ≤ l.lastRec) ||
        (if Generated.C02.onWriteSkipIsStrictLess then u32sub last l.lastRec < sparseSpace else u32sub last l.lastRec ≤ sparseSpace)) then (s, .ok)
    else
      let it : Points.Iv := ⟨⟨mn, first⟩, ⟨mx, last⟩⟩
      match l.root with
      | none =>
        if u32sub last l.lastRec > bigGap then
          ({ s with chunks := updLast chunks (fun c => { c with corrupted := true, root := none }) }, .corrupted)
        else
          let r := ITree.add ITree.maxRecs (.leaf []) it
          ({ chunks := updLast chunks (fun c => { c with root := r, lastRec := last }) }, .ok)
      | some root =>
        match ITree.add ITree.maxRecs root it with
        | some r' => ({ chunks := updLast chunks (fun c => { c with root := some r', lastRec := last }) }, .ok)
        | none => ({ chunks := updLast chunks (fun c => { c with root := none, corrupted := true, lastRec := last }) }, .corrupted)

def findChk (s : St) (cid : Nat) : Option Chk := s.chunks.find? (·.id == cid)

/-- answers of the two look-ups: `ok pos`, or one of the errors -/
inductive Ans | ok (pos : Nat) | notFound | outOfRange | corrupted
deriving DecidableEq, Repr

def Ans.str : Ans → String
  | .ok p => "ok " ++ toString p
  | .notFound => "notfound"
  | .outOfRange => "outofrange"
  | .corrupted => "corrupted"

def grEqAns (s : St) (cid : Nat) (ts : Int) : Ans :=
  match findChk s cid with
  | none => .notFound
  | some c =>
    if c.maxTs < ts then .outOfRange
    else if c.minTs ≥ ts then .ok 0
    else if c.corrupted then .corrupted
    else match c.root with
      | none => .corrupted
      | some r => match ITree.grEq r ts with
        | none => .ok 0
        | some x => .ok x.idx

def lessAns (s : St) (cid : Nat) (ts : Int) : Ans :=
  match findChk s cid with
  | none => .notFound
  | some c =>
    if c.maxTs ≤ ts then .ok maxU32
    else if c.minTs ≥ ts then .outOfRange
    else if c.corrupted then .corrupted
    else match c.root with
      | none => .ok maxU32
      | some r => match ITree.less r ts with
        | none => .ok maxU32
        | some x => .ok x.idx

def grEqPos (s : St) (cid : Nat) (ts : Int) : String := (grEqAns s cid ts).str
def lessPos (s : St) (cid : Nat) (ts : Int) : String := (lessAns s cid ts).str

def info (s : St) (cid : Nat) : String :=
  match findChk s cid with
  | none => "notfound"
  | some c => toString c.minTs ++ ":" ++ toString c.maxTs

/-- `readData`: the level-0 points of the chunk's tree (`corrupted` / `noindex` otherwise) -/
def points (s : St) (cid : Nat) : String :=
  match findChk s cid with
  | none => "notfound"
  | some c =>
    if c.corrupted then "corrupted" else
    match c.root with
    | none => "noindex"
    | some r =>
      let ivs : List Points.Iv := ITree.traversal r
      -- `readData`: p0 of every interval, then p1 of the last one (an empty traversal gives one zero record)
      let pts : List Points.Pt := match ivs.getLast? with
        | none => [⟨0, 0⟩]
        | some l => ivs.map (fun (i : Points.Iv) => i.p0) ++ [l.p1]
      ",".intercalate (pts.map (fun (p : Points.Pt) => toString p.ts ++ ":" ++ toString p.idx))

/-- `writeIndexInterval` (`none` = an earlier step failed) -/
def writeSeg (root : Option ITree.T) (segMin segMax : Int) (pos0 pos1 : Nat) : Option ITree.T :=
  match root with
  | none => none
  | some t => if pos0 == pos1 then some t else ITree.add ITree.maxRecs t ⟨⟨segMin, pos0⟩, ⟨segMax, pos1⟩⟩

def maxI64 : Int := 9223372036854775807

/-- `rebuildIndexInt` over the chunk's timestamps: (root, scanned min, scanned max); `none` root = empty chunk or error -/
def rebuildIntWith (segMax0 : Int) (tss : List Int) : Option ITree.T × Int × Int :=
  match tss with
  | [] => (none, 0, 0)
  | t0 :: _ =>
    let root := ITree.add ITree.maxRecs (.leaf []) ⟨⟨t0, 0⟩, ⟨t0, 0⟩⟩
    -- the loop re-reads record 0 (the iterator was not advanced after the first read)
    let rec go (ts : List Int) (root : Option ITree.T) (mn mx segMin segMax : Int) (pos0 pos1 : Nat) : Option ITree.T × Int × Int :=
      match ts with
      | [] => (writeSeg root segMin segMax pos0 pos1, mn, mx)
      | t :: rest =>
        match root with
        | none => (none, mn, mx)
        | some _ =>
          let mn := min mn t
          let mx := max mx t
          let segMin := min segMin t
          let segMax := max segMax t
          let pos1 := pos1 + 1
          if (if Generated.C02.rebuildSegmentIsStrictLess then pos1 - pos0 < sparseSpace else pos1 - pos0 ≤ sparseSpace) then go rest root mn mx segMin segMax pos0 pos1
          else go rest (writeSeg root segMin segMax pos0 pos1) mn mx maxI64 segMax0 pos1 pos1
    go tss root t0 t0 maxI64 segMax0 0 0

def rebuildInt (tss : List Int) := rebuildIntWith Generated.C02.rebuildSegmentMaxInit tss

/-- `rebuildIndex` (the decision part is the caller's: here the index is rebuilt unconditionally) followed by
`res.update(rInfo)` -/
def rebuildWith (segMax0 : Int) (s : St) (cid : Nat) (tss : List Int) : St :=
  match findChk s cid with
  | none => s
  | some _ =>
    let (root, mn, mx) := rebuildIntWith segMax0 tss
    match tss with
    | [] =>
      -- an empty chunk (nothing confirmed yet): `rInfo` stays {0, 0} and `update` merges it into the hull
      { chunks := updChk s.chunks cid (fun c => { c with root := none, corrupted := false, lastRec := 0, minTs := min c.minTs 0, maxTs := max c.maxTs 0 }) }
    | _ =>
      match root with
      | none => { chunks := updChk s.chunks cid (fun c => { c with root := none, corrupted := true }) }
      | some r =>
        -- proposed repair of F-C02-901: the hull accounts for every record the rebuild has scanned
        let recsOf (c : Chk) : Nat := if Generated.C02.rebuildRaisesRecs then max c.recs tss.length else c.recs
        { chunks := updChk s.chunks cid (fun c => { c with root := some r, corrupted := false, lastRec := 0, minTs := min c.minTs mn, maxTs := max c.maxTs mx, recs := recsOf c }) }

def rebuild (s : St) (cid : Nat) (tss : List Int) : St := rebuildWith Generated.C02.rebuildSegmentMaxInit s cid tss
/-- the rebuild a repair of finding #41 would give: the segment maximum starts below every timestamp -/
def rebuildRepaired (s : St) (cid : Nat) (tss : List Int) : St := rebuildWith (-9223372036854775808) s cid tss

end Logrange.CIndex
