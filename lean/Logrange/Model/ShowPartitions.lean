import Logrange.Model.Outcome
import Logrange.Generated.C13
/-!
# `SHOW PARTITIONS … OFFSET o LIMIT l` (C13, finding F55)

`backend.Admin.cmdShowPartitions` (pkg/backend/admin.go) takes OFFSET and LIMIT as the parser read them (`*int`: any int64, also
negative; default offset 0, default limit `math.MaxUint32`) and hands them to `partition.Service.Partitions`
(pkg/partition/partition.go), whose paging arithmetic over the sorted list `parts` (length `n`) is mirrored here as a total
function with a panic value:

```go
if limit > 1000 { limit = 1000 }
if offset >= len(parts) { return &PartitionsInfo{Count: len(parts), …}, nil }
sz := len(parts) - offset                      // int arithmetic: wraps for offset near MinInt64
if limit > sz { limit = sz }
res.Partitions = make([]*PartitionInfo, limit) // panics for limit < 0: "makeslice: len out of range"
for i := offset; limit > 0; i++ { res.Partitions[i-offset] = parts[i]; limit-- }   // parts[i] with i < 0 panics
```

`pageGo` is the copying loop (checked `parts[i]` and `res[i-offset]`); the result is the list of indices into `parts` that are
returned. `guard` is the regenerated fact `Generated.C13.showPartitionsRejectsNegative`: a negative OFFSET or LIMIT is refused
with an error before the arithmetic (the proposed repair of F55; `false` on the tree without it).
-/
namespace Logrange.ShowPartitions
open Logrange

def wrap64 (x : Int) : Int :=
  let m := x % 18446744073709551616
  if m < 9223372036854775808 then m else m - 18446744073709551616

/-- the copying loop: `left` = the remaining `limit`, `i` = index into `parts`, `size` = `len(res.Partitions)` -/
def pageGo (n : Nat) (offset : Int) (size : Nat) : Nat → Int → List Nat → Outcome (List Nat)
  | 0, _, acc => .ok acc.reverse
  | left + 1, i, acc =>
    if i < 0 ∨ (n : Int) ≤ i then .panic "index out of range"                       -- parts[i]
    else if i - offset < 0 ∨ (size : Int) ≤ i - offset then .panic "index out of range"   -- res.Partitions[i-offset]
    else pageGo n offset size left (i + 1) (i.toNat :: acc)

/-- `Service.Partitions` as far as paging goes: the indices of `parts` that are returned -/
def partitions (n : Nat) (offset limit : Int) : Outcome (List Nat) :=
  let limit := if limit > 1000 then 1000 else limit
  if (n : Int) ≤ offset then .ok []
  else
    let sz := wrap64 ((n : Int) - offset)
    let limit := if limit > sz then sz else limit
    if limit < 0 then .panic "makeslice: len out of range"
    else pageGo n offset limit.toNat limit.toNat offset []

/-- `cmdShowPartitions`: defaults (`offset` 0, `limit` MaxUint32), the guard when `/repo` has one, then `Partitions` -/
def showPartitions (guard : Bool) (n : Nat) (offset limit : Option Int) : Outcome (List Nat) :=
  let o := offset.getD 0
  let l := limit.getD 4294967295
  if guard = true ∧ (o < 0 ∨ l < 0) then .err else partitions n o l

def showPartitionsNow (n : Nat) (offset limit : Option Int) : Outcome (List Nat) :=
  showPartitions Generated.C13.showPartitionsRejectsNegative n offset limit

/-- the class of finding F55: a negative OFFSET or LIMIT -/
def negativeArg (offset limit : Option Int) : Bool := decide (offset.getD 0 < 0) || decide (limit.getD 4294967295 < 0)

/-- the loop on non-negative arguments: `left` more indices from `i` on all exist -/
theorem pageGo_ok (n : Nat) (offset : Int) (size : Nat) (ho : 0 ≤ offset) : ∀ (left : Nat) (i : Int) (acc : List Nat),
    offset ≤ i → i + left ≤ n → i + left ≤ offset + size → (pageGo n offset size left i acc).isPanic = false
  | 0, _, _, _, _, _ => rfl
  | left + 1, i, acc, h1, h2, h3 => by
    unfold pageGo
    have : ¬ (i < 0 ∨ (n : Int) ≤ i) := by omega
    simp only [this, if_false]
    have : ¬ (i - offset < 0 ∨ (size : Int) ≤ i - offset) := by omega
    simp only [this, if_false]
    exact pageGo_ok n offset size ho left (i + 1) _ (by omega) (by omega) (by omega)

theorem wrap64_small {x : Int} (h0 : 0 ≤ x) (h1 : x < 9223372036854775808) : wrap64 x = x := by
  unfold wrap64
  have : x % 18446744073709551616 = x := Int.emod_eq_of_lt h0 (by omega)
  simp only [this]
  split <;> omega

theorem partitions_core (n : Nat) (offset L : Int) (ho : 0 ≤ offset) (hL : 0 ≤ L) (hlt : offset < (n : Int)) :
    (if (if L > (n : Int) - offset then (n : Int) - offset else L) < 0 then (Outcome.panic "makeslice: len out of range" : Outcome (List Nat))
     else pageGo n offset (if L > (n : Int) - offset then (n : Int) - offset else L).toNat
       (if L > (n : Int) - offset then (n : Int) - offset else L).toNat offset []).isPanic = false := by
  by_cases h : L > (n : Int) - offset
  · simp only [h, if_true]
    have : ¬ ((n : Int) - offset < 0) := by omega
    simp only [this, if_false]
    exact pageGo_ok n offset _ ho _ offset [] (by omega) (by omega) (by omega)
  · simp only [h, if_false]
    have : ¬ (L < 0) := by omega
    simp only [this, if_false]
    exact pageGo_ok n offset _ ho _ offset [] (by omega) (by omega) (by omega)

/-- **non-negative OFFSET and LIMIT never panic**, for any number of partitions a Go slice can hold -/
theorem partitions_nonneg (n : Nat) (hn : (n : Int) < 9223372036854775808) (offset limit : Int) (ho : 0 ≤ offset) (hl : 0 ≤ limit) :
    (partitions n offset limit).isPanic = false := by
  unfold partitions
  simp only []
  split
  · rfl
  · rename_i hlt
    have hw : wrap64 ((n : Int) - offset) = (n : Int) - offset := wrap64_small (by omega) (by omega)
    rw [hw]
    have hL : 0 ≤ (if limit > 1000 then 1000 else limit) := by split <;> omega
    exact partitions_core n offset _ ho hL (by omega)

end Logrange.ShowPartitions
