import Logrange.Model.PersistJson
/-!
# C07 — histories of a server: every operation that touches persisted state, stops, crashes, starts

`Op`/`step` (`RestartModel`) are the operations of a running server. Here they get the **guards the code has** and are
joined by the events that end a process and start the next one on what it left:

* `Ev.op o` — `o` under its guard (`enabled`): a partition is created for tags that parse back (`tag.Parse` produced
  them: C08), that the tag index does not know yet and that are valid UTF-8 (repair of F-C07-901); a pipe is created only with
  a name and conditions that are valid UTF-8 (repair of F-C07-902); a write goes to a partition the tag index knows (`GetOrCreateJournal` precedes every write; the first write
  is what creates the journal on disk), `deleteJournal` refuses a journal that still holds records (`j.Size() > 0` in front
  of `TIndex.Delete`: regenerated fact `deleteJournalRefusesNonEmpty`).
* `Ev.ensurePipe p` — `EnsurePipe`: creates the pipe unless one of that name exists.
* `Ev.restart` — graceful shutdown (`shutdown`: registry and time-index snapshot written) and start on that disk.
* `Ev.crash` — the process is killed between two operations; start on the disk as it is.
* `Ev.crashIn o c` — the process is killed inside the file-system steps of the metadata update of `o` (tag-index save,
  registry save, position save, removal of a position file) at the cut `c` (`PersistFS.diskAt`: after any step, an append
  cut at any byte prefix); the journal directory is as before the operation; start on that disk.
* `Ev.crashInStop c` — killed inside the saves of a graceful shutdown.

A start that is refused leaves the old state (`afterStart`); the theorems show separately that it never is
(`startDisk` gives the disk an event starts on).

`Ev.ok` is the explicit exclusion of finding F33: no pipe event of the history uses the name `s`, whose position file is
the registry file (`pipeFileName "s" = "pipes.dat"`).
-/
namespace Logrange.Persist
open Logrange.Generated.C07

def Mem.empty : Mem := ⟨[], [], []⟩

/-- the guard of an operation in the code -/
def enabled (parseOk : TagLine → Bool) (s : Srv) : Op → Bool
  | .newPartition tags _ =>
    -- `getOrCreateJournal` creates a record only for a tag line it does not know, and (repair of F-C07-901,
    -- `getOrCreateJournalRefusesInvalidUtf8`) only for one that `encoding/json` will store unchanged
    parseOk tags && !(s.mem.tmap.any (fun e => e.1 == tags)) && !(getOrCreateJournalRefusesInvalidUtf8 && changedByJson tags)
  | .createPipe p =>
    -- repair of F-C07-902 (`newPPipeRefusesInvalidUtf8`)
    !(newPPipeRefusesInvalidUtf8 && (changedByJson p.name || changedByJson p.tags || changedByJson p.flt))
  | .write src _ => tmapHasSrc s.mem.tmap src
  | .dropPartition src => !(deleteJournalRefusesNonEmpty && (journalsOnDisk s.disk.db).contains src)
  | _ => true

def gstep (K : Codecs) (parseOk : TagLine → Bool) (s : Srv) (o : Op) : Srv :=
  if enabled parseOk s o then step K s o else s

/-- the file-system steps of the metadata update of an operation: `(step K s o).disk.files = runSteps s.disk.files (opSteps K s o)` -/
def opSteps (K : Codecs) (s : Srv) : Op → List Step
  | .newPartition tags src => tindexSaveSteps K.tidx s.disk.files (s.mem.tmap ++ [(tags, src)])
  | .dropPartition src => tindexSaveSteps K.tidx s.disk.files (s.mem.tmap.filter (fun e => !(e.2 == src)))
  | .createPipe p =>
    if pipeDefsSavedOnCreate then
      savePipesSteps K.pipes ((s.mem.pipes ++ [(⟨p, loadPipeInfo K.pinfo s.disk.files p.name⟩ : PPipe)]).map (·.cfg)) else []
  | .deletePipe name =>
    let save := if pipeDefsSavedOnDelete then savePipesSteps K.pipes ((s.mem.pipes.filter (fun p => !(p.cfg.name == name))).map (·.cfg)) else []
    if deletePipeRemovesPositionsBeforeSave then Step.remove (pipeInfoPath name) :: save else save ++ [Step.remove (pipeInfoPath name)]
  | .savePipeInfo name pm => savePipeInfoSteps K.pinfo name pm
  | .write _ _ => []
  | .dropChunks _ _ => []

inductive Ev where
  | op (o : Op)
  | ensurePipe (p : Pipe)
  | restart
  | crash
  | crashIn (o : Op) (c : Cut)
  | crashInStop (c : Cut)
deriving Repr

def pipeNameS : Bytes := [115]

/-- the pipe name an operation is about -/
def Op.pipeName : Op → Option Bytes
  | .createPipe p => some p.name
  | .deletePipe n => some n
  | .savePipeInfo n _ => some n
  | _ => none

/-- F33's class, excluded: a pipe event with the name `s` -/
def Ev.ok : Ev → Bool
  | .op o => o.pipeName != some pipeNameS
  | .ensurePipe p => p.name != pipeNameS
  | .crashIn o _ => o.pipeName != some pipeNameS
  | _ => true

/-- the disk on which an event starts a new process (`none`: the event starts none) -/
def startDisk (K : Codecs) (parseOk : TagLine → Bool) (s : Srv) : Ev → Option Disk
  | .restart => some (shutdown K s).disk
  | .crash => some s.disk
  | .crashIn o c =>
    if enabled parseOk s o then some { s.disk with files := diskAt s.disk.files (opSteps K s o) c } else some s.disk
  | .crashInStop c => some { s.disk with files := diskAt s.disk.files (shutdownSteps K s.mem) c }
  | _ => none

def afterStart (K : Codecs) (parseOk : TagLine → Bool) (d : Disk) (s : Srv) : Srv :=
  match recover K parseOk d with
  | .started s' => s'
  | _ => s

def stepEv (K : Codecs) (parseOk : TagLine → Bool) (s : Srv) (ev : Ev) : Srv :=
  match ev with
  | .op o => gstep K parseOk s o
  | .ensurePipe p => if s.mem.pipes.any (fun q => q.cfg.name == p.name) then s else gstep K parseOk s (.createPipe p)
  | _ =>
    match startDisk K parseOk s ev with
    | some d => afterStart K parseOk d s
    | none => s

/-- the decidable form of the invariant `Persist.Inv` (`Proofs/PersistInv.lean`), evaluated by the driver on the states the
harness drives the model through -/
def invB (K : Codecs) (parseOk : TagLine → Bool) (s : Srv) : Bool :=
  (s.disk.files .tindexDat == some (K.tidx.enc s.mem.tmap)) && s.mem.tmap.all (fun e => parseOk e.1) &&
  (journalsOnDisk s.disk.db).all (tmapHasSrc s.mem.tmap) &&
  s.mem.pipes.all (fun p => loadPipeInfo K.pinfo s.disk.files p.cfg.name == p.poss) &&
  (loadPipes K.pipes s.disk.files == some (s.mem.pipes.map (·.cfg))) &&
  s.mem.pipes.all (fun p => p.cfg.name != pipeNameS)

/-- the first start, on an empty base directory -/
def initSrv (K : Codecs) (parseOk : TagLine → Bool) : Srv := afterStart K parseOk Disk.fresh ⟨Mem.empty, Disk.fresh⟩

def runEv (K : Codecs) (parseOk : TagLine → Bool) (s : Srv) (evs : List Ev) : Srv := evs.foldl (stepEv K parseOk) s

/-- the states a server can be in: any history from the first start -/
def reach (K : Codecs) (parseOk : TagLine → Bool) (evs : List Ev) : Srv := runEv K parseOk (initSrv K parseOk) evs

end Logrange.Persist
