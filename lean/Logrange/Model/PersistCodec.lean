import Logrange.Model.RestartModel
/-!
# C07 — a concrete instance of the codec contract

The theorems of C07 are generic in the four codecs (`Codecs`, contract `Codecs.Laws`, true of `encoding/json` on
Go maps and slices — checked by the harness). This file gives one concrete, executable instance, used by the model
driver and to show that the contract is satisfiable: self-delimiting serialisers (`ser`, parser with rest) inside a
top-level frame `tag :: unary length ++ payload`.
-/
namespace Logrange.Persist

abbrev P (α : Type) := Bytes → Option (α × Bytes)

def serNat (n : Nat) : Bytes := List.replicate n 1 ++ [0]

def parseNat : P Nat
  | [] => none
  | b :: r =>
    if b = 0 then some (0, r)
    else if b = 1 then
      match parseNat r with
      | some (n, r') => some (n + 1, r')
      | none => none
    else none

def serInt (i : Int) : Bytes := (if i < 0 then 1 else 0) :: serNat i.natAbs

def parseInt : P Int
  | [] => none
  | b :: r =>
    match parseNat r with
    | some (n, r') => if b = 0 then some ((n : Int), r') else if b = 1 then some (-(n : Int), r') else none
    | none => none

def serBytes (b : Bytes) : Bytes := serNat b.length ++ b

def parseBytes : P Bytes := fun p =>
  match parseNat p with
  | some (n, r) => if n ≤ r.length then some (r.take n, r.drop n) else none
  | none => none

def parseN {α : Type} (pa : P α) : Nat → P (List α)
  | 0, r => some ([], r)
  | n + 1, r =>
    match pa r with
    | some (a, r1) =>
      match parseN pa n r1 with
      | some (as, r2) => some (a :: as, r2)
      | none => none
    | none => none

def serList {α : Type} (sa : α → Bytes) (l : List α) : Bytes := serNat l.length ++ l.flatMap sa

def parseList {α : Type} (pa : P α) : P (List α) := fun p =>
  match parseNat p with
  | some (n, r) => parseN pa n r
  | none => none

def serPair {α β : Type} (sa : α → Bytes) (sb : β → Bytes) (x : α × β) : Bytes := sa x.1 ++ sb x.2

def parsePair {α β : Type} (pa : P α) (pb : P β) : P (α × β) := fun p =>
  match pa p with
  | some (a, r1) =>
    match pb r1 with
    | some (b, r2) => some ((a, b), r2)
    | none => none
  | none => none

def serChk (c : ChkInfo) : Bytes := serNat c.id ++ serInt c.minTs ++ serInt c.maxTs ++ serNat c.root ++ serNat c.recs

def parseChk : P ChkInfo := fun p =>
  match parseNat p with
  | some (id, r1) =>
    match parseInt r1 with
    | some (mn, r2) =>
      match parseInt r2 with
      | some (mx, r3) =>
        match parseNat r3 with
        | some (root, r4) =>
          match parseNat r4 with
          | some (recs, r5) => some (⟨id, mn, mx, root, recs⟩, r5)
          | none => none
        | none => none
      | none => none
    | none => none
  | none => none

def serPipe (p : Pipe) : Bytes := serBytes p.name ++ serBytes p.tags ++ serBytes p.flt

def parsePipe : P Pipe := fun p =>
  match parseBytes p with
  | some (n, r1) =>
    match parseBytes r1 with
    | some (t, r2) =>
      match parseBytes r2 with
      | some (f, r3) => some (⟨n, t, f⟩, r3)
      | none => none
    | none => none
  | none => none

def serPos (p : Pos) : Bytes := serNat p.cid ++ serNat p.idx

def parsePos : P Pos := fun p =>
  match parseNat p with
  | some (c, r1) =>
    match parseNat r1 with
    | some (i, r2) => some (⟨c, i⟩, r2)
    | none => none
  | none => none

/-- the frame: a tag byte, the payload length in unary, the payload -/
def frameEnc {α : Type} (tag : UInt8) (ser : α → Bytes) (a : α) : Bytes := tag :: (serNat (ser a).length ++ ser a)

def frameDec {α : Type} (tag : UInt8) (pa : P α) : Bytes → Option α
  | [] => none
  | t :: r =>
    if t = tag then
      match parseNat r with
      | some (n, rest) =>
        if rest.length = n then
          match pa rest with
          | some (a, []) => some a
          | _ => none
        else none
      | none => none
    else none

def frameCodec {α : Type} (tag : UInt8) (ser : α → Bytes) (pa : P α) : Codec α := ⟨frameEnc tag ser, frameDec tag pa⟩

def serTMap : TMap → Bytes := serList (serPair serBytes serBytes)
def parseTMap : P TMap := parseList (parsePair parseBytes parseBytes)
def serCMap : CMap → Bytes := serList (serPair serBytes (serList serChk))
def parseCMap : P CMap := parseList (parsePair parseBytes (parseList parseChk))
def serPipes : List Pipe → Bytes := serList serPipe
def parsePipes : P (List Pipe) := parseList parsePipe
def serPosMap : PosMap → Bytes := serList (serPair serBytes serPos)
def parsePosMap : P PosMap := parseList (parsePair parseBytes parsePos)

def stdCodecs : Codecs :=
  { tidx := frameCodec 1 serTMap parseTMap
    cidx := frameCodec 2 serCMap parseCMap
    pipes := frameCodec 3 serPipes parsePipes
    pinfo := frameCodec 4 serPosMap parsePosMap }

end Logrange.Persist
