import Logrange.Model.TIndexLts
/-!
# TRUNCATE's drop step among holders, writers and readers: a product transition system

The tag index protocol (`Logrange/Model/TIndexLts.lean`, owned by C14, imported read-only) has no data. This file puts
the acknowledged bytes of every partition beside it and runs the program of `partition.Service.deleteJournal`
statement by statement on top of the protocol's critical sections:

```
if !s.TIndex.LockExclusively(jn) { return false }                 -- djLock    (one critical section of the index)
j.Sync()                                                          -- djCheck   (flush, then read Size())
if sz := j.Size(); sz > 0 { s.TIndex.UnlockExclusively(jn); return false }   -- … → djUnlock
err := s.TIndex.Delete(jn)                                        -- djDelete  (one critical section)
s.TIndex.UnlockExclusively(jn)                                    -- djUnlock
```

Between any two of these statements every other actor may take any number of steps: acquire (`getOrCreate`,
`getTags`, both visit flavours), release, write (only while holding an acquisition of the partition: the write path is
`GetOrCreateJournal … Write … Release`), the flush timer, another TRUNCATE's chunk removal, shutdown. An actor inside
`deleteJournal` does nothing else; exclusive locks are taken by `deleteJournal` only (C14's regenerated fact
`only_deleteJournal_locks`), so the raw labels `lockX` / `unlockX` / `delete` of the index are reachable through the
`dj…` labels alone.

`recheck` / `synced` are the regenerated shape facts of `deleteJournal` (`Generated.C09.deleteJournalRechecksSize`,
`deleteJournalSyncsBeforeRecheck`). The ghost list `drops` records, for every successful `Delete`, what the partition
held and how many acquisitions were outstanding at that very moment.
-/
namespace Logrange.TruncHolders
open Logrange.TIndexLts

/-- where an actor stands inside `deleteJournal(s)` -/
inductive Stage
  | locked     -- `LockExclusively` succeeded
  | nonEmpty   -- the re-check saw `Size() > 0`: unlock and return false
  | empty      -- the re-check passed (or is not there): `Delete` comes next
  | deleted    -- `Delete` done: `UnlockExclusively` comes next
deriving DecidableEq, Repr

/-- acknowledged bytes of a partition: confirmed (counted by `Size()`) and not flushed yet -/
structure Data where
  conf : Nat := 0
  unfl : Nat := 0
deriving DecidableEq, Repr

/-- ghost record of one successful `TIndex.Delete` -/
structure Drop where
  actor : Nat
  src : Nat
  conf : Nat      -- confirmed bytes at that moment
  unfl : Nat      -- acknowledged, not flushed bytes at that moment
  toks : Nat      -- outstanding acquisitions of the partition at that moment (the dropper's own included)
deriving DecidableEq, Repr

structure St where
  t : TIndexLts.St
  data : Nat → Data
  pc : Nat → Option (Nat × Stage)
  drops : List Drop

inductive Lbl
  /-- a critical section of the tag index by an actor that is not inside `deleteJournal` -/
  | idx (l : TIndexLts.Lbl)
  /-- `Write` of `n` acknowledged bytes by an actor holding the partition -/
  | write (a s n : Nat)
  /-- the flush timer (or any `Sync`): everything acknowledged becomes confirmed -/
  | flush (s : Nat)
  /-- `DeleteChunks` of some TRUNCATE holding the partition: `k1` confirmed and `k2` unflushed bytes go -/
  | remove (a s k1 k2 : Nat)
  | djLock (a s : Nat)
  | djCheck (a : Nat)
  | djDelete (a : Nat)
  | djUnlock (a : Nat)
deriving Repr

/-- the actor of an index label (`shutdown` has none) -/
def actorOf : TIndexLts.Lbl → Option Nat
  | .getOrCreate a _ _ => some a
  | .getTags a _ _ => some a
  | .release a _ => some a
  | .lockX a _ => some a
  | .unlockX a _ => some a
  | .delete a _ => some a
  | .visitBegin a _ _ _ => some a
  | .visitTry a _ => some a
  | .visitCb a _ _ => some a
  | .visitEnd a => some a
  | .shutdown => none

/-- the raw exclusive-lock labels: only `deleteJournal` performs them -/
def isExclLbl : TIndexLts.Lbl → Bool
  | .lockX _ _ => true
  | .unlockX _ _ => true
  | .delete _ _ => true
  | _ => false

def idle (st : St) (a : Nat) : Bool := (st.pc a).isNone

def step (recheck synced : Bool) (st : St) : Lbl → Option St
  | .idx l =>
    if isExclLbl l then none else
    match actorOf l with
    | some a => if idle st a then (TIndexLts.step st.t l).map (fun t' => { st with t := t' }) else none
    | none => (TIndexLts.step st.t l).map (fun t' => { st with t := t' })
  | .write a s n =>
    if idle st a && holdsAny st.t.c.holds a s && (st.t.c.parts s).isSome then
      some { st with data := upd st.data s { st.data s with unfl := (st.data s).unfl + n } }
    else none
  | .flush s =>
    some { st with data := upd st.data s ⟨(st.data s).conf + (st.data s).unfl, 0⟩ }
  | .remove a s k1 k2 =>
    if idle st a && holdsAny st.t.c.holds a s then
      some { st with data := upd st.data s ⟨(st.data s).conf - k1, (st.data s).unfl - k2⟩ }
    else none
  | .djLock a s =>
    if idle st a && holdsAny st.t.c.holds a s then
      match lockRaw st.t.c.parts s with
      | (parts', true) =>
        some { st with t := { st.t with c := { st.t.c with parts := parts', locker := upd st.t.c.locker s (some a) } },
                       pc := upd st.pc a (some (s, .locked)) }
      | (_, false) => some st                       -- "could not acquire the partition exclusively. Giving up."
    else none
  | .djCheck a =>
    match st.pc a with
    | some (s, .locked) =>
      -- j.Sync() (when it is there) flushes; Size() counts confirmed bytes
      let d : Data := if synced then ⟨(st.data s).conf + (st.data s).unfl, 0⟩ else st.data s
      let st1 := { st with data := upd st.data s d }
      if recheck && d.conf > 0 then some { st1 with pc := upd st.pc a (some (s, .nonEmpty)) }
      else some { st1 with pc := upd st.pc a (some (s, .empty)) }
    | _ => none
  | .djDelete a =>
    match st.pc a with
    | some (s, .empty) =>
      match st.t.c.parts s with
      | some p =>
        if p.exclusive && st.t.c.locker s == some a then
          some { st with t := { st.t with c := { st.t.c with parts := (deleteRaw st.t.c.parts s).1, locker := upd st.t.c.locker s none } },
                         pc := upd st.pc a (some (s, .deleted)),
                         drops := ⟨a, s, (st.data s).conf, (st.data s).unfl, nTok s st.t.c.holds⟩ :: st.drops }
        else some { st with pc := upd st.pc a (some (s, .deleted)) }   -- WrongState: logged, the code goes on to unlock
      | none => some { st with pc := upd st.pc a (some (s, .deleted)) }  -- NotFound
    | _ => none
  | .djUnlock a =>
    match st.pc a with
    | some (s, .nonEmpty) | some (s, .deleted) =>
      match st.t.c.parts s with
      | none => some { st with pc := upd st.pc a none }
      | some _ =>
        if st.t.c.locker s == some a then
          match unlockRaw st.t.c.parts s with
          | (parts', .ok) =>
            some { st with t := { st.t with c := { st.t.c with parts := parts', locker := upd st.t.c.locker s none } },
                           pc := upd st.pc a none }
          | (_, .absent) => some { st with pc := upd st.pc a none }
          | (_, .panic) => some { st with t := { st.t with panicked := true }, pc := upd st.pc a none }
        else some { st with pc := upd st.pc a none }
    | _ => none

def init : St := ⟨TIndexLts.init, fun _ => {}, fun _ => none, []⟩

/-- a trace; labels that are not enabled are skipped -/
def run (recheck synced : Bool) (st : St) : List Lbl → St
  | [] => st
  | l :: ls => match step recheck synced st l with
    | some st' => run recheck synced st' ls
    | none => run recheck synced st ls

end Logrange.TruncHolders
