import Logrange.Go.Basic
/-!
# Model of `Scanner.mergeDescs` (`pkg/scanner/scanner.go`)

A descriptor is `{Id, File, Offset, LastSeenSize}`; the id (`utils.GetFileId`: md5 of the path + inode + device)
is an opaque value chosen by the environment. `scanPaths` produces the `new` set with `Offset = 0`.
For every new descriptor: unknown id ⇒ take the new one; same id and `old.LastSeenSize ≤ new.LastSeenSize` and
`old.Offset ≤ new.LastSeenSize` ⇒ keep the old object (its offset), refresh `LastSeenSize`; otherwise replace it
by the new one (offset 0).
-/
namespace Logrange.Descs

structure Desc where
  id : Bytes
  offset : Nat
  lastSeenSize : Nat
deriving DecidableEq, Repr

/-- result descriptor and "the old object was kept" -/
def mergeOne (old : Option Desc) (nd : Desc) : Desc × Bool :=
  match old with
  | none => (nd, false)
  | some od =>
    if od.lastSeenSize ≤ nd.lastSeenSize ∧ od.offset ≤ nd.lastSeenSize then
      ({ od with lastSeenSize := nd.lastSeenSize }, true)
    else (nd, false)

def lookup (ds : List Desc) (id : Bytes) : Option Desc := ds.find? (fun d => d.id == id)

/-- the merged set, in the order of `new` (the result's key set is `new`'s key set) -/
def mergeDescs (old new : List Desc) : List (Desc × Bool) :=
  new.map (fun nd => mergeOne (lookup old nd.id) nd)

end Logrange.Descs
