import Logrange.Go.Basic
/-!
# Model of `Scanner.mergeDescs` (`pkg/scanner/scanner.go`)

A descriptor is `{Id, File, Offset, LastSeenSize}`; the id (`utils.GetFileId`: md5 of the path + inode + device)
is an opaque value chosen by the environment. `scanPaths` produces the `new` set with `Offset = 0` and the size it
stat'ed. For every new descriptor: unknown id ⇒ take the new one. Known id: read the worker's live offset once;
if it is beyond the scanned size — the size was read *before* the offset, the file may have grown and been shipped
in between — stat the file again (`restat`: `some size` when the second `os.Stat` succeeds and still yields the
same id, `none` otherwise; an input from the environment) and use that size (fix f247e22). Then
`old.LastSeenSize ≤ size ∧ offset ≤ size` ⇒ keep the old object (its offset), refresh `LastSeenSize`; otherwise
replace it by the new one (offset 0).

A descriptor whose id the scan did not find: forgotten (`keepsMissed = false`, the code before the repair of F61), or
— `keepsMissed = true`, proposed-fixes/F61.diff — kept for ONE more scan: its unpersisted flag `missed` is set; a
descriptor that is missing again while flagged is forgotten; a descriptor that is found and kept loses the flag. Which of
the two the code does is regenerated (`Generated.C17.mergeKeepsMissedOneScan`).
-/
namespace Logrange.Descs

structure Desc where
  id : Bytes
  offset : Nat
  lastSeenSize : Nat
  /-- the last scan did not find the file (only ever set with `keepsMissed`) -/
  missed : Bool := false
deriving DecidableEq, Repr

/-- the size the merge decides with. `restats = false` is the code before fix f247e22 (no second stat). -/
def effSize (restats : Bool) (od nd : Desc) (restat : Option Nat) : Nat :=
  if restats && decide (nd.lastSeenSize < od.offset) then restat.getD nd.lastSeenSize else nd.lastSeenSize

/-- result descriptor and "the old object was kept" -/
def mergeOne (restats : Bool) (old : Option Desc) (nd : Desc) (restat : Option Nat) : Desc × Bool :=
  match old with
  | none => (nd, false)
  | some od =>
    let size := effSize restats od nd restat
    if od.lastSeenSize ≤ size ∧ od.offset ≤ size then
      ({ od with lastSeenSize := size, missed := false }, true)
    else ({ nd with lastSeenSize := size }, false)

def lookup (ds : List Desc) (id : Bytes) : Option Desc := ds.find? (fun d => d.id == id)

/-- the scan did not find the descriptor's id -/
def absent (new : List (Desc × Option Nat)) (od : Desc) : Bool := !(new.any (fun p => p.1.id == od.id))

/-- the descriptors of `old` the scan did not find and that are kept for one more scan (order of `old`) -/
def keptMissed (keepsMissed : Bool) (old : List Desc) (new : List (Desc × Option Nat)) : List (Desc × Bool) :=
  if keepsMissed then
    (old.filter (fun od => absent new od && !od.missed)).map (fun od => ({ od with missed := true }, true))
  else []

/-- the merged set: first the ids of `new`, in its order; each new descriptor comes with what a second stat of its file
would answer; then (`keepsMissed`) the descriptors of `old` that are kept although the scan did not find them -/
def mergeDescs (restats : Bool) (old : List Desc) (new : List (Desc × Option Nat)) (keepsMissed : Bool := false) :
    List (Desc × Bool) :=
  new.map (fun (nd, rs) => mergeOne restats (lookup old nd.id) nd rs) ++ keptMissed keepsMissed old new

end Logrange.Descs
