import Logrange.Go.Basic
/-!
# Model of `Scanner.mergeDescs` (`pkg/scanner/scanner.go`)

A descriptor is `{Id, File, Offset, LastSeenSize}`; the id (`utils.GetFileId`: md5 of the path + inode + device)
is an opaque value chosen by the environment. `scanPaths` produces the `new` set with `Offset = 0` and the size it
stat'ed. For every new descriptor: unknown id ⇒ take the new one. Known id: read the worker's live offset once;
if it is beyond the scanned size — the size was read *before* the offset, the file may have grown and been shipped
in between — stat the file again (`restat`: `some size` when the second `os.Stat` succeeds and still yields the
same id, `none` otherwise; an input from the environment) and use that size (fix f247e22). Then
`old.LastSeenSize ≤ size ∧ offset ≤ size` ⇒ keep the old object (its offset), refresh `LastSeenSize`; otherwise
replace it by the new one (offset 0).
-/
namespace Logrange.Descs

structure Desc where
  id : Bytes
  offset : Nat
  lastSeenSize : Nat
deriving DecidableEq, Repr

/-- the size the merge decides with. `restats = false` is the code before fix f247e22 (no second stat). -/
def effSize (restats : Bool) (od nd : Desc) (restat : Option Nat) : Nat :=
  if restats && decide (nd.lastSeenSize < od.offset) then restat.getD nd.lastSeenSize else nd.lastSeenSize

/-- result descriptor and "the old object was kept" -/
def mergeOne (restats : Bool) (old : Option Desc) (nd : Desc) (restat : Option Nat) : Desc × Bool :=
  match old with
  | none => (nd, false)
  | some od =>
    let size := effSize restats od nd restat
    if od.lastSeenSize ≤ size ∧ od.offset ≤ size then
      ({ od with lastSeenSize := size }, true)
    else ({ nd with lastSeenSize := size }, false)

def lookup (ds : List Desc) (id : Bytes) : Option Desc := ds.find? (fun d => d.id == id)

/-- the merged set, in the order of `new` (the result's key set is `new`'s key set); each new descriptor comes with
what a second stat of its file would answer -/
def mergeDescs (restats : Bool) (old : List Desc) (new : List (Desc × Option Nat)) : List (Desc × Bool) :=
  new.map (fun (nd, rs) => mergeOne restats (lookup old nd.id) nd rs)

end Logrange.Descs
