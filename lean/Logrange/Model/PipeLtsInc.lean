import Logrange.Model.PipeLts
/-!
# Pipe incarnations: a pipe name that is deleted and created again, any number of times (C10)

`Logrange/Model/PipeLts.lean` has one pipe per name (absent → live → deleted). This file wraps that LTS, unchanged, into an
LTS of **incarnations** of one name:

* `cur`   the state of the current incarnation — a `PipeLts.State`; every label of the pipe LTS acts on it as before
          (writes, notifications in any order, worker steps, `create` of the first incarnation, `delete`, shutdown, restart);
          `cur.dest` is what THIS incarnation has appended to the pipe's partition;
* `base`  what the earlier incarnations appended (the partition `{logrange.pipe=<name>}` survives `DeletePipe`: the pipe's
          partition is `base ++ cur.dest`);
* `old`   the number of worker goroutines of deleted incarnations that are still running. Their context is cancelled
          (`ppipe.delete` → `cancelF`), they hold the OLD `ppipe` object with its own `partitions` map; what they can still do
          is: return from `saveState` (refused for a deleted pipe — fact `saveStateRefusesDeletedPipe`), leave their loop, run
          `workerDone` on the old object (no new worker: `startWorker` tests `pp.clsCtx`). None of this touches the new
          incarnation's descriptors, the positions file or the pipe's partition, so they are a counter which `Shutdown`
          (`wwg.Wait()`) has to see at zero; their last copy (a `Journals.Write` that was under way when the pipe was deleted)
          is, as in the pipe LTS, the `wcopy` step before the `delete`.

`recreate` is `CreatePipe` under the name of a deleted pipe: `newPPipe` builds a fresh object (no descriptor, no worker) and
`loadPipeInfo` reads whatever `pipe<name>.dat` exists. With the two facts regenerated from the source —
`deleteCleansUpBeforeAcknowledging` (`DeletePipe` removes the file before it returns) and `saveStateRefusesDeletedPipe` (no
worker of the deleted pipe writes it afterwards) — there is no file: nothing is loaded. If either is missing the model keeps
the file and `recreate` loads it (the window of finding F74; one interleaving of the old asynchronous clean-up).
-/
namespace Logrange.PipeLts.Inc
open Logrange.PipeLts

/-- facts regenerated from the source (`Generated.C10`) that only matter across incarnations -/
structure ICfg where
  /-- `DeletePipe` runs `ppipe.delete` (cancel + removal of the positions file) before it acknowledges -/
  cleanupBeforeAck : Bool
  /-- `saveState` writes nothing for a deleted pipe -/
  saveRefusesDeleted : Bool
deriving DecidableEq, Repr

structure IState where
  cur : State
  base : List (Nat × Ev)
  old : Nat
  /-- ghost: number of `recreate` steps so far -/
  gen : Nat

inductive ILabel where
  | plain (l : Label)
  | recreate
  | oldExit
deriving Repr

/-- a descriptor as `loadPipeInfo` restores it (`wCharged` is not persisted; ghost `stale` as in `restart`) -/
def loaded (d : Desc) : Desc := { d with charged := false, stale := decide (d.pos < d.lastKnown) }

/-- workers of the current incarnation that are running -/
def busy (st : State) : Nat := ((List.range st.n).filter (fun s => (st.srcs s).wk != .none)).length

def isHalt : Label → Bool
  | .halt => true
  | _ => false

/-- is the positions file of the deleted incarnation still there when the name is created again? -/
def fileSurvives (ic : ICfg) : Bool := !(ic.cleanupBeforeAck && ic.saveRefusesDeleted)

/-- `CreatePipe` under the name of a deleted pipe, on the current incarnation's state -/
def recreated (cfg : Cfg) (ic : ICfg) (st : State) : State :=
  { st with pipe := .live, dest := [],
            cache := if cfg.dropOnCreate then fun _ => none else st.cache,
            reg := if cfg.saveOnCreate then true else st.reg,
            srcs := fun s =>
              { log := (st.srcs s).log, prov := (st.srcs s).prov, listens := (st.srcs s).listens,
                desc := if fileSurvives ic then (st.srcs s).saved.map loaded else none,
                wk := .none,
                saved := if fileSurvives ic then (st.srcs s).saved else none,
                createdAt := (st.srcs s).log.length } }

def istep (cfg : Cfg) (ic : ICfg) (ist : IState) : ILabel → Option IState
  | .plain l =>
    -- `Shutdown` waits for the workers of deleted incarnations too (`wwg` belongs to the service)
    if isHalt l && decide (0 < ist.old) then none
    else (step cfg ist.cur l).map (fun c => { ist with cur := c })
  | .recreate =>
    if ist.cur.down || ist.cur.pipe != .deleted then none
    else some { cur := recreated cfg ic ist.cur, base := ist.base ++ ist.cur.dest, old := ist.old + busy ist.cur,
                gen := ist.gen + 1 }
  | .oldExit => if 0 < ist.old then some { ist with old := ist.old - 1 } else none

def irun (cfg : Cfg) (ic : ICfg) (ist : IState) : List ILabel → IState
  | [] => ist
  | l :: ls => match istep cfg ic ist l with
    | some ist' => irun cfg ic ist' ls
    | none => irun cfg ic ist ls

def iinit (n : Nat) (listens : Nat → Bool) (prov : Nat → Bytes) (flt : Ev → Bool) (others : Bool) : IState :=
  { cur := init n listens prov flt others, base := [], old := 0, gen := 0 }

/-- the pipe's partition -/
def partition (ist : IState) : List (Nat × Ev) := ist.base ++ ist.cur.dest

end Logrange.PipeLts.Inc
