import Logrange.Model.DateParser
/-!
# The text of an instant in a format, for every layout element the `terms` table produces

`renderLayout L i` is the text of the instant `i` in the layout `L`: `time.Format` for every element that needs no
calendar arithmetic (`formatStd`), and additionally

* the fraction element `.999999999` written with `i.fracDigits` digits (3..9) — a `.SSS` format denotes a fraction of at
  least three digits (Go's own `Format` would trim trailing zeros, which the format's expression `.\d{3,}` rejects);
* numeric zones `-0700`, `-07:00` from `i.offMin` (minutes east of UTC);
* the zone abbreviation `MST` from `i.zname`.

`rxOfLayout L` is the regular expression `NewParser` derives for a format whose layout is `L` — rebuilt from the layout's
items (certificate: `cf.rx = some (rxOfLayout cf.layout)` is evaluated per format by the kernel).
`symLayout L` is the finite set of *shapes* (one byte class per position) the texts of `L` can have.
-/
namespace Logrange.Date

/-- an instant with what the zone and fraction elements need -/
structure XInst extends Inst where
  fracDigits : Nat := 3
  offMin : Int := 0
  zname : Bytes := [85, 84, 67]
deriving Repr, DecidableEq

/-- `n` written with exactly `k` decimal digits (leading zeros) -/
def padN : Nat → Nat → Bytes
  | 0, _ => []
  | k + 1, n => padN k (n / 10) ++ [dig n]

def renderStd (std : Std) (i : XInst) : Option Bytes :=
  match std with
  | .frac9 _ => some (46 :: padN i.fracDigits (i.nsec / 10 ^ (9 - i.fracDigits)))
  | .numTZ =>
    let a := i.offMin.natAbs
    some ((if i.offMin < 0 then 45 else 43) :: (pad2 (a / 60) ++ pad2 (a % 60)))
  | .numColonTZ =>
    let a := i.offMin.natAbs
    some ((if i.offMin < 0 then 45 else 43) :: (pad2 (a / 60) ++ 58 :: pad2 (a % 60)))
  | .tz => some i.zname
  | s => formatStd s i.toInst

def renderItems : List (Bytes × Std) → XInst → Option Bytes
  | [], _ => some []
  | (pre, std) :: rest, i =>
    match renderStd std i, renderItems rest i with
    | some a, some b => some (pre ++ a ++ b)
    | _, _ => none

/-- the text of `i` in the layout -/
def renderLayout (L : Layout) (i : XInst) : Option Bytes := (renderItems L.items i).map (· ++ L.tail)

/-- civil fields of a real instant, in the range of the property (years 1000..2999), with a fraction of 3..9 digits that
the nanoseconds fit, a zone offset of whole minutes within a day, and a three-letter upper-case zone abbreviation -/
def ValidX (i : XInst) : Prop :=
  1000 ≤ i.year ∧ i.year ≤ 2999 ∧ 1 ≤ i.month ∧ i.month ≤ 12 ∧ 1 ≤ i.day ∧ (i.day : Int) ≤ daysIn i.month i.year ∧
  i.hour < 24 ∧ i.min < 60 ∧ i.sec < 60 ∧ i.wd < 7 ∧
  3 ≤ i.fracDigits ∧ i.fracDigits ≤ 9 ∧ i.nsec < 1000000000 ∧ i.nsec % 10 ^ (9 - i.fracDigits) = 0 ∧
  i.offMin.natAbs < 1440 ∧
  (∃ a b c, i.zname = [a, b, c] ∧ isUpperB a = true ∧ isUpperB b = true ∧ isUpperB c = true)

/-! ## the expression of a format, rebuilt from its layout -/

def clsDigit : List (UInt8 × UInt8) := [(48, 57)]
def rxD : Rx := .cls clsDigit                       -- \d
def rxUp : Rx := .cls [(65, 90)]
def rxLo : Rx := .cls [(97, 122)]
def rx09 : Rx := .cls [(48, 57)]                    -- [0-9]
def rxSign : Rx := .cls [(43, 43), (45, 45)]        -- [+-]

/-- the quantified atoms of the expression the terms table gives the term that produces this layout element, as
`parseRegexp` builds them (the whole expression is the right-nested sequence of all atoms, closed by `eps`) -/
def rxAtomsOfStd : Std → Option (List Rx)
  | .longYear => some [.cls [(49, 50)], rxPow rxD 3]                                          -- [1-2]\d{3}
  | .year | .zeroDay | .hour | .zeroHour12 | .zeroMinute | .zeroSecond => some [rxPow rxD 2]  -- \d{2}
  | .longMonth => some [rxUp, .seq (rxPow rxLo 2) (rxOpt rxLo 6)]                             -- [A-Z][a-z]{2,8}
  | .month | .weekDay => some [rxUp, rxPow rxLo 2]                                            -- [A-Z][a-z]{2}
  | .zeroMonth => some [.cls [(48, 51)], rxD]                                                 -- [0-3]\d
  | .numMonth | .day | .hour12 => some [.seq (rxPow rxD 1) (rxOpt rxD 1)]                     -- \d{1,2}
  | .longWeekDay => some [rxUp, .seq (rxPow rxLo 5) (rxOpt rxLo 3)]                           -- [A-Z][a-z]{5,8}
  | .underDay => some [.alt (.seq (.chr 32) (.seq (rxPow rxD 1) .eps)) (.seq (rxPow rxD 2) .eps)]  -- (?: \d{1}|\d{2})
  | .frac9 _ => some [.any, .seq (rxPow rxD 3) (.star clsDigit)]                              -- .\d{3,}
  | .pm => some [.alt (.seq (.chr 97) (.seq (.chr 109) .eps)) (.alt (.seq (.chr 65) (.seq (.chr 77) .eps))
             (.alt (.seq (.chr 112) (.seq (.chr 109) .eps)) (.seq (.chr 80) (.seq (.chr 77) .eps))))]  -- (?:am|AM|pm|PM)
  | .numColonTZ => some [rxSign, rxPow rx09 2, .chr 58, rxPow rx09 2]                         -- [+-][0-9]{2}:[0-9]{2}
  | .numTZ => some [rxSign, rxPow rx09 4]                                                     -- [+-][0-9]{4}
  | .tz => some [rxPow rxUp 3]                                                                -- [A-Z]{3}
  | _ => none

/-- a literal byte of the format inside the expression: `.` is the any-byte operator (the code does not escape it) -/
def rxOfByte (c : UInt8) : Rx := if c == 46 then .any else .chr c

def rxAtomsOfItems : List (Bytes × Std) → Option (List Rx)
  | [] => some []
  | (pre, std) :: rest =>
    match rxAtomsOfStd std, rxAtomsOfItems rest with
    | some a, some b => some (pre.map rxOfByte ++ a ++ b)
    | _, _ => none

def rxOfAtoms (as : List Rx) : Rx := as.foldr .seq .eps

/-- the expression of a format whose layout is `L` -/
def rxOfLayout (L : Layout) : Option Rx :=
  (rxAtomsOfItems L.items).map (fun as => rxOfAtoms (as ++ L.tail.map rxOfByte))

/-! ## shapes: the finite set of byte-class sequences the texts of a layout can have -/

abbrev BSet := List (UInt8 × UInt8)          -- a set of bytes as a union of ranges

def dS : BSet := [(48, 57)]
def uS : BSet := [(65, 90)]
def lS : BSet := [(97, 122)]
def bS (c : UInt8) : BSet := [(c, c)]

/-- the shapes of one element's text -/
def symStd : Std → List (List BSet)
  | .longYear => [[[(49, 50)], dS, dS, dS]]
  | .year | .zeroDay | .hour | .zeroHour12 | .zeroMinute | .zeroSecond => [[dS, dS]]
  | .zeroMonth => [[[(48, 49)], dS]]
  | .numMonth | .hour12 => [[dS], [[(49, 49)], [(48, 50)]]]      -- one digit, or 10 11 12
  | .day => [[dS], [[(49, 51)], dS]]                            -- one digit, or 10..31
  | .minute | .second => [[dS], [dS, dS]]
  | .underDay => [[bS 32, dS], [[(49, 51)], dS]]
  | .month | .weekDay => [[uS, lS, lS]]
  | .longMonth => (List.range 7).map (fun k => uS :: List.replicate (k + 2) lS)
  | .longWeekDay => (List.range 4).map (fun k => uS :: List.replicate (k + 5) lS)
  | .pm => [[bS 65, bS 77], [bS 80, bS 77]]
  | .pmLower => [[bS 97, bS 109], [bS 112, bS 109]]
  | .frac9 _ => (List.range 7).map (fun k => bS 46 :: List.replicate (k + 3) dS)
  | .numTZ => [[bS 43, dS, dS, dS, dS], [bS 45, dS, dS, dS, dS]]
  | .numColonTZ => [[bS 43, dS, dS, bS 58, dS, dS], [bS 45, dS, dS, bS 58, dS, dS]]
  | .tz => [[uS, uS, uS]]
  | _ => []

def symItems : List (Bytes × Std) → List (List BSet)
  | [] => [[]]
  | (pre, s) :: rest => (symStd s).flatMap (fun v => (symItems rest).map (fun r => pre.map bS ++ v ++ r))

def symLayout (L : Layout) : List (List BSet) := (symItems L.items).map (· ++ L.tail.map bS)

/-- a text has a shape: same length, every byte in its position's set -/
def hasShape : Bytes → List BSet → Prop
  | [], [] => True
  | c :: s, b :: bs => inCls b c = true ∧ hasShape s bs
  | _, _ => False

/-- two byte sets intersect -/
def meets (a b : BSet) : Bool := a.any (fun p => b.any (fun q => p.1 ≤ q.2 && q.1 ≤ p.2))

def starRemS (rg : BSet) : List BSet → List (List BSet)
  | [] => [[]]
  | x :: s => if meets rg x then starRemS rg s ++ [x :: s] else [x :: s]

/-- the matcher on shapes: every remainder a match on some text of the shape can leave -/
def msS : Rx → List BSet → List (List BSet)
  | .eps, s => [s]
  | .chr c, s => (match s with | x :: s' => if meets (bS c) x then [s'] else [] | [] => [])
  | .any, s => (match s with | _ :: s' => [s'] | [] => [])
  | .cls rg, s => (match s with | x :: s' => if meets rg x then [s'] else [] | [] => [])
  | .seq a b, s => (msS a s).flatMap (msS b)
  | .alt a b, s => msS a s ++ msS b s
  | .star rg, s => starRemS rg s

/-- can the expression match somewhere in a text of this shape -/
def findS (r : Rx) : List BSet → Bool
  | [] => !(msS r []).isEmpty
  | x :: s => !(msS r (x :: s)).isEmpty || findS r s

/-! ## the exact matcher on shapes: defined only where every class test is decided by the shape -/

/-- every byte of `a` is in `b` (sufficient check on the range lists) -/
def within (a b : BSet) : Bool := a.all (fun p => b.any (fun q => q.1 ≤ p.1 && p.2 ≤ q.2))

/-- does a byte of this position's set pass the test `rg`: `some true` = every byte does, `some false` = none does -/
def decides (rg x : BSet) : Option Bool :=
  if within x rg then some true else if !meets rg x then some false else none

def starRemD (rg : BSet) : List BSet → Option (List (List BSet))
  | [] => some [[]]
  | x :: s =>
    match decides rg x with
    | some true => (starRemD rg s).map (· ++ [x :: s])
    | some false => some [x :: s]
    | none => none

def flatMapD (f : List BSet → Option (List (List BSet))) : List (List BSet) → Option (List (List BSet))
  | [] => some []
  | s :: rest =>
    match f s, flatMapD f rest with
    | some a, some b => some (a ++ b)
    | _, _ => none

/-- `ms` on a shape: the remainders of the matches in priority order, when the shape decides every test -/
def msD : Rx → List BSet → Option (List (List BSet))
  | .eps, s => some [s]
  | .chr c, s => (match s with
      | x :: s' => (decides (bS c) x).map (fun b => if b then [s'] else [])
      | [] => some [])
  | .any, s => (match s with
      | x :: s' => (decides [(0, 9), (11, 255)] x).map (fun b => if b then [s'] else [])
      | [] => some [])
  | .cls rg, s => (match s with
      | x :: s' => (decides rg x).map (fun b => if b then [s'] else [])
      | [] => some [])
  | .seq a b, s => (msD a s).bind (flatMapD (msD b))
  | .alt a b, s => (match msD a s, msD b s with
      | some x, some y => some (x ++ y)
      | _, _ => none)
  | .star rg, s => starRemD rg s

/-- on every text of the shape the first match in priority order consumes the whole text -/
def ownMatchD (r : Rx) (sh : List BSet) : Bool :=
  match msD r sh with
  | some (rem :: _) => rem.isEmpty
  | _ => false

end Logrange.Date
