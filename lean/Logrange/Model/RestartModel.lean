import Logrange.Model.PipeFiles
/-!
# C07 — the server's persistent state, the operations that change it, graceful shutdown, start-up (`recover`)

`Mem` is the part of the in-memory state the property speaks about (tag index, chunk hulls/roots, pipe
definitions and positions). `Disk` is what survives a stop or a crash: the metadata files (`Files`), the journals
with their **flushed** records (`db`; the library's store, durable by contract), and the set of index tree files.

Initialisation order (linker, by dependencies): journal controller (scans `db`) → tindex (`checkConsistency`)
→ tmindex (`cindex.init`) → partitions → pipes (`Service.Init`). Shutdown is the reverse: pipes
(`savePipes`) → … → tmindex (`saveDataToFile`) → tindex (nothing) → journals.
-/
namespace Logrange.Persist
open Logrange.Generated.C07

structure Codecs where
  tidx : Codec TMap
  cidx : Codec CMap
  pipes : Codec (List Pipe)
  pinfo : Codec PosMap

/-- the contract of the four codecs; `cross…`: `pipes.dat` holds a JSON array, a position file a JSON object —
neither decodes as the other (`json.Unmarshal` type error) -/
structure Codecs.Laws (K : Codecs) : Prop where
  tidx : K.tidx.Laws
  cidx : K.cidx.Laws
  pipes : K.pipes.Laws
  pinfo : K.pinfo.Laws
  crossPipes : ∀ pm, K.pipes.dec (K.pinfo.enc pm) = none
  crossPinfo : ∀ ps, K.pinfo.dec (K.pipes.enc ps) = none

structure Mem where
  tmap : TMap
  cidx : CMap
  pipes : List PPipe
deriving Repr

structure Disk where
  files : Files
  db : List (Src × List Chunk)
  trees : List Nat

structure Srv where
  mem : Mem
  disk : Disk

/-- journals the controller finds at start-up: directories with at least one non-empty chunk -/
def journalsOnDisk (db : List (Src × List Chunk)) : List Src :=
  (db.filter (fun e => e.2.any (fun c => !c.recs.isEmpty))).map (·.1)

/-! ## operations of a running server -/

inductive Op where
  /-- `GetOrCreateJournal` creating a partition: record added, `saveStateUnsafe` -/
  | newPartition (tags : TagLine) (src : Src)
  /-- one `Service.Write`, flushed: the records that went to each chunk, in order (`(chunk id, timestamps)`) -/
  | write (src : Src) (pieces : List (Nat × List Int))
  /-- truncate: the `n` oldest chunks of the journal are removed -/
  | dropChunks (src : Src) (n : Nat)
  /-- `deleteJournal`: record removed, `saveStateUnsafe`, directory removed -/
  | dropPartition (src : Src)
  | createPipe (p : Pipe)
  | deletePipe (name : Bytes)
  /-- a pipe worker reported progress: `saveState` → `savePipeInfo(name, positions)` -/
  | savePipeInfo (name : Bytes) (pm : PosMap)
deriving Repr

def appendToChunk (cks : List Chunk) (cid : Nat) (tss : List Int) : List Chunk :=
  if cks.any (fun c => c.id == cid) then cks.map (fun c => if c.id == cid then { c with recs := c.recs ++ tss } else c)
  else cks ++ [⟨cid, tss⟩]

def listMin (l : List Int) (d : Int) : Int := l.foldl (fun a b => if b < a then b else a) d
def listMax (l : List Int) (d : Int) : Int := l.foldl (fun a b => if a < b then b else a) d

/-- `newChk` of `cindex.onWrite` for a batch that follows `beforeLen` records of the chunk: the chunk is new to the index —
the source has no entry (`Generated.C07.onWriteUnknownSourceSetsNewChk`), or its last known chunk is another one, or
(7ea0278, `onWriteStaleSnapshotEntryIsNewChk`) the entry comes from the snapshot and does not account for the records in
front of the batch (`firstRec > last.Recs`, tested BEFORE `last.Recs` is raised to the end of the batch:
`onWriteChecksStalenessBeforeRecsBump`). The code tests `last.loaded` as well; in this sequential model an entry that
is not fresh from the snapshot accounts for every record of its chunk (`onWrite` runs with every write), so
`recs < beforeLen` already implies it — the flag matters only between a confirmed write and its notification, which is a
schedule, exercised by the harness' race section. -/
def onWriteNewChk (m : CMap) (src : Src) (cid : Nat) (beforeLen : Nat) : Bool :=
  match alookup m src with
  | none => onWriteUnknownSourceSetsNewChk
  | some sc =>
    match sc.getLast? with
    | none => onWriteUnknownSourceSetsNewChk
    | some last => decide (last.id ≠ cid) ||
      (onWriteStaleSnapshotEntryIsNewChk && onWriteChecksStalenessBeforeRecsBump && decide (last.recs < beforeLen))

/-- what the background rebuilder leaves (`rebuildIndex`): `rebuildIndexInt` walks every record of the chunk and
`res.update(rInfo)` widens the hull by the true minimum and maximum -/
def rebuildHull (recs : List Int) (ci : ChkInfo) : ChkInfo :=
  match recs with
  | [] => ci
  | t :: _ => ci.update (listMin recs t) (listMax recs t)

/-- `cindex.onWrite` for a batch appended to a chunk that holds the records `before`, together with what it sets in
motion: a chunk that is new to the index but not empty (`newChk && firstRec > 0`,
`Generated.C07.onWriteNewChunkMidwayRebuilds`) is marked corrupted and rebuilt in the background — the state given here
is the one after the rebuilder ran. This is the situation after a start without a usable snapshot when the first thing
that touches a partition is a write. -/
def cindexOnWriteR (m : CMap) (src : Src) (cid : Nat) (before batch : List Int) (mn mx : Int) : CMap :=
  let m1 := cindexOnWrite m src cid mn mx (before.length + batch.length)
  if onWriteNewChk m src cid before.length && !before.isEmpty && onWriteNewChunkMidwayRebuilds then
    match alookup m1 src with
    | some sc =>
      match sc.getLast? with
      | some last => aset m1 src (sc.dropLast ++ [rebuildHull (before ++ batch) last])
      | none => m1
    | none => m1
  else m1

def chunkRecs (db : List Chunk) (cid : Nat) : List Int := ((db.find? (fun c => c.id == cid)).map (·.recs)).getD []

/-- the loop of `Service.Write`: one journal write per chunk; `iwrapper`'s min/max are never reset, so they
accumulate across the pieces of one call -/
def writePieces (db : List Chunk) (cm : CMap) (src : Src) : List (Nat × List Int) → Option (Int × Int) → List Chunk × CMap
  | [], _ => (db, cm)
  | (cid, tss) :: rest, acc =>
    match tss with
    | [] => writePieces db cm src rest acc
    | t :: _ =>
      let (mn0, mx0) := acc.getD (t, t)
      let mn := listMin tss mn0
      let mx := listMax tss mx0
      writePieces (appendToChunk db cid tss) (cindexOnWriteR cm src cid (chunkRecs db cid) tss mn mx) src rest (some (mn, mx))

def setPoss (ps : List PPipe) (name : Bytes) (pm : PosMap) : List PPipe :=
  ps.map (fun p => if p.cfg.name == name then { p with poss := pm } else p)

def step (K : Codecs) (s : Srv) : Op → Srv
  | .newPartition tags src =>
    let m := s.mem.tmap ++ [(tags, src)]
    { mem := { s.mem with tmap := m },
      disk := { s.disk with files := runSteps s.disk.files (tindexSaveSteps K.tidx s.disk.files m) } }
  | .write src pieces =>
    let (cks, cm) := writePieces ((alookup s.disk.db src).getD []) s.mem.cidx src pieces none
    { mem := { s.mem with cidx := cm }, disk := { s.disk with db := aset s.disk.db src cks } }
  | .dropChunks src n =>
    { s with disk := { s.disk with db := aset s.disk.db src (((alookup s.disk.db src).getD []).drop n) } }
  | .dropPartition src =>
    let m := s.mem.tmap.filter (fun e => !(e.2 == src))
    { mem := { s.mem with tmap := m },
      disk := { s.disk with files := runSteps s.disk.files (tindexSaveSteps K.tidx s.disk.files m), db := aerase s.disk.db src } }
  | .createPipe p =>
    let pps := s.mem.pipes ++ [⟨p, loadPipeInfo K.pinfo s.disk.files p.name⟩]
    let steps := if pipeDefsSavedOnCreate then savePipesSteps K.pipes (pps.map (·.cfg)) else []
    { mem := { s.mem with pipes := pps }, disk := { s.disk with files := runSteps s.disk.files steps } }
  | .deletePipe name =>
    let pps := s.mem.pipes.filter (fun p => !(p.cfg.name == name))
    -- `ppipe.delete` (cancel the workers, remove the position file) runs before the registry save since 84f34ca
    -- (`Generated.C07.deletePipeRemovesPositionsBeforeSave`); before that the save came first
    let save := if pipeDefsSavedOnDelete then savePipesSteps K.pipes (pps.map (·.cfg)) else []
    let steps := if deletePipeRemovesPositionsBeforeSave then Step.remove (pipeInfoPath name) :: save
      else save ++ [Step.remove (pipeInfoPath name)]
    { mem := { s.mem with pipes := pps }, disk := { s.disk with files := runSteps s.disk.files steps } }
  | .savePipeInfo name pm =>
    { mem := { s.mem with pipes := setPoss s.mem.pipes name pm },
      disk := { s.disk with files := runSteps s.disk.files (savePipeInfoSteps K.pinfo name pm) } }

def run (K : Codecs) (s : Srv) (ops : List Op) : Srv := ops.foldl (step K) s

/-! ## graceful shutdown and start-up -/

/-- file-system steps of a graceful shutdown: `pipe.Service.Shutdown` → `savePipes`, then `cindex.close` →
`saveDataToFile` -/
def shutdownSteps (K : Codecs) (m : Mem) : List Step :=
  savePipesSteps K.pipes (m.pipes.map (·.cfg)) ++ cindexSaveSteps K.cidx m.cidx

def shutdown (K : Codecs) (s : Srv) : Srv :=
  { s with disk := { s.disk with files := runSteps s.disk.files (shutdownSteps K s.mem) } }

/-- records of an acknowledged write that are still in the chunk writer's buffer (the writer flushes on a timer,
`WriteFlushMs`). A graceful shutdown keeps them only if something syncs the journals: the library's journal controller has
no `Shutdown`; `partition.Service.Shutdown` does it since the repair of finding F42
(`Generated.C07.partitionShutdownSyncsJournals`). -/
def flushPending (db : List (Src × List Chunk)) (src : Src) (pieces : List (Nat × List Int)) : List (Src × List Chunk) :=
  aset db src (pieces.foldl (fun cks pc => appendToChunk cks pc.1 pc.2) ((alookup db src).getD []))

def shutdownDb (db : List (Src × List Chunk)) (src : Src) (pending : List (Nat × List Int)) : List (Src × List Chunk) :=
  if partitionShutdownSyncsJournals then flushPending db src pending else db

inductive Outcome where
  | refusedTIndex
  | refusedPipes
  | started (s : Srv)

/-- start a server on a disk: `Init` of every component in order -/
def recover (K : Codecs) (parseOk : TagLine → Bool) (d : Disk) : Outcome :=
  match checkConsistency K.tidx parseOk d.files (journalsOnDisk d.db) with
  | none => .refusedTIndex
  | some (tm, f1) =>
    let cm := cindexLoad K.cidx f1
    match pipesInit K.pipes K.pinfo f1 with
    | none => .refusedPipes
    | some pps => .started ⟨⟨tm, cm, pps⟩, ⟨f1, d.db, cleanupTrees cm d.trees⟩⟩

/-- an empty base directory -/
def Disk.fresh : Disk := ⟨Files.empty, [], []⟩

/-! ## class predicates of the open findings (evaluated by the driver on the harness' inputs) -/

/-- F33: some pipe's position file is the registry file (or its temp file — no name maps there, `pipe….dat` ≠ `pipes.dat.tmp`) -/
def nameCollision (ps : List PPipe) : Bool :=
  ps.any (fun p => decide (pipeInfoPath p.cfg.name = pipesDat) || decide (pipeInfoPath p.cfg.name = pipesTmp))

/-- F07: some pipe of the running server is not in the registry file on disk -/
def pipeDefsNotOnDisk (K : Codecs) (m : Mem) (f : Files) : Bool :=
  match loadPipes K.pipes f with
  | some ps => m.pipes.any (fun p => !ps.contains p.cfg)
  | none => false

/-- F05: the cut lies inside the save: something happened and the new file is not complete -/
def cutInsideSave (steps : List Step) (c : Cut) : Bool :=
  decide (0 < c.k) && (decide (c.k + 1 < steps.length) ||
    (decide (c.k + 1 = steps.length) &&
      match steps[c.k]? with
      | some (.append _ bs) => decide (c.len < bs.length)
      | _ => true))

/-- F06 on a recovered server: the loaded index is stale for a chunk of `src` that grew since -/
def staleFor (s : Srv) (src : Src) : Bool :=
  staleGrown ((alookup s.mem.cidx src).getD []) ((alookup s.disk.db src).getD [])

/-- F06, narrow: the stale hull is the one the snapshot brought in at the last start (`loaded` = the index as loaded
then) and nothing has touched the source's entry since — a hull created by `onWrite` after the start is not in the
class -/
def staleSnapshotFor (loaded : CMap) (s : Srv) (src : Src) : Bool :=
  decide (alookup s.mem.cidx src = alookup loaded src) &&
    staleGrown ((alookup loaded src).getD []) ((alookup s.disk.db src).getD [])

end Logrange.Persist
