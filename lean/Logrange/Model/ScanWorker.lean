import Logrange.Model.LineReader
/-!
# The scanner worker as a labelled transition system (`pkg/scanner/worker.go`, `scanner.go: runPersistState`)

```go
for ctx.Err() == nil && err == nil {                              // pc top
    untilEof := atomic.LoadInt32(&w.state) == wsRunUntilEof       //   → sampled u      (position regenerated: Cfg.sampleBefore)
    rec, err = w.parser.NextRecord(ctx)                           //   label next r → got u eof err
    if rec != nil { recs = append(recs, rec) }
    eof := err == io.EOF
    if eof || len(recs) == w.recsPerEvent {                       //   label step (decide)
        err = w.sendOrSleep(ctx, recs, events)                    //   sleeping | sending → confirming → setting
        recs = w.recycle(recs)
    }
    if eof && untilEof && err == nil { err = io.EOF }             // pc tail
}
```

One step = one rendez-vous on a channel (`events`, `confCh`), one atomic access (`w.state`, `desc.Offset`), one
call of the parser, or the end of a sleep. `stopOnEOF` (sync goroutine), `cancel` (the context) and `persist`
(the `runPersistState` goroutine: periodic ticks) interleave freely; `finalPersist` is that goroutine's last
`persistState()` after the cancel — since fix c6aad9a only once the worker has left its loop (`waitWg.Wait()`).
Ghost fields (`start`, `confirmed`, `ends`, `readLog`, …) record history for the theorems; they do not
influence the steps.
-/
namespace Logrange.ScanWorker
open Logrange.LineReader

inductive WState where
  | running | untilEof | stopped
deriving DecidableEq, Repr

inductive Pc where
  | top
  | sampled (u : Bool)
  | got (u eof err : Bool)
  | sending (u eof : Bool)
  | confirming (u eof : Bool)
  | setting (u eof : Bool)         -- confirm rendez-vous done, `setOffset` not yet (hook scanner.worker.beforeSetOffset)
  | sleeping (u eof : Bool)
  | tail (u eof errNil : Bool)
  | done
deriving DecidableEq, Repr

structure Cfg where
  recsPerEvent : Nat
  /-- `true`: `w.state` is sampled before `NextRecord` (current code, after fix 91d80cf);
      `false`: it is read in the stop test after `sendOrSleep` (the code before the fix) -/
  sampleBefore : Bool
  /-- `true`: the final persist of `runPersistState` runs after `waitWg.Wait()`, i.e. after the worker has left its
      loop (current code, after fix c6aad9a); `false`: it runs as soon as the context is cancelled (before the fix) -/
  finalAfterWorkers : Bool := true
deriving DecidableEq, Repr

structure S where
  pc : Pc
  wstate : WState
  cancelled : Bool
  recs : List Bytes          -- the batch being collected / in flight
  pos : Nat                  -- parser.GetStreamPos()
  offset : Nat               -- desc.Offset
  persisted : Nat            -- the offset scanner.json holds
  -- ghost
  start : Nat
  confirmed : List Bytes     -- records of events whose Confirm() returned true, in order
  ends : List Nat            -- parser position at each confirm rendez-vous
  readLog : List Bytes       -- every record NextRecord returned, in order
  dropped : Bool             -- a collected batch was abandoned because the context was cancelled
  eofSeen : Bool             -- a NextRecord returned EOF after the run-until-EOF instruction
  stoppedByEof : Bool        -- the loop ended through the "EOF reached" rule
  confAtPersist : Nat        -- confirmed end at the moment of the last persist
  persistInWindow : Bool     -- the last persist ran between a confirm rendez-vous and its setOffset
deriving DecidableEq, Repr

def bytesOf (l : List Bytes) : Nat := l.flatten.length

def confEnd (s : S) : Nat := s.start + bytesOf s.confirmed

/-- a session starts: `SetStreamPos(desc.getOffset())` -/
def init (start : Nat) : S :=
  { pc := .top, wstate := .running, cancelled := false, recs := [], pos := start, offset := start,
    persisted := start, start := start, confirmed := [], ends := [], readLog := [], dropped := false,
    eofSeen := false, stoppedByEof := false, confAtPersist := start, persistInWindow := false }

inductive L where
  | step                   -- the worker's next internal, deterministic step
  | next (r : NR)          -- `NextRecord` answers (the environment: file content and growth, see LineReader)
  | send                   -- the consumer takes the event from `events`
  | confirm                -- the consumer's `Confirm()` meets the worker's send on `confCh`
  | setOffset
  | wake                   -- `utils.Sleep` returns
  | stopOnEOF              -- `syncWorkers` tells the worker to run until EOF
  | cancel                 -- the context is cancelled
  | persist                -- `persistState()`: a periodic tick
  | finalPersist           -- the final `persistState()` of `runPersistState` after the context was cancelled
deriving DecidableEq, Repr

def finish (s : S) (byEof : Bool) : S :=
  { s with pc := .done, wstate := .stopped, stoppedByEof := s.stoppedByEof || byEof }

def isSetting : Pc → Bool
  | .setting _ _ => true
  | _ => false

def step (c : Cfg) (s : S) : L → Option S
  | .stopOnEOF =>
    some (if s.wstate = .running then { s with wstate := .untilEof, eofSeen := false } else s)
  | .cancel => some { s with cancelled := true }
  | .persist =>
    some { s with persisted := s.offset, confAtPersist := confEnd s, persistInWindow := isSetting s.pc }
  | .finalPersist =>
    -- `for utils.Wait(ctx, ticker) {…}` has ended (cancelled); with the fix: `s.waitWg.Wait()` first
    if s.cancelled && (!c.finalAfterWorkers || s.pc == .done) then
      some { s with persisted := s.offset, confAtPersist := confEnd s, persistInWindow := isSetting s.pc }
    else none
  | .step =>
    match s.pc with
    | .top =>
      if s.cancelled then some (finish s false)
      else some { s with pc := .sampled (c.sampleBefore && s.wstate == .untilEof) }
    | .got u eof err =>
      if eof || s.recs.length == c.recsPerEvent then
        (if s.recs.isEmpty then some { s with pc := .sleeping u eof } else some { s with pc := .sending u eof })
      else some { s with pc := .tail u eof (!err) }
    | .sending u eof =>
      -- `case <-ctx.Done(): return fmt.Errorf("interrupted")`, then recycle
      if s.cancelled then some { s with pc := .tail u eof false, recs := [], dropped := true } else none
    | .confirming u eof =>
      -- waitConfirm: `case <-ctx.Done():`, sendOrSleep returns nil, then recycle
      if s.cancelled then some { s with pc := .tail u eof true, recs := [], dropped := true } else none
    | .tail u eof errNil =>
      let u' := if c.sampleBefore then u else s.wstate == .untilEof
      if eof && u' && errNil then some (finish s true)
      else if !errNil then some (finish s false)
      else some { s with pc := .top }
    | _ => none
  | .next r =>
    match s.pc with
    | .sampled u =>
      match r with
      | .record l =>
        some { s with pc := .got u false false, recs := s.recs ++ [l], pos := s.pos + l.length,
                      readLog := s.readLog ++ [l] }
      | .eof => some { s with pc := .got u true false, eofSeen := s.eofSeen || s.wstate == .untilEof }
      | .err => some { s with pc := .got u false true }
    | _ => none
  | .send =>
    match s.pc with
    | .sending u eof => some { s with pc := .confirming u eof }
    | _ => none
  | .confirm =>
    match s.pc with
    | .confirming u eof =>
      some { s with pc := .setting u eof, confirmed := s.confirmed ++ s.recs, ends := s.ends ++ [s.pos] }
    | _ => none
  | .setOffset =>
    match s.pc with
    | .setting u eof => some { s with pc := .tail u eof true, offset := s.pos, recs := [] }
    | _ => none
  | .wake =>
    match s.pc with
    | .sleeping u eof => some { s with pc := .tail u eof true }
    | _ => none

/-- run a trace; labels that are not enabled are skipped -/
def run (c : Cfg) (s : S) : List L → S
  | [] => s
  | l :: ls => match step c s l with
    | some s' => run c s' ls
    | none => run c s ls

end Logrange.ScanWorker
