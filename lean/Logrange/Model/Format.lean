import Logrange.Model.Outcome
/-!
# `model.NewFormatParser` (pkg/model/leformatter.go) — C13

The format string is scanned with a two-state machine (`state` 0 = constant text, 1 = inside `{…}`), remembering `startIdx`;
every slice expression of the code is a checked slice here: `fstr[startIdx:i]`, `fstr[startIdx:]`, `cv[4:]`,
`val[len(val)-1]`, `val[10:len(val)-1]`, `val[5:]`.

* The Go loop is `for i, rune := range fstr`: it visits the byte index of every rune start. The model visits every byte.
  The two agree on everything the loop body looks at: it only compares the rune with `{` and `}`, and a byte `0x7B`/`0x7D`
  is never part of a multi-byte sequence (continuation bytes are ≥ 0x80) nor skipped as one (an invalid byte is a rune of
  width 1), so the positions where the body acts are the same. The harness compares the model with the real parser.
* `strings.ToLower` is the parameter `lower` (it may change the length of the text — U+0130, invalid bytes — which is why the
  code's mix of `cv` for the tests and `val` for the slices deserves a proof); `strings.Trim(·, " ")` is `trimBlank`.
* `FormatStr` evaluates the parsed fields on an event: time formatting (`time.Format`, not modelled), the message
  (`EscapeJsonStr`: `Model/EscapeJson.lean`), `Fields.Value`, `Fields.AsKVString` (`Model/WireFields.lean`), `tag.Parse` (C08).
-/
namespace Logrange.Format
open Go Logrange

inductive FF where
  | ts (layout : Bytes)
  | msg (json : Bytes)
  | var (name : Bytes)
  | vars
  | const (s : Bytes)
  deriving Repr, DecidableEq

def trimBlank (s : Bytes) : Bytes := ((s.dropWhile (· == 32)).reverse.dropWhile (· == 32)).reverse

def sMsg : Bytes := [109, 115, 103]
def sMsgJson : Bytes := [109, 115, 103, 46, 106, 115, 111, 110, 40, 41]
def sTs : Bytes := [116, 115]
def sTsFormat : Bytes := [116, 115, 46, 102, 111, 114, 109, 97, 116, 40]
def sVars : Bytes := [118, 97, 114, 115]
def sVarsColon : Bytes := [118, 97, 114, 115, 58]
def rfc3339 : Bytes := [50, 48, 48, 54, 45, 48, 49, 45, 48, 50, 84, 49, 53, 58, 48, 52, 58, 48, 53, 90, 48, 55, 58, 48, 48]

/-- the body of `if rune == '}' { … }` for a non-empty `{…}`: which field the text between the braces denotes -/
def fieldOf (lower : Bytes → Bytes) (val : Bytes) : Outcome FF :=
  let cv := lower val
  if cv = sMsg then .ok (.msg [])
  else if cv = sMsgJson then (Go.sliceFrom cv 4).bind fun j => .ok (.msg j)                        -- cv[4:]
  else if cv = sTs then .ok (.ts rfc3339)
  else if sTsFormat.isPrefixOf cv ∧ 10 < val.length then                                           -- && short-circuits
    (Go.index val (val.length - 1)).bind fun last =>                                                -- val[len(val)-1]
      if last = 41 then (Go.slice val 10 ((val.length : Int) - 1)).bind fun l => .ok (.ts l)       -- val[10:len(val)-1]
      else if cv = sVars then .ok .vars
      else if sVarsColon.isPrefixOf cv ∧ 5 < val.length then (Go.sliceFrom val 5).bind fun n => .ok (.var n)
      else .err
  else if cv = sVars then .ok .vars
  else if sVarsColon.isPrefixOf cv ∧ 5 < val.length then (Go.sliceFrom val 5).bind fun n => .ok (.var n)   -- val[5:]
  else .err

/-- the loop: `rest` are the bytes from index `i` on -/
def scan (lower : Bytes → Bytes) (fstr : Bytes) : Bytes → Nat → Nat → Nat → List FF → Outcome (List FF)
  | [], _, state, startIdx, fields =>
    if state ≠ 0 then .err
    else if startIdx < fstr.length then (Go.sliceFrom fstr startIdx).bind fun c => .ok (fields ++ [.const c])
    else .ok fields
  | c :: rest, i, state, startIdx, fields =>
    if state = 0 then
      if c = 123 then
        (if 0 < i - startIdx then (Go.slice fstr startIdx i).bind fun k => .ok (fields ++ [.const k]) else .ok fields).bind fun fields =>
          scan lower fstr rest (i + 1) 1 (i + 1) fields
      else scan lower fstr rest (i + 1) 0 startIdx fields
    else
      if c = 123 then
        if startIdx = i then scan lower fstr rest (i + 1) 0 startIdx fields
        else .err
      else if c = 125 then
        if startIdx = i then scan lower fstr rest (i + 1) 0 startIdx fields
        else
          (Go.slice fstr startIdx i).bind fun raw =>
          (fieldOf lower (trimBlank raw)).bind fun f =>
            scan lower fstr rest (i + 1) 0 (i + 1) (fields ++ [f])
      else scan lower fstr rest (i + 1) state startIdx fields

/-- `NewFormatParser(fstr)` -/
def parse (lower : Bytes → Bytes) (fstr : Bytes) : Outcome (List FF) := scan lower fstr fstr 0 0 0 []

end Logrange.Format
