import Logrange.Model.Outcome
import Logrange.Generated.C13
/-!
# Position strings (C13): `journal.ParsePos` and `crsr.applyStatePos`

* `journal.ParsePos` (dependency `github.com/logrange/range/pkg/records/journal`): the empty string is the zero
  position; otherwise exactly 24 bytes, `pstr[:16]` parsed by `strconv.ParseUint(·, 16, 64)` and `pstr[16:]` by
  `strconv.ParseUint(·, 16, 32)`. `ParseUint` with an explicit base 16 accepts `0-9a-fA-F` only (no sign, no
  underscore, no prefix), rejects the empty string and values that do not fit the bit size.
* `pkg/cursor/cursor.go: applyStatePos`: `strings.Split(pos, ":")`, every part `strings.Split(v, "=")` must have
  exactly two elements `kv[0]`, `kv[1]`; the positions are collected in a map (a later entry for the same
  partition id replaces an earlier one). Applying the map to the cursor's iterators is not part of the decoding.

The two separators are regenerated from `/repo` (`Generated.C13.posJrnlSplit`, `posJrnlVal`).
-/
namespace Logrange.PosStr
open Go Logrange

/-- `strings.Split(s, string(sep))` for a one-byte separator: always at least one element -/
def splitByte (sep : UInt8) : Bytes → List Bytes
  | [] => [[]]
  | c :: r =>
    if c = sep then [] :: splitByte sep r
    else match splitByte sep r with
      | [] => [[c]]
      | h :: t => (c :: h) :: t

def hexDigit? (c : UInt8) : Option Nat :=
  let n := c.toNat
  if 48 ≤ n ∧ n ≤ 57 then some (n - 48)
  else if 97 ≤ n ∧ n ≤ 102 then some (n - 87)
  else if 65 ≤ n ∧ n ≤ 70 then some (n - 55)
  else none

def parseHexGo : Bytes → Nat → Option Nat
  | [], acc => some acc
  | c :: r, acc =>
    match hexDigit? c with
    | none => none
    | some d => parseHexGo r (acc * 16 + d)

/-- `strconv.ParseUint(s, 16, bits)`; `none` = error (syntax or range) -/
def parseUintHex (bits : Nat) (s : Bytes) : Option Nat :=
  if s.isEmpty then none
  else match parseHexGo s 0 with
    | none => none
    | some v => if v < 2 ^ bits then some v else none

/-- `journal.ParsePos`: (chunk id, record index) -/
def parsePos (s : Bytes) : Outcome (Nat × Nat) :=
  if s.length = 0 then .ok (0, 0)
  else if s.length ≠ 24 then .err
  else
    (Go.slice s 0 16).bind fun a =>                    -- pstr[:16]
      match parseUintHex 64 a with
      | none => .err
      | some ck =>
        (Go.sliceFrom s 16).bind fun b =>              -- pstr[16:]
          match parseUintHex 32 b with
          | none => .err
          | some ix => .ok (ck, ix)

/-- `m[jrnl] = pos` on an association list (insertion order kept, value replaced) -/
def mapSet (m : List (Bytes × (Nat × Nat))) (k : Bytes) (v : Nat × Nat) : List (Bytes × (Nat × Nat)) :=
  if m.any (·.1 == k) then m.map (fun e => if e.1 == k then (k, v) else e) else m ++ [(k, v)]

/-- the first loop of `applyStatePos` over `strings.Split(pos, ":")` -/
def applyParts : List Bytes → List (Bytes × (Nat × Nat)) → Outcome (List (Bytes × (Nat × Nat)))
  | [], m => .ok m
  | v :: vs, m =>
    let kv := splitByte Generated.C13.posJrnlVal v
    if kv.length ≠ 2 then .err
    else
      (Go.index kv 0).bind fun jrnl =>                 -- kv[0]
      (Go.index kv 1).bind fun ps =>                   -- kv[1]
      (parsePos ps).bind fun p => applyParts vs (mapSet m jrnl p)

def applyStatePos (pos : Bytes) : Outcome (List (Bytes × (Nat × Nat))) :=
  applyParts (splitByte Generated.C13.posJrnlSplit pos) []

end Logrange.PosStr
