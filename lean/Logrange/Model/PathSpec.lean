import Logrange.Model.PathMatch
/-!
# Specification of the shell pattern language of Go's `path.Match`, written from its documentation

    pattern:  { term }
    term:     '*'                                  matches any sequence of non-slash characters
              '?'                                  matches any single non-slash character
              '[' [ '^' ] { character-range } ']'  character class (must be non-empty)
              c                                    matches character c (c != '*', '?', '\\', '[')
              '\\' c                               matches character c
    character-range:  c | '\\' c | lo '-' hi       (c != '\\', '-', ']')

`parsePat` reads a pattern left to right into a list of `Item`s (`none` = malformed, Go's `ErrBadPattern`);
`matchItems` is the denotation: the name is split into pieces, one per item — a `*` piece is any run of bytes
without `/`, a `?` piece is one character that is not `/`, a class piece is one character in (not in) the ranges, a
literal piece is that byte. A *character* of the name is what `utf8.DecodeRune` yields: a rune on valid UTF-8, one
byte (U+FFFD) on an invalid byte, exactly as in Go. Class bounds are runes of the pattern (valid UTF-8 required, as
in Go); literals compare byte-wise (a multi-byte literal character is the sequence of its bytes).

Nothing here refers to `scanChunk` / `matchChunk` / the star loop of the implementation.
-/
namespace Logrange.PathSpec
open Logrange.PathMatch

inductive Item where
  | star
  | any
  | cls (neg : Bool) (ranges : List (Nat × Nat))
  | lit (c : UInt8)
deriving DecidableEq, Repr

/-- one class bound: `c` or `\c`, a valid rune, not `-` / `]` unescaped, and something must follow it -/
def bound (p : Bytes) : Option (Nat × Bytes) :=
  match p with
  | [] => none
  | c :: rest =>
    if c == DASH || c == RBR then none else
    let q := if c == BS then rest else p
    if q.isEmpty then none else
    let (r, n) := decodeRune q
    if r == runeError && n == 1 then none else
    if (q.drop n).isEmpty then none else some (r, q.drop n)

/-- `{ character-range } ']'` after at least `k` ranges; returns the ranges and what follows the `]` -/
def ranges (fuel : Nat) (p : Bytes) (k : Nat) : Option (List (Nat × Nat) × Bytes) :=
  match fuel with
  | 0 => none
  | fuel+1 =>
    match p with
    | [] => none
    | c :: rest =>
      if c == RBR && k > 0 then some ([], rest) else
      match bound p with
      | none => none
      | some (lo, p1) =>
        match p1 with
        | d :: p2 =>
          if d == DASH then
            match bound p2 with
            | none => none
            | some (hi, p3) => (ranges fuel p3 (k+1)).map (fun (rs, q) => ((lo, hi) :: rs, q))
          else (ranges fuel p1 (k+1)).map (fun (rs, q) => ((lo, lo) :: rs, q))
        | [] => none

/-- the pattern as a list of items; `none` = malformed -/
def parsePat (fuel : Nat) (p : Bytes) : Option (List Item) :=
  match fuel with
  | 0 => none
  | fuel+1 =>
    match p with
    | [] => some []
    | c :: rest =>
      if c == STAR then (parsePat fuel rest).map (Item.star :: ·)
      else if c == QM then (parsePat fuel rest).map (Item.any :: ·)
      else if c == BS then
        match rest with
        | [] => none
        | x :: rest' => (parsePat fuel rest').map (Item.lit x :: ·)
      else if c == LBR then
        let (neg, body) := match rest with
          | x :: b => if x == CARET then (true, b) else (false, rest)
          | [] => (false, rest)
        match ranges (body.length + 1) body 0 with
        | none => none
        | some (rs, q) => if q.length < p.length then (parsePat fuel q).map (Item.cls neg rs :: ·) else none
      else (parsePat fuel rest).map (Item.lit c :: ·)

def items? (p : Bytes) : Option (List Item) := parsePat (p.length + 1) p

/-- the pattern is well formed -/
def WellFormed (p : Bytes) : Prop := (items? p).isSome

/-- `*`: the continuation holds after dropping some run of non-`/` bytes -/
def starAny (k : Bytes → Bool) : Bytes → Bool
  | [] => k []
  | c :: t => k (c :: t) || (c != SL && starAny k t)

/-- the denotation: does the whole name consist of one piece per item? -/
def matchItems : List Item → Bytes → Bool
  | [], n => n.isEmpty
  | .star :: r, n => starAny (matchItems r) n
  | .any :: r, n =>
    (match n with
     | [] => false
     | c :: _ => c != SL && matchItems r (n.drop (decodeRune n).2))
  | .cls neg rs :: r, n =>
    (match n with
     | [] => false
     | _ :: _ =>
       let ch := (decodeRune n).1
       (rs.any (fun lh => decide (lh.1 ≤ ch) && decide (ch ≤ lh.2)) != neg) && matchItems r (n.drop (decodeRune n).2))
  | .lit c :: r, n =>
    (match n with
     | [] => false
     | x :: t => x == c && matchItems r t)

/-- `Matches p n`: `p` is well formed and `n` is in its denotation -/
def Matches (p n : Bytes) : Prop := ∃ its, items? p = some its ∧ matchItems its n = true

/-- executable form of the specification: `none` = malformed, else whether the name matches -/
def specMatch (p n : Bytes) : Option Bool := (items? p).map (fun its => matchItems its n)

end Logrange.PathSpec
