import Logrange.Generated.C02
/-!
# C02 — `partition.Service.Write` loop and `iwrapper`'s min/max over the journal write contract

`iwrapper.Get` keeps a running minimum/maximum of the timestamps it has handed out, with `0` meaning "unset"
(`IW.see`; whether the code still uses the sentinel is the regenerated pair of facts
`Generated.C02.iwrapperMin/MaxZeroSentinel`), is never reset between the chunks of one `Write`, and is asked once more
(peek at the next record) after every chunk. `Journal.Write` fills one chunk per call (each record costs `4 + len`
bytes, a chunk accepts records while its size is below `MaxChunkSize`), a full chunk is excluded and a new one created.
Every successful `Journal.Write` produces one `OnWrite(first, last, chunk, min, max)` call for the time index.
-/
namespace Logrange.WriteLoop
open Logrange
structure Chunk where
  id : Nat          -- dense id
  cnt : Nat := 0
  size : Nat := 0
deriving Inhabited

structure J where
  chunks : List Chunk := []
  nextId : Nat := 1
  maxSize : Nat

structure Rec where
  ts : Int
  len : Nat        -- marshalled length

def uvarLen (n : Nat) : Nat := if n < 128 then 1 else if n < 16384 then 2 else if n < 2097152 then 3 else 4
def recLen (msgLen fldLen : Nat) : Nat := 1 + 8 + uvarLen msgLen + msgLen + (if fldLen == 0 then 0 else uvarLen fldLen + fldLen)

structure IW where
  minTs : Int := 0
  maxTs : Int := 0
  seen : Bool := false          -- ghost: at least one record was handed out (what a flag-based repair would keep)
  sMin : Bool := Generated.C02.iwrapperMinZeroSentinel   -- does `Get` use `minTs == 0` as "unset"?
  sMax : Bool := Generated.C02.iwrapperMaxZeroSentinel
def IW.see (w : IW) (ts : Int) : IW :=
  let unsetMin := if w.sMin then w.minTs == 0 else !w.seen
  let unsetMax := if w.sMax then w.maxTs == 0 else !w.seen
  let mn := if w.minTs > ts || unsetMin then ts else w.minTs
  let mx := if w.maxTs < ts || unsetMax then ts else w.maxTs
  { w with minTs := mn, maxTs := mx, seen := true }
/-- the iwrapper a flag-based repair of finding #2 would give -/
def IW.repaired : IW := { sMin := false, sMax := false }

/-- Chunk.Write: appends while size < max; each record costs 4 + len; returns (chunk, written, rest, iw, full?) -/
def chunkWrite (fuel : Nat) (c : Chunk) (maxSize : Nat) (recs : List Rec) (iw : IW) (n : Nat) : Chunk × Nat × List Rec × IW × Bool :=
  match fuel with
  | 0 => (c, n, recs, iw, false)
  | fuel+1 =>
    if c.size ≥ maxSize then (c, n, recs, iw, true)
    else match recs with
      | [] => (c, n, [], iw, false)
      | r :: rest => chunkWrite fuel { c with cnt := c.cnt + 1, size := c.size + 4 + r.len } maxSize rest (iw.see r.ts) (n + 1)

/-- Journal.Write: one chunk per call -/
def journalWrite (j : J) (recs : List Rec) (iw : IW) : J × Nat × (Nat × Nat) × List Rec × IW :=
  let rec go (fuel : Nat) (j : J) (exclude : Option Nat) : J × Nat × (Nat × Nat) × List Rec × IW :=
    match fuel with
    | 0 => (j, 0, (0, 0), recs, iw)
    | fuel+1 =>
      -- GetChunkForWrite: last chunk unless excluded; else create
      let (j, c) := match j.chunks.getLast? with
        | some c => if some c.id == exclude then
            let nc : Chunk := { id := j.nextId }
            ({ j with chunks := j.chunks ++ [nc], nextId := j.nextId + 1 }, nc)
          else (j, c)
        | none => let nc : Chunk := { id := j.nextId }; ({ j with chunks := [nc], nextId := j.nextId + 1 }, nc)
      let (c', n, rest, iw', full) := chunkWrite (recs.length + 1) c j.maxSize recs iw 0
      let j' := { j with chunks := j.chunks.map (fun x => if x.id == c.id then c' else x) }
      if n > 0 then (j', n, (c.id, c'.cnt), rest, iw')
      else if full then go fuel j' (some c.id)
      else (j', 0, (0, 0), rest, iw')
  go 4 j none

structure Out where
  calls : List (Nat × Nat × Nat × Int × Int) := []        -- (first, last, cid, min, max) of every OnWrite call
  start : Option (Nat × Nat) := none
  endp : Option (Nat × Nat) := none

/-- Service.Write -/
def serviceWriteWith (iw0 : IW) (j : J) (recs : List Rec) : J × Out :=
  let rec loop (fuel : Nat) (j : J) (recs : List Rec) (iw : IW) (o : Out) : J × Out :=
    match fuel with
    | 0 => (j, o)
    | fuel+1 =>
      let (j, n, pos, rest, iw) := journalWrite j recs iw
      let o := if n > 0 then
          let call := (pos.2 - n, pos.2 - 1, pos.1, iw.minTs, iw.maxTs)
          { o with calls := o.calls ++ [call], start := (match o.start with | none => some (pos.1, pos.2 - n) | s => s), endp := some pos }
        else o
      -- iw.Get(ctx): peek at the next record (updates min/max), stop if none
      match rest with
      | [] => (j, o)
      | r :: _ => if n == 0 then (j, o) else loop fuel j rest (iw.see r.ts) o
  loop (recs.length + 2) j recs iw0 {}

def serviceWrite (j : J) (recs : List Rec) : J × Out := serviceWriteWith {} j recs

def render (o : Out) : String :=
  let p (x : Option (Nat × Nat)) := match x with | some (a, b) => s!"{a}:{b}" | none => "-"
  "calls=[" ++ "; ".intercalate (o.calls.map (fun (a, b, c, d, e) => s!"{a} {b} {c} {d} {e}")) ++ "] start=" ++ p o.start ++ " end=" ++ p o.endp
end Logrange.WriteLoop
