import Logrange.Model.LqlQuote
/-!
# LQL lexer (pkg/lql/lexer.go + the pattern in pkg/lql/parser.go)

`regexpLexer.Next` applies one anchored leftmost-**longest** match (`re.Longest()`) of the alternation
`(\s+)|Keyword|Ident|String|Operator|Number|Tags` at the head of the remaining input; the first group that
participated in the (longest) match names the token; among equally long alternatives the earliest group wins.
Here every group has its own hand-written maximal-munch matcher `m…` returning the length of its longest match
(0 = no match); `lexOne` takes the strictly-longest candidate in group order. String tokens then go through
participle's own `unquote` (repeated `strconv.UnquoteChar` with the token's first byte as quote, every result
appended **as a rune**).  The keyword list and the fact that the other groups still have the modelled pattern text
come from `Generated.C12` (regenerated from /repo on every run).
-/
namespace Logrange.Lql
open GoLib

def isSpace (c : UInt8) : Bool := c == 9 || c == 10 || c == 12 || c == 13 || c == 32
def isDigit (c : UInt8) : Bool := 48 ≤ c.toNat && c.toNat ≤ 57
def isAlpha (c : UInt8) : Bool := (65 ≤ c.toNat && c.toNat ≤ 90) || (97 ≤ c.toNat && c.toNat ≤ 122)
def lower (c : UInt8) : UInt8 := if 65 ≤ c.toNat && c.toNat ≤ 90 then UInt8.ofNat (c.toNat + 32) else c
def isIdentStart (c : UInt8) : Bool := isAlpha c || c == 95
def isIdentRest (c : UInt8) : Bool := isAlpha c || isDigit c || c == 95 || c == 46 || c == 47 || c == 45 || c == 58

/-- `strings.EqualFold` on the ASCII texts that occur here (keywords are ASCII; a non-ASCII token never equals one) -/
def eqFold : Bytes → Bytes → Bool
  | [], [] => true
  | x :: xs, y :: ys => lower x == lower y && eqFold xs ys
  | _, _ => false

def hasPrefixFold : Bytes → Bytes → Bool
  | _, [] => true
  | [], _ :: _ => false
  | x :: xs, y :: ys => lower x == lower y && hasPrefixFold xs ys

def keywords : List Bytes := Logrange.Generated.C12.keywords

def isKeyword (v : Bytes) : Bool := keywords.any (fun k => eqFold v k)

def mSpace (s : Bytes) : Nat := (s.takeWhile isSpace).length
def mKeyword (s : Bytes) : Nat :=
  keywords.foldl (fun best k => if hasPrefixFold s k && k.length > best then k.length else best) 0
def mIdent (s : Bytes) : Nat :=
  match s with
  | c :: r => if isIdentStart c then 1 + (r.takeWhile isIdentRest).length else 0
  | [] => 0

/-- body of `"([^\\"]|\\.)*"` after the opening quote: length up to and including the closing quote, 0 = no match -/
def mStrBody : Nat → Bytes → Nat → Nat
  | 0, _, _ => 0
  | _+1, [], _ => 0
  | fuel+1, d :: r', n =>
    if d == DQ then n + 1
    else if d == BS then
      match r' with
      | e :: r'' => if e == 10 then 0 else mStrBody fuel r'' (n + 2)
      | [] => 0
    else mStrBody fuel r' (n + 1)

/-- `"([^\\"]|\\.)*"` (`.` does not match a newline; a negated class does) or `'[^']*'` -/
def mString (s : Bytes) : Nat :=
  match s with
  | c :: r =>
    if c == DQ then mStrBody (r.length + 1) r 1
    else if c == 39 then
      let body := r.takeWhile (· != 39)
      if body.length < r.length then body.length + 2 else 0
    else 0
  | [] => 0

def opChars : List UInt8 := [45,43,42,47,37,44,46,61,60,62,40,41]
def mOperator (s : Bytes) : Nat :=
  match s with
  | a :: b :: _ =>
    if (a == 60 && b == 62) || (a == 33 && b == 61) || (a == 60 && b == 61) || (a == 62 && b == 61) then 2
    else if opChars.contains a then 1 else 0
  | [a] => if opChars.contains a then 1 else 0
  | [] => 0

def unitChars : List UInt8 := [109,77,107,75,103,71,116,84,98,66,112,80]

/-- `[-+]?\d*\.?\d+([eE][-+]?\d+|[mMkKgGtTbBpP][ib]{0,2})?`, longest -/
def mNumber (s : Bytes) : Nat :=
  let sign := match s with | c :: _ => if c == 45 || c == 43 then 1 else 0 | [] => 0
  let r := s.drop sign
  let d1 := (r.takeWhile isDigit).length
  let r1 := r.drop d1
  let withDot := match r1 with
    | c :: r2 => if c == 46 then let d2 := (r2.takeWhile isDigit).length; if d2 > 0 then d1 + 1 + d2 else 0 else 0
    | [] => 0
  let core := if withDot > 0 then withDot else d1
  if core == 0 then 0 else
  let rest := r.drop core
  let suffix :=
    match rest with
    | c :: r3 =>
      if c == 101 || c == 69 then
        let sg := match r3 with | x :: _ => if x == 45 || x == 43 then 1 else 0 | [] => 0
        let dd := ((r3.drop sg).takeWhile isDigit).length
        if dd > 0 then 1 + sg + dd else 0
      else if unitChars.contains c then
        1 + ((r3.take 2).takeWhile (fun x => x == 105 || x == 98)).length
      else 0
    | [] => 0
  sign + core + suffix

/-- index (1-based, counted from the start of `l`) just after the last `}` that has at least one byte before it;
`i` = number of bytes already passed, `best` = best so far (0 = none) -/
def lastBrace : Bytes → Nat → Nat → Nat
  | [], _, best => best
  | c :: r, i, best => lastBrace r (i + 1) (if c == 125 && i ≥ 1 then i + 1 else best)

/-- `\{.+\}`: `.` excludes newline; greedy, so up to the **last** `}` of the line; at least one byte inside -/
def mTagsGreedy (s : Bytes) : Nat :=
  match s with
  | c :: r =>
    if c != 123 then 0 else
    let k := lastBrace (r.takeWhile (· != 10)) 0 0
    if k == 0 then 0 else k + 1
  | [] => 0

/-! the quote-aware Tags pattern `\{(?:[^}"\n]|"(?:[^"\\\n]|\\.)*"|\}+[^\s}"])+\}+(?: *\})*` (proposed-fixes/F12a.diff): the
elements are decided by their first byte (plain byte, `"…"` segment, `}`-run followed by a byte that continues a value), so
the leftmost-longest match is the last valid end met by one left-to-right scan -/

/-- after an opening `"`: the text after the closing `"` (`none` = unterminated on this line) -/
def qaString : Nat → Bytes → Option Bytes
  | 0, _ => none
  | _+1, [] => none
  | f+1, d :: r =>
    if d == 34 then some r else if d == 10 then none
    else if d == 92 then (match r with | e :: r' => if e == 10 then none else qaString f r' | [] => none)
    else qaString f r

/-- `(?: *\})*` -/
def qaTail : Nat → Bytes → Nat
  | 0, _ => 0
  | f+1, s =>
    let sp := (s.takeWhile (· == 32)).length
    match s.drop sp with
    | c :: r => if c == 125 then sp + 1 + qaTail f r else 0
    | [] => 0

/-- scan after `{`: `pos` bytes consumed so far, `cnt` elements so far, `best` = longest valid end so far (0 = none) -/
def qaScan : Nat → Bytes → Nat → Nat → Nat → Nat
  | 0, _, _, _, best => best
  | _+1, [], _, _, best => best
  | f+1, c :: r, pos, cnt, best =>
    if c == 10 then best
    else if c == 125 then
      let k := (r.takeWhile (· == 125)).length + 1
      let after := r.drop (k - 1)
      let q := pos + k
      let best' := if cnt ≥ 1 then q + qaTail (after.length + 1) after else best
      match after with
      | x :: r' => if isSpace x || x == 125 || x == 34 then best' else qaScan f r' (q + 1) (cnt + 1) best'
      | [] => best'
    else if c == 34 then
      match qaString (r.length + 1) r with
      | some r' => qaScan f r' (pos + 1 + (r.length - r'.length)) (cnt + 1) best
      | none => best
    else qaScan f r (pos + 1) (cnt + 1) best

def mTagsQuoteAware (s : Bytes) : Nat :=
  match s with
  | c :: r => if c != 123 then 0 else qaScan (r.length + 1) r 1 0 0
  | [] => 0

/-- the Tags group as the extractor finds it in /repo now -/
def mTags (s : Bytes) : Nat :=
  if Logrange.Generated.C12.tagsQuoteAware then mTagsQuoteAware s else mTagsGreedy s

/-- candidates in group order; `none` = the anonymous blank group -/
def cands (s : Bytes) : List (Nat × Option TT) :=
  [(mSpace s, none), (mKeyword s, some .keyword), (mIdent s, some .ident), (mString s, some .string),
   (mOperator s, some .operator), (mNumber s, some .number), (mTags s, some .tags)]

def pickBest (cs : List (Nat × Option TT)) : Nat × Option TT :=
  cs.foldl (fun (b : Nat × Option TT) c => if c.1 > b.1 then c else b) (0, none)

/-- one lexing step: `none` = "invalid token"; otherwise (token or skipped blanks, consumed length) -/
def lexOne (s : Bytes) : Option (Option Tok × Nat) :=
  let best := pickBest (cands s)
  if best.1 == 0 then none
  else match best.2 with
    | none => some (none, best.1)
    | some t => some (some ⟨t, s.take best.1⟩, best.1)

def unquoteLoop : Nat → Bytes → UInt8 → Bytes → Option Bytes
  | 0, _, _, _ => none
  | fuel+1, s, q, acc =>
    if s.isEmpty then some acc else
    match unquoteChar s q with
    | none => none
    | some (r, _, tail) => unquoteLoop fuel tail q (acc ++ encodeRune r)

/-- participle's own `unquote` for String tokens (map.go) -/
def unquoteTok (v : Bytes) : Option Bytes :=
  match v with
  | q :: _ =>
    let inner := (v.drop 1).take (v.length - 2)
    unquoteLoop (inner.length + 1) inner q []
  | [] => none

def lexAll : Nat → Bytes → List Tok → Option (List Tok)
  | 0, _, _ => none
  | fuel+1, s, acc =>
    if s.isEmpty then some acc.reverse else
    match lexOne s with
    | none => none
    | some (none, n) => lexAll fuel (s.drop n) acc
    | some (some t, n) =>
      if t.t == .string then
        match unquoteTok t.v with
        | none => none
        | some u => lexAll fuel (s.drop n) (⟨.string, u⟩ :: acc)
      else lexAll fuel (s.drop n) (t :: acc)

/-- the whole token stream participle hands to the parser (`none` = lexer error = parse error) -/
def lex (s : Bytes) : Option (List Tok) := lexAll (s.length + 1) s []

end Logrange.Lql
