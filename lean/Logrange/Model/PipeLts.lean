import Logrange.Go.Basic
/-!
# Model of a pipe and its sources as a labelled transition system (C10; `no_stranded_data` also serves C11)

Mirrors `pkg/pipe/{service,ppipe,worker,siterator,persister}.go` and the notification half of
`pkg/partition/partition.go` (`Service.Write`, `onWriteEvent`, `GetWriteEvent`), at the granularity of the
critical sections of `pp.lock` / `s.lock` and of the rendez-vous on the write-event channel.

One pipe (absent → live → deleted), any number of source partitions `0 … n-1`. Per source:

* `log`      the records stored in the source partition, in stored order (positions are abstracted to the global
             record index: `journal.Pos` is ordered lexicographically by (chunk, index), and that order is the
             order of global indices);
* `desc`     the pipe's `ppDesc{Pos, LastKnwnPos, wCharged}` for this source (+ ghost `start`: the `Pos` the
             descriptor was created with, + ghost `stale`);
* `wk`       the program counter of the (at most one) worker of this pipe and source;
* `saved`    what `pipe<name>.dat` holds for the source (`savePipeInfo` writes the whole map; `wCharged` and
             `curId` are unexported fields and are therefore not persisted).

Environment / service steps (`Label`): `write` (journal append; the `WriteEvent` becomes *pending* in the writer —
publishing it on the bounded channel is the separate step `enqueue`, so two writers' notifications can be
enqueued in either order), `notify` (notificator: dequeue → `getPipesForSource` with its cache → `onWriteEvent` →
`startWorker`), worker steps `wopen` (cursor from the saved `Pos`), `wcopy` (`Service.Write(noEvent)` of what the
cursor sees — through `siterator`, which appends the provenance fields and **steps over the events the compiled filter
rejects iff `Cfg.applyFilter`**, which the extractor regenerates from the source: since the repair f08ebbf of finding F09
`siterator.Get` calls `fltF`; the cursor moves over everything it saw, accepted or not), `wsave`
(`saveState`), `wtimeout` (the wait timed out or the context ended), `wdone` (`workerDone`: clear `wCharged`,
re-arm if `Pos < LastKnwnPos`), `create`, `delete`, `shutdown`/`halt`/`restart`. The registry file `pipes.dat` is the flag
`reg` (rewritten by create / delete / shutdown as the regenerated facts say; a restart takes the pipe's existence from it).
-/
namespace Logrange.PipeLts

structure Ev where
  ts : Int
  msg : Bytes
  fields : Bytes
deriving DecidableEq, Repr, Inhabited

/-- `siterator.Get`: `le.Fields = le.Fields.Concat(extFlds)` — byte concatenation; timestamp and message untouched -/
def addProv (prov : Bytes) (e : Ev) : Ev := { e with fields := e.fields ++ prov }

/-- length of xbinary's base-128 varint of `n` -/
def varintLen (n : Nat) : Nat := if n < 128 then 1 else if n < 16384 then 2 else if n < 2097152 then 3 else if n < 268435456 then 4 else 5

/-- `model.LogEvent.WritableSize`: header byte, timestamp, length-prefixed message and — only when the (binary) field list
is not empty — the length-prefixed field list. This is the size of the journal record of the event. -/
def recSize (e : Ev) : Nat :=
  1 + 8 + varintLen e.msg.length + e.msg.length +
    (if e.fields.isEmpty then 0 else varintLen e.fields.length + e.fields.length)

/-- `partition.WriteEvent` -/
structure WE where
  src : Nat
  startPos : Nat
  endPos : Nat
deriving DecidableEq, Repr, Inhabited

/-- `ppDesc` -/
structure Desc where
  pos : Nat
  lastKnown : Nat
  charged : Bool
  /-- ghost: `Pos` at the first notification -/
  start : Nat
  /-- ghost: loaded by a restart with `Pos < LastKnwnPos` (a stop that was not quiescent) and not charged since -/
  stale : Bool
deriving DecidableEq, Repr, Inhabited

inductive Wk where
  | none
  | starting                -- `go w.run`, before `getState`
  | opened (cur : Nat)      -- cursor positioned at `cur`, loop head
  | written (cur : Nat)     -- `Journals.Write` returned (cursor now at `cur`), `saveState` not yet called
  | finishing               -- left the loop, `workerDone` (deferred) not yet run
deriving DecidableEq, Repr, Inhabited

structure SrcSt where
  log : List Ev := []
  /-- `field.Parse(srcTags)`: the source's tags as fields -/
  prov : Bytes := []
  /-- `srcF(tags)`: the tags satisfy the pipe's source condition -/
  listens : Bool := false
  desc : Option Desc := none
  wk : Wk := .none
  saved : Option Desc := none
  /-- ghost: number of records the source held when the pipe was created -/
  createdAt : Nat := 0
deriving Repr, Inhabited

inductive PipeSt where
  | absent | live | deleted
deriving DecidableEq, Repr, Inhabited

/-- facts regenerated from the source (`Generated.C10`) -/
structure Cfg where
  /-- capacity of `partition.Service.weCh` -/
  chanCap : Nat
  /-- `CreatePipe` drops `weCache` -/
  dropOnCreate : Bool
  /-- `DeletePipe` drops `weCache` -/
  dropOnDelete : Bool
  /-- the compiled filter `fltF` is consulted by the copying code -/
  applyFilter : Bool
  /-- `workerDone` calls `startWorker` -/
  rearm : Bool
  /-- `CreatePipe` / `DeletePipe` / `Shutdown` call `savePipes` (rewrite the registry file `pipes.dat`) -/
  saveOnCreate : Bool
  saveOnDelete : Bool
  saveOnShutdown : Bool
  /-- `startWorker` also tests that the pipe itself is alive (`pp.clsCtx` / `pp.deleted`), not only the service -/
  startChecksPipe : Bool
deriving DecidableEq, Repr

structure State where
  n : Nat
  srcs : Nat → SrcSt
  /-- the pipe's partition `{logrange.pipe=<name>}`: (source it was copied from, event) in stored order -/
  dest : List (Nat × Ev)
  chan : List WE
  pend : List WE
  pipe : PipeSt
  /-- `weCache[src]` reduced to "is this pipe in the cached list" -/
  cache : Nat → Option Bool
  /-- other pipes exist (so `len(s.ppipes) == 0` does not short-cut the cache) -/
  others : Bool
  /-- the pipe's filter `F` -/
  flt : Ev → Bool
  closed : Bool
  down : Bool
  /-- the registry file `pipes.dat` lists the pipe -/
  reg : Bool

def upd {α : Type} (f : Nat → α) (s : Nat) (v : α) : Nat → α := fun s' => if s' = s then v else f s'

@[simp] theorem upd_self {α : Type} (f : Nat → α) (s : Nat) (v : α) : upd f s v s = v := by simp [upd]
theorem upd_ne {α : Type} (f : Nat → α) (s s' : Nat) (v : α) (h : s' ≠ s) : upd f s v s' = f s' := by simp [upd, h]

def slice {α : Type} (l : List α) (a b : Nat) : List α := (l.drop a).take (b - a)

/-- what the copying code lets through -/
def sel (cfg : Cfg) (flt : Ev → Bool) (l : List Ev) : List Ev := if cfg.applyFilter then l.filter flt else l

/-- the events of the pipe partition that were copied from source `s`, in stored order -/
def proj (s : Nat) (dest : List (Nat × Ev)) : List Ev := (dest.filter (fun x => x.1 == s)).map (·.2)

inductive Label where
  | write (s : Nat) (batch : List Ev)
  | enqueue (i : Nat)
  | notify
  | wopen (s : Nat)
  | wcopy (s : Nat) (k : Nat)
  | wsave (s : Nat)
  | wtimeout (s : Nat)
  | wdone (s : Nat)
  | create
  | delete
  | shutdown
  | halt
  | restart
deriving Repr

/-- `ppipe.startWorker` on a descriptor: `closedCtx.Err() == nil && !pd.wCharged && pd.Pos.Less(pd.LastKnwnPos)` -/
def startWorker (closed : Bool) (σ : SrcSt) (d : Desc) : SrcSt :=
  if !closed && !d.charged && decide (d.pos < d.lastKnown) then
    { σ with desc := some { d with charged := true, stale := false }, wk := .starting }
  else { σ with desc := some d }

/-- `ppipe.onWriteEvent` -/
def onWriteEvent (closed : Bool) (σ : SrcSt) (we : WE) : SrcSt :=
  match σ.desc with
  | none => startWorker closed σ { pos := we.startPos, lastKnown := we.endPos, charged := false, start := we.startPos, stale := false }
  | some d => startWorker closed σ { d with lastKnown := we.endPos }

/-- `Service.getPipesForSource` for the one pipe of the model: (is the pipe in the returned list, cache afterwards) -/
def pipesForSource (st : State) (s : Nat) : Bool × (Nat → Option Bool) :=
  if st.pipe != .live && !st.others then (false, st.cache)
  else match st.cache s with
    | some b => (b, st.cache)
    | none =>
      let b := st.pipe == .live && (st.srcs s).listens
      (b, upd st.cache s (some b))

/-- the first conjunct of `startWorker`'s condition, negated: no worker may be started — the service is closing
(`closedCtx.Err() != nil`) or, if the code tests it, the pipe is deleted -/
def noStart (cfg : Cfg) (st : State) : Bool := st.closed || (cfg.startChecksPipe && st.pipe == .deleted)

def allIdle (st : State) : Bool := (List.range st.n).all (fun s => (st.srcs s).wk == .none)

def step (cfg : Cfg) (st : State) : Label → Option State
  | .write s batch =>
    -- `partition.Service.Write`: the journal loop; the event is published later (`enqueue`)
    if st.down || decide (st.n ≤ s) then none else
    let σ := st.srcs s
    let σ' := { σ with log := σ.log ++ batch }
    let pend' := if batch.isEmpty then st.pend else st.pend ++ [⟨s, σ.log.length, σ.log.length + batch.length⟩]
    some { st with srcs := upd st.srcs s σ', pend := pend' }
  | .enqueue i =>
    -- `onWriteEvent`: `s.weCh <- we` (blocks while the channel is full)
    match st.pend[i]? with
    | none => none
    | some we =>
      if st.down || decide (cfg.chanCap ≤ st.chan.length) then none
      else some { st with pend := st.pend.eraseIdx i, chan := st.chan ++ [we] }
  | .notify =>
    if st.down || st.closed then none else
    match st.chan with
    | [] => none
    | we :: rest =>
      let (hit, cache') := pipesForSource st we.src
      if hit then
        some { st with chan := rest, cache := cache', srcs := upd st.srcs we.src (onWriteEvent (noStart cfg st) (st.srcs we.src) we) }
      else some { st with chan := rest, cache := cache' }
  | .wopen s =>
    -- `getState` + `GetOrCreate`: the cursor is positioned at the saved `Pos`
    let σ := st.srcs s
    match σ.wk, σ.desc with
    | .starting, some d => some { st with srcs := upd st.srcs s { σ with wk := .opened d.pos } }
    | _, _ => none
  | .wcopy s k =>
    -- loop head `ctx.Err() == nil`, then `Journals.Write(ctx, dst, &si, true)`: everything the cursor sees
    let σ := st.srcs s
    match σ.wk with
    | .opened c =>
      if st.closed || st.pipe != .live then none else
      let c' := min (c + k) σ.log.length
      let evs := sel cfg st.flt (slice σ.log c c')
      some { st with dest := st.dest ++ evs.map (fun e => (s, addProv σ.prov e)),
                     srcs := upd st.srcs s { σ with wk := .written c' } }
    | _ => none
  | .wsave s =>
    -- `saveState`: `pd.Pos = pos; savePipeInfo(name, pp.partitions)` — the whole map is written
    let σ := st.srcs s
    match σ.wk, σ.desc with
    | .written c, some d =>
      let f := upd st.srcs s { σ with wk := .opened c, desc := some { d with pos := c } }
      some { st with srcs := fun s' => { f s' with saved := (f s').desc } }
    | _, _ => none
  | .wtimeout s =>
    -- `WaitNewData` timed out / the context ended / `GetOrCreate` failed: the worker leaves
    let σ := st.srcs s
    match σ.wk with
    | .opened _ => some { st with srcs := upd st.srcs s { σ with wk := .finishing } }
    | .starting => some { st with srcs := upd st.srcs s { σ with wk := .finishing } }
    | _ => none
  | .wdone s =>
    -- `workerDone`: `pd.wCharged = false; pp.startWorker(...)`
    let σ := st.srcs s
    match σ.wk, σ.desc with
    | .finishing, some d =>
      let d' := { d with charged := false }
      let σ' := { σ with wk := .none, desc := some d' }
      some { st with srcs := upd st.srcs s (if cfg.rearm then startWorker (noStart cfg st) σ' d' else σ') }
    | _, _ => none
  | .create =>
    -- `CreatePipe`: registers the ppipe; the positions file of a fresh name does not exist
    if st.down || st.pipe != .absent then none else
    some { st with pipe := .live, cache := if cfg.dropOnCreate then fun _ => none else st.cache,
                   reg := if cfg.saveOnCreate then true else st.reg,
                   srcs := fun s => { st.srcs s with createdAt := (st.srcs s).log.length } }
  | .delete =>
    if st.down || st.pipe != .live then none else
    some { st with pipe := .deleted, cache := if cfg.dropOnDelete then fun _ => none else st.cache,
                   reg := if cfg.saveOnDelete then false else st.reg }
  | .shutdown =>
    if st.down || st.closed then none else some { st with closed := true }
  | .halt =>
    -- `Shutdown`: `wwg.Wait()` — every worker has run `workerDone`; queued and unpublished notifications are gone
    if st.closed && !st.down && allIdle st then
      some { st with down := true, chan := [], pend := [], reg := if cfg.saveOnShutdown then st.pipe == .live else st.reg }
    else none
  | .restart =>
    -- `Service.Init`: `loadPipes` (the registry file decides which pipes exist), `newPPipe` → `loadPipeInfo`
    if st.down then
      some { st with down := false, closed := false, cache := fun _ => none,
                     pipe := if st.reg then .live else (match st.pipe with | .live => .absent | p => p),
                     srcs := fun s => { st.srcs s with
                       desc := (st.srcs s).saved.map (fun d => { d with charged := false, stale := decide (d.pos < d.lastKnown) }) } }
    else none

def run (cfg : Cfg) (st : State) : List Label → State
  | [] => st
  | l :: ls => match step cfg st l with
    | some st' => run cfg st' ls
    | none => run cfg st ls

def init (n : Nat) (listens : Nat → Bool) (prov : Nat → Bytes) (flt : Ev → Bool) (others : Bool) : State :=
  { n := n, srcs := fun s => { listens := listens s, prov := prov s }, dest := [], chan := [], pend := [],
    pipe := .absent, cache := fun _ => none, others := others, flt := flt, closed := false, down := false, reg := false }

/-- nothing in flight: no unpublished or queued notification, no worker -/
def quiescent (st : State) : Bool := st.pend.isEmpty && st.chan.isEmpty && allIdle st

/-- SPEC: what the property demands of the pipe partition for source `s` — the events written after the pipe
was created to a source whose tags satisfy `S`, for which `F` is true, in stored order, provenance appended -/
def specProj (st : State) (s : Nat) : List Ev :=
  let σ := st.srcs s
  if σ.listens then ((σ.log.drop σ.createdAt).filter st.flt).map (addProv σ.prov) else []

end Logrange.PipeLts
