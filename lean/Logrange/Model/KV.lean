import Logrange.Model.Quote
/-!
# `pkg/utils/kvstring`: `RemoveCurlyBraces`, `SplitString`, `TrimSpaces`, `ToMap`, `MapSubset`

Function by function in the shape of the Go code; `Option` = ok / error (error texts are never compared).
A Go `map[string]string` is an association list kept sorted by key with distinct keys (`Map`); inserting an
existing key replaces its value (Go's `mp[k] = v`). Go's random iteration order over such a map is an explicit
list parameter wherever the code ranges over the map (see `Tags.lineOf`).
-/
namespace Logrange.KV
open Go Logrange.Quote

def SP : UInt8 := 32
def LB : UInt8 := 123
def RB : UInt8 := 125
def BQ : UInt8 := 96
/-- `kvstring.KeyValueSeparator[0]` (regenerated from the source) -/
abbrev EQ : UInt8 := Logrange.Generated.C08.kvSep
/-- `kvstring.FieldsSeparator[0]` (regenerated from the source) -/
abbrev CM : UInt8 := Logrange.Generated.C08.fldSep

/-! ## RemoveCurlyBraces

```go
idx, cnt := 0, 0
for ; idx < len(str); idx++ { ' ' → continue; '{' → cnt++, continue; break }
tidx := len(str)-1
for ; tidx > idx && cnt >= 0; tidx-- { ' ' → continue; '}' → cnt--, continue; break }
if tidx == idx || cnt != 0 { error }
return str[idx:tidx+1]
```
`leadScan` is the first loop (returns `str[idx:]` and `cnt`); the second loop never looks at `str[idx]`, so it
runs over the reversed tail of `str[idx:]` (`trailScan`); `tidx == idx` ⇔ it consumed that whole tail. -/

def leadScan : Bytes → Nat → Bytes × Nat
  | [], cnt => ([], cnt)
  | c :: r, cnt =>
    if c == SP then leadScan r cnt
    else if c == LB then leadScan r (cnt + 1)
    else (c :: r, cnt)

def trailScan : Bytes → Int → Bytes × Int
  | [], cnt => ([], cnt)
  | c :: r, cnt =>
    if cnt ≥ 0 then
      if c == SP then trailScan r cnt
      else if c == RB then trailScan r (cnt - 1)
      else (c :: r, cnt)
    else (c :: r, cnt)

def removeCurlyBraces (str : Bytes) : Option Bytes :=
  match leadScan str 0 with
  | ([], cnt) => if cnt != 0 then none else some []      -- idx = len(str): tidx = len-1 ≠ idx, the slice is empty
  | (c :: tl, cnt0) =>
    match trailScan tl.reverse (cnt0 : Int) with
    | (rem, cnt) => if rem.isEmpty || cnt != 0 then none else some (c :: rem.reverse)

/-! ## SplitString (with `kvSep = '='`, `fldSep = ','` as `ToMap` and `NewFieldsFromKVString` call it) -/

structure SS where
  inStr : Bool := false
  expKV : Bool := true
  cur : Bytes := []      -- reversed
  out : List Bytes := [] -- reversed

def splitGo : Bytes → SS → Option (List Bytes)
  | [], s => if s.inStr then none else some ((s.cur.reverse :: s.out).reverse)
  | c :: rest, s =>
    if c == DQ then splitGo rest { s with inStr := !s.inStr, cur := c :: s.cur }
    else if c == BS && s.inStr then
      match rest with
      | [] => none                      -- endIdx runs past the end while still inside a string: "not closed"
      | d :: rest' => splitGo rest' { s with cur := d :: c :: s.cur }
    else if (c == EQ || c == CM) && !s.inStr then
      if (c == EQ) != s.expKV then none
      else splitGo rest { s with expKV := !s.expKV, out := s.cur.reverse :: s.out, cur := [] }
    else splitGo rest { s with cur := c :: s.cur }

def splitString (s : Bytes) : Option (List Bytes) := splitGo s {}

/-! ## TrimSpaces: `i` = first non-blank, `j` from the end down to `i` (exclusive) over blanks, `str[i:j+1]` -/

def trimSpaces (s : Bytes) : Bytes :=
  ((s.dropWhile (· == SP)).reverse.dropWhile (· == SP)).reverse

/-! ## ToMap -/

/-- the value part of `ToMap`'s loop body: unquote when the trimmed value starts with `"` or a backquote -/
def decodeValue (v : Bytes) : Option Bytes :=
  match v with
  | c :: _ => if c == DQ || c == BQ then unquote v else some v
  | [] => some v

def toPairs : List Bytes → Option (List (Bytes × Bytes))
  | [] => some []
  | [_] => none                                   -- `len(res)&1 == 1`
  | k :: v :: rest =>
    let k := trimSpaces k
    let v := trimSpaces v
    if k.isEmpty then none else
    match decodeValue v with
    | none => none
    | some v =>
      match toPairs rest with
      | none => none
      | some r => some ((k, v) :: r)

abbrev Map := List (Bytes × Bytes)

/-- `mp[k] = v` on the sorted association list -/
def Map.insert (k v : Bytes) : Map → Map
  | [] => [(k, v)]
  | (k', v') :: r =>
    if bytesLt k k' then (k, v) :: (k', v') :: r
    else if k = k' then (k, v) :: r
    else (k', v') :: Map.insert k v r

def Map.get? (m : Map) (k : Bytes) : Option Bytes := (m.find? (fun p => p.1 = k)).map (·.2)

/-- keys strictly increasing -/
def Map.WF (m : Map) : Prop := m.Pairwise (fun a b => bytesLt a.1 b.1 = true)

def Map.ofPairs (ps : List (Bytes × Bytes)) : Map := ps.foldl (fun m p => Map.insert p.1 p.2 m) []

def toMap (kvs : Bytes) : Option Map :=
  match removeCurlyBraces kvs with
  | none => none
  | some fine =>
    if fine.isEmpty then some [] else
    match splitString fine with
    | none => none
    | some parts =>
      match toPairs parts with
      | none => none
      | some ps => some (Map.ofPairs ps)

/-- `MapSubset(m1, m2)`: every pair of `m1` is in `m2` -/
def mapSubset (m1 m2 : Map) : Bool := m1.all (fun p => m2.get? p.1 == some p.2)

end Logrange.KV
