import Logrange.Model.Mixer
/-!
# Model of how `newCursor` (`pkg/cursor/cursor.go`) assembles the iterator over several partitions, and of
`partition.Service.GetJournals` with its `maxLimit`

* `pairLoop` / `reduce` — the in-place pairwise reduction over the slice `mxs`, written with array updates
  exactly as the Go loop does it (`mxs[i/2] = Mixer(mxs[i], mxs[i+1])` while `i < len(mxs)-1`, the odd tail element
  moved to `mxs[len/2]`, the slice cut). Go slices are modelled by `List` with `List.set` (in-place store) and
  `List.take` (re-slicing `mxs[:k]`).
* `build` — `newCursor`'s choice: one source → the `LogEventIterator` itself, several → the reduced tree. The order of
  `srcs` is the order in which Go's `range` over the map `srcs` happened to deliver the partitions: a parameter
  the theorems quantify over.
* `getJournals` — the visit loop of `GetJournals` over the matching partitions (in the order `tindex.Visit` walks its
  map — again a parameter): acquire (`readers++`, `VF_DO_NOT_RELEASE`), store into the result map keyed by tag line,
  fail when `len(res) == maxLimit` (i.e. when the count *reaches* the limit), and on failure release everything in the
  result map.
-/
namespace Logrange.MixTree
open Logrange.Mixer

variable {σ : Type} [Source σ] [Inhabited σ]

/-- `for i := 0; i < len(mxs)-1; i += 2 { m.Init(GetEarliest, mxs[i], mxs[i+1]); mxs[i/2] = m }`
(`len(mxs) ≥ 2` here, so `i < len-1` is `i+1 < len`) -/
def pairLoop : Nat → Nat → List (It σ) → List (It σ)
  | 0, _, mxs => mxs
  | fuel+1, i, mxs =>
    if i + 1 < mxs.length then
      pairLoop fuel (i + 2) (mxs.set (i / 2) (It.init (mxs.getD i default) (mxs.getD (i+1) default)))
    else mxs

/-- one pass of the outer loop body: pair up, then move the odd tail element and cut the slice -/
def round (mxs : List (It σ)) : List (It σ) :=
  let mxs := pairLoop mxs.length 0 mxs
  let n := mxs.length
  if n % 2 = 1 then
    -- mxs[len(mxs)/2] = mxs[len(mxs)-1]; mxs = mxs[:len(mxs)/2+1]
    (mxs.set (n / 2) (mxs.getD (n - 1) default)).take (n / 2 + 1)
  else
    -- mxs = mxs[:len(mxs)/2]
    mxs.take (n / 2)

/-- `for len(mxs) > 1 { … }` -/
def reduce : Nat → List (It σ) → List (It σ)
  | 0, mxs => mxs
  | fuel+1, mxs => if mxs.length > 1 then reduce fuel (round mxs) else mxs

/-- the iterator `newCursor` reads from, for the sources in map iteration order `srcs` (`none`: no sources,
`errNoSources`) -/
def build (srcs : List σ) : Option (It σ) :=
  match srcs with
  | [] => none
  | [s] => some (.leaf s)
  | _ => (reduce srcs.length (srcs.map It.leaf)).head?

/-! ## the order of the sources (since /repo f086c95: tag-line order)

`srcs` is a Go map from tag line to journal; `newCursor` collects its keys, sorts them with
`sort.Slice(lines, func(i, j) bool { return lines[i] < lines[j] })` (Go string order = `Go.bytesLt`) and fills `mxs` in that
order. Keys of a map are distinct, so every correct sort gives the same list; it is modelled as an insertion sort.
`sorts` is the regenerated fact that the code does this (`false` = the old code: map iteration order as it comes). -/

def insertLine {α : Type} (x : Bytes × α) : List (Bytes × α) → List (Bytes × α)
  | [] => [x]
  | y :: ys => if Go.bytesLe x.1 y.1 then x :: y :: ys else y :: insertLine x ys

def sortLines {α : Type} (l : List (Bytes × α)) : List (Bytes × α) := l.foldr insertLine []

/-- the slice `mxs` before the reduction, for the map entries in iteration order `mapOrder` -/
def sourceOrder {α : Type} (sorts : Bool) (mapOrder : List (Bytes × α)) : List α :=
  ((if sorts then sortLines mapOrder else mapOrder).map (·.2))

/-- `newCursor`'s iterator for a map `srcs` iterated in `mapOrder` -/
def buildFromMap (sorts : Bool) (mapOrder : List (Bytes × σ)) : Option (It σ) :=
  build (sourceOrder sorts mapOrder)

/-! ## GetJournals -/

/-- an entry of the tag index: tag-line identity (key of `tmap`), journal name identity -/
structure Part where
  line : Nat
  src : Nat
deriving DecidableEq, Repr, Inhabited

/-- `readers` per journal name -/
abbrev Readers := Nat → Nat

def acquire (rd : Readers) (src : Nat) : Readers := fun x => if x = src then rd x + 1 else rd x
def releaseOne (rd : Readers) (src : Nat) : Readers := fun x => if x = src then rd x - 1 else rd x

/-- `res[tags.Line()] = j` on a Go map -/
def mapPut (res : List Part) (p : Part) : List Part :=
  if res.any (·.line == p.line) then res.map (fun q => if q.line == p.line then p else q) else res ++ [p]

structure GJ where
  rd : Readers
  res : List Part
  failed : Bool

/-- the visitor of `GetJournals` over the matching partitions in visit order; stops at the first `return false` -/
def visitLoop (maxLimit : Nat) : List Part → GJ → GJ
  | [], s => s
  | p :: ps, s =>
    -- visitWaitingIfLocked: readers++ (and, with VF_DO_NOT_RELEASE, no release afterwards)
    let rd := acquire s.rd p.src
    let res := mapPut s.res p
    if res.length = maxLimit then { rd := rd, res := res, failed := true }
    else visitLoop maxLimit ps { rd := rd, res := res, failed := false }

/-- `GetJournals`: `none` = error (and everything in `res` released), `some res` = the acquired partitions -/
def getJournals (maxLimit : Nat) (matching : List Part) (rd : Readers) : Readers × Option (List Part) :=
  let s := visitLoop maxLimit matching ⟨rd, [], false⟩
  if s.failed then (s.res.foldl (fun r p => releaseOne r p.src) s.rd, none) else (s.rd, some s.res)

end Logrange.MixTree
