import Logrange.Go.Basic
/-!
# Two small server-side models of api/rpc (C13)

* **The ingest limit.** `ServerIngestor.maxRecordSize()` yields the limit the write-packet validation compares every event's
  record size with (`if sz := lge.WritableSize(); maxRec > 0 && sz > maxRec { return error }`). A chunk reader serves a record
  only when it fits its buffer of the configured `MaxRecordSize` bytes ("Too small buffer for read" otherwise, for the whole
  partition from that record on). `hasAddend` / `rejectsAbove` are regenerated facts.
* **The life of a request buffer.** A handler that decodes the body with `newBuf = false` gets strings that point INTO the body
  (`bytes.ByteArrayToString`); a body given back to the pool (`Collect`) is the next request's buffer. What a holder of such a
  string (a cached cursor's `state.Query`) reads later is the bytes the buffer holds THEN.
-/
namespace Logrange.IngestLimit
open Go

/-- the limit `maxRecordSize()` yields for a configured size `mrs > 0` -/
def ingestLimit (hasAddend : Bool) (addend mrs : Nat) : Nat := if hasAddend then mrs + addend else mrs

/-- is an event whose record needs `sz` bytes accepted by the validation loop? -/
def accepts (rejectsAbove : Bool) (limit sz : Nat) : Bool := !(rejectsAbove && decide (limit > 0) && decide (sz > limit))

/-- can a chunk reader whose buffer has `mrs` bytes serve a record of `sz` bytes? -/
def readable (mrs sz : Nat) : Bool := decide (sz ≤ mrs)

/-- the validation loop over the events of a packet, each given as (fields text, record size). `everyEvent = false` is the loop that
memoises the previous event's fields text and skips the rest of its body — the size test included — for an event with the same text
(`last = none` before the first event). The packet is accepted when no visited event is refused. -/
def packetAccepts (everyEvent rejectsAbove : Bool) (limit : Nat) : Option Bytes → List (Bytes × Nat) → Bool
  | _, [] => true
  | last, (txt, sz) :: rest =>
    if !everyEvent && last == some txt then packetAccepts everyEvent rejectsAbove limit last rest
    else accepts rejectsAbove limit sz && packetAccepts everyEvent rejectsAbove limit (some txt) rest

/-- what the holder of a string decoded from a request reads after the NEXT request (a text of the same length) has arrived -/
def heldText (weak collects : Bool) (decoded next : Bytes) : Bytes := if weak && collects then next else decoded

end Logrange.IngestLimit
