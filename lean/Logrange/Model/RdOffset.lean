import Logrange.Model.RdCursor
/-!
# `crsr.Offset` and `iterateToPos` (pkg/cursor/cursor.go), exactly as written

Negative branch: `Get`, remember `CurrentPos`, switch backward, at EOF one extra `Get` and `offs--`, otherwise
`iterateToPos`; the step loop (`Next; Get`); switch forward and `iterateToPos`. Positive branch: an initial
`Get` (f673a84), then the step loop.
-/
namespace Logrange.Rd

/-- `iterateToPos`: only for merged cursors and a known position; walks until `CurrentPos() == pos` or an error -/
def iterateToPos (s : Cur) (pos : PosId) : Cur :=
  if s.srcs.size ≤ 1 || pos.isNone then s else
  let rec loop : Nat → Cur → Cur
    | 0, s => s
    | fuel+1, s =>
      let (s, v) := curGet s
      match v with
      | none => s
      | some _ => if curPos s == pos then s else loop fuel (curNext s)
  loop (s.size + 2) s

/-- the `for offs > 0` loop -/
def offsetSteps : Nat → Cur → PosId → Cur × PosId
  | 0, s, pos => (s, pos)
  | k+1, s, _ =>
    let s := curNext s
    let (s, v) := curGet s
    match v with
    | none => (s, none)
    | some _ => offsetSteps k s (curPos s)

/-- `crsr.Offset` -/
def offset (s : Cur) (offs : Int) : Cur :=
  if offs == 0 then s else
  if offs < 0 then
    let n := offs.natAbs
    let (s, v) := curGet s
    let pos := curPos s
    let s := curSetBackward s true
    let (s, pos, n) :=
      match v with
      | none =>
        let (s, _) := curGet s
        (s, curPos s, n - 1)
      | some _ => (iterateToPos s pos, pos, n)
    let (s, pos) := offsetSteps n s pos
    iterateToPos (curSetBackward s false) pos
  else
    let (s, _) := curGet s
    (offsetSteps offs.natAbs s none).1

end Logrange.Rd
