import Logrange.Go.Basic
/-!
# `Scanner.sync` against replacements of the watched file: scan, merge, open as separate steps (`pkg/scanner/scanner.go`)

```go
func (s *Scanner) sync(...) {
    nd := s.scanPaths()                       // label scan : os.Stat(path) → id (inode) the name shows NOW
    md := s.mergeDescs(s.getDescs(), nd)      // label merge: known id ⇒ keep the descriptor; unknown ⇒ new one, offset 0;
    s.syncWorkers(ctx, md, events)            //              descriptors whose id the scan did not see leave the set, their
    s.setDescs(md)                            //              workers are told to run until EOF
}                                             // label open : runWorker → parser.NewParser(File: d.File) opens the PATH
                                              // label check: (fix 5ccf34b) newWorkerConfig stats the path again and compares
                                              //              utils.GetFileId with d.Id; different ⇒ parser closed, no worker
```

One watched name. A *replacement under the same name* (`replace`: rename away / remove, then create) puts a new inode
under the name; inode numbers are not reused (reuse is outside the claim), so the inode number also names the content
("generation"). A replacement can fall anywhere: between two syncs, while a worker reads (it keeps the inode it has
open and drains it: `rotated_file_drained`), several times between two scans, and — `inSync` — between the `scan` and
the `open` of one sync. A worker reads the inode it OPENED (by path, at `open`), from `offset0`, under the descriptor
key the SCAN saw. Truncation in place (same inode) is `Model/Descs.lean`'s subject, not modelled here.

`Cfg.checksId` (regenerated: `Generated.C17.workerOpenChecksFileId`): `true` = the code since fix 5ccf34b — `open` only
takes the inode the parser got (`probe`), `check` starts the worker if the name still shows the descriptor's inode and
closes the parser otherwise (the descriptor stays, unopened, until the next sync forgets it); `false` = the code before
— `open` starts the worker at once on whatever the path shows, `check` does nothing (finding F-C17-901).

Ghost: `hit` — a replacement fell between a scan and the end of the sync that belongs to it.
-/
namespace Logrange.ScanSync

structure D where
  key : Nat              -- the id the descriptor is stored under: the inode scanPaths saw under the name
  opened : Option Nat    -- the inode the worker's parser has open; none = the worker is not started yet
  offset0 : Nat          -- where that worker starts reading (SetStreamPos(desc.getOffset()))
deriving DecidableEq, Repr

structure Cfg where
  checksId : Bool
deriving DecidableEq, Repr

structure W where
  cur : Nat              -- the inode under the watched name now
  next : Nat             -- the next fresh inode number
  scanned : Option Nat   -- scanPaths has seen this inode; mergeDescs has not run yet
  descs : List D         -- the descriptor set (each with its worker)
  retired : List D       -- descriptors that left the set: their workers drain the inode they have open and stop
  inSync : Bool          -- between a scan and the end (open, with the id check: check) of the same sync
  probe : Option Nat     -- checksId: the inode the parser has opened; the id check has not run yet
  hit : Bool             -- ghost: a replacement fell into such a window
deriving DecidableEq, Repr

/-- a fresh session: inode 0 is under the name, nothing known (no state file) -/
def init : W := { cur := 0, next := 1, scanned := none, descs := [], retired := [], inSync := false, probe := none, hit := false }

/-- a session that starts from a state file: the name's inode `0` is known with offset `off` -/
def initWith (off : Nat) : W :=
  { init with descs := [{ key := 0, opened := none, offset0 := off }] }

inductive L where
  | replace
  | scan
  | merge
  | open
  | check
deriving DecidableEq, Repr

def startOn (i : Nat) (d : D) : D :=
  match d.opened with
  | none => { d with opened := some i }
  | some _ => d

def step (c : Cfg) (w : W) : L → W
  | .replace => { w with cur := w.next, next := w.next + 1, hit := w.hit || w.inSync }
  | .scan => { w with scanned := some w.cur, inSync := true, probe := none }
  | .merge =>
    match w.scanned with
    | none => w
    | some i =>
      let kept := w.descs.filter (fun d => d.key == i)
      let gone := w.descs.filter (fun d => !(d.key == i))
      { w with scanned := none,
               descs := if kept.isEmpty then [{ key := i, opened := none, offset0 := 0 }] else kept,
               retired := w.retired ++ gone }
  | .open =>
    -- only after the merge of the same sync
    if w.inSync && w.scanned.isNone && w.probe.isNone then
      if c.checksId then { w with probe := some w.cur }
      else { w with descs := w.descs.map (startOn w.cur), inSync := false }
    else w
  | .check =>
    match w.probe with
    | none => w
    | some x =>
      -- os.Stat(d.File) now: the name shows `w.cur`
      { w with probe := none, inSync := false,
               descs := w.descs.map (fun d => if d.key == w.cur then startOn x d else d) }

def run (c : Cfg) (w : W) : List L → W
  | [] => w
  | l :: ls => run c (step c w l) ls

/-- every worker that exists or existed -/
def workers (w : W) : List D := w.descs ++ w.retired

/-- one complete sync -/
def sync : List L := [.scan, .merge, .open, .check]

end Logrange.ScanSync
