import Logrange.Model.Ring
/-!
# `container.CLElement` at pointer level (pkg/container/clist.go)

`Logrange.Ring` (Model/Ring.lean) describes a ring by the list of its elements. This file models the
same Go type the way the Go code is written: a heap of cells with two pointer fields `prev`/`next`,
and the methods as the *sequence of field reads and writes* of clist.go, in the order of the Go
statements (every read sees the writes made before it, so aliasing — singleton rings, two-element rings —
is not treated specially anywhere). Cells are named by `Nat`; `none : Ptr` is the nil pointer.

`Logrange/Proofs/RingPtr.lean` proves that this model refines the list-level model.

The second half is the small state machine in the shape pkg/cursor/provider.go uses the rings (a `busy`
ring and a `free` ring in one heap), at pointer level (`pstep`) and at list level (`lstep`).
-/
namespace Logrange.RingPtr

/-- the two pointer fields of every cell -/
structure Heap where
  prev : Nat → Nat
  next : Nat → Nat

/-- `*CLElement`; `none` = nil -/
abbrev Ptr := Option Nat

/-- `x.next = v` -/
def setNext (h : Heap) (x v : Nat) : Heap :=
  { prev := h.prev, next := fun y => if y = x then v else h.next y }

/-- `x.prev = v` -/
def setPrev (h : Heap) (x v : Nat) : Heap :=
  { prev := fun y => if y = x then v else h.prev y, next := h.next }

/-- a heap to start from (every cell refers to itself) -/
def Heap.init : Heap := { prev := id, next := id }

/-- `NewCLElement()` for the fresh cell `e`: `cle.next = cle; cle.prev = cle` -/
def newElem (h : Heap) (e : Nat) : Heap :=
  let h1 := setNext h e e
  setPrev h1 e e

/-- `cle.Append(chain)` -/
def append (h : Heap) (cle chain : Ptr) : Heap × Ptr :=
  match chain with
  | none => (h, cle)                      -- if chain == nil { return cle }
  | some c =>
    match cle with
    | none => (h, some c)                 -- if cle == nil { return chain }
    | some a =>
      let n := h.next a                   -- n := cle.next
      let h1 := setNext h a c             -- cle.next = chain
      let chp := h1.prev c                -- chp := chain.prev
      let h2 := setPrev h1 n chp          -- n.prev = chp
      let h3 := setPrev h2 c a            -- chain.prev = cle
      let h4 := setNext h3 chp n          -- chp.next = n
      (h4, some a)                        -- return cle

/-- the four writes at the end of `TearOff`:
    `e.prev.next = e.next; e.next.prev = e.prev; e.prev = e; e.next = e` -/
def unlink (h : Heap) (e : Nat) : Heap :=
  let h1 := setNext h (h.prev e) (h.next e)
  let h2 := setPrev h1 (h1.next e) (h1.prev e)
  let h3 := setPrev h2 e e
  setNext h3 e e

/-- `cle.TearOff(e)`. With `cle == nil` and `e != nil` the Go code does not dereference `cle`
    (`e == cle` is false): it unlinks `e` and returns `res = cle = nil`; the model does the same. -/
def tearOff (h : Heap) (cle e : Ptr) : Heap × Ptr :=
  match e with
  | none => (h, cle)                      -- if e == nil { return cle }
  | some e =>
    let single : Bool :=                  -- e == cle && cle.next == cle
      match cle with
      | some c => decide (e = c) && decide (h.next c = c)
      | none => false
    if single then (h, none)
    else
      let res : Ptr :=                    -- res := cle; if res == e { res = cle.next }
        match cle with
        | some c => if c = e then some (h.next c) else some c
        | none => none
      (unlink h e, res)

/-- `e.Prev()` -/
def prevM (h : Heap) (e : Nat) : Nat := h.prev e

/-- `e.Next()` — `return cle.prev` (the quirk of clist.go, modelled as is) -/
def nextM (h : Heap) (e : Nat) : Nat := h.prev e

/-- `for c != cle { cnt++; c = c.next }`; the Go loop is unbounded, the model stops when the fuel
    is used up -/
def lenLoop (h : Heap) (cle : Nat) : Nat → Nat → Nat → Nat
  | 0, _, cnt => cnt
  | fuel + 1, c, cnt => if c = cle then cnt else lenLoop h cle fuel (h.next c) (cnt + 1)

/-- `cle.Len()` -/
def len (h : Heap) (cle : Ptr) (fuel : Nat) : Nat :=
  match cle with
  | none => 0
  | some a => lenLoop h a fuel (h.next a) 1

/-! ## The provider's two rings -/

/-- pointer-level state: one heap, `p.busy`, `p.free` -/
structure PSt where
  heap : Heap
  busy : Ptr
  free : Ptr

/-- list-level state -/
structure LSt where
  busy : List Nat
  free : List Nat
deriving DecidableEq

/-- what provider.go does with the rings -/
inductive Op where
  /-- GetOrCreate (cache hit) and Release: `busy = busy.TearOff(e); busy = e.Append(busy)` -/
  | toHead (e : Nat)
  /-- GetOrCreate, free pool empty: `e = NewCLElement(); busy = e.Append(busy)` -/
  | insertNew (e : Nat)
  /-- GetOrCreate, free pool not empty: `e := free; free = free.TearOff(e); busy = e.Append(busy)` -/
  | insertFree
  /-- sweepBySize (`recycle = false`) / sweepByTime: `busy = busy.TearOff(e)` and, when recycling,
      `free = e.Append(free)` -/
  | evict (e : Nat) (recycle : Bool)
deriving DecidableEq

def PSt.init : PSt := { heap := Heap.init, busy := none, free := none }
def LSt.init : LSt := { busy := [], free := [] }

def pstep (p : PSt) : Op → PSt
  | .toHead e =>
    let r1 := tearOff p.heap p.busy (some e)
    let r2 := append r1.1 (some e) r1.2
    { heap := r2.1, busy := r2.2, free := p.free }
  | .insertNew e =>
    let h1 := newElem p.heap e
    let r2 := append h1 (some e) p.busy
    { heap := r2.1, busy := r2.2, free := p.free }
  | .insertFree =>
    let e := p.free
    let r1 := tearOff p.heap p.free e
    let r2 := append r1.1 e p.busy
    { heap := r2.1, busy := r2.2, free := r1.2 }
  | .evict e recycle =>
    let r1 := tearOff p.heap p.busy (some e)
    if recycle then
      let r2 := append r1.1 (some e) p.free
      { heap := r2.1, busy := r1.2, free := r2.2 }
    else
      { heap := r1.1, busy := r1.2, free := p.free }

def lstep (l : LSt) : Op → LSt
  | .toHead e => { busy := Ring.append [e] (Ring.tearOff l.busy (some e)), free := l.free }
  | .insertNew e => { busy := Ring.append [e] l.busy, free := l.free }
  | .insertFree =>
    match l.free.head? with
    | none => l
    | some e => { busy := Ring.append [e] l.busy, free := Ring.tearOff l.free (some e) }
  | .evict e recycle =>
    { busy := Ring.tearOff l.busy (some e),
      free := if recycle then Ring.append [e] l.free else l.free }

def prun (p : PSt) : List Op → PSt
  | [] => p
  | op :: ops => prun (pstep p op) ops

def lrun (l : LSt) : List Op → LSt
  | [] => l
  | op :: ops => lrun (lstep l op) ops

end Logrange.RingPtr
