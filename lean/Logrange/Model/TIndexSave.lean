import Logrange.Model.TIndexId
import Logrange.Generated.C06
/-!
# `getOrCreateJournal` with a failing index save: `tmap` / `smap` consistency

The create branch of `getOrCreateJournal` puts the new descriptor into `tmap` (line → descriptor) and `smap` (source id →
descriptor), calls `saveStateUnsafe()` and, when the save fails, rolls both entries back and returns the error.
`visitWaitingIfLocked` skips a `tmap` entry whose source id is not in `smap` ("removed while visiting"), so a descriptor
that is in `tmap` but not in `smap` is a partition no FROM selects.

This model adds to `TIndexId.St` the key set of `smap` and makes the outcome of the save an explicit input of the step.
The order of the statements and the roll-back are *facts regenerated from the source* (`Generated.C06`): whether `smap` is
written before the save, whether the failure path deletes the `tmap` entry, whether it deletes the `smap` entry.
-/
namespace Logrange.TIndexSave
open Go Logrange.KV Logrange.Tags Logrange.TagsEval Logrange.TIndexId

structure Facts where
  /-- `ims.smap[td.Src] = td` stands before the call of `saveStateUnsafe()` -/
  smapBeforeSave : Bool
  /-- the failure path contains `delete(ims.tmap, …)` -/
  rollbackTmap : Bool
  /-- the failure path contains `delete(ims.smap, …)` -/
  rollbackSmap : Bool
deriving DecidableEq, Repr

/-- the facts of the code as it is now -/
def codeFacts : Facts :=
  ⟨Logrange.Generated.C06.smapBeforeSave, Logrange.Generated.C06.saveFailureDeletesTmap,
   Logrange.Generated.C06.saveFailureDeletesSmap⟩

structure StS where
  base : St := {}
  /-- the source ids that are keys of `ims.smap` -/
  smap : List Nat := []

inductive ResS where
  | res (r : Res)
  | saveFailed            -- the error of `saveStateUnsafe()` is returned, no id
deriving DecidableEq, Repr

/-- one critical section of `getOrCreateJournal(raw, create)`; `saveOK` = does `saveStateUnsafe()` succeed (it is only
called when a descriptor is created) -/
def getOrCreateS (F : Facts) (s : StS) (raw : Bytes) (create saveOK : Bool) : StS × ResS :=
  let (b', r) := getOrCreate s.base raw create
  if b'.next = s.base.next then
    -- nothing was created: no save, `smap` untouched
    ({ s with base := b' }, .res r)
  else
    let src := s.base.next
    if saveOK then
      -- registered before or after the save: in both orders it is in `smap` now
      ({ base := b', smap := src :: s.smap }, .res r)
    else
      ({ base := if F.rollbackTmap then s.base else b',
         smap := if F.smapBeforeSave && !F.rollbackSmap then src :: s.smap else s.smap }, .saveFailed)

/-- `visitWaitingIfLocked`: the descriptors of `tmap` whose tags satisfy the source's function and whose source id is
still a key of `smap` -/
def visitS (so : StrOps) (s : StS) (src : Source) : Option (List Desc) :=
  match buildSource so src with
  | none => none
  | some tef => some ((s.base.tmap.map (·.2)).filter (fun d => tef d.tags && s.smap.contains d.src))

def runS (F : Facts) (s : StS) : List (Bytes × Bool × Bool) → StS
  | [] => s
  | (raw, create, ok) :: ops => runS F (getOrCreateS F s raw create ok).1 ops

end Logrange.TIndexSave
