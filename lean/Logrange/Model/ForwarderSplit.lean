import Logrange.Model.Forwarder
/-!
# The forwarder worker loop, statement by statement, with the state file's two-step replacement and a crash anywhere

`Model/Forwarder.lean` takes one loop iteration (`Query`, `OnEvent`, `qr = &res.NextQueryRequest`,
`desc.setPosition`) as ONE step and `persistState()` as one step. Here every statement of the iteration that another
goroutine or a crash can observe is its own step, and a save is the two steps `fileStorage.WriteData` makes since
fix e59ee79 (write `forwarder.json.tmp`, rename it over `forwarder.json`):

```go
for ctx.Err() == nil && state != wsStopping {                // pc idle;   label exit (when stopping) → stopped
    err = w.rpcc.Query(ctx, qr, res)                         // label qFail (transport / server error / empty: same request again)
    if err != nil || res.Err != nil { sleep; continue }      //       query k  → pc got k'      (k' = min k (n - pos) > 0)
    if len(res.Events) == 0       { sleep; continue }
    err = w.sink.OnEvent(res.Events)                         // label sink acc: rejected → idle (same request again)
    if err != nil                 { sleep; continue }        //                 accepted → pc accepted k'
    qr = &res.NextQueryRequest                               // label replaceReq → pc setting (qr.Pos advanced, desc not yet)
    w.desc.setPosition(qr.Pos)                               // label setPos     → pc idle
}
```

The persist goroutine (`runPersistState`: ticks, and one last `persistState()` as soon as the context is cancelled —
it does NOT wait for the worker) interleaves freely: `saveBegin` = `json.Marshal(descs)` reads `desc.position` and
the bytes go to the temporary file; `saveRename` = `os.Rename`. `stopReq` is `stopGracefully()` / the cancel.
`restart` may be taken in EVERY state — it is a crash at that point (or the end of a graceful stop): the temporary
file is ignored, the next session starts from what `forwarder.json` holds (`loadState`, `prepareQuery`).
`setAfterAccept = false` is the wrong order (position published before the sink took the batch), kept to show what
the theorems exclude.
-/
namespace Logrange.ForwarderSplit

inductive Pc where
  | idle
  | got (k : Nat)        -- the query answered `k` events from `pos`, `OnEvent` not yet called / not yet returned
  | accepted (k : Nat)   -- the sink has accepted them; `qr` still the old request
  | setting              -- `qr` is the next request; `desc.setPosition` not yet executed
  | stopped              -- the loop has ended (stop request seen at the loop head)
deriving DecidableEq, Repr

structure S where
  n : Nat
  pc : Pc
  pos : Nat              -- qr.Pos
  desc : Nat             -- desc.position
  disk : Nat             -- the position forwarder.json holds
  tmp : Option Nat       -- forwarder.json.tmp written and not yet renamed: the position it holds
  stopping : Bool
  -- ghost
  start0 : Nat
  sessionStart : Nat
  sess : List Nat        -- indices the sink accepted in this session, in order
  all : List Nat         -- … over all sessions
  high : Nat             -- one past the highest index ever accepted (start0 if none)
  accSince : Nat         -- events the sink accepted since the content of forwarder.json was read from `desc` (or the restart)
  accTmp : Nat           -- events accepted since the content of the temporary file was read (meaningful while tmp ≠ none)
deriving DecidableEq, Repr

def init (n start : Nat) : S :=
  { n := n, pc := .idle, pos := start, desc := start, disk := start, tmp := none, stopping := false, start0 := start,
    sessionStart := start, sess := [], all := [], high := start, accSince := 0, accTmp := 0 }

inductive L where
  | qFail                      -- transport error, server error or empty answer: sleep, same request again
  | query (k : Nat)            -- the honest server answers up to k events from qr.Pos (C03)
  | sink (accept : Bool)       -- OnEvent returns
  | replaceReq                 -- qr = &res.NextQueryRequest
  | setPos                     -- w.desc.setPosition(qr.Pos)
  | saveBegin                  -- persistState(): marshal (reads desc.position), write forwarder.json.tmp
  | saveRename                 -- os.Rename(tmp, forwarder.json)
  | stopReq                    -- stopGracefully() / context cancelled
  | exit                       -- the loop condition sees the stop request
  | restart                    -- crash here (or process end after a stop) and start of the next session
  | grow (k : Nat)
deriving DecidableEq, Repr

/-- number of events the sink has accepted that `qr.Pos` does not cover yet -/
def inflight : Pc → Nat
  | .accepted k => k
  | _ => 0

def step (setAfterAccept : Bool) (s : S) : L → S
  | .qFail => s
  | .query k =>
    match s.pc with
    | .idle =>
      let k' := min k (s.n - s.pos)
      if k' = 0 then s
      else if setAfterAccept then { s with pc := .got k' }
      else { s with pc := .got k', desc := s.pos + k' }       -- wrong order: published before the sink call
    | _ => s
  | .sink acc =>
    match s.pc with
    | .got k =>
      if acc then
        { s with pc := .accepted k, sess := s.sess ++ List.range' s.pos k, all := s.all ++ List.range' s.pos k,
                 high := max s.high (s.pos + k), accSince := s.accSince + k, accTmp := s.accTmp + k }
      else { s with pc := .idle }
    | _ => s
  | .replaceReq =>
    match s.pc with
    | .accepted k => { s with pc := .setting, pos := s.pos + k }
    | _ => s
  | .setPos =>
    match s.pc with
    | .setting => { s with pc := .idle, desc := s.pos }
    | _ => s
  | .saveBegin =>
    match s.tmp with
    | none => { s with tmp := some s.desc, accTmp := s.pos + inflight s.pc - s.desc }
    | some _ => s
  | .saveRename =>
    match s.tmp with
    | some p => { s with disk := p, tmp := none, accSince := s.accTmp }
    | none => s
  | .stopReq => { s with stopping := true }
  | .exit =>
    match s.pc with
    | .idle => if s.stopping then { s with pc := .stopped } else s
    | _ => s
  | .restart =>
    { s with pc := .idle, pos := s.disk, desc := s.disk, tmp := none, stopping := false, sessionStart := s.disk,
             sess := [], accSince := 0, accTmp := 0 }
  | .grow k => { s with n := s.n + k }

def run (c : Bool) (s : S) : List L → S
  | [] => s
  | l :: ls => run c (step c s l) ls

/-- one fault-free iteration with a page of up to `k` events -/
def iter (k : Nat) : List L := [.query k, .sink true, .replaceReq, .setPos]

/-- the statement-level labels of one label of the atomic model (`Model/Forwarder.lean`); a restart label of the
atomic model is a completed save (or none) followed by `restart` -/
def expand : Forwarder.L → List L
  | .qTransport => [.qFail]
  | .qServer => [.qFail]
  | .qEmpty => [.qFail]
  | .page k true => iter k
  | .page k false => [.query k, .sink false]
  | .persist => [.saveBegin, .saveRename]
  | .stop => [.stopReq, .exit, .saveBegin, .saveRename, .restart]
  | .graceful => [.stopReq, .exit, .saveBegin, .saveRename, .restart]
  | .crash => [.restart]
  | .crashAfterAccept k => [.query k, .sink true, .restart]
  | .grow k => [.grow k]

end Logrange.ForwarderSplit
