import Logrange.Model.RdJIter
/-!
# `chkSelector` and `partition.JIterator` (pkg/partition/cselector.go, jiterator.go) — ranged reads (C03/C16)

The time index is not modelled here (C02 has its own selector model): what `updatePoss` answers for a chunk
(`minPos`, `maxPos`) is carried by the chunk value (`Chunk.minPos/maxPos`, read from the real selector by the
harness). The selector's cache of statuses and its refresh rule (`getChunkStatus`: unknown chunk or changed
number of chunks → rebuild all; changed count → refresh that chunk) are mirrored, because a status that is
*not* refreshed keeps an old window while the iterator holds the chunk open.

Code as it is now: `getPosForward` builds the end-of-data position from the count its decision used
(53beb1f); a backward EOF leaves the iterator's position alone (b7773f9).
-/
namespace Logrange.Rd

structure ChkSt where
  minPos : Nat := 0
  maxPos : Nat := 0
  count : Nat := 0
deriving Repr, DecidableEq, Inhabited

/-- `partition.JIterator` together with its selector's status cache -/
structure RIt where
  cid : Nat := 0
  idx : Nat := 0
  ci : Option CIt := none
  bkwd : Bool := false
  stats : List (Nat × ChkSt) := []
deriving Repr

def statOf (stats : List (Nat × ChkSt)) (cid : Nat) : Option ChkSt := (stats.find? (·.1 == cid)).map (·.2)

/-- `rebuildChunkStatuses` -/
def rebuild (j : Journal) (_stats : List (Nat × ChkSt)) : List (Nat × ChkSt) :=
  j.map (fun c => (c.id, { minPos := c.minPos, maxPos := c.maxPos, count := c.cnt }))

/-- `getChunkStatus` -/
def getStatus (j : Journal) (stats : List (Nat × ChkSt)) (c : Chunk) : List (Nat × ChkSt) × ChkSt :=
  match statOf stats c.id with
  | some st =>
    if j.length ≠ stats.length then
      let s' := rebuild j stats; (s', (statOf s' c.id).getD {})
    else if st.count ≠ c.cnt then
      let st' : ChkSt := { minPos := c.minPos, maxPos := c.maxPos, count := c.cnt }
      (stats.map (fun p => if p.1 == c.id then (c.id, st') else p), st')
    else (stats, st)
  | none => let s' := rebuild j stats; (s', (statOf s' c.id).getD {})

/-- `checkPosOrAdvance` -/
def checkAdvance (st : ChkSt) (pos : Nat) : Nat × Bool :=
  let pos := if pos < st.minPos then st.minPos else pos
  if pos ≥ st.count ∨ pos > st.maxPos then (st.count, false) else (pos, true)

/-- `checkPosOrReduce` (`count - 1` is uint32 arithmetic) -/
def checkReduce (st : ChkSt) (pos : Nat) : Nat × Bool :=
  let pos := if pos > st.maxPos then st.maxPos else pos
  let pos := if pos ≥ st.count then (st.count + 4294967296 - 1) % 4294967296 else pos
  (pos, decide (pos ≥ st.minPos) && decide (st.count > 0))

/-- the loop of `getPosForward` over the chunks from the found one on -/
def fwdLoop (j : Journal) : List Chunk → List (Nat × ChkSt) → Nat → Chunk → Nat →
    List (Nat × ChkSt) × Option Chunk × Pos
  | [], stats, _, lastC, lastCnt => (stats, none, ⟨lastC.id, lastCnt⟩)
  | c :: rest, stats, pIdx, _, _ =>
    let (stats, st) := getStatus j stats c
    let (np, ok) := checkAdvance st pIdx
    if ok then (stats, some c, ⟨c.id, np⟩) else fwdLoop j rest stats 0 c st.count

/-- `getPosForward`: (statuses, chunk or nil, position) -/
def getPosForward (j : Journal) (stats : List (Nat × ChkSt)) (p : Pos) : List (Nat × ChkSt) × Option Chunk × Pos :=
  match j.getLast? with
  | none => (stats, none, {})
  | some l =>
    match j.dropWhile (fun c => c.id < p.cid) with
    | [] => (stats, none, ⟨l.id, l.cnt⟩)
    | c0 :: rest => fwdLoop j (c0 :: rest) stats (if c0.id ≠ p.cid then 0 else p.idx) c0 0

/-- the loop of `getPosBackward` over the chunks from the found one down -/
def bwdLoop (j : Journal) : List Chunk → List (Nat × ChkSt) → Nat → Chunk →
    List (Nat × ChkSt) × Option Chunk × Pos
  | [], stats, _, lastC => (stats, none, ⟨lastC.id, 0⟩)
  | c :: rest, stats, pIdx, _ =>
    let (stats, st) := getStatus j stats c
    let (pp, ok) := checkReduce st pIdx
    if ok then (stats, some c, ⟨c.id, pp⟩) else bwdLoop j rest stats maxU32 c

/-- `getPosBackward` -/
def getPosBackward (j : Journal) (stats : List (Nat × ChkSt)) (p : Pos) : List (Nat × ChkSt) × Option Chunk × Pos :=
  match j with
  | [] => (stats, none, {})
  | f :: _ =>
    match (j.filter (fun c => c.id ≤ p.cid)).reverse with
    | [] => (stats, none, ⟨f.id, 0⟩)
    | c0 :: rest =>
      bwdLoop j (c0 :: rest) stats (if c0.id ≠ p.cid then (c0.cnt + 4294967296 - 1) % 4294967296 else p.idx) c0

/-- `ensureChkIt` -/
def rEnsure (j : Journal) (s : RIt) : RIt × Bool :=
  match s.ci with
  | some _ => (s, false)
  | none =>
    let (stats, chk?, pos) := if s.bkwd then getPosBackward j s.stats ⟨s.cid, s.idx⟩ else getPosForward j s.stats ⟨s.cid, s.idx⟩
    let s := { s with stats := stats }
    match chk? with
    | none => (if s.bkwd then s else { s with cid := pos.cid, idx := pos.idx }, true)
    | some c =>
      let ci := ciSetPos j { chunk := c.id } pos.idx
      ({ s with cid := pos.cid, ci := some ci, idx := ci.pos.toNat }, false)

/-- `advanceChunk` (008ef8e): when no chunk lies behind the one just left (the selector answers end of data with the
same chunk id), the end-of-data position is where the chunk iterator stopped — not the position `getPosForward`
builds from a count read afterwards. -/
def rAdvance (j : Journal) (s : RIt) : RIt × Bool :=
  let left : Pos := match s.ci with
    | some c => if c.pos ≥ 0 then ⟨s.cid, c.pos.toNat⟩ else ⟨s.cid, s.idx⟩
    | none => ⟨s.cid, s.idx⟩
  let s0 := { s with ci := none }
  let s1 := if s0.bkwd then { s0 with cid := s0.cid - 1, idx := maxU32 } else { s0 with cid := s0.cid + 1, idx := 0 }
  let (s2, eof) := rEnsure j s1
  if eof && !s.bkwd && s2.cid == left.cid then ({ s2 with cid := left.cid, idx := left.idx }, eof)
  else (s2, eof)

def rGetLoop (j : Journal) : Nat → RIt → RIt × Option Rec
  | 0, s => (s, none)
  | fuel + 1, s =>
    match s.ci with
    | none => (s, none)
    | some c =>
      let (c', r) := ciGet j s.bkwd c
      match r with
      | some l => ({ s with ci := some c' }, some l)
      | none =>
        let (s', eof) := rAdvance j { s with ci := some c' }
        if eof then (s', none) else rGetLoop j fuel s'

/-- `JIterator.Get` -/
def rGet (j : Journal) (s : RIt) : RIt × Option Rec :=
  let (s, eof) := rEnsure j s
  if eof then (s, none) else rGetLoop j (j.length + 2) s

/-- `JIterator.Next`: leaves the chunk when the chunk iterator steps out of the status window (the status is
the selector's live entry for the open chunk) -/
def rNext (j : Journal) (s : RIt) : RIt :=
  let (s, _) := rGet j s
  match s.ci with
  | none => s
  | some c =>
    let c' := ciNext j s.bkwd c
    let st := (statOf s.stats c.chunk).getD {}
    if c'.pos < 0 ∨ c'.pos.toNat < st.minPos ∨ c'.pos.toNat > st.maxPos then (rAdvance j { s with ci := some c' }).1
    else { s with ci := some c', idx := c'.pos.toNat }

/-- `JIterator.SetPos` -/
def rSetPos (j : Journal) (s : RIt) (p : Pos) : RIt :=
  if p.cid = s.cid ∧ p.idx = s.idx then s else
  let s := if p.cid ≠ s.cid then { s with ci := none } else s
  let s := match s.ci with
    | some c => { s with ci := some (ciSetPos j c p.idx) }
    | none => s
  { s with cid := p.cid, idx := p.idx }

def rSetBackward (s : RIt) (b : Bool) : RIt := { s with bkwd := b }
def rRelease (s : RIt) : RIt :=
  match s.ci with
  | some c => { s with ci := some { c with cached := false } }
  | none => s
def RIt.pos (s : RIt) : Pos := ⟨s.cid, s.idx⟩

end Logrange.Rd

namespace Logrange.Rd

/-- `Get` of a reader whose chunk iterator is open, while a writer confirms records (observation split, findings
#34/F59): the chunk iterator takes its end-of-data decision against the journal value `jd`; what follows in the same
call — `advanceChunk`, `ensureChkIt`, `getPosForward` with its own `Count()` reads — sees `ja` (`jd` grown). -/
def rGetObs (jd ja : Journal) (s : RIt) : RIt × Option Rec :=
  match s.ci with
  | none => rGet ja s
  | some c =>
    let (c', r) := ciGet jd s.bkwd c
    match r with
    | some l => ({ s with ci := some c' }, some l)
    | none =>
      let (s', eof) := rAdvance ja { s with ci := some c' }
      if eof then (s', none) else rGetLoop ja (ja.length + 2) s'

/-- drain forward over a fixed journal -/
def rDrain (j : Journal) : Nat → RIt → List Rec
  | 0, _ => []
  | n + 1, s =>
    match rGet j s with
    | (s', some r) => r :: rDrain j n (rNext j s')
    | (_, none) => []

end Logrange.Rd
