import Logrange.Model.DateLayout
import Logrange.Model.DateRx
/-!
# date.go `NewParser` / `Format.Parse` / `parser.Parse`, and lql `parseLqlDateTime`

Function by function in the shape of the Go code:

* `compile` = the body of the `NewParser` loop (flags from the format text, `regexpMap`, `dateMap`);
* `formatParse` = `Format.Parse`: unanchored regexp search, `time.Parse` of the matched substring
  (`time.ParseInLocation(.., UTC)` when the format has no `Z`), then `adjustDate` / `adjustYear`;
* `parseFirst` = `parser.Parse`: the first format that succeeds claims the text;
* `parseLql` = `parseLqlDateTime`: trim blanks, lower-case, relative, constants, format list, integer.

`time.Now()` is the parameter `Now` (civil date in the local zone, which the harness fixes to UTC).
-/
namespace Logrange.Date

structure Now where
  year : Int
  month : Int
  day : Int
deriving Repr, DecidableEq

structure CFormat where
  fmt : Bytes
  layout : Layout
  rxText : Bytes
  rx : Option Rx            -- none = regular expression outside the modelled subset
  guard : Bool := false     -- the expression is wrapped in the left guard `(?:^|[^0-9])`
  hasLocation : Bool
  hasYear : Bool
  noDate : Bool
deriving Repr, DecidableEq

/-- the loop body of `NewParser` -/
def compile (terms : List Term) (guard : Bool) (fmt : Bytes) : CFormat :=
  let noDate := !(fmt.any (fun c => c == 89 || c == 77 || c == 68))       -- !ContainsAny(fmt, "YMD")
  let rxText := regexpMap terms fmt
  { fmt := fmt
    layout := Layout.ofBytes (dateMap terms fmt)
    rxText := rxText
    rx := parseRegexp rxText
    guard := guard
    hasLocation := fmt.contains 90                                            -- Contains(fmt, "Z")
    hasYear := !noDate && fmt.contains 89                                     -- Contains(fmt, "Y")
    noDate := noDate }

/-- switches read from the source by the extractor: does `Format.Parse` call `adjustYear` / `adjustDate` -/
structure Adjust where
  year : Bool := true
  date : Bool := true

inductive FRes
  | ok (c : Civil)
  | err
  | unsupported (what : Nat)    -- 1 = regexp, 2 = layout element, 3 = adjustYear on a fabricated GMT±n zone
deriving Repr, DecidableEq

/-- `adjustYear`: the current year, or the previous one when the parsed month is later than the current month.
The fields are those shown in the parsed time's own location. -/
def adjustYear (now : Now) (c : Civil) : Civil :=
  { c with year := if c.month > now.month then now.year - 1 else now.year }

/-- `adjustDate`: today's date with the parsed clock (`tm.Clock()` is read in the parsed time's location: for a
fabricated `GMT±n` zone that is the parsed clock shifted by n hours, and the result is built in that zone) -/
def adjustDate (now : Now) (c : Civil) : Civil :=
  match c.zone with
  | .named _ disp =>
    if disp == 0 then { c with year := now.year, month := now.month, day := now.day }
    else { c with year := now.year, month := now.month, day := now.day,
                  hour := (c.hour + disp / 3600) % 24, zone := .offset disp }
  | _ => { c with year := now.year, month := now.month, day := now.day }

/-- `Format.Parse` -/
def formatParse (adj : Adjust) (cf : CFormat) (now : Now) (buf : Bytes) : FRes :=
  match cf.rx with
  | none => .unsupported 1
  | some rx =>
    match findG cf.guard rx buf with
    | none => .err
    | some sub =>
      match parseLayout cf.layout sub with
      | .unsupported => .unsupported 2
      | .err => .err
      | .ok c =>
        if cf.noDate then (if adj.date then .ok (adjustDate now c) else .ok c)
        else if !cf.hasYear then
          (if adj.year then
            (match c.zone with
             | .named _ disp => if disp != 0 then .unsupported 3 else .ok (adjustYear now c)
             | _ => .ok (adjustYear now c))
           else .ok c)
        else .ok c

inductive PRes
  | ok (idx : Nat) (c : Civil)
  | err
  | unsupported (idx : Nat) (what : Nat)
deriving Repr, DecidableEq

/-- `parser.Parse`: formats in list order, the first that succeeds -/
def parseFrom (adj : Adjust) (now : Now) (buf : Bytes) : Nat → List CFormat → PRes
  | _, [] => .err
  | i, cf :: rest =>
    match formatParse adj cf now buf with
    | .ok c => .ok i c
    | .unsupported w => .unsupported i w
    | .err => parseFrom adj now buf (i + 1) rest

def parseFirst (adj : Adjust) (fmts : List CFormat) (now : Now) (buf : Bytes) : PRes := parseFrom adj now buf 0 fmts

/-! ## lql/datetime.go -/

/-- `strings.Trim(s, " ")` -/
def trimBlanks (s : Bytes) : Bytes := ((s.dropWhile (· == 32)).reverse.dropWhile (· == 32)).reverse

/-- `strings.ToLower` on ASCII text -/
def toLowerAscii (s : Bytes) : Bytes := s.map lowerB

/-- `strconv.ParseInt(s, 10, 64)` -/
def parseInt64 (s : Bytes) : Option Int :=
  let (neg, r) : Bool × Bytes := match s with
    | c :: r => if c == 45 then (true, r) else if c == 43 then (false, r) else (false, s)
    | [] => (false, s)
  if r.isEmpty || !(r.all isDig) then none else
  let v : Int := (natOfDigits r : Nat)
  let n : Int := if neg then -v else v
  if n < -9223372036854775808 || n > 9223372036854775807 then none else some n

inductive LqlRes
  | rel (unit : UInt8) (num : Bytes) (orElse : LqlRes)  -- `now − ParseFloat(num)·unit` when ParseFloat accepts `num`, else `orElse`
  | const (k : Nat)                                      -- 0 minute, 1 hour, 2 day, 3 week
  | abs (idx : Nat) (c : Civil)                          -- format `idx` of the LQL list claimed the text
  | unixNano (n : Int)
  | err
  | unsupported (idx : Nat) (what : Nat)
deriving Repr, DecidableEq

def bMinute : Bytes := [109, 105, 110, 117, 116, 101]
def bHour : Bytes := [104, 111, 117, 114]
def bDay : Bytes := [100, 97, 121]
def bWeek : Bytes := [119, 101, 101, 107]

/-- `parseConstantsDateTime` -/
def parseConstants (dt : Bytes) : Option Nat :=
  if dt == bMinute then some 0 else if dt == bHour then some 1 else if dt == bDay then some 2
  else if dt == bWeek then some 3 else none

/-- `parseRalativeDateTime` up to the call of `strconv.ParseFloat`: the unit byte and the number text -/
def relativeShape (dt : Bytes) : Option (UInt8 × Bytes) :=
  match dt with
  | [] => none
  | c :: _ =>
    if c != 45 then none else
    match dt.getLast? with
    | none => none
    | some dim =>
      if dim == 109 || dim == 104 || dim == 100 then some (dim, (dt.drop 1).take (dt.length - 2))   -- m h d
      else none

structure LqlCfg where
  lower : Bool := true       -- relative / constants / integer see the lower-cased text
  trim : Bool := true
  fmtLower : Bool := true    -- the format list is handed the lower-cased text too (false: the trimmed text as written)
  adj : Adjust := {}

/-- what follows the relative attempt: constants, format list (on `dtFmt`), integer -/
def parseLqlRest (cfg : LqlCfg) (fmts : List CFormat) (now : Now) (dt dtFmt : Bytes) : LqlRes :=
  match parseConstants dt with
  | some k => .const k
  | none =>
    match parseFirst cfg.adj fmts now dtFmt with
    | .ok i c => .abs i c
    | .unsupported i w => .unsupported i w
    | .err =>
      match parseInt64 dt with
      | some n => .unixNano n
      | none => .err

/-- `parseLqlDateTime` -/
def parseLql (cfg : LqlCfg) (fmts : List CFormat) (now : Now) (dt0 : Bytes) : LqlRes :=
  let dt1 := if cfg.trim then trimBlanks dt0 else dt0
  let dt := if cfg.lower then toLowerAscii dt1 else dt1
  let dtFmt := if cfg.fmtLower then dt else dt1
  match relativeShape dt with
  | some (u, num) => .rel u num (parseLqlRest cfg fmts now dt dtFmt)
  | none => parseLqlRest cfg fmts now dt dtFmt

/-! ## decimal text of an integer (`strconv.FormatInt(n, 10)`), used by the integer-literal theorem -/

def natDigitsAux : Nat → Nat → Bytes → Bytes
  | 0, _, acc => acc
  | fuel + 1, n, acc => if n < 10 then dig n :: acc else natDigitsAux fuel (n / 10) (dig n :: acc)

def natDecimal (n : Nat) : Bytes := natDigitsAux (n + 1) n []

def decimal (n : Int) : Bytes :=
  match n with
  | .ofNat k => natDecimal k
  | .negSucc k => 45 :: natDecimal (k + 1)

end Logrange.Date
