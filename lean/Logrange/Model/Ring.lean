/-!
# `container.CLElement` — the cyclic doubly linked list of pkg/container/clist.go

What is modelled. A ring is represented by the list of its element identities **head first, in `next` order**
(`[]` is the nil pointer). The functions below reproduce the *observable* behaviour of the Go methods for the
ways pkg/cursor/provider.go uses them (and a little more):

* `append cle chain`  — `cle.Append(chain)`: splices the whole ring `chain` in right after the head of `cle`
  and returns `cle` (nil arguments as in Go). provider.go only calls it with a single-element `cle`.
* `tearOff r e`       — `r.TearOff(e)` for `e` nil or a member of `r`: the new head is `r.next` when `e` is
  the head, nil when `e` was the only element. (`e` a member of *another* ring unlinks it there and returns
  `r`; the model then returns `r` unchanged and does not describe the other ring — not used by the provider.)
* `prev r e`          — `e.Prev()` for a member `e` of `r` (cyclic predecessor in `next` order).
* `next r e`          — `e.Next()`: **returns `prev`** — the Go method is `return cle.prev` (quirk, modelled as is).
* `len r`             — `r.Len()`.

This is not a pointer-level model: the `prev`/`next` fields are not represented separately, so the model
cannot express a ring whose two pointer chains disagree. The harness (`cmd/c15`, section `ring`) compares these
functions with the real `container.CLElement` on random operation sequences and checks there that the real
`next` chain and the real `prev` chain describe the same cycle.
-/
namespace Logrange.Ring

abbrev Ring := List Nat

/-- `cle.Append(chain)` -/
def append (cle chain : Ring) : Ring :=
  match chain, cle with
  | [], cle => cle
  | chain, [] => chain
  | chain, h :: t => h :: (chain ++ t)

/-- `r.TearOff(e)`; `none` is the nil pointer -/
def tearOff (r : Ring) (e : Option Nat) : Ring :=
  match e with
  | none => r
  | some e => r.erase e

/-- walk with the predecessor in hand -/
def prevAux (last : Nat) : List Nat → Nat → Nat
  | [], e => e
  | x :: xs, e => if x = e then last else prevAux x xs e

/-- `e.Prev()` for `e` in the ring `r` (an `e` outside `r` is returned unchanged: not described) -/
def prev (r : Ring) (e : Nat) : Nat :=
  match r.getLast? with
  | none => e
  | some l => prevAux l r e

/-- `e.Next()` — the Go method returns `cle.prev` -/
def next (r : Ring) (e : Nat) : Nat := prev r e

/-- the element the `next` *field* refers to (what `Next()` would return without the quirk); used by the
    harness's unit section to pin the quirk down -/
def nextField (r : Ring) (e : Nat) : Nat :=
  match r with
  | [] => e
  | h :: _ =>
    let rec go : List Nat → Nat
      | [] => e
      | [x] => if x = e then h else e
      | x :: y :: rest => if x = e then y else go (y :: rest)
    go r

/-- `r.Len()` -/
def len (r : Ring) : Nat := r.length

end Logrange.Ring
