import Logrange.Model.TagsEval
/-!
# `pkg/tindex/inmem.go`: partition identity (`getOrCreateJournal`) and selection (`Visit`)

Only what decides *which* partition a tag text denotes and which partitions a source selects: `tmap` (canonical
line → descriptor). Reader counts / exclusive locks / deletion are C14's model. One call of `getOrCreate` is one
critical section of `ims.lock` (the whole look-up-or-create happens under the lock), so racing first writers
are sequences of `getOrCreate` steps in some order. Journal ids (`newSrc()`, time derived) are the dense
numbers `next` (the harness renames ids in order of first appearance).
-/
namespace Logrange.TIndexId
open Go Logrange.KV Logrange.Tags Logrange.TagsEval

structure Desc where
  src : Nat
  tags : Map
deriving DecidableEq, Repr

structure St where
  /-- `ims.tmap`: key = `tag.Line` -/
  tmap : List (Bytes × Desc) := []
  next : Nat := 0

inductive Res where
  | ok (src : Nat)
  | badTags        -- `tag.Parse` failed
  | empty          -- "at least one tag value is expected"
  | notFound
deriving DecidableEq, Repr

def lookup (tm : List (Bytes × Desc)) (k : Bytes) : Option Desc := (tm.find? (fun e => e.1 = k)).map (·.2)

/-- `getOrCreateJournal(tags, create)`: raw text look-up first, then parse and look up the canonical line -/
def getOrCreate (s : St) (raw : Bytes) (create : Bool) : St × Res :=
  match lookup s.tmap raw with
  | some td => (s, .ok td.src)
  | none =>
    match parse raw with
    | none => (s, .badTags)
    | some tgs =>
      if tgs.isEmpty then (s, .empty) else
      match lookup s.tmap (line tgs) with
      | some td2 => (s, .ok td2.src)
      | none =>
        if !create then (s, .notFound) else
        ({ tmap := (line tgs, ⟨s.next, tgs⟩) :: s.tmap, next := s.next + 1 }, .ok s.next)

/-- `Visit` (no partition locked): the descriptors whose tags satisfy the source's function, in map order -/
def visit (so : StrOps) (s : St) (src : Source) : Option (List Desc) :=
  match buildSource so src with
  | none => none
  | some tef => some ((s.tmap.map (·.2)).filter (fun d => tef d.tags))

def run (s : St) : List (Bytes × Bool) → St
  | [] => s
  | (raw, create) :: ops => run (getOrCreate s raw create).1 ops

/-- `run` collecting the answers: K writers, one critical section each, in the order of the list (a schedule) -/
def runRes (s : St) : List Bytes → St × List Res
  | [] => (s, [])
  | raw :: ws =>
    let (s1, r) := getOrCreate s raw true
    let (s2, rs) := runRes s1 ws
    (s2, r :: rs)

/-- `saveStateUnsafe`: `json.Marshal(ims.tmap)` — the keys and the journal ids (the tag sets are not written) -/
def saveState (s : St) : List (Bytes × Nat) := s.tmap.map (fun e => (e.1, e.2.src))

/-- `loadState`: every key is parsed again (`tag.ParseUnsafe(key)`) to rebuild the descriptor's tag set; a key the
parser rejects makes the load fail (the server refuses to start) -/
def loadEntries : List (Bytes × Nat) → Option (List (Bytes × Desc))
  | [] => some []
  | (k, src) :: r =>
    match parse k with
    | none => none
    | some m =>
      match loadEntries r with
      | none => none
      | some l => some ((k, ⟨src, m⟩) :: l)

end Logrange.TIndexId
