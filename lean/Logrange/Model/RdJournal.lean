/-!
# Journal values and positions (C03 / C16)

A journal is the list of its chunks in id order; a chunk is the list of its confirmed records. The value may
change between two iterator calls (appends: the last chunk grows, new chunks with greater ids appear).
`minPos/maxPos` is what `chkSelector.updatePoss` answers for the chunk under the cursor's time range at the
moment the layout was taken (the time index is C02's model; here it is an input that the harness reads from
the real selector); the library iterator ignores both.

Positions are `journal.Pos{CId, Idx}`; their text form is `%016X%08X` (`Pos.String` / `ParsePos`).
-/
namespace Logrange.Rd

def maxU32 : Nat := 4294967295
/-- the dense stand-in of chunk id `0xFFFFFFFFFFFFFFFF` used by the driver (`tail`) -/
def tailCid : Nat := 1000000000

structure Rec where
  lbl : Nat
  ts : Int := 0
  keep : Bool := true
deriving Repr, DecidableEq, Inhabited

structure Chunk where
  id : Nat
  recs : List Rec
  minPos : Nat := 0
  maxPos : Nat := 4294967295
deriving Repr, Inhabited

abbrev Journal := List Chunk

def Chunk.cnt (c : Chunk) : Nat := c.recs.length

structure Pos where
  cid : Nat := 0
  idx : Nat := 0
deriving Repr, DecidableEq, Inhabited

def findChunk (j : Journal) (id : Nat) : Option Chunk := j.find? (·.id == id)
def cntOf (j : Journal) (id : Nat) : Nat := match findChunk j id with | some c => c.cnt | none => 0
def recAt (j : Journal) (cid idx : Nat) : Option Rec := (findChunk j cid).bind (·.recs[idx]?)

/-- all records in stored order -/
def flat (j : Journal) : List Rec := j.flatMap (·.recs)

/-- chunk ids strictly increase -/
def Sorted (j : Journal) : Prop := j.Pairwise (fun a b => a.id < b.id)

/-- number of records stored strictly before position `p` (`p.idx` beyond the chunk's end counts the whole
chunk; a `p.cid` that names no chunk stands before the next greater chunk) -/
def flatIdx : Journal → Pos → Nat
  | [], _ => 0
  | c :: rest, p =>
    (if c.id < p.cid then c.cnt else if c.id = p.cid then min p.idx c.cnt else 0) + flatIdx rest p

/-- SPEC: the records an iterator standing at `p` still has to deliver, forward -/
def recordsFrom (j : Journal) (p : Pos) : List Rec := (flat j).drop (flatIdx j p)

/-- `j'` is `j` after appends: chunk by chunk the old records are a prefix, new chunks only at the end -/
inductive Grows : Journal → Journal → Prop
  | nil (j' : Journal) : Grows [] j'
  | cons (c c' : Chunk) (r r' : Journal) : c.id = c'.id → c.recs <+: c'.recs →
      (r ≠ [] → c.recs = c'.recs) → Grows r r' → Grows (c :: r) (c' :: r')

/-! ## position strings -/

def hexDigit (n : Nat) : Char := if n < 10 then Char.ofNat (48 + n) else Char.ofNat (55 + n)

/-- `%0<w>X` of `n` (the low `w` hex digits; Go prints more when `n` needs more, callers stay below `16^w`) -/
def hexN : Nat → Nat → List Char
  | 0, _ => []
  | w + 1, n => hexN w (n / 16) ++ [hexDigit (n % 16)]

def hexVal? (c : Char) : Option Nat :=
  if '0' ≤ c ∧ c ≤ '9' then some (c.toNat - 48)
  else if 'A' ≤ c ∧ c ≤ 'F' then some (c.toNat - 55)
  else if 'a' ≤ c ∧ c ≤ 'f' then some (c.toNat - 87)
  else none

/-- `strconv.ParseUint(s, 16, _)` on a non-empty digit string of bounded width (no overflow possible) -/
def hexStep (acc : Option Nat) (c : Char) : Option Nat :=
  match acc, hexVal? c with | some a, some v => some (a * 16 + v) | _, _ => none
def parseHex (s : List Char) : Option Nat := s.foldl hexStep (some 0)

/-- `journal.Pos.String` with the widths the extractor reads from the format string (16 + 8) -/
def showPosW (wc wi : Nat) (p : Pos) : List Char := hexN wc p.cid ++ hexN wi p.idx
def showPos (p : Pos) : List Char := showPosW 16 8 p

/-- `journal.ParsePos`: empty text is position zero, otherwise exactly `wc + wi` hex digits -/
def parsePosW (wc wi : Nat) (s : List Char) : Option Pos :=
  if s.length = 0 then some {} else
  if s.length ≠ wc + wi then none else
  match parseHex (s.take wc), parseHex (s.drop wc) with
  | some c, some i => some ⟨c, i⟩
  | _, _ => none
def parsePos (s : List Char) : Option Pos := parsePosW 16 8 s

end Logrange.Rd
