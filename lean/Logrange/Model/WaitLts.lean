import Logrange.Go.Basic
/-!
# Waiting at the end of a stream (C11)

## The library contract, as a labelled transition system for one partition

`chunkListener.waitData` / `OnNewData` (`github.com/logrange/range/pkg/records/journal/ctrlr/chklistener.go`) and the
chunk writer's flush (`chunkfs/cwriter.go`: `flushWriter` stores the confirmed count under the *writer's* lock, then
`onFlushF` → `OnNewData` runs after that lock was released):

* writer: `append k` (records buffered, not readable), `confirm` (`cntCfrmd := cnt`, readable from now on; one
  `OnNewData` call becomes pending — a periodic flush and a `Sync` at a chunk roll-over can overlap, so pending calls are
  counted), `loadWaiters` (`if atomic.LoadInt32(&waiters) <= 0 { return }`, outside any lock), `closeAll` (under the
  listener lock: close and forget every subscription);
* a waiter (one goroutine started by `crsr.WaitNewData` per partition of the cursor): `start pos` (the `go` statement; `pos`
  is the argument), `inc` (`atomic.AddInt32(&waiters, 1)` before the first lock), `lockCheck` (lock; `pos < (last chunk,
  Count())` ⇒ unlock and return, else `pos := (last chunk, Count())` and keep the lock), `subscribe` (append a fresh
  channel, unlock, sleep in `select`), `wake` (own channel closed ⇒ loop again), `cancel` (`ctx.Done()`: lock, remove the
  own channel, unlock, return — this is what a sibling waiter's return or the timeout does), `ret` (deferred
  `waiters -= 1`).

The atomic counter `waiters` is the number of waiters between `inc` and `ret` *by construction* (`countedPc`).
Positions are global record indices of the partition (the lexicographic order of `(chunk, index)`; a roll-over confirms
the old chunk synchronously before the next chunk exists, so the confirmed count is monotone in this reading).

Several partitions under one reader and back-to-back waits need no more states: a reader's waiters live in different
partitions' systems, "the first return cancels the rest" is the `cancel` step (enabled for any sleeping waiter at any
time), and a waiter that returned can be started again.

## The in-repo logic

* `jget`      end-of-data step of the journal iterator with the two `Count()` reads `c₁ ≤ c₂` as inputs (A.3a);
* `queryLoop` the loop of `backend.Querier.Query` / `rpc.ServerQuerier.query` over an abstract cursor;
* `emptyCur`  `cursor.emptyCursor` (what `GetOrCreate` returns when no partition matches).
-/
namespace Logrange.WaitLts

inductive Pc where
  | idle | started | counted | holding | asleep | returning
deriving DecidableEq, Repr, Inhabited

structure WSt where
  pc : Pc := .idle
  pos : Nat := 0
  /-- the waiter's channel is in `dwChnls` and open -/
  sub : Bool := false
  /-- result of the last completed call: `true` = returned nil (data), `false` = returned `ctx.Err()` -/
  woke : Bool := false
deriving DecidableEq, Repr, Inhabited

structure State where
  cnt : Nat := 0
  cfrmd : Nat := 0
  pendNotif : Nat := 0
  pendClose : Nat := 0
  lock : Option Nat := none
  ws : List WSt := []
deriving DecidableEq, Repr, Inhabited

/-- between `atomic.AddInt32(&waiters, 1)` and the deferred `-1` -/
def countedPc : Pc → Bool
  | .counted | .holding | .asleep | .returning => true
  | _ => false

def waitersPositive (st : State) : Bool := st.ws.any (fun w => countedPc w.pc)

inductive Label where
  | append (k : Nat)
  | confirm
  | loadWaiters
  | closeAll
  | start (w : Nat) (pos : Nat)
  | inc (w : Nat)
  | lockCheck (w : Nat)
  | subscribe (w : Nat)
  | wake (w : Nat)
  | cancel (w : Nat)
  | ret (w : Nat)
deriving DecidableEq, Repr

def step (st : State) : Label → Option State
  | .append k => if k = 0 then none else some { st with cnt := st.cnt + k }
  | .confirm =>
    -- `res := cw.cntCfrmd != cw.cnt; atomic.StoreUint32(&cw.cntCfrmd, cw.cnt)`; `if res { onFlushF() }`
    if st.cnt = st.cfrmd then none else some { st with cfrmd := st.cnt, pendNotif := st.pendNotif + 1 }
  | .loadWaiters =>
    if st.pendNotif = 0 then none
    else if waitersPositive st then some { st with pendNotif := st.pendNotif - 1, pendClose := st.pendClose + 1 }
    else some { st with pendNotif := st.pendNotif - 1 }
  | .closeAll =>
    if st.pendClose = 0 || st.lock.isSome then none
    else some { st with pendClose := st.pendClose - 1, ws := st.ws.map (fun w => { w with sub := false }) }
  | .start w pos =>
    match st.ws[w]? with
    | some x => if x.pc = .idle then some { st with ws := st.ws.set w { x with pc := .started, pos := pos } } else none
    | none => none
  | .inc w =>
    match st.ws[w]? with
    | some x => if x.pc = .started then some { st with ws := st.ws.set w { x with pc := .counted } } else none
    | none => none
  | .lockCheck w =>
    match st.ws[w]? with
    | some x =>
      if x.pc = .counted && st.lock.isNone then
        if x.pos < st.cfrmd then some { st with ws := st.ws.set w { x with pc := .returning, woke := true } }
        else some { st with lock := some w, ws := st.ws.set w { x with pc := .holding, pos := st.cfrmd } }
      else none
    | none => none
  | .subscribe w =>
    match st.ws[w]? with
    | some x =>
      if x.pc = .holding then some { st with lock := none, ws := st.ws.set w { x with pc := .asleep, sub := true } } else none
    | none => none
  | .wake w =>
    match st.ws[w]? with
    | some x => if x.pc = .asleep && !x.sub then some { st with ws := st.ws.set w { x with pc := .counted } } else none
    | none => none
  | .cancel w =>
    match st.ws[w]? with
    | some x =>
      if x.pc = .asleep && st.lock.isNone then
        some { st with ws := st.ws.set w { x with pc := .returning, sub := false, woke := false } }
      else none
    | none => none
  | .ret w =>
    match st.ws[w]? with
    | some x => if x.pc = .returning then some { st with ws := st.ws.set w { x with pc := .idle } } else none
    | none => none

def run (st : State) : List Label → State
  | [] => st
  | l :: ls => match step st l with
    | some st' => run st' ls
    | none => run st ls

def init (nWaiters : Nat) (stored : Nat) : State :=
  { cnt := stored, cfrmd := stored, ws := List.replicate nWaiters {} }

/-! ## end-of-data step of the journal iterator -/

inductive GetRes where
  | record (idx : Nat)
  | eof
deriving DecidableEq, Repr

/-- forward `Get` at global index `idx`: the chunk iterator decides against the first count read `c₁`; on EOF the
position is rebuilt from a second read `c₂` (`ensureChkIt`: `pos = (last.id, last.Count())`) -/
def jget (idx c1 c2 : Nat) : GetRes × Nat :=
  if idx < c1 then (.record idx, idx) else (.eof, c2)

/-! ## the Query loop -/

inductive WaitRes where
  | data      -- `WaitNewData` returned nil
  | timeout   -- returned `ctx.Err()`
deriving DecidableEq, Repr

/-- what the loop uses of a `cursor.Cursor` -/
structure Cur (σ : Type) where
  /-- `Get`: an event (then `Next` is applied) or `io.EOF` -/
  get : σ → Option Nat × σ
  wait : σ → WaitRes × σ

inductive QRes where
  | ok (events : List Nat)
  | outOfFuel
deriving DecidableEq, Repr

/-- `for limit > 0 && err == nil { ev, err = cur.Get(); if err == nil {…; limit--; cur.Next()};
     if err == io.EOF && limit == lim && WaitTimeout > 0 { err = cur.WaitNewData(fresh timeout); if err != nil { err = nil; break } } }` -/
def queryLoop {σ : Type} (c : Cur σ) (waitTimeout lim : Nat) : Nat → Nat → σ → List Nat → QRes
  | 0, _, _, _ => .outOfFuel
  | fuel+1, limit, s, acc =>
    if limit = 0 then .ok acc.reverse else
    match c.get s with
    | (some e, s') => queryLoop c waitTimeout lim fuel (limit - 1) s' (e :: acc)
    | (none, s') =>
      if limit = lim ∧ 0 < waitTimeout then
        match c.wait s' with
        | (.timeout, _) => .ok acc.reverse
        | (.data, s'') => queryLoop c waitTimeout lim fuel limit s'' acc
      else .ok acc.reverse

/-- the shape of a Query loop as the extractor reads it from the source: it waits exactly when
`err == io.EOF && limit == lim && WaitTimeout > 0`, with a fresh timeout per wait, and leaves on a wait error; `earlyEmpty`:
the function answers empty before it creates a cursor when `lim == 0 && WaitTimeout <= 0` (the RPC server does) -/
structure LoopShape where
  waitCond : Bool
  freshTimeout : Bool
  breaksOnTimeout : Bool
  earlyEmpty : Bool
deriving DecidableEq, Repr

/-- a whole `Query` call over cursor state `s`: `backend.Querier.Query` and `rpc.ServerQuerier.query` are this function
for their respective shapes. A loop whose wait logic is not the recognised one is modelled as a loop that never waits
(so that a changed shape makes the two differ, or differ from the measured behaviour). -/
def queryCall {σ : Type} (k : LoopShape) (c : Cur σ) (waitTimeout lim fuel : Nat) (s : σ) : QRes :=
  if k.earlyEmpty && lim == 0 && waitTimeout == 0 then .ok []
  else if k.waitCond && k.freshTimeout && k.breaksOnTimeout then queryLoop c waitTimeout lim fuel lim s []
  else queryLoop c 0 lim fuel lim s []

/-- `cursor.emptyCursor`: `Get` is `io.EOF`; `WaitNewData` returns nil at once iff `waitReturnsAtOnce` (regenerated from the
source; that was finding F11), else — the code since 2ae8d4c — it is a blocking step: `<-ctx.Done(); return ctx.Err()`, which
the caller sees as the wait's timeout -/
def emptyCur (waitReturnsAtOnce : Bool) : Cur Unit :=
  { get := fun _ => (none, ()), wait := fun _ => (if waitReturnsAtOnce then .data else .timeout, ()) }

/-- a scripted cursor over real partitions: the events readable now, and what each successive wait brings
(`none` = that wait times out; `some batch` = it is woken and `batch` has become readable — possibly nothing the
query selects: a spurious or filtered-out wake-up) -/
abbrev Script := List Nat × List (Option (List Nat))

def scriptCur : Cur Script :=
  { get := fun s => match s.1 with
      | [] => (none, s)
      | e :: es => (some e, (es, s.2))
    wait := fun s => match s.2 with
      | [] => (.timeout, s)
      | none :: fs => (.timeout, (s.1, fs))
      | some b :: fs => (.data, (s.1 ++ b, fs)) }

def scriptMeasure (s : Script) : Nat := s.1.length + (s.2.map (fun o => 1 + (o.getD []).length)).sum

/-! ## the request's `Limit` -/

/-- how a `Query` function treats the request's `Limit` (regenerated from the source per function): `clamps` — the
countdown variable is cut to `QueryMaxLimit` before the loop; `condUsesClamped` — the value the wait condition compares
the countdown variable with is a copy taken AFTER that cut (the code's `lim := limit`), not the request's field -/
structure LimitShape where
  clamps : Bool
  condUsesClamped : Bool
deriving DecidableEq, Repr

/-- a whole `Query` **request** with the `Limit` the client sent: the clamp, then `queryCall`'s logic with the comparison
value the source uses. (With `⟨true, true⟩` this is `queryCall` over `min reqLimit maxLimit`; with `condUsesClamped = false`
a request beyond the cap never satisfies `limit == <request limit>` and therefore never waits.) -/
def queryRequest {σ : Type} (k : LoopShape) (ls : LimitShape) (maxLimit : Nat) (c : Cur σ)
    (waitTimeout reqLimit fuel : Nat) (s : σ) : QRes :=
  let limit := if ls.clamps then min reqLimit maxLimit else reqLimit
  let cmp := if ls.condUsesClamped then limit else reqLimit
  if k.earlyEmpty && limit == 0 && waitTimeout == 0 then .ok []
  else if k.waitCond && k.freshTimeout && k.breaksOnTimeout then queryLoop c waitTimeout cmp fuel limit s []
  else queryLoop c 0 cmp fuel limit s []

/-! ## the client's stream loop (`api.Select`, stream mode) -/

/-- the position a request asks for: the end of the stream as it is when the request reaches the server (`Pos: "tail"`, resolved
on a fresh cursor), or a concrete position (what a `NextQueryRequest` carries) -/
inductive ReqPos where
  | tail
  | at (n : Nat)
deriving DecidableEq, Repr

/-- one round of the loop: `gap` events become readable between the previous answer and this request reaching the server,
`during` events during this request's wait. (A request that finds something readable answers at once; the harness therefore
drives rounds with `gap = 0 ∨ during = 0` — in the model the answer simply carries everything up to the end of the round.) -/
structure Round where
  gap : Nat
  during : Nat
deriving DecidableEq, Repr

/-- `api.Select(…, streamMode = true, …)` over a server that answers every request with all events from its position to the
end (global indices) and a `NextQueryRequest` at that end. `takesNext` is the regenerated fact about the loop: every round
continues with `&res.NextQueryRequest`; if not, a round that came back empty re-sends the request it had. -/
def selectStream (takesNext : Bool) : Nat → ReqPos → List Round → List Nat
  | _, _, [] => []
  | stored, pos, r :: rs =>
    let stored1 := stored + r.gap
    let p := match pos with
      | .tail => stored1
      | .at n => n
    let stored2 := stored1 + r.during
    let evs := List.range' p (stored2 - p)
    let pos' := if evs.isEmpty && !takesNext then pos else ReqPos.at stored2
    evs ++ selectStream takesNext stored2 pos' rs

end Logrange.WaitLts
