import Logrange.Model.Outcome
/-!
# The indexing points of pkg/lql's AST post-processing (C13)

`pkg/lql` hands the text to participle (C12 models the engine as a total interpreter) and then walks the AST with ordinary Go
code. The Go-level panic sites of that code — every index / slice / dereference / method call on an optional node of the non-test
files — are enumerated by `tools/extract/c13_sites.go` into `Generated/C13Sites.lean`, each with the guard the extractor read
structurally from the source. This file gives the guards their meaning on the checked operations of `Model/Outcome.lean`
(`Go.index`, `Go.slice`, `Go.sliceFrom` panic exactly when Go's bounds check fails) and models the two functions whose guard is not
a plain dominating test:

* `parseRalativeDateTime` (datetime.go): `dt[1:len(dt)-1]` is safe because the first byte is `-` and the last byte passed a
  `switch` whose cases do not contain `-` — so the text has at least two bytes;
* `buildCond` → `buildFldCond` (whereeval.go): `fldName[7:]` after `len(strings.ToLower(fldName)) >= 8` in the caller.

A pointer is an `Option` (`none` = nil), `*p` is `deref`.
-/
namespace Logrange.LqlSites
open Go Logrange

/-- `*p` -/
def deref {α : Type} : Option α → Outcome α
  | some a => .ok a
  | none => .panic "nil pointer dereference"

/-- `l[k:]` for a slice of any element type (`ocn[1:]`, `cn[1:]`) -/
def sliceFromL {α : Type} (l : List α) (k : Nat) : Outcome (List α) :=
  if k ≤ l.length then .ok (l.drop k) else .panic "slice bounds out of range"

/-- `parseRalativeDateTime(dt)` up to the `strconv.ParseFloat` call: `first` is the byte the text must start with, `dims` the
bytes the `switch` over the last byte accepts (both regenerated). The result is the text handed to `ParseFloat` (a total
library function). -/
def relDateTime (first : UInt8) (dims : List UInt8) (dt : Bytes) : Outcome Bytes :=
  if dt.length = 0 then .err                                          -- len(dt) == 0 ||
  else (Go.index dt 0).bind fun c0 =>                                 -- dt[0]
    if c0 ≠ first then .err
    else (Go.index dt (dt.length - 1)).bind fun dim =>                -- dim := dt[len(dt)-1]
      if dims.contains dim then Go.slice dt 1 ((dt.length : Int) - 1)   -- dt[1 : len(dt)-1]
      else .err                                                       -- default: return error

def sFields : Bytes := [102, 105, 101, 108, 100, 115, 58]             -- "fields:"

/-- `buildCond` (the test) followed by `buildFldCond` (the cut): `lower` is `strings.ToLower` -/
def fldCut (lower : Bytes → Bytes) (fldName : Bytes) : Outcome Bytes :=
  let op := lower fldName
  if ¬ sFields.isPrefixOf op ∨ op.length < 8 then .err
  else Go.sliceFrom fldName 7                                         -- fldName = fldName[7:]

/-- the recursion scheme of `buildOrConds` / `buildXConds` / `getFirstParamName`: `if len(l) == 0 { return }; … l[0] …; if len(l) == 1
{ return }; … l[1:] …` — returns the number of elements visited -/
def walkConds {α : Type} : Nat → List α → Outcome Nat
  | 0, _ => .outOfFuel
  | fuel + 1, l =>
    if l.length = 0 then .ok 0
    else (Go.index l 0).bind fun _ =>
      if l.length = 1 then .ok 1
      else (sliceFromL l 1).bind fun rest => (walkConds fuel rest).bind fun n => .ok (n + 1)

end Logrange.LqlSites
