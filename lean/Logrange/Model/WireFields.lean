import Logrange.Model.Outcome
import Logrange.Generated.C13
/-!
# Binary field lists (`pkg/model/field/field.go`) as far as C13 needs them

A `field.Fields` value is a string of items, each one length byte followed by that many bytes; items alternate
key, value. The readers (`Fields.Value`, `Fields.AsKVString`) trust that shape: they slice `f[idx+1 : idx+n+1]`
without testing it against `len(f)`, so on arbitrary bytes they can panic; on a well-formed list (`WF`) they are
total. What can be *stored* is built by `NewFieldsFromKVString` (write-level and per-event field text of a Write
request, via `field.Parse`) and `Fields.Concat`.

The models walk over the remaining suffix `f[idx:]` instead of keeping the index `idx`; `f[idx+1 : idx+n+1]` is then
the checked slice `rest[0:n]` of the suffix after the length byte — the same bounds test.

`build` is the loop of `NewFieldsFromKVString` over the result of `kvstring.SplitString`. The splitting itself,
`kvstring.TrimSpaces` and `strconv.Unquote` are owned by C08 and enter as parameters (`parts`, `trim`, `unq`).
The model keeps the order of the code: the length test `len(v) > 255` comes before trimming and unquoting, it is repeated
on the unquoted value when the regenerated fact `fieldLenTestedAfterUnquote` says so (commit 72eac47), and the length
byte is `byte(len(v))` of the unquoted value (wrapping modulo 256).
-/
namespace Logrange.WireFields
open Go Logrange

/-- the byte string of a list of items -/
def encodeItems : List Bytes → Bytes
  | [] => []
  | v :: r => UInt8.ofNat v.length :: (v ++ encodeItems r)

/-- well-formed: an even number of items, each at most 255 bytes long -/
def WF (f : Bytes) : Prop := ∃ items : List Bytes, (∀ v ∈ items, v.length ≤ 255) ∧ items.length % 2 = 0 ∧ f = encodeItems items

/-- `Fields.Value(name)` on the suffix `r = f[idx:]` -/
def valueGo (name : Bytes) : Nat → Bytes → Bool → Outcome Bytes
  | 0, _, _ => .outOfFuel
  | _ + 1, [], _ => .ok []                                   -- idx < len(f) is false: return ""
  | fuel + 1, nb :: rest, even =>
    if even = true ∧ nb.toNat = name.length then
      (Go.slice rest 0 nb.toNat).bind fun key =>             -- f[idx+1 : idx+n+1]
        if key = name then
          (Go.index (rest.drop nb.toNat) 0).bind fun vb =>   -- idx += n+1; n := int(f[idx])
            Go.slice ((rest.drop nb.toNat).drop 1) 0 vb.toNat  -- f[idx+1 : idx+n+1]
        else valueGo name fuel (rest.drop nb.toNat) (!even)
    else valueGo name fuel (rest.drop nb.toNat) (!even)      -- idx += n+1 (possibly beyond len(f): the loop ends)

def value (f name : Bytes) : Outcome Bytes := valueGo name (f.length + 1) f true

/-- the slices `f[idx+1 : idx+1+n]` that `Fields.AsKVString` takes, in order -/
def itemsGo : Nat → Bytes → Outcome (List Bytes)
  | 0, _ => .outOfFuel
  | _ + 1, [] => .ok []
  | fuel + 1, nb :: rest =>
    (Go.slice rest 0 nb.toNat).bind fun it =>
      (itemsGo fuel (rest.drop nb.toNat)).bind fun l => .ok (it :: l)

def items (f : Bytes) : Outcome (List Bytes) := itemsGo (f.length + 1) f

/-- `Fields.AsKVString`: keys as they are, values through `strconv.Quote` (parameter) when they contain `,` or `=` -/
def renderKV (quote : Bytes → Bytes) : List Bytes → Bool → Bool → Bytes
  | [], _, _ => []
  | v :: r, even, first =>
    if even then (if first then [] else [44]) ++ v ++ [61] ++ renderKV quote r false false
    else (if v.contains 44 || v.contains 61 then quote v else v) ++ renderKV quote r true false

def asKVString (quote : Bytes → Bytes) (f : Bytes) : Outcome Bytes :=
  (items f).bind fun l => .ok (renderKV quote l true true)

/-- `field.Check`: does the walk over the length bytes end exactly at `len(str)`? -/
def checkGo : Nat → Bytes → Bool
  | 0, _ => false
  | _ + 1, [] => true
  | fuel + 1, nb :: rest => if rest.length < nb.toNat then false else checkGo fuel (rest.drop nb.toNat)

def check (f : Bytes) : Bool := checkGo (f.length + 1) f

/-- `Fields.Concat` -/
def concat (f f1 : Bytes) : Bytes := f ++ f1

/-- the `for i, v := range res` loop of `NewFieldsFromKVString` -/
def buildGo (trim : Bytes → Bytes) (unq : Bytes → Option Bytes) : List Bytes → Nat → Bytes → Option Bytes
  | [], _, sb => some sb
  | v :: rest, i, sb =>
    if v.length > Generated.C13.fieldMaxLen then none
    else
      let v := trim v
      if v.length = 0 ∧ i % 2 = 0 then none
      else
        let v' := match v with
          | c :: _ =>
            if c = 34 ∨ c = 96 then
              match unq v with
              | none => none
              | some u =>
                -- commit 72eac47: `if len(v) > 255 { error }` again, on the unquoted value
                if Generated.C13.fieldLenTestedAfterUnquote = true ∧ u.length > Generated.C13.fieldMaxLenAfterUnquote then none
                else some u
            else some v
          | [] => some v
        match v' with
        | none => none
        | some v => buildGo trim unq rest (i + 1) (sb ++ UInt8.ofNat v.length :: v)   -- byte(len(v)), then v

/-- `NewFieldsFromKVString` after `SplitString` returned `parts` -/
def build (trim : Bytes → Bytes) (unq : Bytes → Option Bytes) (parts : List Bytes) : Option Bytes :=
  if parts.length % 2 = 1 then none else buildGo trim unq parts 0 []

/-- `NewFieldsFromKVString`: `split` stands for `RemoveCurlyBraces` + `SplitString` (`none` = error, `some []` for an empty
text — the two early `return "", nil`) -/
def fromKV (split : Bytes → Option (List Bytes)) (trim : Bytes → Bytes) (unq : Bytes → Option Bytes) (kvs : Bytes) : Option Bytes :=
  match split kvs with
  | none => none
  | some parts => build trim unq parts

end Logrange.WireFields
