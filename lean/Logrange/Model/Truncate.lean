import Logrange.Go.Basic
import Logrange.Model.Registry
/-!
# Model of TRUNCATE (`pkg/partition/partition.go`: `truncate`, `Service.Truncate`, `truncateGlobally`,
`deleteJournal`; `pkg/backend/admin.go`: `cmdTruncate`)

* `sizeLoop`, `timeLoop`, `chooseAt`, `choose` — the chooser of `Service.truncate` on the chunk list `cks`: the two
  `for` loops with their guards exactly as written, `uint64` subtraction included (`sub64` wraps). Since fix
  b1a5e66 the total the loops start from is the sum of the same snapshot `sizes[i]` of the chunk sizes the guards
  subtract (`choose`); `chooseAt` is the loop pair started from an arbitrary total (the code before the fix started
  from a separate `jrnl.Size()` read).
* `truncate` — `n := idx; idx--; if idx < 0 || DryRun return; DeleteChunks(cks[idx].Id())`; the library removes
  every chunk whose id is `≤` that id (`deleteUpTo`).
* `phase1Part` — the body of the visitor in `Service.Truncate` for one partition; `insertInfo` is the sorted
  insertion by `LatestTs` (Go's `sort.Search` loop, shared with the registry model).
* `globalLoop`, `phase2` — `truncateGlobally` (the MAXDBSIZE pass) with the constants of its inner call as
  parameters (`gMin`, `gMax`; regenerated from the source).
* `run` — the whole command over the partitions in the order `tindex.Visit` hands them out (Go map order: a
  parameter, every theorem quantifies over it).
* `mkParams` — the parameter mapping of `cmdTruncate`.

The comparison operator of the time loop is the parameter `strict` (`true`: `MaxTs < OldestTs`, the code after
fix 62f799c; `false`: `<=`), regenerated from the source by the extractor.
-/
namespace Logrange.Truncate

def two64 : Nat := 18446744073709551616
def maxU64 : Nat := two64 - 1

/-- Go's `a - b` on `uint64` operands -/
def sub64 (a b : Nat) : Nat := if b ≤ a then a - b else a + two64 - b
/-- Go's `a + b` on `uint64` operands -/
def add64 (a b : Nat) : Nat := (a + b) % two64

structure Chunk where
  id : Nat
  size : Nat            -- `Size()`: confirmed bytes
  maxTs : Int           -- newest timestamp the time index claims for the chunk (`RecordsInfo.MaxTs`)
deriving DecidableEq, Repr, Inhabited

structure Params where
  dryRun : Bool := false
  maxSrc : Nat := 0
  minSrc : Nat := 0
  oldestTs : Int := 0
  maxDB : Nat := maxU64
deriving DecidableEq, Repr, Inhabited

/-- `cmdTruncate`: absent MINSIZE/MAXSIZE/BEFORE are 0, absent MAXDBSIZE is `math.MaxUint64` -/
def mkParams (dry : Bool) (min max : Option Nat) (before : Option Int) (maxdb : Option Nat) : Params :=
  { dryRun := dry, minSrc := min.getD 0, maxSrc := max.getD 0, oldestTs := before.getD 0, maxDB := maxdb.getD maxU64 }

def psize (cks : List Chunk) : Nat := (cks.map (·.size)).sum

/-! ## the chooser -/

/-- the common shape of the two loops of `truncate`:
`for ; idx < len(cks) && <cond> && size-uint64(cks[idx].Size()) >= Min; idx++ { size -= uint64(cks[idx].Size()) }`
on the chunks from `idx` on; returns (number of chunks taken, `size` afterwards) -/
def takeLoop (cond : Chunk → Nat → Bool) (mn : Nat) : List Chunk → Nat → Nat × Nat
  | [], size => (0, size)
  | c :: cs, size =>
    if cond c size = true ∧ mn ≤ sub64 size c.size then
      ((takeLoop cond mn cs (sub64 size c.size)).1 + 1, (takeLoop cond mn cs (sub64 size c.size)).2)
    else (0, size)

/-- the size loop: `<cond>` is `size > tp.MaxSrcSize` -/
def sizeLoop (mx mn : Nat) : List Chunk → Nat → Nat × Nat := takeLoop (fun _ size => decide (mx < size)) mn

/-- the comparison of the time loop: `MaxTs < OldestTs` (`strict`) or `MaxTs <= OldestTs` -/
def older (strict : Bool) (ts t : Int) : Bool := if strict then decide (ts < t) else decide (ts ≤ t)

/-- the time loop: `<cond>` is `sc[idx].MaxTs < tp.OldestTs` -/
def timeLoop (strict : Bool) (t : Int) (mn : Nat) : List Chunk → Nat → Nat × Nat :=
  takeLoop (fun c _ => older strict c.maxTs t) mn

structure Choice where
  bySize : Nat          -- chunks taken by the size loop
  byTime : Nat          -- chunks taken by the time loop
  size : Nat            -- the variable `size` after both loops
deriving DecidableEq, Repr

def Choice.n (c : Choice) : Nat := c.bySize + c.byTime

def sizePhase (p : Params) (cks : List Chunk) (jsize : Nat) : Nat × Nat :=
  if 0 < p.maxSrc ∧ p.minSrc < p.maxSrc then sizeLoop p.maxSrc p.minSrc cks jsize else (0, jsize)

def timePhase (strict : Bool) (p : Params) (cks : List Chunk) (k1 s1 : Nat) : Nat × Nat :=
  if 0 < p.oldestTs ∧ k1 < cks.length then timeLoop strict p.oldestTs p.minSrc (cks.drop k1) s1 else (0, s1)

/-- the two loops started from the total `size0` -/
def chooseAt (strict : Bool) (p : Params) (cks : List Chunk) (size0 : Nat) : Choice :=
  let r1 := sizePhase p cks size0
  let r2 := timePhase strict p cks r1.1 r1.2
  ⟨r1.1, r2.1, r2.2⟩

/-- `sizes[i] = cks[i].Size(); size += sizes[i]`: the total is the sum of the snapshot the guards use -/
def choose (strict : Bool) (p : Params) (cks : List Chunk) : Choice := chooseAt strict p cks (psize cks)

/-- `DeleteChunks(lastCid)`: every chunk with id ≤ `lastCid` goes -/
def deleteUpTo (lastId : Nat) (cks : List Chunk) : List Chunk := cks.filter (fun c => decide (lastId < c.id))

structure TruncRes where
  n : Nat                 -- returned chunk count
  removed : Nat           -- returned `isize - size`
  chunks : List Chunk     -- the partition's chunks afterwards
deriving DecidableEq, Repr

def truncate (strict : Bool) (p : Params) (cks : List Chunk) : TruncRes :=
  let ch := choose strict p cks
  if ch.n = 0 ∨ p.dryRun = true then ⟨ch.n, sub64 (psize cks) ch.size, cks⟩
  else
    let rest := deleteUpTo (cks.getD (ch.n - 1) default).id cks
    ⟨cks.length - rest.length, sub64 (psize cks) ch.size, rest⟩

/-! ## the command -/

structure Part where
  src : Nat
  sel : Bool              -- the tags satisfy the statement's source condition (C06 decides this)
  users : Nat             -- holders of the partition other than the TRUNCATE itself
  chunks : List Chunk
deriving DecidableEq, Repr, Inhabited

structure Info where
  latestTs : Int
  src : Nat
  before : Nat
  after : Nat
  chunksDeleted : Nat
  deleted : Bool
deriving DecidableEq, Repr, Inhabited

def latestTs (cks : List Chunk) : Int :=
  match cks.getLast? with
  | some c => c.maxTs
  | none => 0

/-- the predicate of the sorted insertion (fix cac5c5d): `si.LatestTs < ti.LatestTs || (si.LatestTs == ti.LatestTs &&
si.Src >= ti.Src)` — latest timestamp descending, equal timestamps by source id ascending -/
def notBefore (si ti : Info) : Bool :=
  decide (si.latestTs < ti.latestTs) || (si.latestTs == ti.latestTs && decide (ti.src ≤ si.src))

/-- sorted insertion of `Service.Truncate`: `idx := sort.Search(len, notBefore(infos[i], ti))`, insert at `idx` -/
def insertInfo (infos : List Info) (ti : Info) : List Info :=
  let idx := Registry.sortSearch infos.length (fun i => notBefore (infos.getD i default) ti)
  infos.take idx ++ ti :: infos.drop idx

structure P1 where
  part : Option Part        -- the partition afterwards (`none`: dropped)
  report : Option Info      -- an immediate `otf` call (empty partition)
  info : Option Info        -- the entry for `sortedInfos`
deriving DecidableEq, Repr

/-- `deleteJournal`: `LockExclusively` needs the visit to be the only holder, then the size re-check -/
def canDelete (users : Nat) (cks : List Chunk) : Bool := users == 0 && psize cks == 0

/-- the visitor body of `Service.Truncate` for one partition -/
def phase1Part (strict : Bool) (p : Params) (part : Part) : P1 :=
  if part.sel = false then ⟨some part, none, none⟩ else
  let size := psize part.chunks
  if size = 0 then
    if p.dryRun = true then ⟨some part, some ⟨0, part.src, 0, 0, 0, true⟩, none⟩
    else if canDelete part.users part.chunks = true then ⟨none, some ⟨0, part.src, 0, 0, 0, true⟩, none⟩
    else ⟨some part, none, none⟩
  else
    let r := truncate strict p part.chunks
    let deleted := if r.removed = size then (p.dryRun || canDelete part.users r.chunks) else false
    let part' := if deleted = true ∧ p.dryRun = false then none else some { part with chunks := r.chunks }
    ⟨part', none, some ⟨latestTs part.chunks, part.src, size, sub64 size r.removed, r.n, deleted⟩⟩

structure St where
  db : List Part := []        -- partitions afterwards, in visiting order
  reports : List Info := []   -- `otf` calls made during the visit
  infos : List Info := []     -- `sortedInfos`
deriving Repr

def phase1Step (strict : Bool) (p : Params) (st : St) (part : Part) : St :=
  let r := phase1Part strict p part
  { db := match r.part with | some q => st.db ++ [q] | none => st.db
    reports := match r.report with | some i => st.reports ++ [i] | none => st.reports
    infos := match r.info with | some i => insertInfo st.infos i | none => st.infos }

def phase1 (strict : Bool) (p : Params) (order : List Part) : St := order.foldl (phase1Step strict p) {}

def dbSet (db : List Part) (src : Nat) (cks : List Chunk) : List Part :=
  db.map (fun q => if q.src = src then { q with chunks := cks } else q)
def dbRemove (db : List Part) (src : Nat) : List Part := db.filter (fun q => !(q.src == src))
def dbFind (db : List Part) (src : Nat) : Option Part := db.find? (fun q => q.src == src)

/-- what `truncateGlobally` writes into the entry of a partition it takes, `cks` being the chunk list it sees
(fix 49b0b2b: `nck := len(cks); if tp.DryRun { nck -= ti.ChunksDeleted }` — a dry phase I removed nothing, the list
still holds the chunks it already counted) -/
def takenInfo (dry : Bool) (ti : Info) (cks : List Chunk) : Info :=
  { ti with after := 0
            chunksDeleted := ti.chunksDeleted + (if dry = true then cks.length - ti.chunksDeleted else cks.length)
            deleted := true }

/-- the loop of `truncateGlobally`; `ts` is the running total. `acct` is the shape of the accounting as the extractor
reads it: `false` — the removed bytes and chunks are accounted for (and the entry reported) only when the partition could
be dropped (the code before the repair of finding F77: a partition in use is emptied silently and the pass goes on to the
next one); `true` — `ts -= ti.AfterSize`, the chunk count and `AfterSize = 0` happen whenever the inner `truncate` ran,
`ti.Deleted = deleted` says whether the drop succeeded -/
def globalLoop (acct strict : Bool) (gMin gMax : Nat) (p : Params) : List Info → Nat → List Part → List Info × List Part
  | [], _, db => ([], db)
  | ti :: rest, ts, db =>
    if p.maxDB < ts then
      if 0 < ti.after then
        match dbFind db ti.src with
        | none =>
          let r := globalLoop acct strict gMin gMax p rest ts db
          (ti :: r.1, r.2)
        | some part =>
          let cks := part.chunks
          let tr := truncate strict { dryRun := p.dryRun, minSrc := gMin, maxSrc := gMax } cks
          let deleted := p.dryRun || canDelete part.users tr.chunks
          let db1 := if p.dryRun = true then db else if deleted = true then dbRemove db ti.src else dbSet db ti.src tr.chunks
          if deleted = true then
            let r := globalLoop acct strict gMin gMax p rest (sub64 ts ti.after) db1
            (takenInfo p.dryRun ti cks :: r.1, r.2)
          else if acct = true then
            let r := globalLoop acct strict gMin gMax p rest (sub64 ts ti.after) db1
            ({ takenInfo p.dryRun ti cks with deleted := false } :: r.1, r.2)
          else
            let r := globalLoop acct strict gMin gMax p rest ts db1
            (ti :: r.1, r.2)
      else
        let r := globalLoop acct strict gMin gMax p rest ts db
        (ti :: r.1, r.2)
    else (ti :: rest, db)

def totalAfter (infos : List Info) : Nat := infos.foldl (fun a ti => add64 a ti.after) 0

structure Outcome where
  db : List Part
  reports : List Info
deriving Repr

def phase2 (acct strict : Bool) (gMin gMax : Nat) (p : Params) (st : St) : Outcome :=
  let r := globalLoop acct strict gMin gMax p st.infos (totalAfter st.infos) st.db
  ⟨r.2, st.reports ++ r.1.filter (fun ti => ti.after != ti.before)⟩

/-- `Service.Truncate` over the partitions in visiting order -/
def run (acct strict : Bool) (gMin gMax : Nat) (p : Params) (order : List Part) : Outcome :=
  phase2 acct strict gMin gMax p (phase1 strict p order)

end Logrange.Truncate

/-! ## a reader positioned inside removed data (journal iterator contract, DESIGN A.2 / A.5)

`remaining` lists the chunks that are left as (id, confirmed records), ascending. The reader's position
`(cid, idx)` lies in a chunk that was removed. Without an open chunk handle the next `Get` runs
`ensureChkIt`: the first chunk with an id ≥ `cid`; a greater id resets the index to 0. With a chunk
handle still open (a cursor the server holds between two pages) nothing re-validates the handle: it keeps
serving the removed chunk until the chunk's asynchronous close, after that every `Get` fails with
`ClosedState`. -/
namespace Logrange.Truncate

structure RPos where
  cid : Nat
  idx : Nat
deriving DecidableEq, Repr

inductive Got where
  | record (cid idx : Nat)
  | eof
  | closedState
deriving DecidableEq, Repr

def getAfterRemoval (remaining : List (Nat × Nat)) (pos : RPos) (openHandle closed : Bool) : Got :=
  if openHandle then (if closed then .closedState else .record pos.cid pos.idx)
  else
    match remaining.find? (fun c => decide (pos.cid ≤ c.1 ∧ 0 < c.2)) with
    | some c => .record c.1 0
    | none => .eof

end Logrange.Truncate

/-! ## the chunk's time hull (`pkg/tmindex/cindex.go`: `onWrite` creates the `chkInfo` from the first write
notification of a chunk, `chkInfo.update` folds every further one in) and the drop step of `deleteJournal`

`MaxTs` of this hull is what the time loop of `truncate` compares with `OldestTs`. `indep` is the shape of
`update()` as the extractor reads it: two independent `if`s (`true`) or `if … else if …` (`false`). -/
namespace Logrange.Truncate

structure Hull where
  minTs : Int
  maxTs : Int
deriving DecidableEq, Repr, Inhabited

/-- `chkInfo.update(rInfo)` -/
def hullUpdate (indep : Bool) (h r : Hull) : Hull :=
  if indep = true then
    let h1 : Hull := if h.minTs > r.minTs then { h with minTs := r.minTs } else h
    if h1.maxTs < r.maxTs then { h1 with maxTs := r.maxTs } else h1
  else
    if h.minTs > r.minTs then { h with minTs := r.minTs }
    else if h.maxTs < r.maxTs then { h with maxTs := r.maxTs } else h

/-- the hull of a chunk after the write notifications `rs`, in order -/
def chunkHull (indep : Bool) : List Hull → Option Hull
  | [] => none
  | r :: rs => some (rs.foldl (hullUpdate indep) r)

/-- `deleteJournal` at the moment it holds the exclusive lock: `users` = holders besides the TRUNCATE, `now` = the
partition's chunks at that moment (what the caller saw earlier may be stale: a writer can have appended and
released in between). `recheck` = the `if sz := j.Size(); sz > 0 { unlock; return false }` after `LockExclusively`
is there (regenerated from the source). -/
def deleteJournalAt (recheck : Bool) (users : Nat) (now : List Chunk) : Bool :=
  users == 0 && (!recheck || psize now == 0)

end Logrange.Truncate

/-! ## TRUNCATE of one partition while a writer appends

`truncate` chooses on its snapshot `snap` of the chunk list; by the time `DeleteChunks` runs the journal is `now`:
a writer appends only to the last chunk or opens new chunks with greater ids, so the chunks of the snapshot are still
there, in front, the non-last ones unchanged, the last one possibly grown, new ones behind (`GrownFrom`). -/
namespace Logrange.Truncate

inductive GrownFrom : List Chunk → List Chunk → Prop
  | nil (extra : List Chunk) : GrownFrom [] extra
  | cons (c c' : Chunk) (rest now' : List Chunk) : c'.id = c.id → c.size ≤ c'.size → (rest ≠ [] → c' = c) →
      GrownFrom rest now' → GrownFrom (c :: rest) (c' :: now')

/-- the partition's chunks after `truncate` decided on `snap` and `DeleteChunks` ran on the journal as it is `now` -/
def truncateAt (strict : Bool) (p : Params) (snap now : List Chunk) : List Chunk :=
  let ch := choose strict p snap
  if ch.n = 0 ∨ p.dryRun = true then now else deleteUpTo (snap.getD (ch.n - 1) default).id now

end Logrange.Truncate

/-! ## chunk objects after their removal (journal library, `ctrlr.chunkWrapper`)

`Chunks()` hands out chunk objects; `DeleteChunks` closes the removed ones asynchronously and sets their inner chunk to
nil; `Id()`, `Size()`, `Count()` read it without the wrapper's lock. `closed` = the ids whose wrappers have been closed.
`none` = the nil dereference (a panic; on a server the end of the process). -/
namespace Logrange.Truncate

def derefId (closed : List Nat) (c : Chunk) : Option Nat := if closed.contains c.id then none else some c.id

/-- the argument `cks[idx-1].Id()` of a statement's `DeleteChunks` call, evaluated when the wrappers in `closed` are gone -/
def deleteArg (strict : Bool) (p : Params) (snap : List Chunk) (closed : List Nat) : Option Nat :=
  derefId closed (snap.getD ((choose strict p snap).n - 1) default)

end Logrange.Truncate

/-! ## acknowledged records that are not flushed yet

`Journal.Size()` counts confirmed (flushed) bytes only. `confirmed` / `unflushed` = the partition's flushed bytes and the
bytes of acknowledged records still waiting for their flush at the moment `deleteJournal` holds the exclusive lock;
`synced` = `deleteJournal` calls `Sync()` before its size re-check (fix eafecef), so the re-check sees both. -/
namespace Logrange.Truncate

def deleteJournalSeen (recheck synced : Bool) (users confirmed unflushed : Nat) : Bool :=
  users == 0 && (!recheck || confirmed + (if synced then unflushed else 0) == 0)

/-- the `size == 0` branch of the visitor in a DRY run: it reports the partition as deleted from `Size()` alone (no
`deleteJournal`); `synced` = the visitor calls `Sync()` before it reads `Size()` (fix 466355c), so `Size()` then counts
the acknowledged records that were waiting for their flush -/
def dryAnnouncesDrop (synced : Bool) (confirmed unflushed : Nat) : Bool :=
  confirmed + (if synced then unflushed else 0) == 0

end Logrange.Truncate
