import Logrange.Generated.C02
/-!
# C02 — `pkg/tmindex/ckindex.go`: the block tree of one chunk's time index, at full fidelity

Blocks live in an array (`Store`), child pointers are indices into it (the real tree keeps block numbers in
`record.idx` of the upper levels). Mirrored function by function: `findIntervalInsertIdx`, `findIntervalIdx`,
`setLastInterval`, `appendInterval`, `theBlockInterval`, `removeLastInterval`, `block.addInterval` (level 0: append /
merge / collapse; upper levels: drop later children, descend, `errFullBlock` → append a fresh child, `applyPrevRecord`),
`prune`, `ckindex.addInterval` (new root on `errFullBlock`, `makeRootFor`), `traversal`, `grEq`, `less`,
`readFirst/LastRecordInTheTree`. The multi-level merge keeps `max(p1.ts, last record of the REMAINING leaf)` — the
maximum of the dropped leaves is lost (finding #24); the model reproduces it.
`maxRecs` (records per block) comes from the regenerated facts.
-/
namespace Logrange.IdxTree

structure Rec where
  ts : Int
  idx : Nat
deriving DecidableEq, Repr, Inhabited

structure Interval where
  p0 : Rec
  p1 : Rec
deriving DecidableEq, Repr, Inhabited
structure Block where
  level : Nat := 0
  recs : Array Rec := #[]      -- records(); intervals = recs.size - 1 (0 when ≤ 1)
deriving Inhabited

abbrev Store := Array Block

def maxRecs : Nat := Logrange.Generated.C02.maxRecsPerBlock

def intervals (b : Block) : Nat := if b.recs.size ≤ 1 then 0 else b.recs.size - 1

inductive Err | full | corrupted
deriving DecidableEq

/-- writeRecord sets the count to ridx+1 -/
def writeRecord (b : Block) (ridx : Nat) (r : Rec) : Block :=
  let recs := (b.recs.extract 0 ridx)
  let recs := if recs.size < ridx then recs ++ Array.replicate (ridx - recs.size) default else recs
  { b with recs := recs.push r }

def setCount (b : Block) (n : Nat) : Block := { b with recs := b.recs.extract 0 n }

def cntLE (b : Block) (ts : Int) : Nat :=
  -- sort.Search-like binary search as in the code
  let rec go (fuel i j : Nat) : Nat :=
    match fuel with
    | 0 => i
    | fuel+1 => if i < j then
        let h := (i + j) / 2
        if (b.recs[h]!).ts ≤ ts then go fuel (h+1) j else go fuel i h
      else i
  go 64 0 b.recs.size

def findIntervalInsertIdx (b : Block) (ts : Int) : Int :=
  let recs := b.recs.size
  if recs == 0 then 0 else
  let i := cntLE b ts
  if b.level == 0 then (i : Int) - 1
  else if i == recs then (recs : Int) - 2
  else max 0 ((i : Int) - 1)

def findIntervalIdx (b : Block) (ts : Int) : Int :=
  if b.recs.size == 0 then 0 else (cntLE b ts : Int) - 1

def setLastInterval (b : Block) (it : Interval) : Block :=
  let recs := b.recs.size
  if recs == 0 then writeRecord (writeRecord b 0 it.p0) 1 it.p1
  else writeRecord (writeRecord b (recs - 2) it.p0) (recs - 1) it.p1

def appendInterval (b : Block) (it : Interval) : Block × Rec × Option Err :=
  let recs := b.recs.size
  if recs == maxRecs then (b, b.recs[recs-1]!, some .full)
  else if recs == 0 then (writeRecord (writeRecord b 0 it.p0) 1 it.p1, it.p1, none)
  else (writeRecord b recs it.p1, it.p1, none)

def theBlockInterval (b : Block) (bidx : Nat) : Interval :=
  let fr := b.recs[0]!
  let lr := b.recs[b.recs.size - 1]!
  ⟨{ fr with idx := bidx }, lr⟩

def alloc (s : Store) (lvl : Nat) : Store × Nat := (s.push { level := lvl }, s.size)

/-- freeing is a no-op for structure (blocks just become unreachable) -/
def removeLastInterval (b : Block) : Block :=
  let recs := b.recs.size
  if recs == 0 then b else
  let recs := if recs == 2 then 1 else recs
  setCount b (recs - 1)

mutual
/-- block.addInterval on block `bi`; returns (store, lastRecord, err) -/
def blockAdd : Nat → Store → Nat → Interval → Store × Rec × Option Err
  | 0, s, _, _ => (s, default, some .corrupted)
  | fuel+1, s, bi, it =>
    let b := s[bi]!
    let insIdx := findIntervalInsertIdx b it.p0.ts
    let ints := intervals b
    if b.level == 0 then
      if insIdx == (ints : Int) then
        let (b', r, e) := appendInterval b it
        (s.set! bi b', r, e)
      else
        let p1 := if ints > 0 then { it.p1 with ts := max it.p1.ts (b.recs[ints]!).ts } else it.p1
        if insIdx < 0 then
          let p0 := if ints > 0 then
              let f := b.recs[0]!
              ({ ts := min it.p0.ts f.ts, idx := min it.p0.idx f.idx } : Rec)
            else it.p0
          let b' := setLastInterval (setCount b 0) ⟨p0, p1⟩
          (s.set! bi b', p1, none)
        else
          let p0 := b.recs[insIdx.toNat]!
          let b' := setLastInterval (setCount b (insIdx.toNat + 2)) ⟨p0, p1⟩
          (s.set! bi b', p1, none)
    else
      -- drop later children
      let nrem := if (insIdx + 1) < (ints : Int) then ((ints : Int) - (insIdx + 1)).toNat else 0
      let b1 := (List.range nrem).foldl (fun acc _ => removeLastInterval acc) b
      let s1 := s.set! bi b1
      let ints1 := intervals b1
      upperLoop fuel s1 bi it insIdx.toNat (ints1 == 0)
def upperLoop : Nat → Store → Nat → Interval → Nat → Bool → Store × Rec × Option Err
  | 0, s, _, _, _, _ => (s, default, some .corrupted)
  | fuel+1, s, bi, it, insIdx, newBlock =>
    let b := s[bi]!
    let (s1, lbi) := if newBlock then alloc s (b.level - 1) else (s, (b.recs[insIdx]!).idx)
    let (s2, lr, e) := blockAdd fuel s1 lbi it
    match e with
    | none =>
      let b2 := s2[bi]!
      let b3 := setLastInterval b2 (theBlockInterval (s2[lbi]!) lbi)
      (s2.set! bi b3, lr, none)
    | some .corrupted => (s2, lr, some .corrupted)
    | some .full =>
      let b2 := s2[bi]!
      let (b3, _, e2) := appendInterval b2 it
      match e2 with
      | some _ => (s2, lr, some .full)
      | none => upperLoop fuel (s2.set! bi b3) bi { it with p0 := lr } insIdx true
end

def prune (fuel : Nat) (s : Store) (bi : Nat) : Nat :=
  match fuel with
  | 0 => bi
  | fuel+1 =>
    let b := s[bi]!
    if b.level == 0 || intervals b > 1 then bi
    else prune fuel s (b.recs[0]!).idx

/-- ckindex.addInterval: root = none for a new tree -/
def add (fuel : Nat) (s : Store) (root : Option Nat) (it : Interval) : Store × Option Nat :=
  let (s, idx) := match root with | some r => (s, r) | none => alloc s 0
  let rec loop (fuel : Nat) (s : Store) (idx : Nat) (it : Interval) : Store × Option Nat :=
    match fuel with
    | 0 => (s, none)
    | fuel+1 =>
      let (s1, lr, e) := blockAdd 64 s idx it
      match e with
      | some .full =>
        let b := s1[idx]!
        let (s2, idx1) := alloc s1 (b.level + 1)
        let b1 := setLastInterval (setCount (s2[idx1]!) 0) (theBlockInterval b idx)
        loop fuel (s2.set! idx1 b1) idx1 { it with p0 := lr }
      | some .corrupted => (s1, none)
      | none => (s1, some (prune 64 s1 idx))
  loop fuel s idx it

def traversal (fuel : Nat) (s : Store) (bi : Nat) : List Interval :=
  match fuel with
  | 0 => []
  | fuel+1 =>
    let b := s[bi]!
    if b.level == 0 then (List.range (intervals b)).map (fun i => ⟨b.recs[i]!, b.recs[i+1]!⟩)
    else (List.range (b.recs.size - 1)).flatMap (fun i => traversal fuel s (b.recs[i]!).idx)

def lastRecInTree (fuel : Nat) (s : Store) (bi : Nat) : Rec :=
  match fuel with
  | 0 => default
  | fuel+1 =>
    let b := s[bi]!
    let n := b.recs.size
    if n == 0 then ⟨0, 0⟩ else if b.level == 0 then b.recs[n-1]! else lastRecInTree fuel s (b.recs[n-2]!).idx
def firstRecInTree (fuel : Nat) (s : Store) (bi : Nat) : Rec :=
  match fuel with
  | 0 => default
  | fuel+1 =>
    let b := s[bi]!
    if b.recs.size == 0 then ⟨0, 0⟩ else if b.level == 0 then b.recs[0]! else firstRecInTree fuel s (b.recs[0]!).idx

/-- grEq: none = errAllMatches -/
def grEq (fuel : Nat) (s : Store) (bi : Nat) (ts : Int) : Option Rec :=
  match fuel with
  | 0 => none
  | fuel+1 =>
    let b := s[bi]!
    let i := findIntervalIdx b ts
    if i < 0 then none
    else if i == (intervals b : Int) then some (lastRecInTree 64 s bi)
    else
      let r := b.recs[i.toNat]!
      if b.level == 0 then some r else grEq fuel s r.idx ts
def less (fuel : Nat) (s : Store) (bi : Nat) (ts : Int) : Option Rec :=
  match fuel with
  | 0 => none
  | fuel+1 =>
    let b := s[bi]!
    let i := findIntervalIdx b ts
    if i < 0 then some (firstRecInTree 64 s bi)
    else if i == (intervals b : Int) then none
    else
      let r := b.recs[i.toNat]!
      if b.level == 0 then some (b.recs[i.toNat + 1]!) else less fuel s r.idx ts

end Logrange.IdxTree
