/-!
# Model of the filtering iterator (`pkg/cursor/fiterator.go`)

`fiterator` wraps a `model.Iterator` and shows only the events that pass the WHERE function and lie in the
time range. It caches the current event (`le`, `valid`): `Get` loops over the wrapped iterator until an event
passes, `Next` advances the wrapped iterator and drops the cache, `SetBackward` switches the wrapped iterator
and (since fix 1a882be) drops the cache too.

The wrapped iterator is abstract: any state type `σ` with `get` (`none` = `io.EOF` or another error), `next`
and `setBackward`. `ListIt` is the concrete instance used by the driver and the examples: a position in a
list with a direction.
-/
namespace Logrange.FIter

/-- `model.Iterator` (the part the fiterator uses) -/
structure It (σ α : Type) where
  /-- `Get`: the current event, `none` = error (`io.EOF` at the end) -/
  get : σ → Option α
  /-- `Next` -/
  next : σ → σ
  /-- `SetBackward` -/
  setBackward : Bool → σ → σ

/-- the `fiterator` struct: wrapped iterator state, cached event, `valid` -/
structure FIt (σ α : Type) where
  it : σ
  le : Option α
  valid : Bool

/-- what `Get` hands out -/
inductive Got (α : Type) where
  | ok (e : α)
  | eof
  | outOfFuel
deriving Repr, DecidableEq

variable {σ α : Type}

/-- `newFIterator`: nothing cached -/
def new (s : σ) : FIt σ α := ⟨s, none, false⟩

/-- `Next`: `fit.it.Next(ctx); fit.le.Release(); fit.valid = false` -/
def next (I : It σ α) (f : FIt σ α) : FIt σ α := { f with it := I.next f.it, valid := false }

/-- `fitInRange` for an event timestamp -/
def inRange (minTs maxTs ts : Int) : Bool := decide (ts ≥ minTs) && decide (ts ≤ maxTs)

/-- `Get`: `for !fit.valid { le, err = it.Get(); if err != nil {break}; valid = fltF(le) && fitInRange(); if !valid {fit.Next()} }`.
`flt` is `fltF`, `rng` is `fitInRange` as a predicate on the event. -/
def get (I : It σ α) (flt rng : α → Bool) : Nat → FIt σ α → FIt σ α × Got α
  | 0, f => (f, .outOfFuel)
  | fuel+1, f =>
    if f.valid then
      (f, match f.le with | some e => .ok e | none => .eof)
    else
      match I.get f.it with
      | none => (f, .eof)
      | some e =>
        let f1 : FIt σ α := { f with le := some e, valid := flt e && rng e }
        if f1.valid then (f1, .ok e) else get I flt rng fuel (next I f1)

/-- `SetBackward`: `fit.it.SetBackward(bkwd); fit.valid = false` -/
def setBackward (I : It σ α) (b : Bool) (f : FIt σ α) : FIt σ α := { f with it := I.setBackward b f.it, valid := false }

/-- the reader's loop: `for { le, err := Get(); if err != nil {break}; emit le; Next() }`.
`g` is the fuel of each `Get`, the first argument bounds the number of rounds. -/
def drain (I : It σ α) (flt rng : α → Bool) (g : Nat) : Nat → FIt σ α → List α
  | 0, _ => []
  | k+1, f =>
    match get I flt rng g f with
    | (f', .ok e) => e :: drain I flt rng g k (next I f')
    | _ => []

/-- draining the wrapped iterator itself: at most `n` events -/
def drainIt (I : It σ α) : Nat → σ → List α
  | 0, _ => []
  | n+1, s =>
    match I.get s with
    | none => []
    | some e => e :: drainIt I n (I.next s)

/-- the wrapped iterator reports the end after at most `n` steps -/
def Exhausts (I : It σ α) : Nat → σ → Prop
  | 0, s => I.get s = none
  | n+1, s => I.get s = none ∨ Exhausts I n (I.next s)

/-! ## a concrete iterator: a position in a list, with a direction -/

structure ListPos (α : Type) where
  items : List α
  pos : Int
  bkwd : Bool
  /-- an iterator that does not keep its place on a direction switch (like the journal iterators, which forget their
  selection): switching the direction also moves one step in the new direction -/
  jump : Bool := false

def listIt (α : Type) : It (ListPos α) α where
  get s := if s.pos < 0 then none else s.items[s.pos.toNat]?
  next s := { s with pos := if s.bkwd then s.pos - 1 else s.pos + 1 }
  setBackward b s :=
    if s.jump && b != s.bkwd then { s with bkwd := b, pos := if b then s.pos - 1 else s.pos + 1 }
    else { s with bkwd := b }

end Logrange.FIter
