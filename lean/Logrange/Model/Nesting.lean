import Logrange.Model.Outcome
import Logrange.Model.LqlLexer
import Logrange.Generated.C13
/-!
# Recursion depth as a resource (C13, findings F25 / F25b)

`lql.ParseLql / ParseExpr / ParseSource` run a recursive-descent parser (participle): every `(` **token** of an expression or
of a function call enters `Parse` methods again and so uses goroutine stack that grows linearly with the nesting depth; Go's
stack overflow is a *fatal error*, not a recoverable panic. The participle engine is not modelled for C13; this file models
the resource, on the token stream the parser really sees:

* `tscan budget` walks the text with the lexer of C12's model (`Lql.lexOne`, imported read-only; the real lexer is lazy, so a
  lexer error is met *after* the parentheses before it have been entered): an Operator token `(` needs one more frame than
  the current depth — with a stack of `budget` frames the process dies (`.panic`) when the depth would exceed it; a lexer
  error is the parser's error (`.err`); at the end the deepest nesting reached is returned.
* `bscan max` is `checkNesting` of commit 8131efe, byte for byte: its own scan over the text that skips what *it* takes for
  string literals (`"` … `"` with `\`-escapes, `'` … `'`) and counts `(` / `)`. It does not know the `{…}` tags token, inside
  which a quote character is just a byte for the lexer — the hole of finding F25b.
* the guard kinds (`Generated.C13.lqlGuardKind`): 0 = none, 1 = `bscan`, 2 = counting on tokens with the same lexer
  (`tscan max` itself; proposed repair F25b).
-/
namespace Logrange.Nesting
open Logrange

def isOpen (t : Lql.Tok) : Bool := t.t == .operator && t.v == [40]
def isClose (t : Lql.Tok) : Bool := t.t == .operator && t.v == [41]

/-- the parser's stack use over the lazily lexed token stream -/
def tscan (budget : Nat) : Nat → Bytes → Nat → Nat → Outcome Nat
  | 0, _, _, _ => .outOfFuel
  | fuel + 1, s, cur, mx =>
    if s.isEmpty then .ok mx
    else match Lql.lexOne s with
      | none => .err                                            -- invalid token: the parser reports it
      | some (none, n) => tscan budget fuel (s.drop n) cur mx   -- blanks
      | some (some t, n) =>
        if isOpen t then
          if budget < cur + 1 then .panic "stack overflow (fatal)" else tscan budget fuel (s.drop n) (cur + 1) (max mx (cur + 1))
        else if isClose t then tscan budget fuel (s.drop n) (cur - 1) mx
        else tscan budget fuel (s.drop n) cur mx

/-- `for i++; i < len(s) && s[i] != '"'; i++ { if s[i] == '\\' { i++ } }` and the outer `i++`: what is left after the literal -/
def skipDQ : Bytes → Bytes
  | [] => []
  | c :: r => if c = 34 then r else if c = 92 then (match r with | [] => [] | _ :: r' => skipDQ r') else skipDQ r

/-- `for i++; i < len(s) && s[i] != '\''; i++ {}` and the outer `i++` -/
def skipSQ : Bytes → Bytes
  | [] => []
  | c :: r => if c = 39 then r else skipSQ r

/-- `checkNesting` of commit 8131efe: `true` = the text is refused -/
def bscan (max : Nat) : Nat → Bytes → Nat → Bool
  | 0, _, _ => false
  | _ + 1, [], _ => false
  | fuel + 1, c :: r, d =>
    if c = 34 then bscan max fuel (skipDQ r) d
    else if c = 39 then bscan max fuel (skipSQ r) d
    else if c = 40 then (if max < d + 1 then true else bscan max fuel r (d + 1))
    else if c = 41 then bscan max fuel r (d - 1)
    else bscan max fuel r d

/-- does the guard of the given kind refuse the text? -/
def refuses (kind max : Nat) (s : Bytes) : Bool :=
  if kind = 1 then bscan max (s.length + 1) s 0
  else if kind = 2 then (tscan max (s.length + 1) s 0 0).isPanic
  else false

/-- a parser entry point: the guard (an error), then the parser -/
def parseG (kind max budget : Nat) (s : Bytes) : Outcome Nat :=
  if refuses kind max s = true then .err else tscan budget (s.length + 1) s 0 0

/-- `lql.ParseLql / ParseExpr / ParseSource` as far as stack use goes, for the tree as it is now -/
def parseNow (budget : Nat) (s : Bytes) : Outcome Nat :=
  parseG Generated.C13.lqlGuardKind Generated.C13.lqlMaxNesting budget s

/-- the class of finding F25b: the byte scan lets the text pass although its token nesting exceeds the limit -/
def holeClass (max : Nat) (s : Bytes) : Bool :=
  !bscan max (s.length + 1) s 0 && (tscan max (s.length + 1) s 0 0).isPanic

/-- more stack never hurts -/
theorem tscan_mono (b b' : Nat) (hb : b ≤ b') : ∀ (fuel : Nat) (s : Bytes) (cur mx mx' : Nat),
    (tscan b fuel s cur mx).isPanic = false → (tscan b' fuel s cur mx').isPanic = false
  | 0, _, _, _, _, _ => rfl
  | fuel + 1, s, cur, mx, mx', h => by
    unfold tscan at h ⊢
    split
    · rfl
    · rename_i hne
      simp only [hne] at h
      split
      · rfl
      · rename_i n heq
        simp only [heq] at h
        exact tscan_mono b b' hb fuel _ cur mx mx' h
      · rename_i t n heq
        simp only [heq] at h
        split
        · rename_i ho
          simp only [ho, if_true] at h
          by_cases hlt : b < cur + 1
          · simp [hlt, Outcome.isPanic] at h
          · simp only [hlt, if_false] at h
            have hlt' : ¬ b' < cur + 1 := by omega
            simp only [hlt', if_false]
            exact tscan_mono b b' hb fuel _ (cur + 1) _ _ h
        · rename_i ho
          simp only [ho] at h
          split
          · rename_i hc; simp only [hc, if_true] at h; exact tscan_mono b b' hb fuel _ (cur - 1) mx mx' h
          · rename_i hc; simp only [hc] at h; exact tscan_mono b b' hb fuel _ cur mx mx' h

/-- **with the token guard, no text exhausts a stack that holds `max` frames** -/
theorem parseG_token_guarded (max budget : Nat) (hb : max ≤ budget) (s : Bytes) : (parseG 2 max budget s).isPanic = false := by
  unfold parseG refuses
  simp only [show (2 : Nat) ≠ 1 by decide, if_false, if_true]
  split
  · rfl
  · rename_i hc
    simp only [Bool.not_eq_true] at hc
    exact tscan_mono max budget hb _ s 0 0 0 hc

end Logrange.Nesting
