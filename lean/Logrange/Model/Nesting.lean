import Logrange.Model.Outcome
import Logrange.Generated.C13
/-!
# Recursion depth as a resource (C13, finding F25)

`lql.ParseLql` is a recursive-descent parser (participle): every `(` of an expression enters `Parse` methods again
and so uses a number of goroutine stack bytes that grows linearly with the nesting depth; nothing in `/repo` bounds
the depth, and Go's stack overflow (`runtime: goroutine stack exceeds 1000000000-byte limit`) is a *fatal error*,
not a panic that could be recovered. The participle engine itself is not modelled for C13; this file models only the
resource: scanning the text, an opening parenthesis needs one more frame than the current depth, and with a stack
of `budget` frames the parser dies when the depth would exceed it. (Parentheses inside quoted strings do not nest in
the real lexer; the model is compared with the implementation on texts without quotes.)
-/
namespace Logrange.Nesting
open Logrange

def scan (budget : Nat) : Bytes → Nat → Nat → Outcome Nat
  | [], _, mx => .ok mx
  | c :: r, cur, mx =>
    if c = 40 then
      if budget < cur + 1 then .panic "stack overflow (fatal)" else scan budget r (cur + 1) (max mx (cur + 1))
    else if c = 41 then scan budget r (cur - 1) mx
    else scan budget r cur mx

/-- deepest nesting reached, or the fatal stack overflow -/
def parse (budget : Nat) (s : Bytes) : Outcome Nat := scan budget s 0 0

/-- the nesting guard (`checkNesting`, proposed repair of F25): before the text goes to the parser, the same depth counter
runs with the constant `cMaxNestingDepth` as its limit and the text is refused with an error beyond it. `guard` and `max` are
the regenerated facts `Generated.C13.lqlNestingGuard` / `lqlMaxNesting` (`false` / `0` on a tree without the guard).
(The real guard skips string literals, as the lexer does; the model counts every parenthesis, in the guard and in the
parser alike, and is compared with the implementation on texts without quotes.) -/
def parseG (guard : Bool) (max budget : Nat) (s : Bytes) : Outcome Nat :=
  if guard = true ∧ (scan max s 0 0).isPanic = true then .err else scan budget s 0 0

/-- `lql.ParseLql / ParseExpr / ParseSource` as far as stack use goes, for the tree as it is now -/
def parseNow (budget : Nat) (s : Bytes) : Outcome Nat :=
  parseG Generated.C13.lqlNestingGuard Generated.C13.lqlMaxNesting budget s

theorem scan_noPanic (budget : Nat) : ∀ (s : Bytes) (cur mx : Nat), cur + s.count 40 ≤ budget →
    (scan budget s cur mx).isPanic = false
  | [], _, _, _ => rfl
  | c :: r, cur, mx, h => by
    unfold scan
    by_cases hc : c = 40
    · subst hc
      simp only [List.count_cons_self] at h
      simp only [if_true]
      split
      · omega
      · exact scan_noPanic budget r (cur + 1) _ (by omega)
    · have hcnt : (c :: r).count 40 = r.count 40 := by
        rw [List.count_cons]; simp [hc]
      rw [hcnt] at h
      simp only [hc, if_false]
      split
      · exact scan_noPanic budget r (cur - 1) mx (by omega)
      · exact scan_noPanic budget r cur mx h

theorem scan_overflow (budget : Nat) : ∀ (k cur mx : Nat), cur + k = budget →
    (scan budget (List.replicate (k + 1) 40) cur mx).isPanic = true
  | 0, cur, mx, h => by
    simp only [List.replicate, scan, if_true]
    split
    · rfl
    · omega
  | k + 1, cur, mx, h => by
    rw [List.replicate_succ]
    unfold scan
    simp only [if_true]
    split
    · rfl
    · exact scan_overflow budget k (cur + 1) _ (by omega)

/-- more stack never hurts -/
theorem scan_mono (b b' : Nat) (hb : b ≤ b') : ∀ (s : Bytes) (cur mx mx' : Nat),
    (scan b s cur mx).isPanic = false → (scan b' s cur mx').isPanic = false
  | [], _, _, _, _ => rfl
  | c :: r, cur, mx, mx', h => by
    unfold scan at h ⊢
    by_cases hc : c = 40
    · subst hc
      simp only [if_true] at h ⊢
      split at h
      · cases h
      · split
        · omega
        · exact scan_mono b b' hb r (cur + 1) _ _ h
    · simp only [hc, if_false] at h ⊢
      split
      · rename_i h41; simp only [h41, if_true] at h; exact scan_mono b b' hb r (cur - 1) mx mx' h
      · rename_i h41; simp only [h41, if_false] at h; exact scan_mono b b' hb r cur mx mx' h

/-- **with the guard, no text exhausts a stack that holds `max` frames** -/
theorem parseG_guarded (max budget : Nat) (hb : max ≤ budget) (s : Bytes) : (parseG true max budget s).isPanic = false := by
  unfold parseG
  split
  · rfl
  · rename_i hc
    simp only [true_and, Bool.not_eq_true] at hc
    exact scan_mono max budget hb s 0 0 0 hc

end Logrange.Nesting
