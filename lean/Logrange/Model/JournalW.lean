import Logrange.Go.Basic
/-!
# Journal write contract (library `github.com/logrange/range`, DESIGN Appendix A.3) — C01

A journal is the list of its chunks in creation order; the chunk id is the (1-based) position in that list
(real ids are time-derived, strictly increasing; the harness renames them to dense indices in order of first
appearance). A chunk is the list of its records and the size of its data file.

* `chunkWrite` is `chunkfs.cWrtier.write`: under the writer lock, before every record
  `size ≥ maxChunkSize ⇒ MaxSizeReached`; else `it.Get` (observed by the iterator state: `see`), append
  (`hdrSize` = 4 length bytes + payload), `it.Next`. No check against `MaxRecordSize`. `io.EOF` from the iterator is
  success. Returns (chunk, written, remaining records, iterator state, MaxSizeReached?).
* `journalWrite` is `journal.Write`: `GetChunkForWrite(excludeCid)` — the last chunk unless there is none or it is
  the excluded one, in which case a new chunk is created; `n > 0 ⇒ return (n, (chunk id, total count), nil)` even if
  the chunk filled up; `MaxSizeReached` with `n = 0` ⇒ exclude that chunk and go round again.
-/
namespace Logrange.JournalW

/-- a record as the records iterator hands it over: payload bytes, plus the timestamp the `/repo` iterator
(`iwrapper`) sees when the record is fetched -/
structure Rec where
  ts : Int
  data : Bytes
deriving DecidableEq, Repr, Inhabited

structure Chunk where
  recs : List Bytes
  size : Nat
deriving DecidableEq, Repr, Inhabited

abbrev Journal := List Chunk

/-- `ChnkDataHeaderSize` -/
def hdrSize : Nat := 4

/-- every record of the journal in stored order: what an unfiltered reader enumerates -/
def readAll (j : Journal) : List Bytes := j.flatMap (·.recs)

/-- `cWrtier.write` -/
def chunkWrite {σ : Type} (maxSize : Nat) (see : σ → Rec → σ) :
    Chunk → List Rec → σ → Nat → Chunk × Nat × List Rec × σ × Bool
  | c, [], st, n => if c.size ≥ maxSize then (c, n, [], st, true) else (c, n, [], st, false)
  | c, r :: rest, st, n =>
    if c.size ≥ maxSize then (c, n, r :: rest, st, true)
    else chunkWrite maxSize see ⟨c.recs ++ [r.data], c.size + hdrSize + r.data.length⟩ rest (see st r) (n + 1)

structure WRes (σ : Type) where
  j : Journal
  n : Nat
  pos : Nat × Nat        -- (chunk id, record count of that chunk after the write); (0,0) when n = 0
  rest : List Rec
  st : σ
  err : Bool             -- a non-nil error (only the "same chunk returned twice" branch, unreachable for maxSize ≥ 1)

/-- `GetChunkForWrite(excludeCid)`: the last chunk unless there is none or it is the excluded one; then a new chunk -/
def getChunkForWrite (j : Journal) (excl : Nat) : Journal :=
  if j.length = 0 ∨ j.length = excl then j ++ [⟨[], 0⟩] else j

/-- `journal.Write` (the `for err == nil` loop) -/
def journalWriteGo {σ : Type} (maxSize : Nat) (see : σ → Rec → σ) :
    Nat → Journal → Nat → List Rec → σ → WRes σ
  | 0, j, _, recs, st => ⟨j, 0, (0, 0), recs, st, true⟩
  | fuel+1, j, excl, recs, st =>
    let j1 : Journal := getChunkForWrite j excl
    let cid := j1.length
    let c := j1.getLastD default
    match chunkWrite maxSize see c recs st 0 with
    | (c', n, rest, st', full) =>
      let j2 := j1.dropLast ++ [c']
      if n > 0 then ⟨j2, n, (cid, c'.recs.length), rest, st', false⟩
      else if full then
        (if cid = excl then ⟨j2, 0, (0, 0), rest, st', true⟩ else journalWriteGo maxSize see fuel j2 cid rest st')
      else ⟨j2, 0, (0, 0), rest, st', false⟩

def journalWrite {σ : Type} (maxSize : Nat) (see : σ → Rec → σ) (j : Journal) (recs : List Rec) (st : σ) : WRes σ :=
  journalWriteGo maxSize see 3 j 0 recs st

/-- positions `(chunk id, index)` of all records in stored order -/
def positionsFrom : Nat → Journal → List (Nat × Nat)
  | _, [] => []
  | cid, c :: cs => (List.range c.recs.length).map (fun i => (cid, i)) ++ positionsFrom (cid + 1) cs

def positions (j : Journal) : List (Nat × Nat) := positionsFrom 1 j

end Logrange.JournalW
