import Logrange.Model.WritersLts
/-!
# The positions concurrent writers get back from `Chunk.write` — C01

Extension of the concurrent-writers LTS (`Model/WritersLts.lean`). `journal.Write` calls `Chunk.write(ctx, it)` which, under
the chunk writer's lock, appends `n` records of the caller to the chunk and returns `(n, cnt)` where `cnt` is the chunk's
record count; `partition.Service.Write` then announces the records `[cnt-n, cnt-1]` of that chunk (`OnWrite(first =
pos.Idx-n, last = pos.Idx-1)`).

Two readings of `cnt` are modelled:

* **atomic** — the count as of the end of the critical section: `retOf` (`first = ` the chunk's length before the append);
* **late** — the library reads the count AFTER the lock is released (`cw.lock.Unlock(); …; return wrtn, cw.cnt, err`):
  `lateCount later idx` is the chunk's length in any later state, and the announced first index is `lateCount … - n`.
-/
namespace Logrange.WritersLts

/-- what ONE `Chunk.write` call that wrote something returns, with the count taken inside the critical section -/
structure Ret where
  w : Nat            -- the writer
  chunk : Nat        -- index of the chunk in `State.chunks` (chunk id = index + 1)
  first : Nat        -- index of the call's first record in that chunk  (= cnt - n)
  n : Nat            -- records written by the call
  recs : List TRec   -- ghost: the records the call wrote
deriving Repr, DecidableEq

/-- the return value of the step `l` taken in state `s` (none: not a chunkWrite, not enabled, or nothing written) -/
def retOf (maxSize : Nat) (s : State) : Label → Option Ret
  | .chunkWrite w =>
    match (s.loc w).held with
    | none => none
    | some idx =>
      match s.chunks[idx]? with
      | none => none
      | some c =>
        if taken maxSize c.size (s.loc w).pending > 0 then
          some ⟨w, idx, c.recs.length, taken maxSize c.size (s.loc w).pending,
            (s.loc w).pending.take (taken maxSize c.size (s.loc w).pending)⟩
        else none
  | _ => none

/-- run a schedule (labels that are not enabled are skipped, as in `run`) and log every return, in order -/
def runLog (maxSize : Nat) : State → List Label → State × List Ret
  | s, [] => (s, [])
  | s, l :: ls =>
    ((runLog maxSize ((step maxSize s l).getD s) ls).1,
      (retOf maxSize s l).toList ++ (runLog maxSize ((step maxSize s l).getD s) ls).2)

/-- the count a writer reads LATE (after the lock was released) for chunk `idx`: the chunk's length in a later state -/
def lateCount (s : State) (idx : Nat) : Nat := (s.chunks[idx]?.map (·.recs.length)).getD 0

end Logrange.WritersLts
