import Logrange.Model.WritersLts
import Logrange.Generated.C01
/-!
# The positions concurrent writers get back from `Chunk.write` — C01

Extension of the concurrent-writers LTS (`Model/WritersLts.lean`). `journal.Write` calls `Chunk.write(ctx, it)` which, under
the chunk writer's lock, appends `n` records of the caller to the chunk and returns `(n, cnt)` where `cnt` is the chunk's
record count; `partition.Service.Write` then announces the records `[cnt-n, cnt-1]` of that chunk (`OnWrite(first =
pos.Idx-n, last = pos.Idx-1)`).

Two readings of `cnt` are modelled:

* **atomic** — the count as of the end of the critical section: `retOf` (`first = ` the chunk's length before the append);
* **late** — the library reads the count AFTER the lock is released (`cw.lock.Unlock(); …; return wrtn, cw.cnt, err`):
  `lateCount later idx` is the chunk's length in any later state, and the announced first index is `lateCount … - n`.
-/
namespace Logrange.WritersLts

/-- what ONE `Chunk.write` call that wrote something returns, with the count taken inside the critical section -/
structure Ret where
  w : Nat            -- the writer
  chunk : Nat        -- index of the chunk in `State.chunks` (chunk id = index + 1)
  first : Nat        -- index of the call's first record in that chunk  (= cnt - n)
  n : Nat            -- records written by the call
  recs : List TRec   -- ghost: the records the call wrote
deriving Repr, DecidableEq

/-- the return value of the step `l` taken in state `s` (none: not a chunkWrite, not enabled, or nothing written) -/
def retOf (maxSize : Nat) (s : State) : Label → Option Ret
  | .chunkWrite w =>
    match (s.loc w).held with
    | none => none
    | some idx =>
      match s.chunks[idx]? with
      | none => none
      | some c =>
        if taken maxSize c.size (s.loc w).pending > 0 then
          some ⟨w, idx, c.recs.length, taken maxSize c.size (s.loc w).pending,
            (s.loc w).pending.take (taken maxSize c.size (s.loc w).pending)⟩
        else none
  | _ => none

/-- run a schedule (labels that are not enabled are skipped, as in `run`) and log every return, in order -/
def runLog (maxSize : Nat) : State → List Label → State × List Ret
  | s, [] => (s, [])
  | s, l :: ls =>
    ((runLog maxSize ((step maxSize s l).getD s) ls).1,
      (retOf maxSize s l).toList ++ (runLog maxSize ((step maxSize s l).getD s) ls).2)

/-- the count a writer reads LATE (after the lock was released) for chunk `idx`: the chunk's length in a later state -/
def lateCount (s : State) (idx : Nat) : Nat := (s.chunks[idx]?.map (·.recs.length)).getD 0

/-! ## the per-partition write lock of `partition.Service.Write` (regenerated fact `writeLockScope`) -/

/-- does a caller of `Service.Write` with this `noEvent` argument hold the partition's write lock while it appends and announces?
`writeLockScope`: 2 = every caller, 1 = only callers that publish a write event (`if !noEvent { … Lock() }`, /repo 25f9816: the
pipe workers pass `noEvent = true`), 0 = nobody (before 25f9816) -/
def takesLock (noEvent : Bool) : Bool :=
  if Generated.C01.writeLockScope = 2 then true else if Generated.C01.writeLockScope = 1 then !noEvent else false

/-- what the other writers of the partition can do between writer `w`'s `Chunk.write` return and the (late) read of the count:
a writer that holds the partition's write lock keeps out every other writer that takes it too — those are waiting in (or before)
`Lock()`: they can be submitted, nothing more; writers that do not take the lock step freely. `noEv v` is the `noEvent`
argument writer `v` calls with. (`w` itself takes no step in between.) -/
def between (noEv : Nat → Bool) (w : Nat) (more : List Label) : List Label :=
  more.filter (fun l => match l with
    | .submit _ _ => true
    | .getChunk v => v != w && !(takesLock (noEv w) && takesLock (noEv v))
    | .chunkWrite v => v != w && !(takesLock (noEv w) && takesLock (noEv v)))

end Logrange.WritersLts
