import Logrange.Model.ChunkHist
import Logrange.Model.WriteLoop
/-!
# C02 — a partition's chunk index over a history of `Service.Write` calls (Points level)

One `Write` call hands its records to the journal piece by piece (`Journal.Write` fills one chunk per call; a full chunk
is excluded and a new one created). After every piece the time index is notified once with the hull `iwrapper` has
accumulated over the WHOLE call so far (it is not reset between the chunks of one call): the maximum is that of the
records seen, the minimum can lie below the new chunk's own records (over-wide, never too narrow).

`Piece.newChunk = false` — the piece is appended to the partition's last chunk (only the first piece of a call can do
that); `true` — it opens a new chunk. The per-chunk index update is `ChunkHist.onWrite`.
-/
namespace Logrange.PartHist
open Logrange

structure PChunk where
  idx : ChunkHist.ChunkIdx := {}
  tss : List Int := []          -- timestamps of the chunk's records, in stored order
deriving Repr

structure Piece where
  newChunk : Bool
  l : List Int
deriving Repr

/-- one `Journal.Write` + `onWriteCIndex` of a call whose `iwrapper` is `st.2` -/
def applyPiece (sparse bigGap : Nat) (st : List PChunk × WriteLoop.IW) (pc : Piece) : List PChunk × WriteLoop.IW :=
  let iw := pc.l.foldl WriteLoop.IW.see st.2
  let front := if pc.newChunk then st.1 else st.1.dropLast
  let cur : PChunk := if pc.newChunk then {} else st.1.getLast?.getD {}
  let cur' : PChunk := { idx := ChunkHist.onWrite sparse bigGap cur.idx pc.l.length iw.minTs iw.maxTs, tss := cur.tss ++ pc.l }
  (front ++ [cur'], iw)

/-- one `Service.Write` call: a fresh `iwrapper`, then its pieces -/
def writeCall (sparse bigGap : Nat) (p : List PChunk) (pieces : List Piece) : List PChunk :=
  (pieces.foldl (applyPiece sparse bigGap) (p, {})).1

/-- a history of calls on an empty partition -/
def runCalls (sparse bigGap : Nat) (calls : List (List Piece)) : List PChunk :=
  calls.foldl (writeCall sparse bigGap) []

/-- the pieces of a call are non-empty, only the first may continue the last chunk — and only if there is one -/
def CallOK (p : List PChunk) : List Piece → Prop
  | [] => True
  | pc :: rest => pc.l ≠ [] ∧ (pc.newChunk = false → p ≠ []) ∧ ∀ q ∈ rest, q.l ≠ [] ∧ q.newChunk = true

/-- every record written by the history, in stored order -/
def allTs (calls : List (List Piece)) : List Int := (calls.map (fun c => (c.map (·.l)).flatten)).flatten

end Logrange.PartHist
