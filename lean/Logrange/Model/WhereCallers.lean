import Logrange.Model.Where
/-!
# The callers of the WHERE builder (C05, rejection clause)

Between `BuildWhereExpFuncByExpression` and the client stand, on the query path, `cursor.newFIterator`,
`cursor.newCursor`, `provider.GetOrCreate`, `backend.Querier.Query` / rpc `ServerQuerier.query`, and on the pipe path
`lql.BuildWhereExpFunc` (text), `pipe.newPPipe`, `Service.CreatePipe` / `Service.ensurePipe`, `Admin.cmdCreatePipe` /
rpc `ServerPipes.ensurePipe`. Each is modelled by what it does with the builder's answer; the shape of every error
test is a regenerated fact (`Generated.C05.guard…`, `tools/extract/c05_callers.go`), checked against the shapes assumed
here by `Props.C05Callers.callers_as_modelled`.
-/
namespace Logrange.WhereCallers
open Go Logrange.Where

/-- what reaches the caller instead of a result -/
inductive Err where
  | parse                 -- `lql.ParseExpr` / `ParseLql` rejected the text
  | build (e : BuildErr)  -- the WHERE builder rejected the expression
  | noSources             -- `errNoSources`: no partition matches FROM
  | exists_               -- a pipe of that name exists
  | gaveUp                -- `ensurePipe` after three rounds

/-! ## query path -/

/-- the parsed SELECT as far as the filter is concerned -/
structure Select where
  where_ : Option Expr
  hasRange : Bool

/-- `cursor.newFIterator`: `fltF, err := BuildWhereExpFuncByExpression(wExp); if err != nil { return nil, err }`
(`guardNewFIterator = "return(zero,err)"`) -/
def newFIterator (env : Env) (wExp : Option Expr) : Except Err Pred :=
  match buildWhere env wExp with
  | .error e => .error (.build e)
  | .ok f => .ok f

/-- `cursor.newCursor` after the sources are known: the filter is built only when there is a WHERE or a RANGE;
`if err != nil { releaseJournals; return nil, Wrapf(err) }` (`guardNewCursor`). Result: the cursor's filter, `none` =
unfiltered iterator. -/
def newCursor (env : Env) (sel : Select) (hasSources : Bool) : Except Err (Option Pred) :=
  if !hasSources then .error .noSources
  else if sel.where_.isSome || sel.hasRange then
    match newFIterator env sel.where_ with
    | .error e => .error e
    | .ok f => .ok (some f)
  else .ok none

inductive Cursor where
  | empty                       -- `emptyCursor`: delivers nothing
  | real (flt : Option Pred)    -- a cursor over the sources with that filter

/-- `provider.GetOrCreate` for a new cursor: `errNoSources` becomes the empty cursor, every other error is returned
(`guardGetOrCreate = "skip-eq(1);return(zero,err)"`) -/
def getOrCreate (env : Env) (sel : Select) (hasSources : Bool) : Except Err Cursor :=
  match newCursor env sel hasSources with
  | .error .noSources => .ok .empty
  | .error e => .error e
  | .ok f => .ok (.real f)

inductive Reply where
  | error (e : Err)
  | page (c : Cursor)

/-- `backend.Querier.Query` and rpc `ServerQuerier.query`: an error of `GetOrCreate` is the answer
(`guardBackendQuery = "return(zero,err)"`, `guardRpcQuery = "reply(err);return"`) -/
def query (env : Env) (sel : Select) (hasSources : Bool) : Reply :=
  match getOrCreate env sel hasSources with
  | .error e => .error e
  | .ok c => .page c

/-! ## a held cursor and a request that names its id -/

/-- what the provider keeps of a held cursor: the query text it was created from (`cur.state.Query`) and its filter -/
structure Held where
  query : Bytes
  flt : Option Pred

/-- `provider.GetOrCreate` with `state.Id > 0` found in the cache: `crsr.ApplyState` refuses a state whose query differs
(`applyStateRefusesOtherQuery`) and a new cursor is created from the request's own query; `sel` is what the request's
query parses to. The held text is the text of the request that created the cursor because the request buffer it points
into is never handed to a pool (`rpcQueryRequestLifetime = "weak;kept"`, or the request is decoded with a copy). -/
def getOrCreateHeld (env : Env) (held : Held) (query : Bytes) (sel : Select) (hasSources : Bool) : Except Err Cursor :=
  if held.query == query then .ok (.real held.flt) else getOrCreate env sel hasSources

/-! ## pipe path -/

/-- `lql.BuildWhereExpFunc(text)`: `exp, err := ParseExpr(text); if err != nil { return nil, err }; return
BuildWhereExpFuncByExpression(exp)` (`guardBuildWhereText`, `buildWhereTextTailCallsBuilder`). `parse`: `none` = parse
error, `some none` = empty text (nil expression). -/
def buildWhereText (env : Env) (parse : Bytes → Option (Option Expr)) (text : Bytes) : Except Err Pred :=
  match parse text with
  | none => .error .parse
  | some oe =>
    match buildWhere env oe with
    | .error e => .error (.build e)
    | .ok f => .ok f

/-- the registry: name ↦ (filter text, built filter) -/
abbrev Registry := List (Bytes × Bytes × Pred)

def Registry.has (r : Registry) (name : Bytes) : Bool := r.any (fun p => p.1 == name)

/-- `Service.CreatePipe`: existence test, `stm, err := newPPipe(…); if err != nil { return PipeDesc{}, err }`
(`guardNewPPipe`, `guardCreatePipe`), and only then `s.ppipes[name] = stm` (`createPipeRegistersAfterGuard`) -/
def createPipe (env : Env) (parse : Bytes → Option (Option Expr)) (reg : Registry) (name flt : Bytes) :
    Except Err Unit × Registry :=
  if reg.has name then (.error .exists_, reg)
  else match buildWhereText env parse flt with
    | .error e => (.error e, reg)
    | .ok f => (.ok (), reg ++ [(name, flt, f)])

/-- `Service.ensurePipe` (three rounds of GetPipe / CreatePipe; success only with what GetPipe found —
`ensurePipeSuccessOnlyFromGet`); `changeOk = false` (the API call) -/
def ensurePipe (env : Env) (parse : Bytes → Option (Option Expr)) : Nat → Registry → Bytes → Bytes → Except Err Unit × Registry
  | 0, reg, _, _ => (.error .gaveUp, reg)
  | k+1, reg, name, flt =>
    match reg.find? (fun p => p.1 == name) with
    | some p => if p.2.1 == flt then (.ok (), reg) else (.error .exists_, reg)
    | none => ensurePipe env parse k (createPipe env parse reg name flt).2 name flt

end Logrange.WhereCallers
