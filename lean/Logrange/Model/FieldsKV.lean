import Logrange.Model.Tags
/-!
# `pkg/model/field`: `NewFieldsFromKVString`, `AsKVString`, `Concat`, `Check` on the binary encoding

`Fields` is a byte string of length-prefixed pieces `len(k) k len(v) v …` (one length byte each).
`byte(len(v))` wraps modulo 256 (`UInt8.ofNat`), as in Go. Slice expressions that would panic in Go are the
value `Res.panic`.
-/
namespace Logrange.FieldsKV
open Go Logrange.Quote Logrange.KV Logrange.Tags

def maxLen : Nat := Logrange.Generated.C08.fieldMaxLen

/-- `sb.WriteByte(byte(len(v))); sb.WriteString(v)` -/
def encPiece (v : Bytes) : Bytes := UInt8.ofNat v.length :: v

def encodeItems (items : List Bytes) : Bytes := items.flatMap encPiece

/-- the piece starts with `"` or a backquote: the branch of the loop body that calls `strconv.Unquote` -/
def startsQuoted (v : Bytes) : Bool := v.head? == some DQ || v.head? == some BQ

/-- loop body of `NewFieldsFromKVString` over the split pieces (`even` = index `i` is even, i.e. a name):
limit on the raw piece (when the source tests it there), `TrimSpaces`, empty-name test, `strconv.Unquote` when it
starts with a quote and — inside that branch, when the source tests it there (fix 72eac47) — the limit again on the
unquoted value. -/
def fromKVLoop : List Bytes → Bool → Option (List Bytes)
  | [], _ => some []
  | v :: rest, even =>
    if Logrange.Generated.C08.fieldLimitBeforeUnquote && v.length > maxLen then none else
    let v := trimSpaces v
    if v.isEmpty && even then none else
    match decodeValue v with
    | none => none
    | some v' =>
      if Logrange.Generated.C08.fieldLimitAfterUnquote && startsQuoted v && v'.length > maxLen then none else
      match fromKVLoop rest (!even) with
      | none => none
      | some r => some (v' :: r)

/-- the decoded pieces `NewFieldsFromKVString` writes (names and values alternating) -/
def fromKVItems (kvs : Bytes) : Option (List Bytes) :=
  if kvs.isEmpty then some [] else
  match removeCurlyBraces kvs with
  | none => none
  | some fine =>
    if fine.isEmpty then some [] else
    match splitString fine with
    | none => none
    | some res =>
      if res.length % 2 == 1 then none else fromKVLoop res true

/-- `NewFieldsFromKVString` -/
def fromKV (kvs : Bytes) : Option Bytes := (fromKVItems kvs).map encodeItems

/-- `field.Parse`: errors are silently the empty field list -/
def parseQuiet (kvs : Bytes) : Bytes := (fromKV kvs).getD []

/-- `Check`: `idx += n+1` until `idx >= len`, then `idx == len` -/
def check : Nat → Bytes → Bool
  | 0, f => f.isEmpty
  | _ + 1, [] => true
  | fuel + 1, n :: rest => if rest.length < n.toNat then false else check fuel (rest.drop n.toNat)

/-- reference decoder: the pieces of a well-formed encoding -/
def decodeItems : Nat → Bytes → Option (List Bytes)
  | 0, [] => some []
  | 0, _ => none
  | _ + 1, [] => some []
  | f + 1, n :: rest =>
    if rest.length < n.toNat then none
    else (decodeItems f (rest.drop n.toNat)).map (fun xs => rest.take n.toNat :: xs)

/-- well-formed fields: decodes into an even number of pieces (names and values) -/
def WF (f : Bytes) : Prop := ∃ items, decodeItems f.length f = some items ∧ items.length % 2 = 0

def needsQuoteF (v : Bytes) : Bool :=
  (Logrange.Generated.C08.fieldQuoteEmpty && v.isEmpty) || Logrange.Generated.C08.fieldQuoteBytes.any (fun c => v.contains c)

def encField (v : Bytes) : Bytes := if needsQuoteF v then quote v else v

inductive Res where
  | ok (b : Bytes)
  | panic
deriving DecidableEq, Repr

/-- `AsKVString`: `f[idx+1 : idx+1+n]` panics when it runs past the end -/
def asKVLoop : Nat → Bytes → Bool → Bool → Bytes → Res
  | 0, _, _, _, acc => .ok acc
  | _ + 1, [], _, _, acc => .ok acc
  | fuel + 1, n :: rest, even, first, acc =>
    if rest.length < n.toNat then .panic else
    let piece := rest.take n.toNat
    let acc' := if even then (if first then acc else acc ++ [CM]) ++ piece ++ [EQ] else acc ++ encField piece
    asKVLoop fuel (rest.drop n.toNat) (!even) false acc'

def asKV (f : Bytes) : Res := asKVLoop (f.length + 1) f true true []

/-- `Concat` -/
def concat (f f1 : Bytes) : Bytes := f ++ f1

/-- pairs view of decoded pieces -/
def pairsOf : List Bytes → List (Bytes × Bytes)
  | k :: v :: r => (k, v) :: pairsOf r
  | _ => []

/-- class on which `AsKVString` followed by `NewFieldsFromKVString` is the identity: every pair is readable by
`kvstring` as printed (`qsafe…`, the analogue of `Tags.safe`; an empty value is printed as nothing and read back as
empty) and no printed piece exceeds the limit that the parser applies to the *raw* piece (`lenOK`). -/
def qsafeFieldPairWith (nq : Bytes → Bool) (first : Bool) (p : Bytes × Bytes) : Bool :=
  !p.1.isEmpty && trimmed p.1 && inert p.1 && (!first || p.1.head? != some LB) &&
  p.1.head? != some DQ && p.1.head? != some BQ &&      -- the field parser unquotes names too
  (nq p.2 || p.2.isEmpty || safeRaw p.2)

def qsafeFieldsWith (nq : Bytes → Bool) : List (Bytes × Bytes) → Bool
  | [] => true
  | p :: r => qsafeFieldPairWith nq true p && r.all (qsafeFieldPairWith nq false)

def qsafeFields : List (Bytes × Bytes) → Bool := qsafeFieldsWith needsQuoteF

/-- the trigger of `AsKVString` the finding class was written for (pinned, not regenerated) -/
def needsQuoteFPinned (v : Bytes) : Bool := v.contains 44 || v.contains 61

/-- class predicate of finding F08 for field lists (its negation) -/
def qsafeFieldsPinned : List (Bytes × Bytes) → Bool := qsafeFieldsWith needsQuoteFPinned

/-- name, value and the printed form of the value all fit the limit the parser applies (to the raw piece, and to the
unquoted value); for parsed fields the first two always hold (`fromKV_WF`) -/
def lenOK (p : Bytes × Bytes) : Bool :=
  p.1.length ≤ maxLen && p.2.length ≤ maxLen && (encField p.2).length ≤ maxLen

def safeFields (ps : List (Bytes × Bytes)) : Bool := qsafeFields ps && ps.all lenOK

def safeFieldsPinned (ps : List (Bytes × Bytes)) : Bool := qsafeFieldsPinned ps && ps.all lenOK

/-- the text `AsKVString` prints for a list of pairs (what `asKV` computes on their encoding: `asKV_encode`) -/
def kvText (ps : List (Bytes × Bytes)) : Bytes := joinItems (ps.map (item encField))

/-- the decidable hypothesis of `fields_roundtrip_partial` on the binary encoding: it decodes into an even number of
pieces whose pairs are in the class `safeFields` -/
def safeF (f : Bytes) : Bool :=
  match decodeItems f.length f with
  | some items => items.length % 2 == 0 && safeFields (pairsOf items)
  | none => false

/-- hypothesis of `provenance_fields_partial` on a tag set: every name and value (and printed value) fits a field, and
no name starts with a quote (F08c's class: the field parser unquotes names, the tag parser does not) -/
def fitsFields (m : Map) : Bool :=
  m.all (fun p => p.1.length ≤ maxLen && p.2.length ≤ maxLen && (encTag p.2).length ≤ maxLen &&
    p.1.head? != some DQ && p.1.head? != some BQ)

end Logrange.FieldsKV
