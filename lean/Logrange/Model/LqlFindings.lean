import Logrange.Model.LqlDirect
/-!
# C12: class predicates of the open findings, evaluated on the parsed (typed) AST

A print→re-parse failure is attributed to a finding only when the model shows the same behaviour, the failure kind
matches and the statement's AST satisfies the finding's predicate below (DESIGN §2.2). The predicates are narrow on
purpose: a failure outside them is a VIOLATION.
-/
namespace Logrange.Lql
open GoLib

/-! ### `Safe` of DESIGN §C08 (own copy), plus the one LQL-specific clause: no newline (the Tags token is `\{.+\}`) -/

/-- `SplitString`'s automaton over a piece: (still outside a string at the end, met a top-level separator) -/
def inertGo : Bytes → Bool → Bool
  | [], inStr => !inStr
  | c :: rest, inStr =>
    if c == DQ then inertGo rest (!inStr)
    else if c == BS && inStr then (match rest with | [] => false | _ :: r' => inertGo r' inStr)
    else if (c == KV.EQ || c == KV.CM) && !inStr then false
    else inertGo rest inStr

def inert (p : Bytes) : Bool := inertGo p false
def trimmed (p : Bytes) : Bool := p.head? != some KV.SP && p.getLast? != some KV.SP
def safeKey (k : Bytes) : Bool := !k.isEmpty && trimmed k && inert k && k.head? != some KV.LB
def safeRaw (v : Bytes) : Bool :=
  !v.isEmpty && trimmed v && inert v && v.head? != some DQ && v.head? != some 96 && v.getLast? != some KV.RB
def noNL (p : Bytes) : Bool := !p.contains 10
/-- under the quote-aware Tags pattern a raw piece must not contain a `}` whose run is followed by a blank or a `"`
(the token would end there); the greedy pattern does not care -/
def braceRunOK : Bytes → Bool
  | [] => true
  | c :: r =>
    if c == 125 then
      (match r.dropWhile (· == 125) with
       | x :: _ => !(isSpace x || x == 34)
       | [] => true) && braceRunOK r
    else braceRunOK r

def rawOK (p : Bytes) : Bool := noNL p && (!Logrange.Generated.C12.tagsQuoteAware || braceRunOK p)

/-- every pair of the set prints (inside `{…}`) as a piece that `tag.Parse` reads back and the Tags token can hold -/
def safeTags (m : TagMap) : Bool :=
  m.all (fun p => safeKey p.1 && rawOK p.1 && (KV.needsQuote p.2 || (safeRaw p.2 && rawOK p.2)))

/-- the tag sets that are **printed** by `Lql.String()` (`Pipes.Void` is parsed but never printed) -/
def printedTagSets (l : Lql) : List TagMap :=
  let src : Option Source → List TagMap := fun s => match s with | some (.tags m) => [m] | _ => []
  (match l.select with | some s => src s.source | none => [])
  ++ (match l.describe with | some d => (match d.partition with | some m => [m] | none => []) | none => [])
  ++ (match l.truncate with | some t => src t.source | none => [])
  ++ (match l.show_ with | some s => (match s.partitions with | some p => src p.source | none => []) | none => [])
  ++ (match l.create with | some c => (match c.pipe with | some p => src p.from_ | none => []) | none => [])

/-- the text `Lql.String()` writes **after** a `{…}` source, when the statement has one -/
def afterTags (rd : Int → Bytes) (l : Lql) : Option Bytes :=
  let isTags : Option Source → Bool := fun s => match s with | some (.tags _) => true | _ => false
  match l.select, l.truncate, l.show_, l.create with
  | some s, _, _, _ =>
    if isTags s.source then
      some ((match s.range with | none => [] | some r => bs " RANGE" ++ printRange rd r)
        ++ (match s.where_ with | none => [] | some e => bs " WHERE" ++ printExpr e)
        ++ (match s.position with | none => [] | some p => bs " POSITION" ++ [32] ++ quote p)
        ++ addInt "OFFSET" s.offset ++ addInt "LIMIT" s.limit)
    else none
  | none, some t, _, _ =>
    if isTags t.source then
      some (truncateTail rd t)
    else none
  | none, none, some s, _ =>
    (match s.partitions with
     | some p => if isTags p.source then some (addInt "OFFSET" p.offset ++ addInt "LIMIT" p.limit) else none
     | none => none)
  | none, none, none, some c =>
    (match c.pipe with
     | some p => if isTags p.from_ then some (match p.where_ with | none => [] | some e => bs " WHERE" ++ printExpr e) else none
     | none => none)
  | _, _, _, _ => none

/-- F12a: a `}` is printed later on the same line after a `{…}` source (the greedy Tags token swallows it) -/
def classBraceAfterTags (rd : Int → Bytes) (l : Lql) : Bool :=
  match afterTags rd l with | some t => t.contains 125 | none => false

/-- F12b: a printed tag set has a key/value that `tagMap.line()` emits in a form `{…}` cannot carry (C08's classes) -/
def classUnsafeTags (l : Lql) : Bool := (printedTagSets l).any (fun m => !safeTags m)

/-- F12c (fixed by 846d74c; kept to name a recurrence): TRUNCATE … MAXDBSIZE n -/
def classMaxDbSize (l : Lql) : Bool := match l.truncate with | some t => t.maxDbSize.isSome | none => false

def printedDates (l : Lql) : List Int :=
  (match l.select with
   | some s => (match s.range with | some r => r.p1.toList ++ r.p2.toList | none => [])
   | none => [])
  ++ (match l.truncate with | some t => t.before.toList | none => [])

/-- F12d (fixed by 166caa8; kept to name a recurrence): a RANGE bound / BEFORE instant whose sub-second part is a non-zero multiple of 10 ms: `time.String()` prints
it with one or two fractional digits, which `parseLqlDateTime` reads back without the fraction -/
def classDateFraction (l : Lql) : Bool :=
  (printedDates l).any (fun v => v % 1000000000 != 0 && v % 10000000 == 0)

/-- F12e: nothing but the keyword is printed — every field of `Lql` is nil (bare `SELECT` / `SHOW` / `DESCRIBE`: prints
""), or the statement is a SELECT whose only clause is an empty format (`SELECT ""`: prints `SELECT`, which re-parses
with `Lql.Select` nil) -/
def classBareKeyword (l : Lql) : Bool :=
  (l.select.isNone && l.describe.isNone && l.truncate.isNone && l.show_.isNone && l.create.isNone && l.delete.isNone)
  || (match l.select with
      | some s => (match s.format with | none => true | some f => f.isEmpty) && s.source.isNone && s.range.isNone
                  && s.where_.isNone && s.position.isNone && s.offset.isNone && s.limit.isNone
      | none => false)

/-- F12f (fixed by 0c67e9a; kept to name a recurrence): MINSIZE / MAXSIZE ≥ 2^63 (was printed through `int64(...)` as a negative number) -/
def classHugeSize (l : Lql) : Bool :=
  match l.truncate with
  | some t => (match t.minSize with | some n => n ≥ 2^63 | none => false) || (match t.maxSize with | some n => n ≥ 2^63 | none => false)
  | none => false

/-- F12g (fixed by 2681434, rejected by `ParseLql` now; kept to name a recurrence): `RANGE [` with neither bound (was accepted: the optional `[` alone makes the struct non-empty; printed "RANGE ") -/
def classEmptyRange (l : Lql) : Bool :=
  match l.select with
  | some s => (match s.range with | some r => r.p1.isNone && r.p2.isNone | none => false)
  | none => false

/-- the classes a failure of this statement may be attributed to. F12c / F12d / F12f / F12g are repaired: their predicates
count only when the regenerated printer facts say the old shape is back (then the check reports "the defect is back") -/
def classes (rd : Int → Bytes) (l : Lql) : List String :=
  (if classBraceAfterTags rd l && !Logrange.Generated.C12.tagsQuoteAware then ["F12a"] else []) ++ (if classUnsafeTags l then ["F12b"] else [])
  ++ (if classMaxDbSize l && !Logrange.Generated.C12.truncatePrintsMaxDbSize then ["F12c"] else [])
  ++ (if classDateFraction l && !Logrange.Generated.C12.dateUsesFormat then ["F12d"] else [])
  ++ (if classBareKeyword l then ["F12e"] else [])
  ++ (if classHugeSize l && !Logrange.Generated.C12.truncateSizesUnsigned then ["F12f"] else [])
  ++ (if classEmptyRange l && !Logrange.Generated.C12.parseLqlRejectsEmptyRange then ["F12g"] else [])

/-- classes of a bare source / filter text (what `cmdCreatePipe` stores): only the `{…}` classes apply -/
def sourceClasses (s : Source) : List String :=
  match s with
  | .tags m => if !safeTags m then ["F12b"] else []
  | .expr _ => []

end Logrange.Lql
