import Logrange.Model.PersistFS
import Logrange.Generated.C07
/-!
# C07 — the tag index file (`pkg/tindex/inmem.go`: `saveStateUnsafe`, `loadState`, `checkConsistency`)

`saveStateUnsafe` is interpreted from the **generated** call order (`Generated.C07.saveStateCalls`, read from
the source on every run): today `[WriteFile tmp; stat; remove bak; link dat→bak; rename tmp→dat]` (before the repair
of finding F05: `[stat; rename dat→bak; WriteFile dat]`). A regression changes the generated list and with it the step
list every theorem below talks about.
-/
namespace Logrange.Persist
open Logrange.Generated.C07

abbrev TagLine := Bytes
abbrev Src := Bytes
/-- `tmap`: tag line → journal id (the JSON object written to `tindex.dat`) -/
abbrev TMap := List (TagLine × Src)

/-- the steps of one call of `saveStateUnsafe`. `removeBak`, `linkDatToBak` (and the old `renameDatToBak`) sit in the
`if the file exists` branch of the `Stat`. -/
def tindexCallSteps (datExists : Bool) (data : Bytes) : FsCall → List Step
  | .statDat => []
  | .renameDatToBak => if datExists then [.rename .tindexDat .tindexBak] else []
  | .writeDat => writeFile .tindexDat data
  | .writeTmp => writeFile .tindexTmp data
  | .removeBak => if datExists then [.remove .tindexBak] else []
  | .linkDatToBak => if datExists then [.link .tindexDat .tindexBak] else []
  | .renameTmpToDat => [.rename .tindexTmp .tindexDat]
  | .other => []

def tindexSaveStepsOf (calls : List FsCall) (datExists : Bool) (data : Bytes) : List Step :=
  calls.flatMap (tindexCallSteps datExists data)

/-- the file-system steps of `saveStateUnsafe` on the disk `f` for the map `m` -/
def tindexSaveSteps (c : Codec TMap) (f : Files) (m : TMap) : List Step :=
  tindexSaveStepsOf saveStateCalls (f .tindexDat).isSome (c.enc m)

/-- `loadState`: a missing file is an empty index (no error); an undecodable file or a key that does not
parse as a tag line (`parseOk`, C08) is an error (`none`). `tindex.bak` is never read. -/
def loadState (c : Codec TMap) (parseOk : TagLine → Bool) (f : Files) : Option TMap :=
  match f .tindexDat with
  | none => some []
  | some data =>
    match c.dec data with
    | none => none
    | some m => if m.all (fun e => parseOk e.1) then some m else none

def tmapHasSrc (m : TMap) (j : Src) : Bool := m.any (fun e => e.2 == j)

/-- `checkConsistency` (= `Init`): load, refuse when a journal on disk has no record, then save again.
`none` = the server refuses to start. -/
def checkConsistency (c : Codec TMap) (parseOk : TagLine → Bool) (f : Files) (journals : List Src) :
    Option (TMap × Files) :=
  match loadState c parseOk f with
  | none => none
  | some m =>
    if journals.all (tmapHasSrc m) then some (m, runSteps f (tindexSaveSteps c f m)) else none

end Logrange.Persist
