import Logrange.Model.DateTerms
/-!
# The regular expressions of the `terms` table (Go `regexp`, leftmost-first semantics), hand-written

Only the syntax the `terms` table and the format strings produce is supported: literal bytes, `\d`, `\x` (escaped
literal), `.`, classes `[a-bc]`, groups `(?:a|b|…)`, counted repetition `{m}`, `{m,n}`, `{m,}` (the unbounded form only
on a single-byte class). Anything else makes `parseRegexp` answer `none` and the model reports `unsupported`.

Counted repetition is expanded the way `regexp/syntax.simplify` does it: `x{m,n}` = `x`ᵐ`(x(x…)?)?` (greedy),
`x{m,}` = `x`ᵐ`x*`.

`ms r s` is the list of remainders of `s` after a match of `r` at the start of `s`, **in the priority order of a
backtracking (leftmost-first, greedy) matcher**; its head is the match Go reports at that start position.
-/
namespace Logrange.Date

inductive Rx
  | eps
  | chr (c : UInt8)
  | any                                   -- `.` without the `s` flag: any byte but \n
  | cls (ranges : List (UInt8 × UInt8))
  | seq (a b : Rx)
  | alt (a b : Rx)                        -- prefers `a`
  | star (ranges : List (UInt8 × UInt8))  -- greedy `[..]*`
deriving Repr, DecidableEq

def inCls (rs : List (UInt8 × UInt8)) (c : UInt8) : Bool := rs.any (fun p => p.1 ≤ c && c ≤ p.2)

/-- remainders after the greedy star of a class, longest first -/
def starRem (rg : List (UInt8 × UInt8)) : Bytes → List Bytes
  | [] => [[]]
  | x :: s => if inCls rg x then starRem rg s ++ [x :: s] else [x :: s]

def ms : Rx → Bytes → List Bytes
  | .eps, s => [s]
  | .chr c, s => (match s with | x :: s' => if x == c then [s'] else [] | [] => [])
  | .any, s => (match s with | x :: s' => if x != 10 then [s'] else [] | [] => [])
  | .cls rg, s => (match s with | x :: s' => if inCls rg x then [s'] else [] | [] => [])
  | .seq a b, s => (ms a s).flatMap (ms b)
  | .alt a b, s => ms a s ++ ms b s
  | .star rg, s => starRem rg s

/-- first match of `r` at the start of `s`: the matched prefix -/
def matchAt (r : Rx) (s : Bytes) : Option Bytes :=
  (ms r s).head?.map (fun rem => s.take (s.length - rem.length))

/-- unanchored search: leftmost start, then first match in priority order (`FindSubmatch`, group 1 = whole) -/
def find (r : Rx) : Bytes → Option Bytes
  | [] => matchAt r []
  | x :: s => match matchAt r (x :: s) with
    | some m => some m
    | none => find r s

/-- the search under `NewParser`'s left guard `(?:^|[^0-9])(?P<date>…)` (leftmost-first over the whole pattern): the date
may start at the beginning of the text or right after a byte that is not a digit; `guard = false` is the plain search.
`pd` = the byte before the current position is a digit. -/
def findFrom (guard : Bool) (r : Rx) : Bool → Bytes → Option Bytes
  | pd, [] => if guard && pd then none else matchAt r []
  | pd, x :: s =>
    match (if guard && pd then none else matchAt r (x :: s)) with
    | some m => some m
    | none => findFrom guard r (decide (48 ≤ x) && decide (x ≤ 57)) s

def findG (guard : Bool) (r : Rx) (s : Bytes) : Option Bytes := findFrom guard r false s

/-! ## regexp text → `Rx` -/

def rxPow (a : Rx) : Nat → Rx
  | 0 => .eps
  | n + 1 => .seq a (rxPow a n)

/-- `(a(a…)?)?` with `k` levels, greedy -/
def rxOpt (a : Rx) : Nat → Rx
  | 0 => .eps
  | k + 1 => .alt (.seq a (rxOpt a k)) .eps

def classRanges : Bytes → List (UInt8 × UInt8)
  | a :: d :: e :: r => if d == 45 then (a, e) :: classRanges r else (a, a) :: classRanges (d :: e :: r)
  | a :: r => (a, a) :: classRanges r
  | [] => []

def numOf (b : Bytes) : Nat := b.foldl (fun a c => a * 10 + (c.toNat - 48)) 0
def allDigits (b : Bytes) : Bool := !b.isEmpty && b.all (fun c => 48 ≤ c && c ≤ 57)

/-- apply a `{…}` quantifier body to an atom -/
def applyQuant (atom : Rx) (body : Bytes) : Option Rx :=
  let mn := body.takeWhile (· != 44)
  if !allDigits mn then none else
  if !body.contains 44 then some (rxPow atom (numOf mn)) else
  let mx := body.drop (mn.length + 1)
  if mx.isEmpty then
    match atom with
    | .cls rg => some (.seq (rxPow atom (numOf mn)) (.star rg))
    | _ => none
  else if !allDigits mx || numOf mx < numOf mn then none
  else some (.seq (rxPow atom (numOf mn)) (rxOpt atom (numOf mx - numOf mn)))

def isMeta (c : UInt8) : Bool :=
  c == 42 || c == 43 || c == 63 || c == 94 || c == 36 || c == 123 || c == 125 || c == 93  -- * + ? ^ $ { } ]

/-- `\` followed by a letter or digit is a class/assertion escape (`\w`, `\b`, `\1`, …): not supported except `\d` -/
def isDigLetter (d : UInt8) : Bool := (48 ≤ d && d ≤ 57) || (65 ≤ d && d ≤ 90) || (97 ≤ d && d ≤ 122)

mutual
/-- alternation up to (not consuming) `)` or the end -/
def pAlt : Nat → Bytes → Option (Rx × Bytes)
  | 0, _ => none
  | fuel + 1, s =>
    match pSeq fuel s with
    | none => none
    | some (a, rest) =>
      match rest with
      | 124 :: r =>
        (match pAlt fuel r with
         | some (b, r') => some (.alt a b, r')
         | none => none)
      | _ => some (a, rest)
/-- concatenation up to (not consuming) `|`, `)` or the end -/
def pSeq : Nat → Bytes → Option (Rx × Bytes)
  | 0, _ => none
  | fuel + 1, s =>
    match s with
    | [] => some (.eps, [])
    | c :: rest =>
      if c == 124 || c == 41 then some (.eps, s) else
      let atom? : Option (Rx × Bytes) :=
        if c == 92 then
          (match rest with
           | d :: r => if d == 100 then some (.cls [(48, 57)], r)
                       else if isDigLetter d then none else some (.chr d, r)
           | [] => none)
        else if c == 46 then some (.any, rest)
        else if c == 91 then
          (let body := rest.takeWhile (· != 93)
           if body.length == rest.length || body.isEmpty || body.head? == some 94 || body.contains 92 then none
           else some (.cls (classRanges body), rest.drop (body.length + 1)))
        else if c == 40 then
          (match rest with
           | 63 :: 58 :: r =>
             (match pAlt fuel r with
              | some (a, 41 :: r') => some (a, r')
              | _ => none)
           | _ => none)
        else if isMeta c then none
        else some (.chr c, rest)
      match atom? with
      | none => none
      | some (atom, r1) =>
        let quant? : Option (Rx × Bytes) :=
          match r1 with
          | 123 :: r2 =>
            (let body := r2.takeWhile (· != 125)
             if body.length == r2.length then none
             else (applyQuant atom body).map (fun q => (q, r2.drop (body.length + 1))))
          | q :: _ => if q == 42 || q == 43 || q == 63 then none else some (atom, r1)
          | [] => some (atom, r1)
        match quant? with
        | none => none
        | some (qa, r3) =>
          match pSeq fuel r3 with
          | some (b, r4) => some (.seq qa b, r4)
          | none => none
end

/-- the whole regular expression text; `none` = outside the supported subset -/
def parseRegexp (s : Bytes) : Option Rx :=
  match pAlt (2 * s.length + 2) s with
  | some (r, []) => some r
  | _ => none

end Logrange.Date
