import Logrange.Go.Basic
/-!
# Model of the pipe registry (`pkg/pipe/service.go`, `pkg/backend/admin.go: cmdShowPipes/cmdDescribePipe`)

* `sortSearch` is Go's `sort.Search` loop as written in the library.
* `getPipes` is `Service.GetPipes`: a result array of `len(ppipes)` zero values, a counter `cnt`, and for
  every map entry (in Go's map iteration order — the parameter `order`) a binary search over the first
  `cnt` elements, a `copy` that shifts the tail right by one, the store, and (parameter `incr`, regenerated
  from the source by the extractor) the increment of `cnt`.
* `showPipes` is the paging arithmetic of `cmdShowPipes`.
* `Reg` / `step` is the registry as a map with the results of create / ensure / delete / get.
* `CStep` is the concurrent `CreatePipe` (two critical sections per call) as a labelled transition system.
-/
namespace Logrange.Registry
open Go

structure Pipe where
  name : Bytes
  tagsCond : Bytes
  fltCond : Bytes
deriving DecidableEq, Repr, Inhabited

/-! ## sort.Search -/

/-- `for i < j { h := (i+j)/2; if !f(h) { i = h+1 } else { j = h } }; return i` -/
def sortSearchLoop (f : Nat → Bool) : Nat → Nat → Nat → Nat
  | 0, i, _ => i
  | fuel+1, i, j =>
    if i < j then
      let h := (i + j) / 2
      if !f h then sortSearchLoop f fuel (h+1) j else sortSearchLoop f fuel i h
    else i

def sortSearch (n : Nat) (f : Nat → Bool) : Nat := sortSearchLoop f (n+1) 0 n

/-! ## GetPipes -/

structure GP where
  res : List Pipe
  cnt : Nat

/-- one iteration of the `for pn, pp := range s.ppipes` loop -/
def gpStep (incr : Bool) (s : GP) (p : Pipe) : GP :=
  let idx := sortSearch s.cnt (fun i => bytesLe p.name (s.res.getD i default).name)
  -- copy(res[idx+1:], res[idx:]); res[idx] = pp.cfg
  let res' := s.res.take idx ++ p :: (s.res.drop idx).dropLast
  ⟨res', if incr then s.cnt + 1 else s.cnt⟩

def getPipes (incr : Bool) (order : List Pipe) : List Pipe :=
  (order.foldl (gpStep incr) ⟨List.replicate order.length default, 0⟩).res

/-- The other shape `GetPipes` can have: all values collected, then sorted by name with the standard library
(`sort.Slice` / `sort.Sort`, comparison `a.Name < b.Name`). The library's contract — the result is the sorted
permutation — is modelled by core's merge sort on the name order (names are distinct map keys, so the sorted
permutation is unique and stability does not matter). -/
def libSortPipes (order : List Pipe) : List Pipe := order.mergeSort (fun a b => bytesLe a.name b.name)

/-- `GetPipes` in the shape the extractor found in the source: `libSort` = collect-then-library-sort,
otherwise the insertion loop with the counter behaviour `incr`. -/
def getPipesShape (libSort incr : Bool) (order : List Pipe) : List Pipe :=
  if libSort then libSortPipes order else getPipes incr order

/-! ## SHOW PIPES paging (`cmdShowPipes`) -/

def maxInt32 : Int := 2147483647
def maxInt64 : Int := 9223372036854775807

/-- Go's `int` addition on a 64-bit platform: two's complement wrap-around -/
def wrap64 (x : Int) : Int := (x + 9223372036854775808) % 18446744073709551616 - 9223372036854775808

/-- `none` = the statement is rejected (negative offset). `limit`/`offset` are the statement's optional values. -/
def showPipes (names : List Bytes) (limit offset : Option Int) : Option (List Bytes) :=
  let lim0 := limit.getD 0
  let lim1 := if lim0 == 0 then maxInt32 else lim0
  let offs := offset.getD 0
  if offs < 0 then none else
  let len : Int := names.length
  -- `if lim+offs > len(stms)` is evaluated in Go's int arithmetic: the sum wraps for limits close to MaxInt64
  let lim2 := if wrap64 (lim1 + offs) > len then (if len - offs < 0 then 0 else len - offs) else lim1
  -- for i := offs; i < len && lim > 0; i++ { emit; lim-- }
  some ((names.drop offs.toNat).take lim2.toNat)

/-! ## the registry as a map -/

abbrev Reg := List Pipe          -- at most one pipe per name (invariant `Reg.Nodup`)

def Reg.find (r : Reg) (n : Bytes) : Option Pipe := r.find? (·.name == n)
def Reg.erase (r : Reg) (n : Bytes) : Reg := r.filter (fun p => !(p.name == n))

inductive Op where
  | create (p : Pipe) (parses : Bool)     -- `parses`: newPPipe accepts the two conditions
  | ensure (p : Pipe) (parses : Bool)
  | delete (n : Bytes)
  | get (n : Bytes)

inductive Res where
  | ok (p : Pipe)
  | exists_
  | badCond
  | conflict
  | notFound
  | deleted
  | failed
deriving DecidableEq, Repr

def create (r : Reg) (p : Pipe) (parses : Bool) : Reg × Res :=
  match r.find p.name with
  | some _ => (r, .exists_)
  | none => if parses then (p :: r, .ok p) else (r, .badCond)

/-- `ensurePipe(p, false)`: three attempts of get-or-create -/
def ensure (r : Reg) (p : Pipe) (parses : Bool) : Reg × Res :=
  match r.find p.name with
  | some q => if q.fltCond != p.fltCond || q.tagsCond != p.tagsCond then (r, .conflict) else (r, .ok q)
  | none => if parses then (p :: r, .ok p) else (r, .failed)

def step (r : Reg) : Op → Reg × Res
  | .create p ok => create r p ok
  | .ensure p ok => ensure r p ok
  | .delete n => match r.find n with
      | some _ => (r.erase n, .deleted)
      | none => (r, .notFound)
  | .get n => match r.find n with
      | some q => (r, .ok q)
      | none => (r, .notFound)

def run (r : Reg) : List Op → Reg
  | [] => r
  | o :: os => run (step r o).1 os

/-! ## concurrent CreatePipe: two critical sections per call -/

inductive Pc where
  | start                -- before the first locked check
  | checked              -- first check passed, building the ppipe outside the lock
  | done (ok : Bool)     -- returned
deriving DecidableEq, Repr

structure CState where
  reg : Reg
  pcs : List (Pipe × Pc)      -- one entry per creator actor: the pipe it wants to create, its program counter

/-- actor `a` performs its next critical section. `none` = the actor has nothing left to do.
`recheck` says whether the second section looks the name up again before storing (regenerated from the
source: `Generated.C19.createPipeRechecks`); without it the second section stores unconditionally. -/
def cstep (recheck : Bool) (s : CState) (a : Nat) : Option CState :=
  match s.pcs[a]? with
  | none => none
  | some (p, .start) =>
    -- lock; _, ok := ppipes[name]; unlock; if ok return error
    match s.reg.find p.name with
    | some _ => some { s with pcs := s.pcs.set a (p, .done false) }
    | none => some { s with pcs := s.pcs.set a (p, .checked) }
  | some (p, .checked) =>
    -- lock; _, ok = ppipes[name]; if !ok { ppipes[name] = stm }; unlock
    if recheck then
      match s.reg.find p.name with
      | some _ => some { s with pcs := s.pcs.set a (p, .done false) }
      | none => some { reg := p :: s.reg, pcs := s.pcs.set a (p, .done true) }
    else some { reg := p :: s.reg.erase p.name, pcs := s.pcs.set a (p, .done true) }
  | some (_, .done _) => none

def crun (recheck : Bool) (s : CState) : List Nat → CState
  | [] => s
  | a :: as => match cstep recheck s a with
    | some s' => crun recheck s' as
    | none => crun recheck s as

/-! ## concurrent EnsurePipe: `ensurePipe(p, false)` = up to three attempts of GetPipe, then CreatePipe -/

inductive Epc where
  | get (attempt : Nat)            -- about to call GetPipe (one critical section)
  | createStart (attempt : Nat)    -- GetPipe said "not found": CreatePipe's first locked check
  | createChecked (attempt : Nat)  -- between CreatePipe's two critical sections
  | done (r : Res)
deriving DecidableEq, Repr

structure EState where
  reg : Reg
  pcs : List (Pipe × Epc)

/-- the loop counter after an attempt: `for i := 0; i < 3; i++`; falling out of the loop is the "Oops" error -/
def nextAttempt (n : Nat) : Epc := if n + 1 < 3 then .get (n + 1) else .done .failed

/-- actor `a` performs its next critical section of `ensurePipe` (conditions parse; no deletes in this system) -/
def estep (s : EState) (a : Nat) : Option EState :=
  match s.pcs[a]? with
  | none => none
  | some (p, .get n) =>
    match s.reg.find p.name with
    | some q =>
      if q.fltCond != p.fltCond || q.tagsCond != p.tagsCond then some { s with pcs := s.pcs.set a (p, .done .conflict) }
      else some { s with pcs := s.pcs.set a (p, .done (.ok q)) }
    | none => some { s with pcs := s.pcs.set a (p, .createStart n) }
  | some (p, .createStart n) =>
    match s.reg.find p.name with
    | some _ => some { s with pcs := s.pcs.set a (p, nextAttempt n) }      -- "already exists": warn, next attempt
    | none => some { s with pcs := s.pcs.set a (p, .createChecked n) }
  | some (p, .createChecked n) =>
    match s.reg.find p.name with
    | some _ => some { s with pcs := s.pcs.set a (p, nextAttempt n) }
    | none => some { reg := p :: s.reg, pcs := s.pcs.set a (p, nextAttempt n) }   -- created; the loop goes on and re-reads
  | some (_, .done _) => none

def erun (s : EState) : List Nat → EState
  | [] => s
  | a :: as => match estep s a with
    | some s' => erun s' as
    | none => erun s as

/-! ## persistence of the registry (`savePipes` / `loadPipes`, `Service.Init`, `Service.Shutdown`)

`pipes.dat` holds the list of the pipe definitions as of the last `savePipes` call. `savePipes` snapshots the
whole registry under the lock and writes it; *which* operations call it is read from the source by the
extractor (`createSaves`, `deleteSaves`, `shutdownSaves`). `Init` loads the file (absent file = empty
registry), builds every pipe with `newPPipe` again and **fails** when one is refused. The JSON codec is a
contract: what is saved is what is loaded (C07 exercises torn files). The map's iteration order at save
time is irrelevant to everything proved about the registry (`listing_order_independent`), so the saved
list is the registry list itself. -/

structure PCfg where
  createSaves : Bool
  deleteSaves : Bool
  shutdownSaves : Bool
deriving DecidableEq, Repr

structure PState where
  mem : Reg
  disk : Option (List Pipe)      -- `none` = no pipes.dat yet

inductive POp where
  | op (o : Op)        -- an operation of a running server
  | restart            -- clean stop (`Shutdown`) and start (`Init`) on the same directory
  | crash              -- the process dies (no `Shutdown`), then `Init` on what is on disk

/-- `Init`: `none` = the server refuses to start (a stored pipe is refused by `newPPipe`) -/
def pload (acc : Pipe → Bool) (disk : Option (List Pipe)) : Option Reg :=
  let l := disk.getD []
  if l.all acc then some l else none

/-- does the operation change the registry? (a create / ensure of a fresh name whose conditions parse, a delete of an existing name) -/
def changes (r : Reg) : Op → Bool
  | .create p ok => (r.find p.name).isNone && ok
  | .ensure p ok => (r.find p.name).isNone && ok
  | .delete n => (r.find n).isSome
  | .get _ => false

/-- whether the conditions parse is a function of the definition (`acc`), not a free input -/
def withAcc (acc : Pipe → Bool) : Op → Op
  | .create p _ => .create p (acc p)
  | .ensure p _ => .ensure p (acc p)
  | o => o

/-- `savePipes` runs after a successful create (also the one inside ensure) and after a successful delete -/
def savesAfter (cfg : PCfg) (r : Reg) (o : Op) : Bool :=
  changes r o && (match o with
    | .create _ _ => cfg.createSaves
    | .ensure _ _ => cfg.createSaves
    | .delete _ => cfg.deleteSaves
    | .get _ => false)

/-- an operation of a running server on the persistent state (this is what the model driver executes; the
acceptance bit of the conditions travels with the operation) -/
def opStep (cfg : PCfg) (s : PState) (o : Op) : PState × Res :=
  (⟨(step s.mem o).1, if savesAfter cfg s.mem o then some (step s.mem o).1 else s.disk⟩, (step s.mem o).2)

/-- one step; the second component is the operation's result, `none` for a (re)start, `some .failed` for a refused start -/
def pstep (cfg : PCfg) (acc : Pipe → Bool) (s : PState) : POp → PState × Option Res
  | .op o => ((opStep cfg s (withAcc acc o)).1, some (opStep cfg s (withAcc acc o)).2)
  | .restart =>
    let disk := if cfg.shutdownSaves then some s.mem else s.disk
    match pload acc disk with
    | some m => (⟨m, disk⟩, none)
    | none => (⟨[], disk⟩, some .failed)
  | .crash =>
    match pload acc s.disk with
    | some m => (⟨m, s.disk⟩, none)
    | none => (⟨[], s.disk⟩, some .failed)

def prun (cfg : PCfg) (acc : Pipe → Bool) (s : PState) : List POp → PState
  | [] => s
  | o :: os => prun cfg acc (pstep cfg acc s o).1 os

/-! ## concurrent creates with persistence: `CreatePipe`'s two critical sections, then `savePipes`

`savePipes` snapshots the registry under the service lock and then writes the snapshot to `pipes.dat`.
Two calls can take their snapshots in one order and write them in the other — unless the whole of
`savePipes` is serialized by its own mutex (`serialized`, regenerated from the source:
`Generated.C19.savePipesSerialized`). A caller is told "created" only after its `savePipes` returned. -/

inductive SPc where
  | start
  | checked
  | snap                       -- registered; about to enter `savePipes`
  | write (sn : List Pipe)     -- snapshot taken; about to write it
  | done (ok : Bool)
deriving DecidableEq, Repr

structure SState where
  reg : Reg
  disk : List Pipe             -- content of pipes.dat
  saver : Option Nat           -- who holds the save mutex (serialized shape only)
  pcs : List (Pipe × SPc)

/-- actor `a` performs its next atomic step; `none` = nothing to do, or blocked on the save mutex -/
def sstep (serialized : Bool) (s : SState) (a : Nat) : Option SState :=
  match s.pcs[a]? with
  | none => none
  | some (p, .start) =>
    match s.reg.find p.name with
    | some _ => some { s with pcs := s.pcs.set a (p, .done false) }
    | none => some { s with pcs := s.pcs.set a (p, .checked) }
  | some (p, .checked) =>
    match s.reg.find p.name with
    | some _ => some { s with pcs := s.pcs.set a (p, .done false) }
    | none => some { s with reg := p :: s.reg, pcs := s.pcs.set a (p, .snap) }
  | some (p, .snap) =>
    if serialized then
      match s.saver with
      | some _ => none
      | none => some { s with saver := some a, pcs := s.pcs.set a (p, .write s.reg) }
    else some { s with pcs := s.pcs.set a (p, .write s.reg) }
  | some (p, .write sn) =>
    some { s with disk := sn, saver := if serialized then none else s.saver, pcs := s.pcs.set a (p, .done true) }
  | some (_, .done _) => none

def srun (serialized : Bool) (s : SState) : List Nat → SState
  | [] => s
  | a :: as => match sstep serialized s a with
    | some s' => srun serialized s' as
    | none => srun serialized s as

end Logrange.Registry
