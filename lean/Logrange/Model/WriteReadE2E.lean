import Logrange.Model.WriteLoopM
import Logrange.Proofs.RdIterDefs
/-!
# Write path composed with the read path — C01, end to end

The pieces that the C01 theorems treat one by one, put in a row:

* `writeAll` — a sequence of RPC `Write` request bodies to ONE partition, each acknowledged (`serveWriteSized`: `ServerIngestor.write`
  = `wpIterator.init` with its validation pass and record-size limit, `Service.Write` over the library's chunk/journal write
  contract), threaded through the partition's journal.
* `rdView` — the byte-level journal (`JournalW.Journal`: chunks of stored records) seen as the journal VALUE C03's iterator model
  walks (`Logrange.Rd.Journal`, read-only import): chunk `k` (1-based, as in `JournalW.positions`) has id `k`; its records are labelled with
  their global index into `readAll j`.
* `iterLabels` — the un-ranged read: `journal.JIterator` (C03's model `Rd.setPos / Rd.get / Rd.next`, drained with `Rd.drain`)
  from the head position `Pos{}`.
* `fetchDecode` — for every label the iterator delivers: the chunk iterator's read into a `maxRecordSize` buffer
  (`ErrBufferTooSmall` ends the read) and `LogEventIterator.Get` = `LogEvent.Unmarshal` into a released event.
* `queryLoop` — the loop of `ServerQuerier.query` / `backend.Querier.Query`: per event `Tags` = the partition's tag line,
  `Message`, `Timestamp`, and `Fields` = `AsKVString()` of the stored fields, re-computed only when the fields differ from the
  previous event's (`flds`/`kvsFields` cache; `asKV` is a parameter — `field.Fields.AsKVString`, C08/C13's).
* `encodePage / decodePage` — `queryResultBuilder` (`uint32` count, `writeLogEvent` per event, then the next request) and the
  client's `unmarshalQueryResult`; `clientRead` cuts the result into pages of `lim` events (`Limit`), sends each page through
  `responseOnWire` (the pooled-buffer lifetime fact) and decodes it.
* `readBack` — all of the above.
-/
namespace Logrange.E2E
open Go Logrange.WireRT Logrange.JournalW Logrange.WriteLoopM

/-- a sequence of Write request bodies, every one acknowledged: the journal afterwards and the acknowledged events per body.
`none` = some body was rejected. -/
def writeAll (parseKV : Bytes → Option Bytes) (maxChunk maxRec : Nat) : Journal → List Bytes → Option (Journal × List (List Event))
  | j, [] => some (j, [])
  | j, b :: bs =>
    match serveWriteSized parseKV maxChunk maxRec j b with
    | none => none
    | some (j1, es) => (writeAll parseKV maxChunk maxRec j1 bs).map (fun p => (p.1, es :: p.2))

/-- the journal value C03's iterator model walks -/
def rdViewFrom : Nat → Nat → Journal → Rd.Journal
  | _, _, [] => []
  | cid, off, c :: cs =>
    { id := cid, recs := (List.range c.recs.length).map (fun i => ({ lbl := off + i } : Rd.Rec)) } ::
      rdViewFrom (cid + 1) (off + c.recs.length) cs

def rdView (j : Journal) : Rd.Journal := rdViewFrom 1 0 j

/-- the un-ranged journal iterator, positioned at the head (`Pos{}`) and drained: the labels (global record indices) in
delivery order -/
def iterLabels (j : Journal) : List Nat :=
  (Rd.drain (rdView j) (readAll j).length (Rd.setPos (rdView j) {} {})).map (·.lbl)

/-- the records behind the delivered labels, each read into a `maxRec` buffer and unmarshalled into a released event -/
def fetchDecode (maxRec : Nat) (store : List Bytes) : List Nat → Option (List Event)
  | [] => some []
  | l :: ls =>
    match store[l]? with
    | none => none
    | some r =>
      if r.length > maxRec then none else
      match Event.unmarshal [] r with
      | .ok (_, e) => (fetchDecode maxRec store ls).map (e :: ·)
      | _ => none

/-- the `flds` / `kvsFields` cache of the query loops -/
structure QCache where
  flds : Bytes := []
  kvs : Bytes := []

/-- does the cached value look different from the event's fields? With a real copy (`flds = lge.Fields.MakeCopy()`, regenerated
fact `queryCacheKeepsCopy`) this is inequality of the byte strings; a cache that keeps the bare `lge.Fields` aliases the chunk
reader's buffer, which by then holds the NEW record: fields of equal length at the same offset compare equal (modelled: only the
lengths are compared). -/
def cacheDiffers (e : Event) (st : QCache) : Bool :=
  if Generated.C01.queryCacheKeepsCopy then decide (e.fields ≠ st.flds) else decide (e.fields.length ≠ st.flds.length)

/-- the condition under which the query loops refresh the printed fields: `lge.Fields != flds` (regenerated fact
`queryCacheRefreshOnAnyDifference`; the other shape the extractor knows has further conjuncts — modelled: `len(lge.Fields) > 0 &&`) -/
def cacheRefresh (e : Event) (st : QCache) : Bool :=
  if Generated.C01.queryCacheRefreshOnAnyDifference then cacheDiffers e st
  else decide (e.fields.length > 0) && cacheDiffers e st

/-- the loop of `ServerQuerier.query`: `if lge.Fields != flds { kvsFields = lge.Fields.AsKVString(); flds = lge.Fields.MakeCopy() }` -/
def queryLoop (asKV : Bytes → Bytes) (tagLine : Bytes) : QCache → List Event → List WEvent
  | _, [] => []
  | st, e :: es =>
    let st' : QCache := if cacheRefresh e st then ⟨e.fields, asKV e.fields⟩ else st
    ⟨e.ts, e.msg, tagLine, st'.kvs⟩ :: queryLoop asKV tagLine st' es

/-- `queryResultBuilder`: count, events, next request (`next`: its encoding, opaque here) -/
def encodePage (evs : List WEvent) (next : Bytes) : Bytes :=
  be (evs.length % two32) 4 ++ (encodeEvents evs ++ next)

/-- the event loop of `unmarshalQueryResult` -/
def decodeEvents : Nat → Bytes → Out (List WEvent)
  | 0, _ => .ok []
  | n+1, buf =>
    match decodeEvent buf with
    | .ok (k, e) =>
      (match decodeEvents n (buf.drop k) with
       | .ok es => .ok (e :: es)
       | .err => .err
       | .panic => .panic)
    | .err => .err
    | .panic => .panic

/-- `unmarshalQueryResult`, events part -/
def decodePage (buf : Bytes) : Out (List WEvent) :=
  match u32 buf with
  | .ok (_, n) => decodeEvents n (buf.drop 4)
  | .err => .err
  | .panic => .panic

/-- cut a result into pages of `lim` events -/
def pagesOf {α : Type} (lim : Nat) : Nat → List α → List (List α)
  | 0, _ => []
  | _, [] => []
  | fuel+1, x :: xs => (x :: xs).take lim :: pagesOf lim fuel ((x :: xs).drop lim)

/-- the client's side of a full read: every page is built, put on the wire, decoded; the events of all pages in order -/
def clientPages (next : Bytes) (env : Bytes → Bytes) : List (List WEvent) → Option (List WEvent)
  | [] => some []
  | p :: ps =>
    match decodePage (responseOnWire (encodePage p next) env) with
    | .ok es => (clientPages next env ps).map (es ++ ·)
    | _ => none

def clientRead (lim : Nat) (next : Bytes) (env : Bytes → Bytes) (evs : List WEvent) : Option (List WEvent) :=
  clientPages next env (pagesOf lim evs.length evs)

/-- **an un-filtered read of the whole partition through the RPC querier** -/
def readBack (asKV : Bytes → Bytes) (tagLine : Bytes) (maxRec lim : Nat) (next : Bytes) (env : Bytes → Bytes)
    (j : Journal) : Option (List WEvent) :=
  match fetchDecode maxRec (readAll j) (iterLabels j) with
  | none => none
  | some es => clientRead lim next env (queryLoop asKV tagLine {} es)

/-- what the property demands of one stored event when it comes back -/
def returned (asKV : Bytes → Bytes) (tagLine : Bytes) (e : Event) : WEvent := ⟨e.ts, e.msg, tagLine, asKV e.fields⟩

/-! ## a held cursor that is repositioned (`LogEventIterator` above the journal iterator) -/

/-- `model.LogEventIterator`'s own state: `st == 1` with the decoded event in `le` -/
structure LeiSt where
  kept : Option Event := none
deriving DecidableEq, Repr

/-- `LogEventIterator.Get` with the journal iterator underneath standing at record `l`: the early return on a kept event; otherwise
fetch + `Unmarshal` — and, if the source memoises (regenerated fact `leiKeepsNoEventAcrossCalls = false`: `lei.st = 1` after a
successful decode), the event is kept for the following calls -/
def leiGet (maxRec : Nat) (store : List Bytes) (l : Nat) (s : LeiSt) : LeiSt × Option Event :=
  match s.kept with
  | some e => (s, some e)
  | none =>
    match fetchDecode maxRec store [l] with
    | some [e] => (if Generated.C01.leiKeepsNoEventAcrossCalls then s else { kept := some e }, some e)
    | _ => (s, none)

/-- `LogEventIterator.Next` -/
def leiNext (_ : LeiSt) : LeiSt := {}

/-- a held cursor is repositioned (`cursor.ApplyState`: `SetPos` on the JOURNAL iterator, a `SetBackward` flip passed through): the
LogEventIterator above it is not told -/
def leiRepositioned (s : LeiSt) : LeiSt := s

/-- one page of at most `lim` events from label `l` on, labels `l, l+1, …` (the un-ranged iterator over a quiescent journal) -/
def leiPage (maxRec : Nat) (store : List Bytes) : Nat → Nat → LeiSt → List Event × LeiSt
  | 0, _, s => ([], s)
  | lim+1, l, s =>
    match leiGet maxRec store l s with
    | (s1, some e) => let r := leiPage maxRec store lim (l + 1) (leiNext s1); (e :: r.1, r.2)
    | (s1, none) => ([], s1)

end Logrange.E2E
