import Logrange.Model.KV
/-!
# `pkg/model/tag`: `Parse`, `tagMap.line()`, `SubsetOf`, and the `Safe` class of tag sets

`lineOf order` is the loop of `tagMap.line()` over the map's entries in iteration order `order` (Go randomises
it): insert every key at `sort.SearchStrings(srtKeys, k)` (first index whose key is `≥ k`), then print
`k=v` joined by `,`, quoting `v` with `strconv.Quote` when the trigger regenerated from the source says so.
-/
namespace Logrange.Tags
open Go Logrange.Quote Logrange.KV

/-- `tag.Parse`: the empty text is the empty set, everything else goes through `kvstring.ToMap` -/
def parse (t : Bytes) : Option Map := if t.isEmpty then some [] else toMap t

/-- the condition of `tagMap.line()` under which a value is printed through `strconv.Quote` -/
def needsQuote (v : Bytes) : Bool :=
  (Logrange.Generated.C08.tagQuoteEmpty && v.isEmpty) || Logrange.Generated.C08.tagQuoteBytes.any (fun c => v.contains c)

/-- insert at `sort.SearchStrings`' index: before the first entry whose key is not smaller -/
def insertSorted (p : Bytes × Bytes) : List (Bytes × Bytes) → List (Bytes × Bytes)
  | [] => [p]
  | q :: r => if bytesLt q.1 p.1 then q :: insertSorted p r else p :: q :: r

def sortEntries (order : List (Bytes × Bytes)) : List (Bytes × Bytes) :=
  order.foldl (fun acc p => insertSorted p acc) []

def encTag (v : Bytes) : Bytes := if needsQuote v then quote v else v

def item (enc : Bytes → Bytes) (p : Bytes × Bytes) : Bytes := p.1 ++ EQ :: enc p.2

def joinItems : List Bytes → Bytes
  | [] => []
  | [x] => x
  | x :: y :: r => x ++ CM :: joinItems (y :: r)

def lineOf (order : List (Bytes × Bytes)) : Bytes := joinItems ((sortEntries order).map (item encTag))

/-- the canonical line of a set (iteration order = the representation's order; `line_deterministic` shows the
order is irrelevant) -/
def line (m : Map) : Bytes := lineOf m

/-- `Set.SubsetOf` -/
def subsetOf (m1 m2 : Map) : Bool := mapSubset m1 m2

/-! ## The class of sets on which emitting and re-reading is the identity (DESIGN §C08)

`scan` is `SplitString`'s automaton reduced to what matters for a piece: the in-string flag; `none` = it met a
top-level separator or a backslash skipped past the end of the piece. -/

def scan : Bytes → Bool → Option Bool
  | [], b => some b
  | c :: rest, b =>
    if c == DQ then scan rest (!b)
    else if c == BS && b then
      match rest with
      | [] => none
      | _ :: rest' => scan rest' b
    else if (c == EQ || c == CM) && !b then none
    else scan rest b

/-- started outside a string, the automaton meets no top-level separator and ends outside a string -/
def inert (p : Bytes) : Bool := scan p false == some false

def trimmed (p : Bytes) : Bool := p.head? != some SP && p.getLast? != some SP

def safeKey (k : Bytes) : Bool := !k.isEmpty && trimmed k && inert k && k.head? != some LB

def safeRaw (v : Bytes) : Bool :=
  !v.isEmpty && trimmed v && inert v && v.head? != some DQ && v.head? != some BQ && v.getLast? != some RB

def safePair (p : Bytes × Bytes) : Bool := safeKey p.1 && (needsQuote p.2 || safeRaw p.2)

/-- the decidable hypothesis of the `_partial` theorems; its negation is the class predicate of finding F08 -/
def safe (m : Map) : Bool := m.all safePair

/-- the trigger the class of the open finding F08 was written for — pinned here, NOT regenerated: if the code's
trigger changes, `Props.C08.quote_trigger_pinned` fails and failures outside this class are violations -/
def needsQuotePinned (v : Bytes) : Bool := v.isEmpty || v.contains 44 || v.contains 61

def safePairPinned (p : Bytes × Bytes) : Bool := safeKey p.1 && (needsQuotePinned p.2 || safeRaw p.2)

/-- class predicate of finding F08 (its negation): `safe` with the pinned trigger -/
def safePinned (m : Map) : Bool := m.all safePairPinned

/-- the proposed repair's rule (proposed-fixes/F08.diff): quote every value that is not `safeRaw` -/
def encFixed (v : Bytes) : Bytes := if safeRaw v then v else quote v

end Logrange.Tags
