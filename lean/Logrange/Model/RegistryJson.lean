import Logrange.Model.Registry
/-!
# `pipes.dat` as bytes: a model of `encoding/json` (Go 1.23) for `[]Pipe`

`savePipes` writes `json.Marshal([]Pipe)`, `Service.Init` reads it back with `json.Unmarshal` and stores every loaded
definition in the map `ppipes` in file order (a later duplicate name overwrites the earlier one).

* `jsonString` is `appendString(dst, s, escapeHTML = true)` (`encode.go`): bytes `< 0x80` of `htmlSafeSet` are copied;
  `\\ \" \b \f \n \r \t` short escapes; `\u00XX` (lower-case hex) for the other control bytes and for `< > &`;
  a byte that does not start a valid UTF-8 sequence → the six bytes backslash `ufffd`; U+2028 / U+2029 → backslash `u2028` /
  backslash `u2029`;
  every other rune copied.
* `junquote` is the scanner (`scanner.go`: which escapes are legal, where the literal ends) followed by `unquoteBytes`
  (`decode.go`): `\" \\ \/ \b \f \n \r \t \uXXXX` (UTF-16 surrogate pairs combined, a lone surrogate → U+FFFD);
  a raw byte `< 0x20` is an error; a raw byte that does not start a valid UTF-8 sequence → U+FFFD; valid UTF-8 copied.
  (`unquoteBytes` alone would also accept `\'`, but the scanner has rejected it before.)
* `encPipes` / `decPipes`: the array of objects `{"Name":…,"TagsCond":…,"FltCond":…}`; `decPipes` is a strict parser of
  exactly that layout (`none` = outside the fragment the encoder emits).
* `JState` / `jstep` / `jrun`: the persistent registry machine of `Logrange.Registry` with the file content as bytes.
-/
namespace Logrange.Registry
open Go

def jRuneError : Nat := 0xFFFD

/-- utf8.DecodeRune: returns (rune, width); invalid → (RuneError, 1); empty → (RuneError, 0) -/
def jDecodeRune (s : Bytes) : Nat × Nat :=
  match s with
  | [] => (jRuneError, 0)
  | b0 :: rest =>
    let c0 := b0.toNat
    if c0 < 0x80 then (c0, 1)
    else if c0 < 0xC2 then (jRuneError, 1)
    else if c0 < 0xE0 then
      match rest with
      | b1 :: _ => let c1 := b1.toNat
        if 0x80 ≤ c1 && c1 ≤ 0xBF then ((c0 - 0xC0) * 64 + (c1 - 0x80), 2) else (jRuneError, 1)
      | _ => (jRuneError, 1)
    else if c0 < 0xF0 then
      match rest with
      | b1 :: b2 :: _ => let c1 := b1.toNat; let c2 := b2.toNat
        let lo := if c0 == 0xE0 then 0xA0 else 0x80
        let hi := if c0 == 0xED then 0x9F else 0xBF
        if lo ≤ c1 && c1 ≤ hi && 0x80 ≤ c2 && c2 ≤ 0xBF then
          ((c0 - 0xE0) * 4096 + (c1 - 0x80) * 64 + (c2 - 0x80), 3) else (jRuneError, 1)
      | _ => (jRuneError, 1)
    else if c0 < 0xF5 then
      match rest with
      | b1 :: b2 :: b3 :: _ => let c1 := b1.toNat; let c2 := b2.toNat; let c3 := b3.toNat
        let lo := if c0 == 0xF0 then 0x90 else 0x80
        let hi := if c0 == 0xF4 then 0x8F else 0xBF
        if lo ≤ c1 && c1 ≤ hi && 0x80 ≤ c2 && c2 ≤ 0xBF && 0x80 ≤ c3 && c3 ≤ 0xBF then
          ((c0 - 0xF0) * 262144 + (c1 - 0x80) * 4096 + (c2 - 0x80) * 64 + (c3 - 0x80), 4) else (jRuneError, 1)
      | _ => (jRuneError, 1)
    else (jRuneError, 1)

/-- the position does not start a valid UTF-8 sequence: `c == utf8.RuneError && size == 1` -/
def jBad (rw : Nat × Nat) : Bool := rw.1 == jRuneError && rw.2 == 1

def jsanGo : Nat → Bytes → Bytes
  | 0, _ => []
  | _ + 1, [] => []
  | f + 1, c :: rest =>
    if c.toNat < 0x80 then c :: jsanGo f rest
    else
      if jBad (jDecodeRune (c :: rest)) then [0xEF, 0xBF, 0xBD] ++ jsanGo f rest
      else (c :: rest).take (jDecodeRune (c :: rest)).2 ++ jsanGo f ((c :: rest).drop (jDecodeRune (c :: rest)).2)

/-- `Unmarshal(Marshal(s))` for a Go string: every byte that does not start a valid UTF-8 sequence becomes U+FFFD -/
def jsanitize (s : Bytes) : Bytes := jsanGo (s.length + 1) s

def validGo : Nat → Bytes → Bool
  | 0, _ => true
  | _ + 1, [] => true
  | f + 1, c :: rest =>
    if c.toNat < 0x80 then validGo f rest
    else
      if jBad (jDecodeRune (c :: rest)) then false
      else validGo f ((c :: rest).drop (jDecodeRune (c :: rest)).2)

/-- `utf8.Valid` (the three bytes EF BF BD are a valid encoding of U+FFFD) -/
def validUtf8 (s : Bytes) : Bool := validGo (s.length + 1) s

/-! ## the encoder -/

/-- `hex = "0123456789abcdef"` -/
def hexDigit (n : Nat) : UInt8 := if n < 10 then UInt8.ofNat (0x30 + n) else UInt8.ofNat (0x61 + (n - 10))

/-- `htmlSafeSet[b]` for `b < 0x80`: everything from 0x20 up except `"`, `&`, `<`, `>`, `\` -/
def htmlSafe (c : UInt8) : Bool :=
  0x20 ≤ c.toNat && !(c == 0x22) && !(c == 0x26) && !(c == 0x3c) && !(c == 0x3e) && !(c == 0x5c)

/-- what `appendString` writes for one byte `< 0x80` -/
def encAscii (c : UInt8) : Bytes :=
  if htmlSafe c then [c]
  else if c == 0x5c || c == 0x22 then [0x5c, c]
  else if c == 0x08 then [0x5c, 0x62]
  else if c == 0x0c then [0x5c, 0x66]
  else if c == 0x0a then [0x5c, 0x6e]
  else if c == 0x0d then [0x5c, 0x72]
  else if c == 0x09 then [0x5c, 0x74]
  else [0x5c, 0x75, 0x30, 0x30, hexDigit (c.toNat / 16), hexDigit (c.toNat % 16)]

def jsonBodyGo : Nat → Bytes → Bytes
  | 0, _ => []
  | _ + 1, [] => []
  | f + 1, c :: rest =>
    if c.toNat < 0x80 then encAscii c ++ jsonBodyGo f rest
    else
      if jBad (jDecodeRune (c :: rest)) then [0x5c, 0x75, 0x66, 0x66, 0x66, 0x64] ++ jsonBodyGo f rest
      else if (jDecodeRune (c :: rest)).1 == 0x2028 || (jDecodeRune (c :: rest)).1 == 0x2029 then
        [0x5c, 0x75, 0x32, 0x30, 0x32, hexDigit ((jDecodeRune (c :: rest)).1 % 16)] ++
          jsonBodyGo f ((c :: rest).drop (jDecodeRune (c :: rest)).2)
      else (c :: rest).take (jDecodeRune (c :: rest)).2 ++ jsonBodyGo f ((c :: rest).drop (jDecodeRune (c :: rest)).2)

/-- the quoted JSON text `encoding/json` writes for the Go string `s` -/
def jsonString (s : Bytes) : Bytes := 0x22 :: (jsonBodyGo (s.length + 1) s ++ [0x22])

def keyName : Bytes := [0x7b, 0x22, 0x4e, 0x61, 0x6d, 0x65, 0x22, 0x3a]                                        -- {"Name":
def keyTags : Bytes := [0x2c, 0x22, 0x54, 0x61, 0x67, 0x73, 0x43, 0x6f, 0x6e, 0x64, 0x22, 0x3a]              -- ,"TagsCond":
def keyFlt : Bytes := [0x2c, 0x22, 0x46, 0x6c, 0x74, 0x43, 0x6f, 0x6e, 0x64, 0x22, 0x3a]                     -- ,"FltCond":

def encPipe (p : Pipe) : Bytes :=
  keyName ++ jsonString p.name ++ keyTags ++ jsonString p.tagsCond ++ keyFlt ++ jsonString p.fltCond ++ [0x7d]

def encTail : List Pipe → Bytes
  | [] => [0x5d]
  | p :: ps => 0x2c :: (encPipe p ++ encTail ps)

/-- `json.Marshal(ps)` for a non-nil `[]Pipe` -/
def encPipes : List Pipe → Bytes
  | [] => [0x5b, 0x5d]
  | p :: ps => 0x5b :: (encPipe p ++ encTail ps)

/-! ## the decoder -/

def unhex (c : UInt8) : Option Nat :=
  if 0x30 ≤ c.toNat && c.toNat ≤ 0x39 then some (c.toNat - 0x30)
  else if 0x61 ≤ c.toNat && c.toNat ≤ 0x66 then some (c.toNat - 0x61 + 10)
  else if 0x41 ≤ c.toNat && c.toNat ≤ 0x46 then some (c.toNat - 0x41 + 10)
  else none

/-- `getu4` on the four digits -/
def hex4 (a b c d : UInt8) : Option Nat :=
  match unhex a, unhex b, unhex c, unhex d with
  | some x, some y, some z, some w => some (((x * 16 + y) * 16 + z) * 16 + w)
  | _, _, _, _ => none

/-- utf8.EncodeRune -/
def encodeRune (r : Nat) : Bytes :=
  if r < 0x80 then [UInt8.ofNat r]
  else if r < 0x800 then [UInt8.ofNat (0xC0 + r / 64), UInt8.ofNat (0x80 + r % 64)]
  else if (0xD800 ≤ r && r < 0xE000) || 0x10FFFF < r then [0xEF, 0xBF, 0xBD]
  else if r < 0x10000 then [UInt8.ofNat (0xE0 + r / 4096), UInt8.ofNat (0x80 + r / 64 % 64), UInt8.ofNat (0x80 + r % 64)]
  else [UInt8.ofNat (0xF0 + r / 262144), UInt8.ofNat (0x80 + r / 4096 % 64), UInt8.ofNat (0x80 + r / 64 % 64),
        UInt8.ofNat (0x80 + r % 64)]

def isSurrogate (r : Nat) : Bool := 0xD800 ≤ r && r < 0xE000

/-- the low half of a surrogate pair at the head of `s` (`getu4` + `utf16.DecodeRune`): the combined rune and the rest -/
def lowSurrogate (hi : Nat) (s : Bytes) : Option (Nat × Bytes) :=
  match s with
  | b :: u :: h1 :: h2 :: h3 :: h4 :: r =>
    if b == 0x5c && u == 0x75 then
      match hex4 h1 h2 h3 h4 with
      | some lo =>
        if hi < 0xDC00 && 0xDC00 ≤ lo && lo < 0xE000 then some ((hi - 0xD800) * 1024 + (lo - 0xDC00) + 0x10000, r)
        else none
      | none => none
    else none
  | _ => none

/-- the one-byte escapes the scanner accepts: `\" \\ \/ \b \f \n \r \t` -/
def simpleEsc (e : UInt8) : Option UInt8 :=
  if e == 0x22 || e == 0x5c || e == 0x2f then some e
  else if e == 0x62 then some 0x08
  else if e == 0x66 then some 0x0c
  else if e == 0x6e then some 0x0a
  else if e == 0x72 then some 0x0d
  else if e == 0x74 then some 0x09
  else none

def jpre (x : Bytes) (r : Option (Bytes × Bytes)) : Option (Bytes × Bytes) := r.map (fun p => (x ++ p.1, p.2))

/-- the body of a string literal (after the opening quote) up to and including the closing quote -/
def junqGo : Nat → Bytes → Option (Bytes × Bytes)
  | 0, _ => none
  | _ + 1, [] => none
  | f + 1, c :: rest =>
    if c == 0x22 then some ([], rest)
    else if c == 0x5c then
      match rest with
      | [] => none
      | e :: rest1 =>
        if e == 0x75 then
          match rest1 with
          | h1 :: h2 :: h3 :: h4 :: rest4 =>
            match hex4 h1 h2 h3 h4 with
            | none => none
            | some rr =>
              if isSurrogate rr then
                match lowSurrogate rr rest4 with
                | some (dec, rest10) => jpre (encodeRune dec) (junqGo f rest10)
                | none => jpre [0xEF, 0xBF, 0xBD] (junqGo f rest4)
              else jpre (encodeRune rr) (junqGo f rest4)
          | _ => none
        else
          match simpleEsc e with
          | some b => jpre [b] (junqGo f rest1)
          | none => none
    else if c.toNat < 0x20 then none
    else if c.toNat < 0x80 then jpre [c] (junqGo f rest)
    else
      if jBad (jDecodeRune (c :: rest)) then jpre [0xEF, 0xBF, 0xBD] (junqGo f rest)
      else jpre ((c :: rest).take (jDecodeRune (c :: rest)).2) (junqGo f ((c :: rest).drop (jDecodeRune (c :: rest)).2))

/-- one JSON string literal at the head of `s`: (the decoded Go string, the rest after the closing quote) -/
def junquote (s : Bytes) : Option (Bytes × Bytes) :=
  match s with
  | [] => none
  | c :: rest => if c == 0x22 then junqGo (rest.length + 1) rest else none

/-- `lit` is a prefix of `s`: the rest -/
def expect : Bytes → Bytes → Option Bytes
  | [], s => some s
  | _ :: _, [] => none
  | l :: ls, c :: s => if l == c then expect ls s else none

def decPipe (s : Bytes) : Option (Pipe × Bytes) :=
  match expect keyName s with
  | none => none
  | some s1 =>
    match junquote s1 with
    | none => none
    | some (n, s2) =>
      match expect keyTags s2 with
      | none => none
      | some s3 =>
        match junquote s3 with
        | none => none
        | some (t, s4) =>
          match expect keyFlt s4 with
          | none => none
          | some s5 =>
            match junquote s5 with
            | none => none
            | some (fl, s6) =>
              match expect [0x7d] s6 with
              | none => none
              | some s7 => some (⟨n, t, fl⟩, s7)

/-- the elements after the opening bracket (at least one) and the closing bracket, which must end the input -/
def decList : Nat → Bytes → Option (List Pipe)
  | 0, _ => none
  | f + 1, s =>
    match decPipe s with
    | none => none
    | some (p, r) =>
      match r with
      | [] => none
      | c :: r1 =>
        if c == 0x5d then (if r1.isEmpty then some [p] else none)
        else if c == 0x2c then (decList f r1).map (fun l => p :: l)
        else none

/-- strict parser of the layout `encPipes` emits; `none` = outside this fragment -/
def decPipes (b : Bytes) : Option (List Pipe) :=
  match b with
  | [] => none
  | c :: r =>
    if c == 0x5b then
      match r with
      | [] => none
      | d :: r1 => if d == 0x5d then (if r1.isEmpty then some [] else none) else decList (r.length + 1) r
    else none

/-! ## what `Init` leaves in the map -/

/-- `for _, st := range res { s.ppipes[st.Name] = … }` as a list: file order kept, a duplicate name overwrites in place -/
def loadMap (l : List Pipe) : Reg :=
  l.foldl (fun r p => if (r.find p.name).isSome then r.map (fun q => if q.name == p.name then p else q) else r ++ [p]) []

def sanitizePipe (p : Pipe) : Pipe := ⟨jsanitize p.name, jsanitize p.tagsCond, jsanitize p.fltCond⟩

def pipeUtf8 (p : Pipe) : Bool := validUtf8 p.name && validUtf8 p.tagsCond && validUtf8 p.fltCond

/-! ## the persistent machine on bytes -/

structure JState where
  mem : Reg
  file : Option Bytes          -- `none` = no pipes.dat

/-- `Init`: `none` = the server refuses to start (unreadable file, or a stored pipe refused by `newPPipe`) -/
def jload (acc : Pipe → Bool) (file : Option Bytes) : Option Reg :=
  match file with
  | none => some []
  | some b =>
    match decPipes b with
    | none => none
    | some l => if l.all acc then some (loadMap l) else none

def jopStep (cfg : PCfg) (s : JState) (o : Op) : JState × Res :=
  (⟨(step s.mem o).1, if savesAfter cfg s.mem o then some (encPipes (step s.mem o).1) else s.file⟩, (step s.mem o).2)

def jstep (cfg : PCfg) (acc : Pipe → Bool) (s : JState) : POp → JState × Option Res
  | .op o => ((jopStep cfg s (withAcc acc o)).1, some (jopStep cfg s (withAcc acc o)).2)
  | .restart =>
    let file := if cfg.shutdownSaves then some (encPipes s.mem) else s.file
    match jload acc file with
    | some m => (⟨m, file⟩, none)
    | none => (⟨[], file⟩, some .failed)
  | .crash =>
    match jload acc s.file with
    | some m => (⟨m, s.file⟩, none)
    | none => (⟨[], s.file⟩, some .failed)

def jrun (cfg : PCfg) (acc : Pipe → Bool) (s : JState) : List POp → JState
  | [] => s
  | o :: os => jrun cfg acc (jstep cfg acc s o).1 os

end Logrange.Registry
