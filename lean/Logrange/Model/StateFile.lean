import Logrange.Go.Basic
/-!
# The state file under a crash (`pkg/storage/storage.go: fileStorage.WriteData`)

What `scanner.json` / `forwarder.json` can hold after a crash at any point of one `WriteData(new)` over the content
`old` (sequential crash model: a crash keeps a prefix of the steps, a write may be cut anywhere).
* in place (`ioutil.WriteFile` on the file itself, the code before fix e59ee79): open with `O_TRUNC` — the file is
  empty —, then the write — any prefix of `new` —, then complete;
* aside + rename (fix e59ee79): the temporary file goes through those states, the state file itself is `old` until
  the rename and `new` after it.
-/
namespace Logrange.StateFile

/-- all prefixes of `b`, shortest first -/
def prefixes : Bytes → List Bytes
  | [] => [[]]
  | x :: xs => [] :: (prefixes xs).map (x :: ·)

def crashCuts (atomic : Bool) (old new : Bytes) : List Bytes :=
  if atomic then [old, new] else old :: prefixes new

end Logrange.StateFile
