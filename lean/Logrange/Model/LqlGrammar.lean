import Logrange.Go.Basic
/-!
# LQL: token and grammar-node types (shared by the regenerated grammar `Generated/C12.lean`, the engine and the lexer)

`Node` is participle v0.2.1's grammar node type as `grammar.go` builds it from struct tags: sequence, disjunction,
group with a match mode (`( … )`, `( … )?` = `[ … ]`, `( … )*` = `{ … }`), capture into a field, token reference,
literal, and struct indirection (`@@`).
-/
namespace Logrange.Lql

/-- token types = the named groups of `lqlLexer`, in the order of the pattern -/
inductive TT | keyword | ident | string | operator | number | tags
deriving DecidableEq, Repr

structure Tok where
  t : TT
  v : Bytes
deriving DecidableEq, Repr

inductive Mode | once | zeroOrOne | zeroOrMore
deriving DecidableEq

inductive Node
  | seq (ns : List Node)
  | disj (ns : List Node)
  | group (n : Node) (m : Mode)
  | capture (field : String) (n : Node)
  | ref (t : TT)
  | lit (s : Bytes)
  | strct (name : String)

end Logrange.Lql
