import Logrange.Model.WriteReadE2E
import Logrange.Proofs.RdRngDefs
/-!
# The end-to-end read of C01 with a TIME RANGE, and through `backend.Querier` — extension of `Model/WriteReadE2E.lean`

* `rdViewW` — the byte journal as the journal value C03's RANGED iterator model walks (`partition.JIterator` over `chkSelector`,
  `Model/RdSelector.lean`, read-only import): records carry their timestamps (`tsOf`: what `LogEvent.Unmarshal` reads), chunk `k`
  carries the window `win k = (minPos, maxPos)` the time index answers for it (the time index is C02's; window soundness
  `Rd.WinSound` is the input contract of the theorem, exactly as in C03's `ranged_iter_enumerates`).
* `iterLabelsRanged` — ranged iterator from the head, drained, every delivered record re-checked against the range (`fiterator`).
* `readBackRanged` — … then fetch + unmarshal, query loop, result pages as in `readBack`.
* `readBackQuerier` — the un-ranged read through the in-process `backend.Querier.Query`: same iterator, same loop with the same
  fields cache (the regenerated cache facts cover both loops), pages of `lim` events handed over as Go values — no wire codec.
-/
namespace Logrange.E2E
open Go Logrange.WireRT Logrange.JournalW Logrange.WriteLoopM

/-- the timestamp the time index and the range re-check see for a stored record -/
def tsOf (r : Bytes) : Int :=
  match Event.unmarshal [] r with
  | .ok (_, e) => tsInt e.ts
  | _ => 0

/-- the journal value for a RANGED read: chunk `k` (0-based) carries the window `win k = (minPos, maxPos)` the time index answers
for it, the records carry their timestamps -/
def rdViewWFrom (win : Nat → Nat × Nat) : Nat → Nat → Nat → Journal → Rd.Journal
  | _, _, _, [] => []
  | k, cid, off, c :: cs =>
    { id := cid, recs := (List.range c.recs.length).map (fun i => ({ lbl := off + i, ts := tsOf (c.recs.getD i []) } : Rd.Rec)),
      minPos := (win k).1, maxPos := (win k).2 } ::
      rdViewWFrom win (k + 1) (cid + 1) (off + c.recs.length) cs

def rdViewW (win : Nat → Nat × Nat) (j : Journal) : Rd.Journal := rdViewWFrom win 0 1 0 j

/-- the ranged journal iterator (`partition.JIterator` over `chkSelector`) from the head, drained, every delivered record
re-checked against the range as `fiterator.Get` does: the labels in delivery order -/
def iterLabelsRanged (win : Nat → Nat × Nat) (lo hi : Option Int) (j : Journal) : List Nat :=
  ((Rd.rDrain (rdViewW win j) (readAll j).length (Rd.rSetPos (rdViewW win j) {} {})).filter (Rd.inRange lo hi)).map (·.lbl)

def tsInRange (lo hi : Option Int) (t : Int) : Bool :=
  (match lo with | some m => decide (m ≤ t) | none => true) && (match hi with | some m => decide (t ≤ m) | none => true)


/-- a time-range read of the whole partition through the RPC querier -/
def readBackRanged (win : Nat → Nat × Nat) (lo hi : Option Int) (asKV : Bytes → Bytes) (tagLine : Bytes) (maxRec lim : Nat)
    (next : Bytes) (env : Bytes → Bytes) (j : Journal) : Option (List WEvent) :=
  match fetchDecode maxRec (readAll j) (iterLabelsRanged win lo hi j) with
  | none => none
  | some es => clientRead lim next env (queryLoop asKV tagLine {} es)

/-- an un-filtered read of the whole partition through the in-process `backend.Querier` (pages of `lim` events, no wire codec) -/
def readBackQuerier (asKV : Bytes → Bytes) (tagLine : Bytes) (maxRec lim : Nat) (j : Journal) : Option (List WEvent) :=
  match fetchDecode maxRec (readAll j) (iterLabels j) with
  | none => none
  | some es => some (pagesOf lim es.length (queryLoop asKV tagLine {} es)).flatten

end Logrange.E2E
