import Logrange.Model.Ring
/-!
# The cursor provider's cache (pkg/cursor/provider.go), step by step

State: the busy ring and the free ring (`container.CLElement` rings, see `Model/Ring.lean`), the holders
(`curHldr`, one per ring element), the id map `p.curs` (a Go map: look-up function + `len`), `freePoolSz`.
Ghost state per cursor object (`crsr`): the id/query/position it was built with, `acquired` (partitions taken by
`Itf.GetJournals`), `closed` (partitions given back through `Itf.Release` — the real `close()` releases what
`jDescs` holds and then sets `jDescs = nil`, so it is idempotent per object: `closed := acquired`),
`closeCalls` (every call of `close()`), `held` (handed to a request by `GetOrCreate` and not yet passed to `Release`).

`GetOrCreate` is split where the code drops the lock: `lookup` (first locked section), `create`
(`newCursor`, outside the lock), `insert` (second locked section), so that two requests can be interleaved;
`getOrCreate` is their sequential composition.

Inputs that the model does not compute: whether the supplied position can be applied (`posOk`), what
`newCursor` runs into (`CreateKind`), the number/id of a newly built cursor (`newCur`, `newId` — the harness
reports what the real code produced: the journal handed out by the counting factory, `utils.NextSimpleId()`).
Time: `now` is the model's clock; the harness ages the real holders by the same amount instead of sleeping.
-/
namespace Logrange.Provider
open Logrange.Ring

/-- `curHldr` -/
structure Holder where
  busy : Bool := false
  cur : Option Nat := none
  exp : Int := 0
deriving Inhabited, Repr, DecidableEq

/-- a `crsr` object (+ ghost fields) -/
structure CurI where
  id : Nat := 0
  query : Nat := 0
  pos : Nat := 0
  acquired : Nat := 0
  closed : Nat := 0
  closeCalls : Nat := 0
  held : Bool := false
  /-- ghost: this object was returned to a request as a cursor at least once (`create … .ok`); the record of a
      failed `newCursor` (`posErr`: journals taken and given back by `releaseJournals`, no cursor) has `false` -/
  handed : Bool := false
deriving Inhabited, Repr, DecidableEq

/-- a Go `map[uint64]*CLElement` with its `len` -/
structure IdMap where
  get : Nat → Option Nat := fun _ => none
  size : Nat := 0

def IdMap.set (m : IdMap) (k v : Nat) : IdMap :=
  { get := fun x => if x = k then some v else m.get x
    size := if (m.get k).isSome then m.size else m.size + 1 }

def IdMap.del (m : IdMap) (k : Nat) : IdMap :=
  { get := fun x => if x = k then none else m.get x
    size := if (m.get k).isSome then m.size - 1 else m.size }

/-- the free pool's cap in `sweepByTime` (`p.freePoolSz < 1000`) -/
def freePoolCap : Nat := 1000

structure St where
  ring : Ring := []
  holders : Nat → Holder := fun _ => {}
  curs : IdMap := {}
  free : Ring := []
  freeSz : Nat := 0
  nextElem : Nat := 0
  cursors : Nat → CurI := fun _ => {}
  now : Int := 0
  maxCurs : Nat := 50000
  idleTo : Int := 60
  busyTo : Int := 300
  panicked : Bool := false

def init (maxCurs : Nat) (idleTo busyTo : Int) : St := { maxCurs := maxCurs, idleTo := idleTo, busyTo := busyTo }

def hset (s : St) (e : Nat) (h : Holder) : St :=
  { s with holders := fun x => if x = e then h else s.holders x }
def setCur (s : St) (c : Nat) (i : CurI) : St :=
  { s with cursors := fun x => if x = c then i else s.cursors x }
/-- `cur.close()`: releases the partitions still in `jDescs`, then `jDescs = nil` -/
def closeCur (s : St) (c : Nat) : St :=
  let i := s.cursors c
  setCur s c { i with closed := i.acquired, closeCalls := i.closeCalls + 1 }
/-- `p.busy = p.busy.TearOff(e); p.busy = e.Append(p.busy)` -/
def toHead (s : St) (e : Nat) : St :=
  { s with ring := append [e] (tearOff s.ring (some e)) }

inductive LookupRes where
  | refused          -- holder busy: error "concurrent request"
  | hit (c : Nat)    -- the cached cursor, now busy
  | applyFail        -- ApplyState failed: `state.Id = 0`, fall through
  | miss             -- id not in the map: fall through with the same id
  | noId             -- `state.Id == 0`: the first locked section is skipped
  | nilDeref         -- map entry whose holder has no cursor (Go: nil dereference) — shown unreachable
deriving Repr, DecidableEq

/-- first locked section of `GetOrCreate`; returns the state, the result and the id the request goes on with -/
def lookup (s : St) (id query pos : Nat) (posOk : Bool) : St × LookupRes × Nat :=
  if id > 0 then
    match s.curs.get id with
    | some e =>
      let h := s.holders e
      if h.busy then (s, .refused, id)
      else
        match h.cur with
        | none => ({ s with panicked := true }, .nilDeref, id)
        | some c =>
          let ci := s.cursors c
          -- ApplyState: query or id differ, or a different position that cannot be applied
          if ci.query ≠ query ∨ ci.id ≠ id ∨ (ci.pos ≠ pos ∧ posOk = false) then (s, .applyFail, 0)
          else
            let s := setCur s c { ci with pos := pos, held := true }
            let s := hset s e { h with busy := true, exp := s.now + s.busyTo }
            (toHead s e, .hit c, id)
    | none => (s, .miss, id)
  else (s, .noId, id)

inductive CreateKind where
  | ok        -- sources found, position applied
  | posErr    -- sources acquired, `applyPos` fails: `releaseJournals`, error
  | noSrc     -- `errNoSources`: the shared `emptyCur`, nothing acquired, nothing cached
deriving Repr, DecidableEq

inductive CreateRes where
  | cur (c : Nat)
  | empty
  | error
deriving Repr, DecidableEq

/-- `newCursor(ctx, state, p.Itf)` outside the lock (`id = 0` is replaced by `utils.NextSimpleId()` first) -/
def create (s : St) (id query pos : Nat) (kind : CreateKind) (newCur newId : Nat) : St × CreateRes :=
  let id := if id = 0 then newId else id
  match kind with
  | .noSrc => (s, .empty)
  | .posErr => (setCur s newCur { id := id, query := query, pos := pos, acquired := 1, closed := 1 }, .error)
  | .ok => (setCur s newCur { id := id, query := query, pos := pos, acquired := 1, held := true, handed := true }, .cur newCur)

inductive InsertRes where
  | cached
  | lateRefused   -- only with `checkExisting` (the proposed repair of F16): an entry appeared meanwhile
deriving Repr, DecidableEq

/-- second locked section of `GetOrCreate`. `checkExisting` is the regenerated fact
    `Generated.C15.insertChecksExisting` (false for the code as it is: the map entry is overwritten blindly). -/
def insert (checkExisting : Bool) (s : St) (c : Nat) : St × InsertRes :=
  let ci := s.cursors c
  if checkExisting && (s.curs.get ci.id).isSome then
    (closeCur (setCur s c { ci with held := false }) c, .lateRefused)
  else
    let (s, e) := match s.free with
      | f :: rest => ({ s with free := rest, freeSz := s.freeSz - 1 }, f)
      | [] => ({ s with nextElem := s.nextElem + 1 }, s.nextElem)
    let s := hset s e { busy := true, cur := some c, exp := s.now + s.busyTo }
    let s := { s with ring := append [e] s.ring }
    ({ s with curs := s.curs.set ci.id e }, .cached)

inductive Outcome where
  | refused | old (c : Nat) | new (c : Nat) | empty | error | nilDeref
deriving Repr, DecidableEq

/-- `GetOrCreate` run without interleaving -/
def getOrCreate (checkExisting : Bool) (s : St) (id query pos : Nat) (posOk : Bool) (kind : CreateKind)
    (cache : Bool) (newCur newId : Nat) : St × Outcome :=
  match lookup s id query pos posOk with
  | (s, .refused, _) => (s, .refused)
  | (s, .nilDeref, _) => (s, .nilDeref)
  | (s, .hit c, _) => (s, .old c)
  | (s, _, id') =>
    match create s id' query pos kind newCur newId with
    | (s, .empty) => (s, .empty)
    | (s, .error) => (s, .error)
    | (s, .cur c) =>
      if !cache then (s, .new c)
      else match insert checkExisting s c with
        | (s, .cached) => (s, .new c)
        | (s, .lateRefused) => (s, .refused)

inductive RelRes where
  | closed | idle | panic
deriving Repr, DecidableEq

/-- `Release(cur)` for a real cursor (`emptyCur` is a no-op and not a cursor of the model). `byId` is the
    regenerated fact `Generated.C15.releaseLooksUpById` (true for the code as it is: the holder is found by
    `cur.Id()` only; with the proposed repair of F28 a holder of another cursor counts as a miss). -/
def release (byId : Bool) (s : St) (c : Nat) (commitPos : Nat := 2) : St × RelRes :=
  let ci := s.cursors c
  -- `cur.commit(ctx)` before the lock: the cursor's state now carries its current position
  let s := setCur s c { ci with held := false, pos := commitPos }
  match s.curs.get ci.id with
  | none => (closeCur s c, .closed)
  | some e =>
    let h := s.holders e
    if !byId && h.cur ≠ some c then (closeCur s c, .closed)
    else if !h.busy then ({ s with panicked := true }, .panic)
    else (toHead (hset s e { h with busy := false, exp := s.now + s.idleTo }) e, .idle)

/-- the body shared by the two sweeps for one ring element: close unless busy, forget the id, `ch.cur = nil`,
    unlink; `recycle` = sweepByTime's move into the free ring. (The two Go loops order these independent
    assignments differently.) A holder without cursor is a nil dereference in Go. -/
def evict (s : St) (e : Nat) (recycle : Bool) : St :=
  let h := s.holders e
  match h.cur with
  | none => { s with panicked := true }
  | some c =>
    let s := if !h.busy then closeCur s c else s
    let s := { s with curs := s.curs.del (s.cursors c).id }
    let s := hset s e { h with cur := none }
    let s := { s with ring := tearOff s.ring (some e) }
    if recycle && s.freeSz < freePoolCap then { s with free := append [e] s.free, freeSz := s.freeSz + 1 } else s

def sweepBySizeLoop : Nat → St → St
  | 0, s => s
  | fuel + 1, s =>
    if s.curs.size > s.maxCurs then
      match s.ring.getLast? with          -- `p.busy.Prev()`: the tail; nil ring = nil dereference
      | none => { s with panicked := true }
      | some e =>
        let s' := evict s e false
        if s'.panicked then s' else sweepBySizeLoop fuel s'
    else s

/-- `sweepBySize()`; every iteration unlinks one ring element or panics, so `ring.length + 1` rounds suffice -/
def sweepBySize (s : St) : St := sweepBySizeLoop (s.ring.length + 1) s

/-- the loop of `sweepByTime`, structurally on `cnt` (decremented in every round) -/
def sweepByTimeLoop : Nat → St → Nat → St
  | 0, s, _ => s
  | cnt + 1, s, e =>
    let e := prev s.ring e
    let h := s.holders e
    if h.exp < s.now then
      let e1 := next s.ring e            -- `e.Next()` = prev (quirk), read before the unlinking
      let s' := evict s e true
      if s'.panicked then s' else sweepByTimeLoop cnt s' e1
    else if !h.busy then s
    else sweepByTimeLoop cnt s e

/-- `sweepByTime()` with `now := s.now` -/
def sweepByTime (s : St) : St :=
  match s.ring with
  | [] => s
  | head :: _ => sweepByTimeLoop s.curs.size s head

/-- the clock advances -/
def age (s : St) (d : Int) : St := { s with now := s.now + d }

def dump (s : St) : String :=
  "ring=[" ++ ",".intercalate (s.ring.map (fun e =>
      let h := s.holders e
      (match h.cur with | some c => "j" ++ toString c | none => "nil") ++ ":" ++ (if h.busy then "1" else "0")))
    ++ "] map=" ++ toString s.curs.size ++ " free=" ++ toString s.freeSz ++ " freelen=" ++ toString s.free.length

end Logrange.Provider
