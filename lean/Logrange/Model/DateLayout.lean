import Logrange.Model.DateTerms
/-!
# Go's `time.Parse` / `time.Format` (go1.23) for the layout elements the `terms` table can produce

The result of a parse is a set of **civil fields plus a zone** — calendar arithmetic (fields → instant) is
deliberately not modelled; the harness applies Go's `time.Date` to the model's fields (trusted) before it
compares instants.

Shape of the Go code (`time/format.go`): `nextStdChunk` cuts the layout into `(literal prefix, element)` pairs
and a literal tail; `parse` walks them: `skip` the literal, read the element, range-check. Tokenisation does not
depend on the value, so the model tokenises first (`tokenize`) and then walks the item list (`parseItems`,
structural recursion) — the same sequence of `nextStdChunk` calls.

All string constants are byte lists (no `String`), so the kernel can evaluate everything here.
-/
namespace Logrange.Date

inductive Std
  | year | longYear | month | longMonth | numMonth | zeroMonth | weekDay | longWeekDay | day | underDay | zeroDay
  | hour | hour12 | zeroHour12 | minute | zeroMinute | second | zeroSecond | pm | pmLower
  | numTZ | numColonTZ | numShortTZ | isoColonTZ | isoTZ | isoShortTZ | tz | frac9 (n : Nat) | frac0 (n : Nat)
  | unsupported            -- day-of-year and seconds-precision zone elements: never produced by the terms table
deriving DecidableEq, Repr

def isDig (c : UInt8) : Bool := 48 ≤ c && c ≤ 57
def isLowerB (c : UInt8) : Bool := 97 ≤ c && c ≤ 122
def isUpperB (c : UInt8) : Bool := 65 ≤ c && c ≤ 90
def isDigitAt (s : Bytes) (i : Nat) : Bool := match s[i]? with | some c => isDig c | none => false
def lowerStart (s : Bytes) : Bool := match s with | c :: _ => isLowerB c | [] => false

def bJan : Bytes := [74, 97, 110]
def bJanuary : Bytes := [74, 97, 110, 117, 97, 114, 121]
def bMon : Bytes := [77, 111, 110]
def bMonday : Bytes := [77, 111, 110, 100, 97, 121]
def bMST : Bytes := [77, 83, 84]
def bUTC : Bytes := [85, 84, 67]
def bGMT : Bytes := [71, 77, 84]

/-- `nextStdChunk`: (prefix, element?, suffix) -/
def nextStd (layout : Bytes) : Bytes × Option Std × Bytes :=
  let rec go (fuel : Nat) (pre : Bytes) (l : Bytes) : Bytes × Option Std × Bytes :=
    match fuel with
    | 0 => (pre.reverse ++ l, none, [])
    | fuel+1 =>
      match l with
      | [] => (pre.reverse, none, [])
      | c :: rest =>
        let P := pre.reverse
        let r (std : Std) (n : Nat) := (P, some std, l.drop n)
        let next := go fuel (c :: pre) rest
        if c == 74 then  -- 'J'
          if hasPrefix l bJan then
            if hasPrefix l bJanuary then r .longMonth 7
            else if !lowerStart (l.drop 3) then r .month 3 else next
          else next
        else if c == 77 then -- 'M'
          if hasPrefix l bMon then
            if hasPrefix l bMonday then r .longWeekDay 6
            else if !lowerStart (l.drop 3) then r .weekDay 3
            else next
          else if hasPrefix l bMST then r .tz 3 else next
        else if c == 48 then -- '0'
          match rest with
          | d :: rest2 =>
            if d == 48 && rest2.head? == some 50 then r .unsupported 3          -- 002
            else if d == 49 then r .zeroMonth 2 else if d == 50 then r .zeroDay 2 else if d == 51 then r .zeroHour12 2
            else if d == 52 then r .zeroMinute 2 else if d == 53 then r .zeroSecond 2 else if d == 54 then r .year 2 else next
          | [] => next
        else if c == 49 then (if hasPrefix l [49, 53] then r .hour 2 else r .numMonth 1)
        else if c == 50 then (if hasPrefix l [50, 48, 48, 54] then r .longYear 4 else r .day 1)
        else if c == 95 then -- '_'
          if hasPrefix l [95, 50] then
            (if hasPrefix l [95, 50, 48, 48, 54] then (P ++ [95], some .longYear, l.drop 5) else r .underDay 2)
          else if hasPrefix l [95, 95, 50] then r .unsupported 3                 -- __2
          else next
        else if c == 51 then r .hour12 1
        else if c == 52 then r .minute 1
        else if c == 53 then r .second 1
        else if c == 80 then (if hasPrefix l [80, 77] then r .pm 2 else next)
        else if c == 112 then (if hasPrefix l [112, 109] then r .pmLower 2 else next)
        else if c == 45 then
          if hasPrefix l [45, 48, 55, 48, 48, 48, 48] then r .unsupported 7     -- -070000
          else if hasPrefix l [45, 48, 55, 58, 48, 48, 58, 48, 48] then r .unsupported 9  -- -07:00:00
          else if hasPrefix l [45, 48, 55, 48, 48] then r .numTZ 5
          else if hasPrefix l [45, 48, 55, 58, 48, 48] then r .numColonTZ 6
          else if hasPrefix l [45, 48, 55] then r .numShortTZ 3 else next
        else if c == 90 then
          if hasPrefix l [90, 48, 55, 48, 48, 48, 48] then r .unsupported 7     -- Z070000
          else if hasPrefix l [90, 48, 55, 58, 48, 48, 58, 48, 48] then r .unsupported 9  -- Z07:00:00
          else if hasPrefix l [90, 48, 55, 48, 48] then r .isoTZ 5
          else if hasPrefix l [90, 48, 55, 58, 48, 48] then r .isoColonTZ 6
          else if hasPrefix l [90, 48, 55] then r .isoShortTZ 3 else next
        else if c == 46 || c == 44 then
          match rest with
          | d :: _ =>
            if d == 48 || d == 57 then
              let run := (rest.takeWhile (· == d)).length
              if !isDigitAt rest run then (if d == 57 then r (.frac9 run) (run + 1) else r (.frac0 run) (run + 1)) else next
            else next
          | [] => next
        else next
  go (layout.length + 1) [] layout

/-- the whole layout as `(literal prefix, element)` pairs and the literal tail -/
def tokenize : Nat → Bytes → List (Bytes × Std) × Bytes
  | 0, l => ([], l)
  | fuel + 1, l =>
    match nextStd l with
    | (pre, none, _) => ([], pre)
    | (pre, some s, suf) => let (items, tail) := tokenize fuel suf; ((pre, s) :: items, tail)

structure Layout where
  items : List (Bytes × Std)
  tail : Bytes
deriving Repr, DecidableEq

def Layout.ofBytes (l : Bytes) : Layout := let (i, t) := tokenize (l.length + 1) l; ⟨i, t⟩

/-- fields under construction, as the locals of Go's `parse` -/
structure F where
  year : Int := 0
  month : Int := -1
  day : Int := -1
  hour : Int := 0
  min : Int := 0
  sec : Int := 0
  nsec : Int := 0
  zUTC : Bool := false                -- `z = UTC` (ISO "Z" or the name UTC)
  zoneOffset : Option Int := none     -- numeric offset, seconds
  zoneName : Option Bytes := none
  am : Bool := false
  pmS : Bool := false
deriving Repr, DecidableEq

def cutspace (s : Bytes) : Bytes := s.dropWhile (· == 32)

/-- `skip(value, prefix)` -/
def skip : Nat → Bytes → Bytes → Option Bytes
  | 0, _, _ => none
  | _ + 1, value, [] => some value
  | fuel + 1, value, p :: prest =>
    if p == 32 then
      match value with
      | v :: _ => if v != 32 then none else skip fuel (cutspace value) (cutspace (p :: prest))
      | [] => skip fuel (cutspace value) (cutspace (p :: prest))
    else match value with
      | v :: vrest => if v == p then skip fuel vrest prest else none
      | [] => none

def skipLit (value pre : Bytes) : Option Bytes := skip (pre.length + 1) value pre

def dval (c : UInt8) : Int := (c.toNat : Int) - 48

/-- `getnum(s, fixed)` -/
def getnum (s : Bytes) (fixed : Bool) : Option (Int × Bytes) :=
  match s with
  | a :: b :: r =>
    if isDig a then
      (if isDig b then some (dval a * 10 + dval b, r) else if fixed then none else some (dval a, b :: r))
    else none
  | [a] => if isDig a then (if fixed then none else some (dval a, [])) else none
  | [] => none

/-- `atoi` (sign allowed, then digits only, non-empty) -/
def atoi (s : Bytes) : Option Int :=
  let (neg, r) := match s with | c :: r => if c == 45 then (true, r) else if c == 43 then (false, r) else (false, s) | [] => (false, s)
  if r.isEmpty || !(r.all isDig) then none else
  let v : Int := r.foldl (fun a c => a * 10 + dval c) 0
  some (if neg then -v else v)

def lowerB (c : UInt8) : UInt8 := if isUpperB c then c + 32 else c

/-- `lookup(tab, val)`: ASCII case-insensitive prefix match, first hit -/
def lookupFrom (i : Nat) (v : Bytes) : List Bytes → Option (Nat × Bytes)
  | [] => none
  | nb :: rest =>
    if v.length ≥ nb.length && (v.take nb.length).map lowerB == nb.map lowerB then some (i, v.drop nb.length)
    else lookupFrom (i + 1) v rest
def lookup (tab : List Bytes) (v : Bytes) : Option (Nat × Bytes) := lookupFrom 0 v tab

def shortMonths : List Bytes := [
  [74, 97, 110] /- Jan -/, [70, 101, 98] /- Feb -/, [77, 97, 114] /- Mar -/, [65, 112, 114] /- Apr -/,
  [77, 97, 121] /- May -/, [74, 117, 110] /- Jun -/, [74, 117, 108] /- Jul -/, [65, 117, 103] /- Aug -/,
  [83, 101, 112] /- Sep -/, [79, 99, 116] /- Oct -/, [78, 111, 118] /- Nov -/, [68, 101, 99] /- Dec -/ ]
def longMonths : List Bytes := [
  [74, 97, 110, 117, 97, 114, 121] /- January -/, [70, 101, 98, 114, 117, 97, 114, 121] /- February -/,
  [77, 97, 114, 99, 104] /- March -/, [65, 112, 114, 105, 108] /- April -/, [77, 97, 121] /- May -/,
  [74, 117, 110, 101] /- June -/, [74, 117, 108, 121] /- July -/, [65, 117, 103, 117, 115, 116] /- August -/,
  [83, 101, 112, 116, 101, 109, 98, 101, 114] /- September -/, [79, 99, 116, 111, 98, 101, 114] /- October -/,
  [78, 111, 118, 101, 109, 98, 101, 114] /- November -/, [68, 101, 99, 101, 109, 98, 101, 114] /- December -/ ]
def shortDays : List Bytes := [
  [83, 117, 110] /- Sun -/, [77, 111, 110] /- Mon -/, [84, 117, 101] /- Tue -/, [87, 101, 100] /- Wed -/,
  [84, 104, 117] /- Thu -/, [70, 114, 105] /- Fri -/, [83, 97, 116] /- Sat -/ ]
def longDays : List Bytes := [
  [83, 117, 110, 100, 97, 121] /- Sunday -/, [77, 111, 110, 100, 97, 121] /- Monday -/,
  [84, 117, 101, 115, 100, 97, 121] /- Tuesday -/, [87, 101, 100, 110, 101, 115, 100, 97, 121] /- Wednesday -/,
  [84, 104, 117, 114, 115, 100, 97, 121] /- Thursday -/, [70, 114, 105, 100, 97, 121] /- Friday -/,
  [83, 97, 116, 117, 114, 100, 97, 121] /- Saturday -/ ]

def commaOrPeriod (c : UInt8) : Bool := c == 46 || c == 44

/-- `parseNanoseconds(value, nbytes)`: `(nsec, rangeError?)`, or none -/
def parseNanos (value : Bytes) (nbytes : Nat) : Option (Int × Bool) :=
  match value with
  | c :: _ =>
    if !commaOrPeriod c then none else
    let nb := if nbytes > 10 then 10 else nbytes
    match atoi ((value.take nb).drop 1) with
    | none => none
    | some ns => if ns < 0 then some (0, true) else some (ns * 10 ^ (10 - nb), false)
  | [] => none

def isLeap (y : Int) : Bool := y % 4 == 0 && (y % 100 != 0 || y % 400 == 0)
def daysIn (m y : Int) : Int :=
  if m == 2 then (if isLeap y then 29 else 28) else if m == 4 || m == 6 || m == 9 || m == 11 then 30 else 31

def digitRun (v : Bytes) : Bytes := v.takeWhile isDig
def natOfDigits (ds : Bytes) : Nat := ds.foldl (fun a c => a * 10 + (c.toNat - 48)) 0

/-- `parseSignedOffset`: length of sign+digits when the number is ≤ 23, else 0 -/
def parseSignedOffset (v : Bytes) : Nat :=
  match v with
  | s :: r =>
    if s != 45 && s != 43 then 0 else
    let ds := digitRun r
    if ds.isEmpty then 0 else if natOfDigits ds > 23 then 0 else 1 + ds.length
  | [] => 0

/-- `parseTimeZone`: length of the zone abbreviation -/
def parseTZName (v : Bytes) : Option Nat :=
  if v.length < 3 then none
  else if hasPrefix v [67, 104, 83, 84] || hasPrefix v [77, 101, 83, 84] then some 4     -- ChST, MeST
  else if hasPrefix v bGMT then
    (if v.length == 3 then some 3 else some (3 + parseSignedOffset (v.drop 3)))
  else if v.head? == some 43 || v.head? == some 45 then
    (let n := parseSignedOffset v; if n > 0 then some n else none)
  else
    let nUp := ((v.take 6).takeWhile isUpperB).length
    if nUp == 5 then (if v[4]? == some 84 then some 5 else none)
    else if nUp == 4 then (if v[3]? == some 84 || hasPrefix v [87, 73, 84, 65] then some 4 else none)
    else if nUp == 3 then some 3 else none

def numTZ (f : F) (std : Std) (value : Bytes) : Option (F × Bytes) :=
  let colon := std == .numColonTZ || std == .isoColonTZ
  let short := std == .numShortTZ || std == .isoShortTZ
  let need := if colon then 6 else if short then 3 else 5
  if value.length < need then none else
  if colon && value[3]? != some 58 then none else
  let sign := value.head?
  let hh := (value.drop 1).take 2
  let mm := if colon then (value.drop 4).take 2 else if short then [48, 48] else (value.drop 3).take 2
  match getnum hh true, getnum mm true with
  | some (hr, _), some (mi, _) =>
    if hr > 24 || mi > 60 then none else
    let off := (hr * 60 + mi) * 60
    if sign == some 43 then some ({ f with zoneOffset := some off }, value.drop need)
    else if sign == some 45 then some ({ f with zoneOffset := some (-off) }, value.drop need)
    else none
  | _, _ => none

inductive Zone
  | utc                               -- `z = UTC`
  | dflt                              -- no zone in the text: the default location (UTC for date.go)
  | offset (secs : Int)               -- numeric offset: instant = fields − secs
  | named (name : Bytes) (disp : Int) -- fabricated zone of unknown offset: instant = fields as UTC, shown at `disp` seconds
deriving Repr, DecidableEq

structure Civil where
  year : Int
  month : Int
  day : Int
  hour : Int
  min : Int
  sec : Int
  nsec : Int
  zone : Zone
deriving Repr, DecidableEq

inductive PR
  | ok (c : Civil)
  | err
  | unsupported
deriving Repr, DecidableEq

/-- one element of the layout read from the value: `none` = error -/
def parseStd (std : Std) (next : Option Std) (value : Bytes) (f : F) : Option (F × Bytes) :=
  match std with
  | .year =>
    if value.length < 2 then none else
    (atoi (value.take 2)).map (fun y => ({ f with year := if y ≥ 69 then y + 1900 else y + 2000 }, value.drop 2))
  | .longYear =>
    if value.length < 4 || !isDigitAt value 0 then none else
    (atoi (value.take 4)).map (fun y => ({ f with year := y }, value.drop 4))
  | .month => (lookup shortMonths value).map (fun (i, v) => ({ f with month := i + 1 }, v))
  | .longMonth => (lookup longMonths value).map (fun (i, v) => ({ f with month := i + 1 }, v))
  | .numMonth | .zeroMonth =>
    (getnum value (std == .zeroMonth)).bind (fun (m, v) => if m ≤ 0 || 12 < m then none else some ({ f with month := m }, v))
  | .weekDay => (lookup shortDays value).map (fun (_, v) => (f, v))
  | .longWeekDay => (lookup longDays value).map (fun (_, v) => (f, v))
  | .day | .underDay | .zeroDay =>
    let value := if std == .underDay && value.head? == some 32 then value.drop 1 else value
    (getnum value (std == .zeroDay)).map (fun (d, v) => ({ f with day := d }, v))
  | .hour => (getnum value false).bind (fun (h, v) => if h < 0 || 24 ≤ h then none else some ({ f with hour := h }, v))
  | .hour12 | .zeroHour12 =>
    (getnum value (std == .zeroHour12)).bind (fun (h, v) => if h < 0 || 12 < h then none else some ({ f with hour := h }, v))
  | .minute | .zeroMinute =>
    (getnum value (std == .zeroMinute)).bind (fun (m, v) => if m < 0 || 60 ≤ m then none else some ({ f with min := m }, v))
  | .second | .zeroSecond =>
    match getnum value (std == .zeroSecond) with
    | none => none
    | some (s, v) =>
      if s < 0 || 60 ≤ s then none else
      let f := { f with sec := s }
      if v.length ≥ 2 && commaOrPeriod (v.headD 0) && isDigitAt v 1 then
        match next with
        | some (.frac9 _) | some (.frac0 _) => some (f, v)
        | _ =>
          let n := 1 + (digitRun (v.drop 1)).length
          match parseNanos v n with
          | some (ns, false) => some ({ f with nsec := ns }, v.drop n)
          | _ => none
      else some (f, v)
  | .pm =>
    if value.length < 2 then none else
    if value.take 2 == [80, 77] then some ({ f with pmS := true }, value.drop 2)
    else if value.take 2 == [65, 77] then some ({ f with am := true }, value.drop 2) else none
  | .pmLower =>
    if value.length < 2 then none else
    if value.take 2 == [112, 109] then some ({ f with pmS := true }, value.drop 2)
    else if value.take 2 == [97, 109] then some ({ f with am := true }, value.drop 2) else none
  | .isoTZ | .isoColonTZ | .isoShortTZ =>
    if value.head? == some 90 then some ({ f with zUTC := true }, value.drop 1) else numTZ f std value
  | .numTZ | .numColonTZ | .numShortTZ => numTZ f std value
  | .tz =>
    if hasPrefix value bUTC then some ({ f with zUTC := true }, value.drop 3)
    else match parseTZName value with
      | none => none
      | some n => some ({ f with zoneName := some (value.take n) }, value.drop n)
  | .frac0 n =>
    if value.length < n + 1 then none else
    match parseNanos value (n + 1) with
    | some (ns, false) => some ({ f with nsec := ns }, value.drop (n + 1))
    | _ => none
  | .frac9 _ =>
    if value.length < 2 || !commaOrPeriod (value.headD 0) || !isDigitAt value 1 then some (f, value)
    else
      let i := (digitRun (value.drop 1)).length
      match parseNanos value (1 + i) with
      | some (ns, false) => some ({ f with nsec := ns }, value.drop (1 + i))
      | _ => none
  | .unsupported => none

/-- the loop of `parse`: skip the literal, read the element; at the end skip the tail, nothing may remain -/
def parseItems (tail : Bytes) : List (Bytes × Std) → Bytes → F → Option F
  | [], value, f =>
    match skipLit value tail with
    | some [] => some f
    | _ => none
  | (pre, std) :: rest, value, f =>
    match skipLit value pre with
    | none => none
    | some value =>
      match parseStd std (rest.head?.map (·.2)) value f with
      | none => none
      | some (f', value') => parseItems tail rest value' f'

/-- the epilogue of `parse`: am/pm, default month/day, day-of-month check, zone resolution (Local = UTC) -/
def finish (f : F) : PR :=
  let hour := if f.pmS && f.hour < 12 then f.hour + 12 else if f.am && f.hour == 12 then 0 else f.hour
  let month := if f.month < 0 then 1 else f.month
  let day := if f.day < 0 then 1 else f.day
  if day < 1 || day > daysIn month f.year then .err else
  let zone : Zone :=
    if f.zUTC then .utc
    else match f.zoneOffset with
      | some o => .offset o
      | none =>
        match f.zoneName with
        | some n =>
          if n.length > 3 && hasPrefix n bGMT then .named n (((atoi (n.drop 3)).getD 0) * 3600) else .named n 0
        | none => .dflt
  .ok ⟨f.year, month, day, hour, f.min, f.sec, f.nsec, zone⟩

def Layout.supported (L : Layout) : Bool := L.items.all (fun i => i.2 != .unsupported)

def parseLayout (L : Layout) (value : Bytes) : PR :=
  if !L.supported then .unsupported else
  match parseItems L.tail L.items value {} with
  | none => .err
  | some f => finish f

/-- `time.Parse(layout, value)` with Local = UTC -/
def timeParse (layout value : Bytes) : PR := parseLayout (Layout.ofBytes layout) value

/-! ## `time.Format` for the elements that need no calendar arithmetic -/

/-- an instant as civil fields; `wd` is the weekday (0 = Sunday) — an input, since the calendar is not modelled -/
structure Inst where
  year : Nat
  month : Nat
  day : Nat
  hour : Nat
  min : Nat
  sec : Nat
  nsec : Nat := 0
  wd : Nat := 0
deriving Repr, DecidableEq

def dig (n : Nat) : UInt8 := UInt8.ofNat (48 + n % 10)
def pad2 (n : Nat) : Bytes := [dig (n / 10), dig n]
def pad4 (n : Nat) : Bytes := [dig (n / 1000), dig (n / 100), dig (n / 10), dig n]
def num12 (n : Nat) : Bytes := if n < 10 then [dig n] else pad2 n
def hour12Of (h : Nat) : Nat := if h % 12 == 0 then 12 else h % 12

/-- `appendInt`-style output of one element; `none` = element not covered by this model of Format -/
def formatStd (std : Std) (i : Inst) : Option Bytes :=
  match std with
  | .longYear => some (pad4 i.year)
  | .year => some (pad2 (i.year % 100))
  | .zeroMonth => some (pad2 i.month)
  | .numMonth => some (num12 i.month)
  | .month => shortMonths[i.month - 1]?
  | .longMonth => longMonths[i.month - 1]?
  | .weekDay => shortDays[i.wd]?
  | .longWeekDay => longDays[i.wd]?
  | .zeroDay => some (pad2 i.day)
  | .day => some (num12 i.day)
  | .underDay => some (if i.day < 10 then [32, dig i.day] else pad2 i.day)
  | .hour => some (pad2 i.hour)
  | .hour12 => some (num12 (hour12Of i.hour))
  | .zeroHour12 => some (pad2 (hour12Of i.hour))
  | .zeroMinute => some (pad2 i.min)
  | .minute => some (num12 i.min)
  | .zeroSecond => some (pad2 i.sec)
  | .second => some (num12 i.sec)
  | .pm => some (if i.hour ≥ 12 then [80, 77] else [65, 77])
  | .pmLower => some (if i.hour ≥ 12 then [112, 109] else [97, 109])
  | _ => none

def formatItems : List (Bytes × Std) → Inst → Option Bytes
  | [], _ => some []
  | (pre, std) :: rest, i =>
    match formatStd std i, formatItems rest i with
    | some a, some b => some (pre ++ a ++ b)
    | _, _ => none

/-- `t.Format(layout)` for an instant in UTC -/
def formatLayout (L : Layout) (i : Inst) : Option Bytes :=
  (formatItems L.items i).map (· ++ L.tail)

end Logrange.Date
