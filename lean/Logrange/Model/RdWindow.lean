import Logrange.Model.RdSelector
/-!
# Chunk windows as a list view (C03/C16 with RANGE)

SPEC-side definitions for the ranged iterator: the records the selector's windows admit (`wflat`), the number of admitted
records before a position (`wflatIdx`), the position a ranged iterator really stands at (`rEffPos`), and an executable
well-formedness test (`rwfB`, the decidable form of `RWF` in `Proofs/RdRngDefs.lean`) used by the model driver to say when
its abstraction-level prediction (`it.spec`) applies.
-/
namespace Logrange.Rd

/-- end (exclusive) of the window of chunk `c` -/
def Chunk.hi (c : Chunk) : Nat := min c.cnt (c.maxPos + 1)
/-- the records of `c` the selector admits -/
def Chunk.wrecs (c : Chunk) : List Rec := (c.recs.take (c.maxPos + 1)).drop c.minPos
def Chunk.wlen (c : Chunk) : Nat := c.hi - c.minPos
/-- number of admitted records of `c` with index `< k` -/
def Chunk.wBefore (c : Chunk) (k : Nat) : Nat := min k c.hi - c.minPos

/-- all admitted records in stored order -/
def wflat (j : Journal) : List Rec := j.flatMap Chunk.wrecs

/-- number of admitted records stored strictly before position `p` -/
def wflatIdx : Journal → Pos → Nat
  | [], _ => 0
  | c :: rest, p =>
    (if c.id < p.cid then c.wlen else if c.id = p.cid then c.wBefore p.idx else 0) + wflatIdx rest p

/-- the position the ranged iterator really stands at -/
def rEffPos (s : RIt) : Pos :=
  match s.ci with
  | some c => ⟨c.chunk, c.pos.toNat⟩
  | none => s.pos

/-- executable form of `RWF` (Proofs/RdRngDefs.lean): the status cache was never filled or was rebuilt from this journal
value, and an open chunk iterator stands inside the window of its chunk or at the chunk's end -/
def rwfB (j : Journal) (s : RIt) : Bool :=
  match s.ci with
  | none => s.stats.isEmpty || s.stats == rebuild j []
  | some c => s.stats == rebuild j [] && c.chunk == s.cid &&
      j.any (fun ch => ch.id == c.chunk && decide (ch.minPos < ch.cnt) && decide ((ch.minPos : Int) ≤ c.pos) &&
        decide (c.pos ≤ (ch.maxPos : Int)) && decide (c.pos ≤ (ch.cnt : Int)) && (!c.cached || decide (c.pos < (ch.cnt : Int))))

/-- SPEC of a drain of the ranged iterator in its current direction: forward the admitted records from its index on,
backward the admitted records at or before its position in reverse -/
def rSpecDrain (j : Journal) (s : RIt) : List Rec :=
  if s.bkwd then
    ((wflat j).take (match s.ci with
      | some c => wflatIdx j ⟨c.chunk, (c.pos + 1).toNat⟩
      | none => wflatIdx j ⟨s.cid, s.idx + 1⟩)).reverse
  else (wflat j).drop (wflatIdx j (rEffPos s))

end Logrange.Rd
