/-!
# The drop step of TRUNCATE on disk (`pkg/partition/partition.go`: `deleteJournal`, last statement)

The journal controller of the `range` library stores a partition in `<dir>/<bucket of its id>/<id>` (the bucket is
made of the last two characters of the id, so partitions whose ids end alike share the parent folder).
`deleteJournal` finishes with `os.RemoveAll(dir)`, `dir = j.Chunks().LocalFolder()`: the partition's own folder.

A path is the list of its components (`α`: any type with decidable equality; the bucket function is a parameter).
`own` = every `os.Remove…` call of `deleteJournal` is given `LocalFolder()` itself (regenerated from the source);
`own = false` stands for the seeded variant that also removes the parent folder.
-/
namespace Logrange.Truncate
variable {α : Type} [DecidableEq α]

/-- `<dir>/<bucket id>/<id>` -/
def partFolder (bucket : α → α) (base : List α) (id : α) : List α := base ++ [bucket id, id]

/-- `os.RemoveAll p` on a set of files (each named by its path): everything at or below `p` goes -/
def removeAll (p : List α) (files : List (List α)) : List (List α) := files.filter (fun f => !(p.isPrefixOf f))

/-- the folder `deleteJournal` hands to `os.RemoveAll` -/
def dropTarget (own : Bool) (bucket : α → α) (base : List α) (id : α) : List α :=
  if own then partFolder bucket base id else base ++ [bucket id]

/-- the files left when `deleteJournal` has dropped partition `id` -/
def dropOnDisk (own : Bool) (bucket : α → α) (base : List α) (id : α) (files : List (List α)) : List (List α) :=
  removeAll (dropTarget own bucket base id) files

end Logrange.Truncate
