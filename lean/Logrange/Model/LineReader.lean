import Logrange.Go.Basic
/-!
# Model of the collector's line reader and byte-offset accounting
(`pkg/scanner/parser/line_reader.go`, `pure_parser.go`, `line_parser.go`, `k8s_parser.go`, `logfmt_parser.go`)

* `Piece` / `St`: a **growing byte source** as the reader sees it. The file's bytes from the starting offset are
  `flat pieces`; the list also says *how* they arrive: each `Read` of the source returns (a prefix of) the next
  `data` piece — whatever has been appended by then —, an `eof` piece is a `Read` that finds the file exhausted
  for now (it may grow later), `cancel` is the context being cancelled while a `Read` runs. A script that is used
  up means: nothing more is ever appended and the context is cancelled (so that every run ends).
* `readSlice` is the contract of `bufio.Reader.ReadSlice('\n')` with buffer size `B` (DESIGN Appendix A.7), written
  as the library's loop: delimiter in the buffered bytes ⇒ the line through it; else buffer full ⇒ all `B` bytes
  (`ErrBufferFull`); else `fill()` once from the source; a source EOF hands out everything buffered with `io.EOF`
  (not sticky).
* `readLine` is `lineReader.readLine` (since fix 7a8317a): one `ReadSlice`; a complete line or a full buffer is
  returned with the pending partial line (`pend`, reader state) in front of it; on a source EOF the bytes read are
  appended to `pend` and `io.EOF` is reported — the caller polls again (a live file completes the line later) or
  stops; context cancelled ⇒ `ErrClosedPipe`, `pend` untouched.
* `Parser`: `pos += len(line)` of the four parsers (payload handling of k8s/logfmt is out of scope), and
  `SetStreamPos` = seek + `lr.reset` (fresh buffer, fresh source from the new offset).
-/
namespace Logrange.LineReader

inductive Piece where
  | data (b : Bytes)
  | eof
  | cancel
deriving DecidableEq, Repr

/-- the bytes a script delivers -/
def flat : List Piece → Bytes
  | [] => []
  | .data b :: r => b ++ flat r
  | .eof :: r => flat r
  | .cancel :: r => flat r

/-- fuel measure: every `Read` consumes at least one unit -/
def measure : List Piece → Nat
  | [] => 0
  | .data b :: r => b.length + 1 + measure r
  | .eof :: r => 1 + measure r
  | .cancel :: r => 1 + measure r

structure St where
  pieces : List Piece
  buf : Bytes := []            -- bufio's buffered, unread bytes
  pend : Bytes := []           -- lineReader.pend: the partial line kept between calls
  cancelled : Bool := false    -- ctx.Err() != nil
deriving Repr

/-- `bytes.IndexByte(buf, '\n')`: the buffered bytes through the first newline, and the rest -/
def splitNL : Bytes → Option (Bytes × Bytes)
  | [] => none
  | x :: xs =>
    if x = 10 then some ([x], xs)
    else match splitNL xs with
      | some (l, r) => some (x :: l, r)
      | none => none

/-- result of one `ReadSlice('\n')` -/
inductive RS where
  | line (l : Bytes)     -- err == nil
  | full (l : Bytes)     -- bufio.ErrBufferFull
  | eof (l : Bytes)      -- io.EOF with everything that was buffered
  | oof                  -- model ran out of fuel (never happens with `sliceFuel`, see `readSlice_fuel`)
deriving DecidableEq, Repr

def RS.out : RS → Bytes
  | .line l => l
  | .full l => l
  | .eof l => l
  | .oof => []

/-- `bufio.Reader.ReadSlice('\n')`, buffer size `B` -/
def readSlice (B : Nat) : Nat → St → St × RS
  | 0, s => (s, .oof)
  | fuel+1, s =>
    match splitNL s.buf with
    | some (l, r) => ({ s with buf := r }, .line l)
    | none =>
      if B ≤ s.buf.length then ({ s with buf := [] }, .full s.buf)
      else match s.pieces with
        | [] => ({ s with buf := [], cancelled := true }, .eof s.buf)
        | .eof :: ps => ({ s with pieces := ps, buf := [] }, .eof s.buf)
        | .cancel :: ps => readSlice B fuel { s with pieces := ps, cancelled := true }
        | .data d :: ps =>
          let n := B - s.buf.length
          if d.length ≤ n then readSlice B fuel { s with pieces := ps, buf := s.buf ++ d }
          else readSlice B fuel { s with pieces := .data (d.drop n) :: ps, buf := s.buf ++ d.take n }

def sliceFuel (s : St) : Nat := measure s.pieces + 1

/-- result of `lineReader.readLine` -/
inductive RL where
  | line (l : Bytes)
  | eof          -- (nil, io.EOF): the source has nothing more for now; a partial line, if any, stays in `pend`
  | closed       -- (nil, io.ErrClosedPipe)
  | oof
deriving DecidableEq, Repr

/-- what a call hands out -/
def RL.out : RL → Bytes
  | .line l => l
  | _ => []

/-- `lineReader.readLine` -/
def readLine (B : Nat) (s : St) : St × RL :=
  if s.cancelled then (s, .closed)
  else match readSlice B (sliceFuel s) s with
    | (s', .line l) => ({ s' with pend := [] }, .line (s.pend ++ l))
    | (s', .full l) => ({ s' with pend := [] }, .line (s.pend ++ l))
    | (s', .eof l) => ({ s' with pend := s.pend ++ l }, .eof)
    | (s', .oof) => (s', .oof)

/-- `n` calls of `readLine` (the caller polls again after an EOF); the lines they returned, in order -/
def readLines (B : Nat) : Nat → St → List Bytes × St
  | 0, s => ([], s)
  | n+1, s =>
    match readLine B s with
    | (s', .line l) => let r := readLines B n s'; (l :: r.1, r.2)
    | (s', _) => readLines B n s'

/-! ## the parsers' offset accounting -/

structure Parser where
  lr : St
  pos : Nat
deriving Repr

inductive NR where
  | record (line : Bytes)
  | eof
  | err
deriving DecidableEq, Repr

/-- `NextRecord`: `line, err := lr.readLine(ctx); if err != nil { return nil, err }; pos += len(line)`.
`delta` is what the code adds to `pos` for a line of the given length (`len(line)` in the code; the extractor
regenerates it, and the harness' mutation `len(line)-1` changes it). -/
def nextRecord (B : Nat) (p : Parser) : Parser × NR :=
  match readLine B p.lr with
  | (s', .line l) => ({ lr := s', pos := p.pos + l.length }, .record l)
  | (s', .eof) => ({ p with lr := s' }, .eof)
  | (s', _) => ({ p with lr := s' }, .err)

/-- `SetStreamPos(pos)`: `f.Seek(pos)`, `pp.pos = pos`, `lr.reset(f)` (fresh buffer, `pend = nil`); `src` = how the
file's bytes from `pos` on will arrive. -/
def setStreamPos (pos : Nat) (src : List Piece) : Parser := { lr := { pieces := src }, pos := pos }

/-- `n` calls of `NextRecord` (polling again after EOF or an error); the records returned, in order -/
def nextRecords (B : Nat) : Nat → Parser → List Bytes × Parser
  | 0, p => ([], p)
  | n+1, p =>
    match nextRecord B p with
    | (p', .record l) => let r := nextRecords B n p'; (l :: r.1, r.2)
    | (p', _) => nextRecords B n p'

end Logrange.LineReader
