import Logrange.Go.Basic
/-!
# Model of the collector's line reader and byte-offset accounting
(`pkg/scanner/parser/line_reader.go`, `pure_parser.go`, `line_parser.go`, `k8s_parser.go`, `logfmt_parser.go`)

* `Piece` / `St`: a **growing byte source** as the reader sees it. The file's bytes from the starting offset are
  `flat pieces`; the list also says *how* they arrive: each `Read` of the source returns (a prefix of) the next
  `data` piece — whatever has been appended by then —, an `eof` piece is a `Read` that finds the file exhausted
  for now (it may grow later), `cancel` is the context being cancelled while a `Read` runs. A script that is used
  up means: nothing more is ever appended and the context is cancelled (so that every run ends).
* `readSlice` is the contract of `bufio.Reader.ReadSlice('\n')` with buffer size `B` (DESIGN Appendix A.7), written
  as the library's loop: delimiter in the buffered bytes ⇒ the line through it; else buffer full ⇒ all `B` bytes
  (`ErrBufferFull`); else `fill()` once from the source; a source EOF hands out everything buffered with `io.EOF`
  (not sticky).
* `readLine` is `lineReader.readLine`: accumulate across EOFs, split on buffer full, `len(buf)=0 ∧ EOF ⇒ EOF`,
  context cancelled ⇒ `ErrClosedPipe` and the accumulated partial line is dropped (it carries it here as
  `closed pending` so that theorems can talk about it).
* `Parser`: `pos += len(line)` of the four parsers (payload handling of k8s/logfmt is out of scope), and
  `SetStreamPos` = seek + `lr.reset` (fresh buffer, fresh source from the new offset).
-/
namespace Logrange.LineReader

inductive Piece where
  | data (b : Bytes)
  | eof
  | cancel
deriving DecidableEq, Repr

/-- the bytes a script delivers -/
def flat : List Piece → Bytes
  | [] => []
  | .data b :: r => b ++ flat r
  | .eof :: r => flat r
  | .cancel :: r => flat r

/-- fuel measure: every `Read` consumes at least one unit -/
def measure : List Piece → Nat
  | [] => 0
  | .data b :: r => b.length + 1 + measure r
  | .eof :: r => 1 + measure r
  | .cancel :: r => 1 + measure r

structure St where
  pieces : List Piece
  buf : Bytes := []            -- bufio's buffered, unread bytes
  cancelled : Bool := false    -- ctx.Err() != nil
deriving Repr

/-- `bytes.IndexByte(buf, '\n')`: the buffered bytes through the first newline, and the rest -/
def splitNL : Bytes → Option (Bytes × Bytes)
  | [] => none
  | x :: xs =>
    if x = 10 then some ([x], xs)
    else match splitNL xs with
      | some (l, r) => some (x :: l, r)
      | none => none

/-- result of one `ReadSlice('\n')` -/
inductive RS where
  | line (l : Bytes)     -- err == nil
  | full (l : Bytes)     -- bufio.ErrBufferFull
  | eof (l : Bytes)      -- io.EOF with everything that was buffered
  | oof                  -- model ran out of fuel (never happens with `sliceFuel`, see `readSlice_fuel`)
deriving DecidableEq, Repr

def RS.out : RS → Bytes
  | .line l => l
  | .full l => l
  | .eof l => l
  | .oof => []

/-- `bufio.Reader.ReadSlice('\n')`, buffer size `B` -/
def readSlice (B : Nat) : Nat → St → St × RS
  | 0, s => (s, .oof)
  | fuel+1, s =>
    match splitNL s.buf with
    | some (l, r) => ({ s with buf := r }, .line l)
    | none =>
      if B ≤ s.buf.length then ({ s with buf := [] }, .full s.buf)
      else match s.pieces with
        | [] => ({ s with buf := [], cancelled := true }, .eof s.buf)
        | .eof :: ps => ({ s with pieces := ps, buf := [] }, .eof s.buf)
        | .cancel :: ps => readSlice B fuel { s with pieces := ps, cancelled := true }
        | .data d :: ps =>
          let n := B - s.buf.length
          if d.length ≤ n then readSlice B fuel { s with pieces := ps, buf := s.buf ++ d }
          else readSlice B fuel { s with pieces := .data (d.drop n) :: ps, buf := s.buf ++ d.take n }

def sliceFuel (s : St) : Nat := measure s.pieces + 1

/-- result of `lineReader.readLine` -/
inductive RL where
  | line (l : Bytes)
  | eof                         -- (nil, io.EOF): nothing buffered, nothing pending
  | closed (pending : Bytes)    -- (nil, io.ErrClosedPipe): the pending partial line is dropped
  | oof (pending : Bytes)
deriving DecidableEq, Repr

def RL.pending : RL → Bytes
  | .line _ => []
  | .eof => []
  | .closed p => p
  | .oof p => p

def readLineGo (B : Nat) : Nat → St → Bytes → St × RL
  | 0, s, acc => (s, .oof acc)
  | fuel+1, s, acc =>
    if s.cancelled then (s, .closed acc)
    else match readSlice B (sliceFuel s) s with
      | (s', .line l) => (s', .line (acc ++ l))
      | (s', .full l) => (s', .line (acc ++ l))
      | (s', .eof l) => if (acc ++ l).isEmpty then (s', .eof) else readLineGo B fuel s' (acc ++ l)
      | (s', .oof) => (s', .oof acc)

/-- every retry consumes an `eof` piece or ends the script, so `pieces.length + 2` rounds suffice -/
def readLine (B : Nat) (s : St) : St × RL := readLineGo B (s.pieces.length + 2) s []

/-- up to `n` calls of `readLine`; stops at the first call that does not return a line -/
def readLines (B : Nat) : Nat → St → List Bytes × St × Option RL
  | 0, s => ([], s, none)
  | n+1, s =>
    match readLine B s with
    | (s', .line l) =>
      let r := readLines B n s'
      (l :: r.1, r.2.1, r.2.2)
    | (s', r) => ([], s', some r)

def pendingOf : Option RL → Bytes
  | none => []
  | some r => r.pending

/-! ## the parsers' offset accounting -/

structure Parser where
  lr : St
  pos : Nat
deriving Repr

inductive NR where
  | record (line : Bytes)
  | eof
  | err
deriving DecidableEq, Repr

/-- `NextRecord`: `line, err := lr.readLine(ctx); if err != nil { return nil, err }; pos += len(line)`.
`delta` is what the code adds to `pos` for a line of the given length (`len(line)` in the code; the extractor
regenerates it, and the harness' mutation `len(line)-1` changes it). -/
def nextRecord (B : Nat) (p : Parser) : Parser × NR :=
  match readLine B p.lr with
  | (s', .line l) => ({ lr := s', pos := p.pos + l.length }, .record l)
  | (s', .eof) => ({ p with lr := s' }, .eof)
  | (s', _) => ({ p with lr := s' }, .err)

/-- `SetStreamPos(pos)`: `f.Seek(pos)`, `pp.pos = pos`, `lr.reset(f)`; `src` = how the file's bytes from `pos` on
will arrive. -/
def setStreamPos (pos : Nat) (src : List Piece) : Parser := { lr := { pieces := src }, pos := pos }

def nextRecords (B : Nat) : Nat → Parser → List Bytes × Parser × Option NR
  | 0, p => ([], p, none)
  | n+1, p =>
    match nextRecord B p with
    | (p', .record l) =>
      let r := nextRecords B n p'
      (l :: r.1, r.2.1, r.2.2)
    | (p', r) => ([], p', some r)

end Logrange.LineReader
