import Logrange.Model.PipeRead
import Logrange.Model.PartHist
import Logrange.Model.RebuildHist
/-!
# C02 — histories of `Service.Write` calls and index rebuilds on the PIPELINE model

The state is what the differential harness compares with the real code: the chunk index `CIndex.St` (per chunk hull,
`Recs`, `lastRec`, `corrupted`, block tree `ITree.T`) next to the journal's records per chunk. A history is a list of
events:

* `call pieces` — one `Service.Write` call: a fresh `iwrapper`, then one `Journal.Write` + `onWriteCIndex` per piece
  (`PartHist.Piece`: `newChunk = false` continues the partition's last chunk — only the first piece of a call can —,
  `true` opens the next chunk, dense id = number of chunks so far + 1); every piece is ONE call of `CIndex.onWrite` with
  the positions of the piece and the hull the call's `iwrapper` has accumulated so far (not reset between chunks);
* `rebuild k m` — `CIndex.rebuild` (= `rebuildIndex` + `update`) of the `k`-th chunk from its first `m` records (the
  confirmed prefix at the time of the rebuild).

`absStep` is the same event on the Points-level partition model (`PartHist.PChunk`: flat point list per chunk) that the
history theorems of `Proofs/PartHist.lean` / `Proofs/RebuildHist.lean` are about; `Proofs/PipeHist.lean` proves that the
pipeline state refines it (tree = flat list at any depth, rebuilt tree = flat rebuild, same hull / `Recs` / `lastRec` /
`corrupted`). `toSt` + `PipeRead.absScan` is the ranged read of the pipeline state.
-/
namespace Logrange.PipeHist
open Logrange Logrange.PartHist

structure PSt where
  cidx : CIndex.St := {}
  tss : List (List Int) := []        -- records of the chunk with dense id `k + 1` at index `k`, in stored order

inductive Ev
  | call (pieces : List Piece)
  | rebuild (k m : Nat)

/-- one `Journal.Write` + `onWriteCIndex` of a call whose `iwrapper` is `st.2` -/
def pieceStep (st : PSt × WriteLoop.IW) (pc : Piece) : PSt × WriteLoop.IW :=
  let iw := pc.l.foldl WriteLoop.IW.see st.2
  let base : List Int := if pc.newChunk then [] else st.1.tss.getLast?.getD []
  let front := if pc.newChunk then st.1.tss else st.1.tss.dropLast
  ({ cidx := (CIndex.onWrite st.1.cidx base.length (base.length + pc.l.length - 1) (front.length + 1) iw.minTs iw.maxTs).1,
     tss := front ++ [base ++ pc.l] }, iw)

def step (st : PSt) : Ev → PSt
  | .call pieces => (pieces.foldl pieceStep (st, {})).1
  | .rebuild k m => { st with cidx := CIndex.rebuild st.cidx (k + 1) ((st.tss.getD k []).take m) }

def run (evs : List Ev) : PSt := evs.foldl step {}

/-- the same event on the Points-level partition model (constants of the code) -/
def absRebuild (m : Nat) (c : PChunk) : PChunk :=
  ⟨RebuildHist.rebuild CIndex.sparseSpace Generated.C02.rebuildSegmentMaxInit c.idx (c.tss.take m), c.tss⟩

def absStep (p : List PChunk) : Ev → List PChunk
  | .call pieces => writeCall CIndex.sparseSpace CIndex.bigGap p pieces
  | .rebuild k m => p.modify k (absRebuild m)

def absRun (evs : List Ev) : List PChunk := evs.foldl absStep []

/-- every record written by the history, in stored order -/
def allTs : List Ev → List Int
  | [] => []
  | .call pieces :: r => (pieces.map (·.l)).flatten ++ allTs r
  | .rebuild _ _ :: r => allTs r

/-- the journal as the selector sees it: chunk ids are the dense ids × 10, counts are the chunk lengths -/
def journal (tss : List (List Int)) : List Selector.JChunk :=
  (List.range tss.length).map (fun i => (⟨(i + 1) * 10, (tss.getD i []).length⟩ : Selector.JChunk))

/-- the reader's state of a fresh cursor with the range `[rmin, rmax]` -/
def toSt (p : PSt) (rmin rmax : Int) : RangedIter.St :=
  { cks := (journal p.tss).toArray, cidx := p.cidx, tss := (p.tss.map List.toArray).toArray, rmin := rmin, rmax := rmax }

/-- the ranged read of the pipeline state: statuses from `rebuildStatuses` (`syncChunks` + `updatePoss` through the
chunk index on the block tree), forward scan as a fold over the chunks, range re-check -/
def read (p : PSt) (rmin rmax : Int) : List (Nat × Nat) := PipeRead.absScan (toSt p rmin rmax)

/-- the unbounded read: every position of every chunk in order -/
def fullRead : List (List Int) → Nat → List (Nat × Nat)
  | [], _ => []
  | l :: rest, k => (List.range l.length).map (fun q => (k, q)) ++ fullRead rest (k + 1)

/-- timestamp of position `q` of chunk `k` -/
def tsAt (tss : List (List Int)) (kq : Nat × Nat) : Int := (tss.getD kq.1 []).getD kq.2 0

end Logrange.PipeHist
