import Logrange.Model.Mixer
/-!
# The error branch of `model.Mixer` (`pkg/model/mixer.go: selectState`, `Get`, `Next`)

`Logrange/Model/Mixer.lean` models sources that answer an event or `io.EOF`. Here a source may also answer an error that is
not `io.EOF` (a record that cannot be read: too big for the reader's buffer, a damaged chunk; a cancelled context):

```go
if !mr.src1.eof {
    mr.src1.le, mr.src1.tags, err = mr.src1.it.Get(ctx)
    if err != nil {
        if err != io.EOF { return err }      // st stays 0, the eof flag is NOT set, source 2 is not asked
        mr.src1.eof = true
    }
}
```
`Get` hands the error on; `Next` drops it (it calls `selectState` and ignores the result; with `st = 0` nothing is advanced).
`selectStateE`/`getE`/`nextE` are the same functions as `selectState`/`get`/`next` of the base model with this branch added
(`selectStateE_noerr`: they coincide when no source errs); `Release` and `SetBackward` do not look at errors and are the base
model's. `LeafE` is the in-memory leaf with unreadable records.
-/
namespace Logrange.Mixer

/-- what `Get` answers: an event, `io.EOF`, or another error -/
inductive Res where
  | ok (e : Ev)
  | eof
  | err
deriving DecidableEq, Repr, Inhabited

def Res.ofOption : Option Ev → Res
  | some e => .ok e
  | none => .eof

/-- a source that may fail -/
class SourceE (σ : Type) extends Source σ where
  getE : σ → σ × Res

/-- `selectState` with the error branch. Last component: a non-EOF error is returned. -/
def MixSt.selectStateE {α : Type} (m : MixSt) (a b : α) (ga gb : α × Res) : MixSt × α × α × Bool :=
  if m.st ≠ 0 then (m, a, b, false) else
  let r1 : MixSt × α × Bool :=
    if !m.eof1 then
      match ga.2 with
      | .ok e => ({ m with le1 := e }, ga.1, false)
      | .eof => ({ m with le1 := default, eof1 := true }, ga.1, false)
      | .err => ({ m with le1 := default }, ga.1, true)          -- `return err`: no flag, no state
    else (m, a, false)
  if r1.2.2 then (r1.1, r1.2.1, b, true) else
  let r2 : MixSt × α × Bool :=
    if !r1.1.eof2 then
      match gb.2 with
      | .ok e => ({ r1.1 with le2 := e }, gb.1, false)
      | .eof => ({ r1.1 with le2 := default, eof2 := true }, gb.1, false)
      | .err => ({ r1.1 with le2 := default }, gb.1, true)
    else (r1.1, b, false)
  if r2.2.2 then (r2.1, r1.2.1, r2.2.1, true) else
  (r2.1.choose, r1.2.1, r2.2.1, false)

namespace It
variable {σ : Type} [SourceE σ]

/-- `Get`: `err := selectState(); if err != nil { return err }`, else the selected buffer or `io.EOF` -/
def getE : It σ → It σ × Res
  | .leaf s => (.leaf (SourceE.getE s).1, (SourceE.getE s).2)
  | .mix m a b =>
    let t := m.selectStateE a b a.getE b.getE
    (.mix t.1 t.2.1 t.2.2.1, if t.2.2.2 then .err else Res.ofOption t.1.out)

theorem selectStateE_cases {α : Type} (m : MixSt) (a b : α) (ga gb : α × Res) :
    ((m.selectStateE a b ga gb).2.1 = a ∨ (m.selectStateE a b ga gb).2.1 = ga.1) ∧
    ((m.selectStateE a b ga gb).2.2.1 = b ∨ (m.selectStateE a b ga gb).2.2.1 = gb.1) := by
  unfold MixSt.selectStateE
  by_cases h : m.st ≠ 0
  · simp [h]
  · simp only [h, if_false]
    by_cases h1 : m.eof1 <;> by_cases h2 : m.eof2 <;> cases ga.2 <;> cases gb.2 <;> simp [h1, h2]

theorem getE_size (it : It σ) : it.getE.1.size = it.size := by
  induction it with
  | leaf s => simp [getE, size]
  | mix m a b iha ihb =>
    simp only [getE, size]
    have hc := selectStateE_cases m a b a.getE b.getE
    rcases hc.1 with h1 | h1 <;> rcases hc.2 with h2 | h2 <;> simp [h1, h2, iha, ihb]

/-- `Next`: `mr.selectState(ctx)` (its error is dropped), advance the selected source if one is selected, `st = 0` -/
def nextE : It σ → It σ
  | .leaf s => .leaf (Source.next s)
  | .mix m a b =>
    match h : m.selectStateE a b a.getE b.getE with
    | (m', a', b', _) =>
      match m'.st with
      | 1 => .mix { m' with st := 0 } a'.nextE b'
      | 2 => .mix { m' with st := 0 } a' b'.nextE
      | _ => .mix { m' with st := 0 } a' b'
termination_by it => it.size
decreasing_by
  all_goals
    have hc := selectStateE_cases m a b a.getE b.getE
    rw [h] at hc
    have ha := getE_size a
    have hb := getE_size b
    have h1 := hc.1
    have h2 := hc.2
    simp only at h1 h2
    simp only [size]
    rcases h1 with h1 | h1 <;> rcases h2 with h2 | h2 <;> subst h1 <;> subst h2 <;> omega

end It

/-! ## the in-memory leaf with unreadable records -/

/-- `bad`: indices of records whose `Get` fails with an error that is not `io.EOF`; `sticky = false`: such a record fails once
and can be read afterwards -/
structure LeafE where
  l : Leaf
  bad : List Nat := []
  sticky : Bool := true
deriving Repr, Inhabited

namespace LeafE

def getE (s : LeafE) : LeafE × Res :=
  let idx := s.l.clamp
  if idx < s.l.les.length ∧ idx ≥ 0 ∧ s.bad.contains idx.toNat then
    ({ s with l := { s.l with idx := idx }, bad := if s.sticky then s.bad else s.bad.erase idx.toNat }, .err)
  else ({ s with l := s.l.get.1 }, Res.ofOption s.l.get.2)

instance : SourceE LeafE where
  get s := ((getE s).1, match (getE s).2 with | .ok e => some e | _ => none)
  next s := { s with l := s.l.next }
  release s := s
  setBackward bk s := { s with l := s.l.setBackward bk }
  getE := getE

end LeafE

end Logrange.Mixer
