import Logrange.Model.Mixer
/-!
# The error branch of `model.Mixer` (`pkg/model/mixer.go: selectState`, `Get`, `Next`)

`Logrange/Model/Mixer.lean` models sources that answer an event or `io.EOF`. Here a source may also answer an error that is
not `io.EOF` (a record that cannot be read: too big for the reader's buffer, a damaged chunk; a cancelled context):

```go
if !mr.src1.eof {
    mr.src1.le, mr.src1.tags, err = mr.src1.it.Get(ctx)
    if err != nil {
        if err != io.EOF { return err }      // st stays 0, the eof flag is NOT set, source 2 is not asked
        mr.src1.eof = true
    }
}
```
`Get` hands the error on; `Next` drops it (it calls `selectState` and ignores the result; with `st = 0` nothing is advanced).
`selectStateE`/`getE`/`nextE` are the same functions as `selectState`/`get`/`next` of the base model with this branch added
(`selectStateE_noerr`: they coincide when no source errs); `Release` and `SetBackward` do not look at errors and are the base
model's. `LeafE` is the in-memory leaf with unreadable records.
-/
namespace Logrange.Mixer

/-- what `Get` answers: an event, `io.EOF`, or another error -/
inductive Res where
  | ok (e : Ev)
  | eof
  | err
deriving DecidableEq, Repr, Inhabited

def Res.ofOption : Option Ev → Res
  | some e => .ok e
  | none => .eof

/-- a source that may fail -/
class SourceE (σ : Type) extends Source σ where
  getE : σ → σ × Res

/-- `selectState` with the error branch. Last component: a non-EOF error is returned. -/
def MixSt.selectStateE {α : Type} (m : MixSt) (a b : α) (ga gb : α × Res) : MixSt × α × α × Bool :=
  if m.st ≠ 0 then (m, a, b, false) else
  let r1 : MixSt × α × Bool :=
    if !m.eof1 then
      match ga.2 with
      | .ok e => ({ m with le1 := e }, ga.1, false)
      | .eof => ({ m with le1 := default, eof1 := true }, ga.1, false)
      | .err => ({ m with le1 := default }, ga.1, true)          -- `return err`: no flag, no state
    else (m, a, false)
  if r1.2.2 then (r1.1, r1.2.1, b, true) else
  let r2 : MixSt × α × Bool :=
    if !r1.1.eof2 then
      match gb.2 with
      | .ok e => ({ r1.1 with le2 := e }, gb.1, false)
      | .eof => ({ r1.1 with le2 := default, eof2 := true }, gb.1, false)
      | .err => ({ r1.1 with le2 := default }, gb.1, true)
    else (r1.1, b, false)
  if r2.2.2 then (r2.1, r1.2.1, r2.2.1, true) else
  (r2.1.choose, r1.2.1, r2.2.1, false)

namespace It
variable {σ : Type} [SourceE σ]

/-- `Get`: `err := selectState(); if err != nil { return err }`, else the selected buffer or `io.EOF` -/
def getE : It σ → It σ × Res
  | .leaf s => (.leaf (SourceE.getE s).1, (SourceE.getE s).2)
  | .mix m a b =>
    let t := m.selectStateE a b a.getE b.getE
    (.mix t.1 t.2.1 t.2.2.1, if t.2.2.2 then .err else Res.ofOption t.1.out)

theorem selectStateE_cases {α : Type} (m : MixSt) (a b : α) (ga gb : α × Res) :
    ((m.selectStateE a b ga gb).2.1 = a ∨ (m.selectStateE a b ga gb).2.1 = ga.1) ∧
    ((m.selectStateE a b ga gb).2.2.1 = b ∨ (m.selectStateE a b ga gb).2.2.1 = gb.1) := by
  unfold MixSt.selectStateE
  by_cases h : m.st ≠ 0
  · simp [h]
  · simp only [h, if_false]
    by_cases h1 : m.eof1 <;> by_cases h2 : m.eof2 <;> cases ga.2 <;> cases gb.2 <;> simp [h1, h2]

theorem getE_size (it : It σ) : it.getE.1.size = it.size := by
  induction it with
  | leaf s => simp [getE, size]
  | mix m a b iha ihb =>
    simp only [getE, size]
    have hc := selectStateE_cases m a b a.getE b.getE
    rcases hc.1 with h1 | h1 <;> rcases hc.2 with h2 | h2 <;> simp [h1, h2, iha, ihb]

/-- `Next`: `mr.selectState(ctx)` (its error is dropped), advance the selected source if one is selected, `st = 0` -/
def nextE : It σ → It σ
  | .leaf s => .leaf (Source.next s)
  | .mix m a b =>
    match h : m.selectStateE a b a.getE b.getE with
    | (m', a', b', _) =>
      match m'.st with
      | 1 => .mix { m' with st := 0 } a'.nextE b'
      | 2 => .mix { m' with st := 0 } a' b'.nextE
      | _ => .mix { m' with st := 0 } a' b'
termination_by it => it.size
decreasing_by
  all_goals
    have hc := selectStateE_cases m a b a.getE b.getE
    rw [h] at hc
    have ha := getE_size a
    have hb := getE_size b
    have h1 := hc.1
    have h2 := hc.2
    simp only at h1 h2
    simp only [size]
    rcases h1 with h1 | h1 <;> rcases h2 with h2 | h2 <;> subst h1 <;> subst h2 <;> omega

end It

/-! ## the in-memory leaf with unreadable records -/

/-- `bad`: indices of records whose `Get` fails with an error that is not `io.EOF`; `sticky = false`: such a record fails once
and can be read afterwards -/
structure LeafE where
  l : Leaf
  bad : List Nat := []
  sticky : Bool := true
deriving Repr, Inhabited

namespace LeafE

def getE (s : LeafE) : LeafE × Res :=
  let idx := s.l.clamp
  if idx < s.l.les.length ∧ idx ≥ 0 ∧ s.bad.contains idx.toNat then
    ({ s with l := { s.l with idx := idx }, bad := if s.sticky then s.bad else s.bad.erase idx.toNat }, .err)
  else ({ s with l := s.l.get.1 }, Res.ofOption s.l.get.2)

/-- `Source.get` of a `LeafE` is the read of the same in-memory leaf *as if every record could be read* (the base model's
leaf, `bad` ignored): the proved model speaks about what the partitions hold, `getE` about what the reader manages to read.
When `getE` does not fail the two agree (`Proofs/MixerErrRun.lean: instLawfulLeafE`). -/
instance : SourceE LeafE where
  get s := ({ s with l := s.l.get.1 }, s.l.get.2)
  next s := { s with l := s.l.next }
  release s := s
  setBackward bk s := { s with l := s.l.setBackward bk }
  getE := getE

end LeafE

/-! ## the callers of the merged cursor (`pkg/cursor/cursor.go: Offset, iterateToPos`; the read loop of
`pkg/backend/querier.go: Query` and `api/rpc/querier.go: query`) over the error model -/

namespace It
variable {σ : Type} [SourceE σ]

/-- the read loop of `Querier.Query` (no waiting): `for limit > 0 && err == nil { e, tags, err = cur.Get(); if err == nil
{ emit; limit--; cur.Next() } }`. Answer: the cursor, the events emitted, and whether the loop ended with an error that is not
`io.EOF` (then the query answers the error and NO page: regenerated facts `backendQueryFailsOnError`, `rpcQueryFailsOnError`). -/
def pageE : Nat → It σ → It σ × List Ev × Bool
  | 0, t => (t, [], false)
  | n+1, t =>
    match t.getE with
    | (t', .ok e) => let r := pageE n t'.nextE; (r.1, e :: r.2.1, r.2.2)
    | (t', .eof) => (t', [], false)
    | (t', .err) => (t', [], true)

end It

/-- `CurrentPos` of a leaf iterator (`records.IteratorPos`): for a journal iterator the chunk id and the index in the chunk.
Chunk ids are unique over all journals, so positions of different journals are different values: the model's position of an
in-memory leaf is (its partition, its index). -/
class SourcePos (σ : Type) where
  pos : σ → Int × Int

instance : SourcePos LeafE := ⟨fun s => (s.l.tags, s.l.idx)⟩
instance : SourcePos Leaf := ⟨fun l => (l.tags, l.idx)⟩

namespace It
variable {σ : Type} [SourceE σ] [SourcePos σ]

/-- `Mixer.CurrentPos`: the selected source's position, `IteratorPosUnknown` (`none`) when nothing is selected.
(As in the code the answer does not say WHICH source it is a position of.) -/
def curPos : It σ → Option (Int × Int)
  | .leaf s => some (SourcePos.pos s)
  | .mix m a b => if m.st = 1 then a.curPos else if m.st = 2 then b.curPos else none

/-- the loop of `iterateToPos`: `Get`; an error (also `io.EOF`) ends it; stop when `CurrentPos() == pos`; else `Next` -/
def iterateLoopE (pos : Option (Int × Int)) : Nat → It σ → It σ
  | 0, t => t
  | f+1, t =>
    match t.getE with
    | (t', .ok _) => if t'.curPos == pos then t' else iterateLoopE pos f t'.nextE
    | (t', _) => t'

/-- `crsr.iterateToPos`: nothing for a single journal or an unknown position (`multi` = `len(cur.jDescs) > 1`) -/
def iterateToPosE (fuel : Nat) (multi : Bool) (pos : Option (Int × Int)) (t : It σ) : It σ :=
  if !multi || pos.isNone then t else iterateLoopE pos fuel t

/-- `for offs > 0 { cur.Next(); offs--; _, _, err := cur.Get(); if err != nil { pos = unknown; break }; pos = CurrentPos() }` -/
def offsetStepsE : Nat → It σ → Option (Int × Int) → It σ × Option (Int × Int)
  | 0, t, pos => (t, pos)
  | k+1, t, _ =>
    match t.nextE.getE with
    | (t2, .ok _) => offsetStepsE k t2 t2.curPos
    | (t2, _) => (t2, none)

/-- `crsr.Offset`, statement by statement: every error a `Get` answers inside it is dropped -/
def offsetE (fuel : Nat) (multi : Bool) (offs : Int) (t : It σ) : It σ :=
  if offs = 0 then t else
  if offs < 0 then
    let n := offs.natAbs
    let r := t.getE
    let pos := r.1.curPos
    let t1 := r.1.setBackward true
    let x : It σ × Option (Int × Int) × Nat :=
      match r.2 with
      | .eof => let g := t1.getE; (g.1, g.1.curPos, n - 1)
      | _ => (iterateToPosE fuel multi pos t1, pos, n)
    let y := offsetStepsE x.2.2 x.1 x.2.1
    iterateToPosE fuel multi y.2 (y.1.setBackward false)
  else
    (offsetStepsE offs.natAbs t.getE.1 none).1

/-- `Querier.Query` after the cursor is there: `Offset`, then the read loop; `none` = the query fails -/
def queryE (fuel : Nat) (multi : Bool) (offs : Int) (lim : Nat) (t : It σ) : Option (List Ev) :=
  let r := pageE lim (offsetE fuel multi offs t)
  if r.2.2 then none else some r.2.1

end It

end Logrange.Mixer
