import Logrange.Generated.C02
/-!
# C02 — the abstract sparse time index of one chunk (`Points`) and the position window

A chunk's time index, seen abstractly, is the list of the level-0 records of the `ckindex` block tree in
traversal order: points `(ts, idx)`. Consecutive points `(a, b)` form an interval that claims
"positions in `(a.idx, b.idx]` carry timestamps in `[a.ts, b.ts]`".

The operations mirror `pkg/tmindex/ckindex.go` restricted to one level-0 block without the 41-record limit:

* `cntLE`   — `sort.Search` of `findIntervalIdx` / `findIntervalInsertIdx` (number of records with `ts ≤ t`);
* `add`     — `block.addInterval` at level 0: append / merge into the covering interval / collapse;
* `grEqPos` — `ckindex.grEq`: the LAST point with `ts ≤ t` (`errAllMatches` → position 0) — two tests of
              `/repo` pin this answer, the caller compensates by asking for `t − 1` (fix 94ffdf8);
* `lessPos` — `ckindex.less`: the first point with `ts > t`, `none` = `errAllMatches`.

`window` is `chkSelector.updatePoss` over `cindex.getPosForGreaterOrEqualTime/getPosForLessTime`
(hull short-cuts, errors mapped to "whole chunk") with the tree replaced by `Points`.
Only core Lean; everything is computable.
-/
namespace Logrange.Points

structure Pt where
  ts : Int
  idx : Nat
deriving DecidableEq, Repr, Inhabited

structure Iv where
  p0 : Pt
  p1 : Pt
deriving DecidableEq, Repr, Inhabited

/-- number of points with `ts ≤ t` on a ts-sorted list (`sort.Search(recs, ts(i) > t)`) -/
def cntLE (pts : List Pt) (t : Int) : Nat := (pts.takeWhile (fun p => decide (p.ts ≤ t))).length

/-- `ckindex.less`: first point with `ts > t`; `none` = `errAllMatches` (the caller takes MaxUint32) -/
def lessPos (pts : List Pt) (t : Int) : Option Nat :=
  match pts.drop (cntLE pts t) with
  | [] => none
  | p :: _ => some p.idx

/-- `ckindex.grEq` as written in the code: the LAST point with `ts ≤ t`; none (`errAllMatches`) → 0 -/
def grEqPos (pts : List Pt) (t : Int) : Nat :=
  match cntLE pts t with
  | 0 => 0
  | n+1 => (pts.getD n ⟨0, 0⟩).idx

/-- last point (`readLastRecordInTheTree`) -/
def lastD (pts : List Pt) : Pt := pts.getLastD ⟨0, 0⟩
/-- first point -/
def headD (pts : List Pt) : Pt := pts.headD ⟨0, 0⟩

/-- `block.addInterval` at level 0 (no block limit). `c = cntLE pts it.p0.ts`, `insIdx = c − 1`, `ints = len − 1`:
* empty block, or `insIdx = ints`: append (`appendInterval`: an empty block receives both points, otherwise only `p1`);
* `insIdx < 0`: collapse to one interval `[reduce p0 first, (max p1.ts last.ts, p1.idx)]`;
* otherwise merge into the covering interval: keep records `0..insIdx`, then `(max p1.ts last.ts, p1.idx)`. -/
def add (pts : List Pt) (it : Iv) : List Pt :=
  match pts with
  | [] => [it.p0, it.p1]
  | _ :: _ =>
    let c := cntLE pts it.p0.ts
    if c = pts.length then pts ++ [it.p1]
    else
      let p1 : Pt := ⟨max it.p1.ts (lastD pts).ts, it.p1.idx⟩
      if c = 0 then
        let f := headD pts
        [⟨min it.p0.ts f.ts, min it.p0.idx f.idx⟩, p1]
      else pts.take c ++ [p1]

/-! ## what the index means -/

def SortedTs : List Pt → Prop
  | [] => True
  | [_] => True
  | a :: b :: r => a.ts ≤ b.ts ∧ SortedTs (b :: r)

def SortedIdx : List Pt → Prop
  | [] => True
  | [_] => True
  | a :: b :: r => a.idx ≤ b.idx ∧ SortedIdx (b :: r)

/-- interval claims: for consecutive points `(a, b)`, positions in `(a.idx, b.idx]` have `ts ∈ [a.ts, b.ts]` -/
def Claims (tsOf : Nat → Int) : List Pt → Prop
  | [] => True
  | [_] => True
  | a :: b :: r => (∀ q, a.idx < q → q ≤ b.idx → a.ts ≤ tsOf q ∧ tsOf q ≤ b.ts) ∧ Claims tsOf (b :: r)

/-- the first interval is closed on the left and starts at position 0 (`onWrite` declares a chunk whose first
notification has `firstRec > 0` corrupted; `rebuildIndexInt` starts at 0) -/
def HeadOk (tsOf : Nat → Int) : List Pt → Prop
  | a :: b :: _ => a.idx = 0 ∧ a.ts ≤ tsOf 0 ∧ tsOf 0 ≤ b.ts
  | _ => True

/-- positions after the last point (the batches `onWrite` skipped: fewer than `sparseSpace` records since the last
point) carry timestamps `≥ last.ts`; `n` is the number of records in the chunk -/
def TailAbove (tsOf : Nat → Int) (n : Nat) (pts : List Pt) : Prop :=
  ∀ q, (lastD pts).idx < q → q < n → (lastD pts).ts ≤ tsOf q

/-- **IndexSound**: what a chunk's index promises about the `n` records `tsOf 0 … tsOf (n−1)` of the chunk -/
structure IndexSound (tsOf : Nat → Int) (n : Nat) (pts : List Pt) : Prop where
  len : pts.length ≠ 1
  sortedTs : SortedTs pts
  sortedIdx : SortedIdx pts
  claims : Claims tsOf pts
  head : HeadOk tsOf pts
  tail : pts ≠ [] → TailAbove tsOf n pts
  inChunk : ∀ p ∈ pts, p.idx < n

/-! ## hull, range, window -/

structure Hull where
  minTs : Int
  maxTs : Int
deriving DecidableEq, Repr, Inhabited

structure TmRange where
  minTs : Int
  maxTs : Int
deriving DecidableEq, Repr, Inhabited

def inRange (r : TmRange) (t : Int) : Prop := r.minTs ≤ t ∧ t ≤ r.maxTs
instance (r : TmRange) (t : Int) : Decidable (inRange r t) := by unfold inRange; exact inferInstance

/-- **HullSound**: every record of the chunk lies inside the chunk's `[MinTs, MaxTs]` -/
def HullSound (h : Hull) (tsOf : Nat → Int) (n : Nat) : Prop := ∀ p, p < n → h.minTs ≤ tsOf p ∧ tsOf p ≤ h.maxTs

def maxU32 : Nat := 4294967295
def minI64 : Int := -9223372036854775808

/-- `cindex.getPosForGreaterOrEqualTime` followed by `updatePoss`'s error handling (`err ≠ nil → 0`).
`idx = none`: the index is corrupted / missing. -/
def ciGrEq (h : Hull) (idx : Option (List Pt)) (t : Int) : Nat :=
  if h.maxTs < t then 0            -- ErrOutOfRange → minPos = 0
  else if h.minTs ≥ t then 0
  else match idx with
    | none => 0                    -- ErrTmIndexCorrupted → minPos = 0
    | some pts => grEqPos pts t

/-- `cindex.getPosForLessTime` followed by `updatePoss`'s error handling (`err ≠ nil → MaxUint32`) -/
def ciLess (h : Hull) (idx : Option (List Pt)) (t : Int) : Nat :=
  if h.maxTs ≤ t then maxU32
  else if h.minTs ≥ t then maxU32  -- ErrOutOfRange → maxPos = MaxUint32
  else match idx with
    | none => maxU32
    | some pts => (lessPos pts t).getD maxU32

/-- the bound `updatePoss` hands to the index: since fix 94ffdf8 `MinTs − 1`, guarded against wrap-around; whether the
code still decrements is the regenerated fact `Generated.C02.lowerAskMinusOne` -/
def lowerAskWith (minusOne : Bool) (rmin : Int) : Int := if minusOne && rmin > minI64 then rmin - 1 else rmin
def lowerAsk (rmin : Int) : Int := lowerAskWith Generated.C02.lowerAskMinusOne rmin

/-- `chkSelector.updatePoss`: the window `[minPos, maxPos]` of admissible positions of one chunk -/
def window (h : Hull) (idx : Option (List Pt)) (r : TmRange) : Nat × Nat :=
  if r.maxTs < h.minTs ∨ r.minTs > h.maxTs then (maxU32, maxU32)
  else
    let mn := if r.minTs ≥ h.minTs then ciGrEq h idx (lowerAsk r.minTs) else 0
    let mx := if r.maxTs ≤ h.maxTs then ciLess h idx r.maxTs else maxU32
    (mn, mx)

/-- the un-fixed call (before 94ffdf8): the index is asked for `MinTs` itself -/
def windowUnfixed (h : Hull) (idx : Option (List Pt)) (r : TmRange) : Nat × Nat :=
  if r.maxTs < h.minTs ∨ r.minTs > h.maxTs then (maxU32, maxU32)
  else
    let mn := if r.minTs ≥ h.minTs then ciGrEq h idx (lowerAskWith false r.minTs) else 0
    let mx := if r.maxTs ≤ h.maxTs then ciLess h idx r.maxTs else maxU32
    (mn, mx)

/-- position `p` is offered by a chunk status with window `w` and `n` records
(`checkPosOrAdvance` from 0 reaches it, `JIterator.Next` does not leave the window before it) -/
def inWindow (w : Nat × Nat) (p : Nat) : Prop := w.1 ≤ p ∧ p ≤ w.2
instance (w : Nat × Nat) (p : Nat) : Decidable (inWindow w p) := by unfold inWindow; exact inferInstance

/-! ## write-side hypotheses of `add` -/

/-- the interval handed to the index covers its batch: positions `p0.idx … p1.idx` have `ts ∈ [p0.ts, p1.ts]`
(this is what `iwrapper`'s min/max must deliver; false with the 0 sentinel — finding #2) -/
def BatchIn (it : Iv) (tsOf : Nat → Int) : Prop :=
  ∀ q, it.p0.idx ≤ q → q ≤ it.p1.idx → it.p0.ts ≤ tsOf q ∧ tsOf q ≤ it.p1.ts

/-- the positions between the last indexed point and the new batch — the batches `onWrite` skipped — lie below the new
interval's upper timestamp (their lower side is `TailAbove`). Follows from monotonicity; fails for jitter (#4). -/
def GapCovered (pts : List Pt) (it : Iv) (tsOf : Nat → Int) : Prop :=
  ∀ q, (lastD pts).idx < q → q < it.p0.idx → tsOf q ≤ it.p1.ts

/-- non-decreasing timestamps in stored order -/
def Monotone (tsOf : Nat → Int) (n : Nat) : Prop := ∀ i j, i ≤ j → j < n → tsOf i ≤ tsOf j

end Logrange.Points
