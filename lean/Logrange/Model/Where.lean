import Logrange.Go.Basic
import Logrange.Model.PathMatch
import Logrange.Model.Fields
import Logrange.Generated.C05
/-!
# Model of the WHERE evaluator builder (`pkg/lql/whereeval.go`) and its reference meaning

* AST (`pkg/lql/parser.go`): `Expression{Or []*OrCondition}`, `OrCondition{And []*XCondition}`,
  `XCondition{Not, Cond | Expr}`, `Condition{Ident, Op, Value}`, `Identifier{Operand, Params}`.
  The Go slices are plain (non-nested) mutual inductive lists, so every function below is structural.
* MODEL: `getFirstParamName`, `buildMsgLeStrFldF`, `buildTsCond`, `buildMsgCond`, `buildFldCond`, `buildCond`,
  `buildXCond`, `buildXConds`, `buildOrConds`, `buildWhere` mirror the Go functions of the same names; the mutable
  `web.wef` becomes the returned closure, `error` becomes `Except BuildErr`. String constants come from the
  regenerated `Generated.C05` (CMP_*, OPND_*, "fields:" and its lengths).
* SPEC: `evalRef` — the documented meaning, written as a direct evaluator (no closures, no error threading):
  OR = any, AND = all, NOT = negation; ts compares the event's timestamp with the parsed literal; msg and
  fields:<name> are strings (first field of that name, missing = empty) seen through UPPER()/LOWER();
  `supported` says which expressions have a meaning at all.
* `Env`: what the theorems are parametric in — Go's `strings.ToUpper` / `strings.ToLower` and the time literal
  parser `parseLqlDateTime(v).UnixNano()` (property C20).
-/
namespace Logrange.Where
open Go

/-! ## AST -/

mutual
/-- `Identifier{Operand string; Params []*Identifier}` -/
inductive Ident where
  | mk (operand : Bytes) (params : IdList)
/-- `[]*Identifier` -/
inductive IdList where
  | nil
  | cons (h : Ident) (t : IdList)
end

/-- `Condition{Ident, Op, Value}` -/
structure Cond where
  ident : Ident
  op : Bytes
  value : Bytes

mutual
/-- `Expression.Or : []*OrCondition`, each element represented by its `And` list -/
inductive Expr where
  | nil
  | cons (h : AndL) (t : Expr)
/-- `OrCondition.And : []*XCondition` -/
inductive AndL where
  | nil
  | cons (h : XCond) (t : AndL)
/-- `XCondition{Not bool; Cond *Condition | Expr *Expression}` -/
inductive XCond where
  | cond (not : Bool) (c : Cond)
  | sub (not : Bool) (e : Expr)
end

def Ident.operand : Ident → Bytes | .mk o _ => o
def Ident.params : Ident → IdList | .mk _ p => p
def IdList.isNil : IdList → Bool | .nil => true | .cons _ _ => false

/-- `model.LogEvent` as the evaluator sees it -/
structure Event where
  ts : Int
  msg : Bytes
  fields : Bytes

/-- what the model is parametric in -/
structure Env where
  /-- `strings.ToUpper` -/
  up : Bytes → Bytes
  /-- `strings.ToLower` -/
  lo : Bytes → Bytes
  /-- `parseLqlDateTime(v)` then `.UnixNano()`; `none` = the literal is rejected -/
  parseTs : Bytes → Option Int

/-! ## Go's `strings` functions used by the evaluator -/

/-- `strings.HasPrefix(s, p)` -/
def hasPrefix (s p : Bytes) : Bool := p.isPrefixOf s
/-- `strings.HasSuffix(s, p)` -/
def hasSuffix (s p : Bytes) : Bool := p.isSuffixOf s
/-- `strings.Contains(s, sub)` -/
def contains : Bytes → Bytes → Bool
  | [], sub => sub.isEmpty
  | c :: t, sub => sub.isPrefixOf (c :: t) || contains t sub

/-! ## MODEL: the builder -/

inductive BuildErr where
  | operand      -- "operand must be ts, msg, or fields:<fieldname> with non-empty fieldname"
  | tsFunc       -- "functions are not supported for ts fields"
  | tsLiteral    -- parseLqlDateTime failed
  | tsOp         -- "Unsupported operation … for timetstamp comparison"
  | fnArity      -- "only functions with 1 param supported so far"
  | fnName       -- same text, unknown function name
  | msgOp        -- "unsupported operation … for field msg"
  | fldOp        -- "unsupport edoperation … for field …"
  | likePattern  -- "wrong 'like' expression" / "uncompilable 'like' expression"
deriving DecidableEq, Repr

abbrev Pred := Event → Bool

/-- `positiveWhereExpFunc` -/
def positive : Pred := fun _ => true

def sLT : Bytes := [60]
def sGT : Bytes := [62]
def sLE : Bytes := [60, 61]
def sGE : Bytes := [62, 61]
def sEQ : Bytes := [61]
def sNE : Bytes := [33, 61]
def sUPPER : Bytes := [85, 80, 80, 69, 82]
def sLOWER : Bytes := [76, 79, 87, 69, 82]

/-- `getFirstParamName` -/
def getFirstParamName : Ident → Bytes
  | .mk operand .nil => operand
  | .mk _ (.cons p _) => getFirstParamName p

/-- `buildMsgLeStrFldF` -/
def buildMsgLeStrFldF (env : Env) : Ident → Except BuildErr (Bytes → Bytes)
  | .mk _ .nil => .ok (fun str => str)
  | .mk operand (.cons p rest) =>
    let fn := env.up operand
    if !rest.isNil then .error .fnArity                  -- len(id.Params) != 1
    else match buildMsgLeStrFldF env p with
      | .error e => .error e
      | .ok inf =>
        if fn == sUPPER then .ok (fun str => env.up (inf str))
        else if fn == sLOWER then .ok (fun str => env.lo (inf str))
        else .error .fnName

/-- `buildTsCond` -/
def buildTsCond (env : Env) (cn : Cond) : Except BuildErr Pred :=
  if !cn.ident.params.isNil then .error .tsFunc
  else match env.parseTs cn.value with
    | none => .error .tsLiteral
    | some tm =>
      if cn.op == sLT then .ok (fun le => decide (le.ts < tm))
      else if cn.op == sGT then .ok (fun le => decide (le.ts > tm))
      else if cn.op == sLE then .ok (fun le => decide (le.ts ≤ tm))
      else if cn.op == sGE then .ok (fun le => decide (le.ts ≥ tm))
      else .error .tsOp

/-- the result of `path.Match` with the error dropped: `res, _ := path.Match(p, s)` -/
def likeRes (pattern s : Bytes) : Bool := (PathMatch.pathMatch pattern s).getD false

/-- `buildMsgCond` -/
def buildMsgCond (env : Env) (cn : Cond) : Except BuildErr Pred :=
  let op := env.up cn.op
  let val := cn.value
  match buildMsgLeStrFldF env cn.ident with
  | .error e => .error e
  | .ok lsf =>
    if op == Generated.C05.cmpContains then .ok (fun le => contains (lsf le.msg) val)
    else if op == Generated.C05.cmpHasPrefix then .ok (fun le => hasPrefix (lsf le.msg) val)
    else if op == Generated.C05.cmpHasSuffix then .ok (fun le => hasSuffix (lsf le.msg) val)
    else if op == Generated.C05.cmpLike then
      -- test it first: `_, err = path.Match(cn.Value, "abc")`
      match PathMatch.pathMatch cn.value Generated.C05.likeTestName with
      | none => .error .likePattern
      | some _ => .ok (fun le => likeRes cn.value (lsf le.msg))
    else .error .msgOp

/-- `buildFldCond` (`fldName` still carries the `fields:` prefix) -/
def buildFldCond (env : Env) (cn : Cond) (fldName : Bytes) : Except BuildErr Pred :=
  let fldName := fldName.drop Generated.C05.fieldsCut
  let op := env.up cn.op
  let val := cn.value
  match buildMsgLeStrFldF env cn.ident with
  | .error e => .error e
  | .ok lsf =>
    if op == Generated.C05.cmpContains then .ok (fun le => contains (lsf (Fields.value le.fields fldName)) val)
    else if op == Generated.C05.cmpHasPrefix then .ok (fun le => hasPrefix (lsf (Fields.value le.fields fldName)) val)
    else if op == Generated.C05.cmpHasSuffix then .ok (fun le => hasSuffix (lsf (Fields.value le.fields fldName)) val)
    else if op == Generated.C05.cmpLike then
      match PathMatch.pathMatch cn.value Generated.C05.likeTestName with
      | none => .error .likePattern
      | some _ => .ok (fun le => likeRes val (lsf (Fields.value le.fields fldName)))
    else if op == sEQ then .ok (fun le => lsf (Fields.value le.fields fldName) == val)
    else if op == sNE then .ok (fun le => lsf (Fields.value le.fields fldName) != val)
    else if op == sGT then .ok (fun le => bytesLt val (lsf (Fields.value le.fields fldName)))
    else if op == sLT then .ok (fun le => bytesLt (lsf (Fields.value le.fields fldName)) val)
    else if op == sGE then .ok (fun le => !bytesLt (lsf (Fields.value le.fields fldName)) val)
    else if op == sLE then .ok (fun le => !bytesLt val (lsf (Fields.value le.fields fldName)))
    else .error .fldOp

/-- `buildCond` -/
def buildCond (env : Env) (cn : Cond) : Except BuildErr Pred :=
  let fldName := getFirstParamName cn.ident
  let op := env.lo fldName
  if op == Generated.C05.opndTimestamp then buildTsCond env cn
  else if op == Generated.C05.opndMessage then buildMsgCond env cn
  else if !hasPrefix op Generated.C05.fieldsPrefix || op.length < Generated.C05.fieldsMinLen then .error .operand
  else buildFldCond env cn fldName

mutual
/-- `buildOrConds` -/
def buildOrConds (env : Env) : Expr → Except BuildErr Pred
  | .nil => .ok positive
  | .cons a .nil => buildXConds env a                    -- len(ocn) == 1: no need to go ahead
  | .cons a (.cons b r) =>
    match buildXConds env a with
    | .error e => .error e
    | .ok efd0 =>
      match buildOrConds env (.cons b r) with
      | .error e => .error e
      | .ok efd1 => .ok (fun le => efd0 le || efd1 le)
/-- `buildXConds` -/
def buildXConds (env : Env) : AndL → Except BuildErr Pred
  | .nil => .ok positive
  | .cons x .nil => buildXCond env x
  | .cons x (.cons y r) =>
    match buildXCond env x with
    | .error e => .error e
    | .ok efd0 =>
      match buildXConds env (.cons y r) with
      | .error e => .error e
      | .ok efd1 => .ok (fun le => efd0 le && efd1 le)
/-- `buildXCond` -/
def buildXCond (env : Env) : XCond → Except BuildErr Pred
  | .cond n c =>
    match buildCond env c with
    | .error e => .error e
    | .ok efd1 => if n then .ok (fun le => !efd1 le) else .ok efd1
  | .sub n e =>
    match buildOrConds env e with
    | .error e => .error e
    | .ok efd1 => if n then .ok (fun le => !efd1 le) else .ok efd1
end

/-- `BuildWhereExpFuncByExpression` (`none` = nil expression = empty WHERE text) -/
def buildWhere (env : Env) : Option Expr → Except BuildErr Pred
  | none => .ok positive
  | some e => buildOrConds env e

/-! ## SPEC: the documented meaning -/

def sCONTAINS : Bytes := [67, 79, 78, 84, 65, 73, 78, 83]
def sPREFIX : Bytes := [80, 82, 69, 70, 73, 88]
def sSUFFIX : Bytes := [83, 85, 70, 70, 73, 88]
def sLIKE : Bytes := [76, 73, 75, 69]
def sTs : Bytes := [116, 115]
def sMsg : Bytes := [109, 115, 103]
def sFieldsColon : Bytes := [102, 105, 101, 108, 100, 115, 58]
def sProbe : Bytes := [97, 98, 99]

/-- the innermost operand: what the condition is about -/
def leaf : Ident → Bytes
  | .mk operand .nil => operand
  | .mk _ (.cons p _) => leaf p

/-- what a condition looks at -/
inductive Subject where
  | ts
  | msg
  | field (name : Bytes)
  | unknown

/-- ts, msg or fields:<non-empty name>, recognised case-insensitively; the field name is taken as written -/
def subjectOf (env : Env) (id : Ident) : Subject :=
  let k := env.lo (leaf id)
  if k == sTs then .ts
  else if k == sMsg then .msg
  else if sFieldsColon.isPrefixOf k && k.length ≥ 8 then .field ((leaf id).drop 7)
  else .unknown

/-- the functions around the operand are UPPER / LOWER with exactly one parameter each -/
def fnsOk (env : Env) : Ident → Bool
  | .mk _ .nil => true
  | .mk fn (.cons p rest) => rest.isNil && (env.up fn == sUPPER || env.up fn == sLOWER) && fnsOk env p

/-- apply the functions around the operand to its value, innermost first -/
def applyFns (env : Env) : Ident → Bytes → Bytes
  | .mk _ .nil, s => s
  | .mk fn (.cons p _), s =>
    if env.up fn == sUPPER then env.up (applyFns env p s)
    else if env.up fn == sLOWER then env.lo (applyFns env p s)
    else applyFns env p s

inductive TsOp where | lt | gt | le | ge
inductive StrOp where | contains | pfx | sfx | like | eq | ne | gt | lt | ge | le

def tsOpOf (op : Bytes) : Option TsOp :=
  if op == sLT then some .lt else if op == sGT then some .gt
  else if op == sLE then some .le else if op == sGE then some .ge else none

def evalTsOp : TsOp → Int → Int → Bool
  | .lt, a, b => decide (a < b)
  | .gt, a, b => decide (a > b)
  | .le, a, b => decide (a ≤ b)
  | .ge, a, b => decide (a ≥ b)

/-- operator names are case-insensitive (`u` is the upper-cased operator text) -/
def strOpOf (u : Bytes) : Option StrOp :=
  if u == sCONTAINS then some .contains else if u == sPREFIX then some .pfx
  else if u == sSUFFIX then some .sfx else if u == sLIKE then some .like
  else if u == sEQ then some .eq else if u == sNE then some .ne
  else if u == sGT then some .gt else if u == sLT then some .lt
  else if u == sGE then some .ge else if u == sLE then some .le else none

/-- only the text operators are defined for msg -/
def StrOp.forMsg : StrOp → Bool
  | .contains | .pfx | .sfx | .like => true
  | _ => false

/-- string operators: CONTAINS / PREFIX / SUFFIX, LIKE = shell pattern (`path.Match`), the rest is Go string comparison -/
def evalStrOp : StrOp → (subj val : Bytes) → Bool
  | .contains, s, v => contains s v
  | .pfx, s, v => hasPrefix s v
  | .sfx, s, v => hasSuffix s v
  | .like, s, v => PathMatch.pathMatch v s == some true
  | .eq, s, v => s == v
  | .ne, s, v => s != v
  | .gt, s, v => bytesLt v s
  | .lt, s, v => bytesLt s v
  | .ge, s, v => !bytesLt s v
  | .le, s, v => !bytesLt v s

/-- a missing field reads as the empty string; with duplicates the first one counts -/
def fieldRef (fields name : Bytes) : Bytes := (Fields.firstValue (Fields.pairs fields) name).getD []

/-- a LIKE pattern is acceptable when `path.Match` does not report it malformed -/
def patternOk (p : Bytes) : Bool := (PathMatch.pathMatch p sProbe).isSome

/-- does the condition have a meaning? -/
def condSupported (env : Env) (c : Cond) : Bool :=
  match subjectOf env c.ident with
  | .ts => c.ident.params.isNil && (env.parseTs c.value).isSome && (tsOpOf c.op).isSome
  | .msg =>
    fnsOk env c.ident &&
    (match strOpOf (env.up c.op) with
     | some o => o.forMsg && (match o with | .like => patternOk c.value | _ => true)
     | none => false)
  | .field _ =>
    fnsOk env c.ident &&
    (match strOpOf (env.up c.op) with
     | some o => (match o with | .like => patternOk c.value | _ => true)
     | none => false)
  | .unknown => false

/-- the meaning of one condition on one event (false where `condSupported` is false) -/
def condRef (env : Env) (c : Cond) (ev : Event) : Bool :=
  match subjectOf env c.ident with
  | .ts =>
    (match env.parseTs c.value, tsOpOf c.op with
     | some tm, some o => evalTsOp o ev.ts tm
     | _, _ => false)
  | .msg =>
    (match strOpOf (env.up c.op) with
     | some o => evalStrOp o (applyFns env c.ident ev.msg) c.value
     | none => false)
  | .field name =>
    (match strOpOf (env.up c.op) with
     | some o => evalStrOp o (applyFns env c.ident (fieldRef ev.fields name)) c.value
     | none => false)
  | .unknown => false

mutual
/-- OR: some alternative holds -/
def evalRef (env : Env) : Expr → Event → Bool
  | .nil, _ => false
  | .cons a r, ev => evalAnd env a ev || evalRef env r ev
/-- AND: every member holds -/
def evalAnd (env : Env) : AndL → Event → Bool
  | .nil, _ => true
  | .cons x r, ev => evalX env x ev && evalAnd env r ev
/-- NOT negates the condition or the parenthesised expression it stands before -/
def evalX (env : Env) : XCond → Event → Bool
  | .cond n c, ev => n != condRef env c ev
  | .sub n e, ev => n != evalRef env e ev
end

mutual
def supported (env : Env) : Expr → Bool
  | .nil => true
  | .cons a r => supportedAnd env a && supported env r
def supportedAnd (env : Env) : AndL → Bool
  | .nil => true
  | .cons x r => supportedX env x && supportedAnd env r
def supportedX (env : Env) : XCond → Bool
  | .cond _ c => condSupported env c
  | .sub _ e => supported env e
end

mutual
/-- what the grammar guarantees (`@@ { "OR" @@ }`): no empty OR list anywhere (a parenthesised or top-level expression
has at least one alternative). The builder reads an empty list as "true", the reference meaning of an empty
disjunction is "false"; the parser cannot produce one. -/
def wellFormed : Expr → Bool
  | .nil => false
  | .cons a .nil => wellFormedAnd a
  | .cons a (.cons b r) => wellFormedAnd a && wellFormed (.cons b r)
def wellFormedAnd : AndL → Bool
  | .nil => true
  | .cons x r => wellFormedX x && wellFormedAnd r
def wellFormedX : XCond → Bool
  | .cond _ _ => true
  | .sub _ e => wellFormed e
end

/-- the meaning of an optional WHERE clause: absent = every event -/
def evalWhereRef (env : Env) : Option Expr → Event → Bool
  | none, _ => true
  | some e, ev => evalRef env e ev

end Logrange.Where

namespace Logrange.Where

/-! ## the driver's (and the examples') environment: ASCII case mapping with an exception table -/

def asciiUpper (b : Bytes) : Bytes := b.map (fun c => if 97 ≤ c.toNat && c.toNat ≤ 122 then UInt8.ofNat (c.toNat - 32) else c)
def asciiLower (b : Bytes) : Bytes := b.map (fun c => if 65 ≤ c.toNat && c.toNat ≤ 90 then UInt8.ofNat (c.toNat + 32) else c)

def lookup (t : List (Bytes × Bytes)) (k : Bytes) : Option Bytes := (t.find? (fun p => p.1 == k)).map (·.2)

/-- the exact value of a numeric time literal: blanks trimmed, optional sign, decimal digits, inside int64 — what
`strconv.ParseInt(dt, 10, 64)` reads and `time.Unix(0, v).UnixNano()` gives back (the last fallback of
`parseLqlDateTime`: a number is unix nanoseconds, taken as it is written) -/
def decimalInt (v : Bytes) : Option Int :=
  let t := ((v.dropWhile (· == 32)).reverse.dropWhile (· == 32)).reverse
  let (neg, ds) := match t with
    | c :: r => if c == 45 then (true, r) else if c == 43 then (false, r) else (false, t)
    | [] => (false, t)
  if ds.isEmpty || !ds.all (fun c => 48 ≤ c.toNat && c.toNat ≤ 57) then none else
  let n : Nat := ds.foldl (fun a c => a * 10 + (c.toNat - 48)) 0
  let i : Int := if neg then -(n : Int) else n
  if i < -(2^63) ∨ i ≥ 2^63 then none else some i

/-- the environment reads numeric time literals exactly (tied to the code by the regenerated fact
`Generated.C05.tsNumericFallback = "ParseInt(_,10,64);Unix(0,v)"` and checked for every literal by the harness) -/
def NumericExact (env : Env) : Prop := ∀ v i, decimalInt v = some i → env.parseTs v = some i

/-- the SPEC side of the driver: a numeric literal means its exact value, whatever the table says -/
def exactEnv (env : Env) : Env := { env with parseTs := fun v => match decimalInt v with | some i => some i | none => env.parseTs v }

/-- Go's `strings.ToUpper` / `strings.ToLower` on pure ASCII is the byte-wise mapping; for other strings the table
(filled by the harness from the real functions) is consulted first. -/
def tableEnv (ups los : List (Bytes × Bytes)) (tss : List (Bytes × Option Int)) : Env where
  up s := (lookup ups s).getD (asciiUpper s)
  lo s := (lookup los s).getD (asciiLower s)
  parseTs v := ((tss.find? (fun p => p.1 == v)).map (·.2)).getD none

end Logrange.Where
