import Logrange.Model.TIndexLts
/-!
# The real callers of the tag index as actor programs over the lock-protocol LTS

Every caller of `tindex.Service` in /repo is mirrored as a small control-state machine (`Ctl`) whose transitions
emit labels of `Model/TIndexLts.lean`; the next control state depends on the outcome of the critical section
(acquired / must wait / not found …) and on the environment's choices (an error of `Journals.GetOrCreate`, the
partition's size, a cancelled context, the limit of `GetJournals`, Go's map order inside `Visit`), which are the
different options `pnext` offers.

| caller in /repo                                                     | program                                   |
|---|---|
| `partition.Service.Write`                                           | `acqTags tags true`                       |
| `partition.Service.GetParitionInfo`                                 | `acqTags tags false`                      |
| `partition.Service.GetJournal` + the later `Release` (cursor on `state.Src`, pipes), `tmirebuilder.serve`, one round of `cleanupTsIndex` | `idLoopOf srcs false` |
| `partition.Service.truncateGlobally` (`MAXDBSIZE` pass: acquire by id, `deleteJournal`, `Release`) | `idLoopOf srcs true` |
| `ppipe.catchUp` (once per loaded pipe at server start, f54d781: for every source with a saved position `GetJournal(src)`, look at the chunks, maybe start a worker, `Release(src)` on every path — regenerated fact `acquiredAtExit`) | `catchUp srcs` = `idLoopOf srcs false` |
| `ppipe.cleanPartitions` (`GetJournalTags(src, false)`)              | `peekOf srcs`                             |
| `partition.Service.Partitions`                                      | `vStart .partitions sel`                  |
| `partition.Service.GetJournals` (ok / limit / repaired error path) followed by the holder of the result giving it back (`cursor.close`, the error path's loop over `res`) | `vStart .getJournals sel` |
| `partition.Service.Truncate` (visit with `deleteJournal` of empty partitions, then the `MAXDBSIZE` pass) | `vStart (.truncate items) sel` |
| `partition.Service.deleteJournal`                                   | `dj .lock s k` (inside the two above)     |
| `cursor.newCursor` by query: `GetJournals`, then either the cursor lives and `close()` releases every journal later, or an error path (`newFIterator` fails, the position cannot be applied) calls `releaseJournals(srcs)`; `GetJournals`' own failures (more than 50 partitions, `GetOrCreate`) are its limit / error path | `newCursorByQuery sel` = `vStart .getJournals sel` |
| `cursor.newCursor` by `state.Src`: `GetJournal(src)`, then `close()` later or `releaseJournals` on an error | `newCursorBySrc s` = `idLoopOf [s] false` |

`Shutdown()` of the tag index may happen at any point of a run (`Reach.shutdown`): acquisitions then fail and the callers
go on without them; a waiting `Visit` (`Partitions`, `GetJournals`) that meets the flag in its per-item section returns
`WrongState` WITHOUT its final locked section.

The environment's free choices are modelled by offering all of them; a waiting caller (partition exclusively locked)
is an option that changes neither the state nor the control state.
-/
namespace Logrange.TIndexProg
open Logrange.TIndexLts

/-- where `deleteJournal` stands: before `LockExclusively`; locked (after `j.Sync()` and the size test — neither is a
critical section of the tag index), before `Delete`; before the (last) `UnlockExclusively` -/
inductive DjPh | lock | delete | unlock
deriving DecidableEq, Repr

inductive VKind
  | partitions
  | getJournals
  /-- `items`: the sources the `MAXDBSIZE` pass will go through afterwards (the environment's choice) -/
  | truncate (items : List Nat)
deriving DecidableEq, Repr

inductive Ctl
  | fin
  /-- acquire by tags, use, `Release` -/
  | acqTags (tags : Nat) (create : Bool)
  /-- `Release s`, then each of `l`, then `k` -/
  | rel (s : Nat) (l : List Nat) (k : Ctl)
  /-- per item: `GetJournalTags(s, true)`; `[deleteJournal]`; `Release` -/
  | idLoop (s : Nat) (rest : List Nat) (del : Bool)
  /-- per item: `GetJournalTags(s, false)` -/
  | peek (s : Nat) (rest : List Nat)
  | dj (ph : DjPh) (s : Nat) (k : Ctl)
  | vStart (kind : VKind) (sel : List Nat)
  /-- between two callbacks; `kept`: entries that have become the client's (`GetJournals`' `res`) -/
  | vPick (kind : VKind) (kept : List Nat)
  /-- the visitor is running on `s` -/
  | vCb (kind : VKind) (s : Nat) (kept : List Nat)
  /-- the visitor on `s` is about to return (after its `deleteJournal`) -/
  | vRet (kind : VKind) (s : Nat) (kept : List Nat)
  /-- the final locked section is next -/
  | vEnd (kind : VKind) (kept : List Nat)
deriving Repr

def relThen : List Nat → Ctl → Ctl
  | [], k => k
  | s :: l, k => .rel s l k

def idLoopOf : List Nat → Bool → Ctl
  | [], _ => .fin
  | s :: r, del => .idLoop s r del

def peekOf : List Nat → Ctl
  | [] => .fin
  | s :: r => .peek s r

def skipOf : VKind → Bool
  | .truncate _ => true
  | _ => false

def dnrOf : VKind → Bool
  | .getJournals => true
  | _ => false

/-- what the caller does after `Visit` returned -/
def afterVisit : VKind → List Nat → Ctl
  | .partitions, kept => relThen kept .fin              -- (`kept` is empty for the auto-release visits)
  | .getJournals, kept => relThen kept .fin             -- the error path's loop over `res` / `cursor.close` later
  | .truncate items, kept => relThen kept (idLoopOf items true)

/-- the sources the client has to `Release` in this control state (`res`, `jDescs`, the deferred releases) -/
def heldOf : Ctl → List Nat
  | .fin => []
  | .acqTags _ _ => []
  | .rel s l k => s :: (l ++ heldOf k)
  | .idLoop _ _ _ => []
  | .peek _ _ => []
  | .dj _ _ k => heldOf k
  | .vStart _ _ => []
  | .vPick _ kept => kept
  | .vCb _ _ kept => kept
  | .vRet _ _ kept => kept
  | .vEnd _ kept => kept

inductive VPhase
  | pick | cb (s : Nat) | fin
deriving DecidableEq, Repr

/-- is a `Visit` of the actor running in this control state, and where is it? -/
def visOf : Ctl → Option (VKind × VPhase)
  | .rel _ _ k => visOf k
  | .dj _ _ k => visOf k
  | .vPick kind _ => some (kind, .pick)
  | .vCb kind s _ => some (kind, .cb s)
  | .vRet kind s _ => some (kind, .cb s)
  | .vEnd kind _ => some (kind, .fin)
  | _ => none

def finished : Ctl → Bool
  | .fin => true
  | _ => false

/-- the visitor returns: continue or abort -/
def retOpts (a : Nat) (kind : VKind) (s : Nat) (kept : List Nat) : List (Lbl × Ctl) :=
  [(.visitCb a s true, .vPick kind kept), (.visitCb a s false, .vEnd kind kept)]

/-- outcome of `LockExclusively(s)` as the code computes it -/
def lockOk (st : St) (s : Nat) : Bool := (lockRaw st.c.parts s).2

/-- the options of `deleteJournal(s)` in phase `ph`, continuing with `k` -/
def djOpts (a : Nat) (st : St) (ph : DjPh) (s : Nat) (k : Ctl) : List (Lbl × Ctl) :=
  match ph with
  | .lock =>
    if lockOk st s then [(.lockX a s, .dj .delete s k), (.lockX a s, .dj .unlock s k)]   -- size 0: Delete / size > 0: just unlock
    else [(.lockX a s, k)]                                                                -- "Giving up."
  | .delete => [(.delete a s, .dj .unlock s k)]
  | .unlock => [(.unlockX a s, k)]

/-- the visitor's body on entry `s` -/
def cbOpts (a : Nat) (st : St) (kind : VKind) (s : Nat) (kept : List Nat) : List (Lbl × Ctl) :=
  match kind with
  | .partitions => retOpts a kind s kept
  | .getJournals =>
    [ (.visitCb a s true, .vPick kind (s :: kept)),           -- `res[tags] = j`, go on
      (.visitCb a s false, .vEnd kind (s :: kept)),           -- `len(res) == maxLimit`: the entry is in `res`
      (.visitCb a s false, .rel s [] (.vEnd kind kept)) ]     -- `Journals.GetOrCreate` failed: the visitor gives `s` back itself (repair of F15)
  | .truncate _ =>
    -- nothing to delete / `deleteJournal(s)` on an empty partition, then return
    retOpts a kind s kept ++ djOpts a st .lock s (.vRet kind s kept)

/-- acquire by id: the outcome of one round of `GetJournalTags(s, lock)`'s loop -/
inductive AcqRes | down | notFound | wait | ok
deriving DecidableEq, Repr

def acqById (st : St) (s : Nat) : AcqRes :=
  if st.done then .down else
  match st.c.parts s with
  | none => .notFound
  | some p => if p.exclusive then .wait else .ok

/-- the options of actor `a` in control state `c` when the shared state is `st`: the label of its next critical
section and the control state it goes on with -/
def pnext (a : Nat) (st : St) : Ctl → List (Lbl × Ctl)
  | .fin => []
  | .acqTags tags create =>
    let l := Lbl.getOrCreate a tags create
    if st.done then [(l, .fin)] else
    match findTags st.c.parts tags st.c.next with
    | some s =>
      (match st.c.parts s with
       | some p => if p.exclusive then [(l, .acqTags tags create)] else [(l, .rel s [] .fin)]
       | none => [(l, .fin)])
    | none => if create then [(l, .rel st.c.next [] .fin)] else [(l, .fin)]
  | .rel s l k => [(.release a s, relThen l k)]
  | .idLoop s rest del =>
    let l := Lbl.getTags a s true
    match acqById st s with
    | .wait => [(l, .idLoop s rest del)]
    | .ok =>
      if del then [(l, .dj .lock s (.rel s [] (idLoopOf rest del))), (l, .rel s [] (idLoopOf rest del))]  -- (a failing `Journals.GetOrCreate` or a dry run skips `deleteJournal`)
      else [(l, .rel s [] (idLoopOf rest del))]
    | _ => [(l, idLoopOf rest del)]
  | .peek s rest =>
    let l := Lbl.getTags a s false
    match acqById st s with
    | .wait => [(l, .peek s rest)]
    | _ => [(l, peekOf rest)]
  | .dj ph s k => djOpts a st ph s k
  | .vStart kind sel =>
    let l := Lbl.visitBegin a sel (skipOf kind) (dnrOf kind)
    if st.done then [(l, afterVisit kind [])] else [(l, .vPick kind [])]
  | .vPick kind kept =>
    match st.vis a with
    | none => []
    | some v =>
      if v.pending.isEmpty then [(.visitEnd a, afterVisit kind kept)]
      else if skipOf kind then
        -- the skipping flavour calls the visitor on the next snapshot entry (Go's map order: any of them)
        v.pending.flatMap (fun s => cbOpts a st kind s kept)
      else if st.done then
        -- the waiting flavour after `Shutdown()`: the per-item section sees `ims.done` and `Visit` returns
        -- `errors2.WrongState` at once, WITHOUT its final locked section; the caller goes on as after any failed visit
        v.pending.map (fun s => (Lbl.visitTry a s, afterVisit kind kept))
      else
        -- the waiting flavour: the per-item section on the next entry
        v.pending.flatMap (fun s =>
          match st.c.parts s with
          | none => [(.visitTry a s, .vPick kind kept)]                     -- gone: skipped
          | some p => if p.exclusive then [(.visitTry a s, .vPick kind kept)]   -- waits
                      else [(.visitTry a s, .vCb kind s kept)])
  | .vCb kind s kept => cbOpts a st kind s kept
  | .vRet kind s kept => retOpts a kind s kept
  | .vEnd kind kept => [(.visitEnd a, afterVisit kind kept)]

/-- `cursor.newCursor` for a query: every way it ends (a living cursor closed later, `releaseJournals` on a filter or
position error, `GetJournals`' limit and error paths) gives back exactly the journals `GetJournals` kept -/
def newCursorByQuery (sel : List Nat) : Ctl := .vStart .getJournals sel

/-- `cursor.newCursor` for `state.Src` -/
def newCursorBySrc (s : Nat) : Ctl := idLoopOf [s] false

/-- `ppipe.catchUp`: per source of the pipe acquire by id (not found / shut down: next source), release -/
def catchUp (srcs : List Nat) : Ctl := idLoopOf srcs false

/-- the system: the shared state and every actor's control state (actors without a program are `fin`) -/
structure Sys where
  st : St
  ctl : Nat → Ctl

/-- actor `a` performs one of its options -/
def SysStep (x y : Sys) : Prop :=
  ∃ a l c', (l, c') ∈ pnext a x.st (x.ctl a) ∧ step x.st l = some y.st ∧ y.ctl = upd x.ctl a c'

/-- a caller at its entry point -/
def isEntry : Ctl → Prop
  | .fin => True
  | .acqTags _ _ => True
  | .idLoop _ _ _ => True
  | .peek _ _ => True
  | .vStart _ _ => True
  | _ => False

inductive Reach : Sys → Prop
  /-- any number of callers at their entry points on an empty index -/
  | start (ctl : Nat → Ctl) (h : ∀ a, isEntry (ctl a)) : Reach ⟨init, ctl⟩
  | step {x y : Sys} (h : Reach x) (s : SysStep x y) : Reach y
  /-- a finished actor starts another call -/
  | call {x : Sys} (h : Reach x) (a : Nat) (c : Ctl) (hf : x.ctl a = .fin) (he : isEntry c) : Reach ⟨x.st, upd x.ctl a c⟩
  /-- `Shutdown()` of the tag index, at any point of the run -/
  | shutdown {x : Sys} (h : Reach x) : Reach ⟨{ x.st with done := true }, x.ctl⟩

/-! ### run segments, and what a caller is waiting for (used by the bounded-waiting theorems) -/

/-- the source an unfinished caller needs next (the only thing it can wait for) -/
def needs (a : Nat) (st : St) : Ctl → Nat → Prop
  | .acqTags t _, s => findTags st.c.parts t st.c.next = some s
  | .idLoop s' _ _, s => s' = s
  | .peek s' _, s => s' = s
  | .vPick kind _, s => skipOf kind = false ∧ ∃ v, st.vis a = some v ∧ v.pending.head? = some s
  | _, _ => False

/-- actor `a` performs one of its options -/
def SysStepBy (a : Nat) (x y : Sys) : Prop :=
  ∃ l c', (l, c') ∈ pnext a x.st (x.ctl a) ∧ step x.st l = some y.st ∧ y.ctl = upd x.ctl a c'

/-- a run segment; the list names the acting actors in order (the scheduler's choices) -/
inductive Run : Sys → List Nat → Sys → Prop
  | nil (x : Sys) : Run x [] x
  | cons {a : Nat} {x y z : Sys} {as : List Nat} (s : SysStepBy a x y) (r : Run y as z) : Run x (a :: as) z


end Logrange.TIndexProg
