import Logrange.Go.Basic
/-!
# The forwarder worker loop as a labelled transition system (`pkg/forwarder/worker.go`, `forwarder.go`)

```go
for ctx.Err() == nil && state != wsStopping {
    err = w.rpcc.Query(ctx, qr, res)
    if err != nil || res.Err != nil { sleep; continue }      // qTransport / qServer: same request again
    if len(res.Events) == 0       { sleep; continue }      // qEmpty: same request again
    err = w.sink.OnEvent(res.Events)
    if err != nil                 { sleep; continue }      // page k false: same request again
    qr = &res.NextQueryRequest                              // page k true
    w.desc.setPosition(qr.Pos)
}
```

The partition is its events `0 … n-1` in stored order; a position is the index of the next event to read. The
server is assumed honest (that is C03): a query at position `p` answers with the events `p … p+k'-1`
(`k' = min k (n-p)`, `k` chosen by the environment: page limit, what is flushed) and a next request at `p+k'`.
`persist` is `persistState()` (periodic tick); `stop`/`graceful` end the session with the final persist,
`crash` without it, `crashAfterAccept k` is a crash between the sink's accept and `setPosition` (the one batch in
flight); the next session starts from what is persisted (`loadState`, `prepareQuery`).
Ghost fields: `sess` (indices the sink accepted in this session, in order), `all` (over all sessions),
`start0`, `sessionStart`, `high`.
-/
namespace Logrange.Forwarder

structure S where
  n : Nat
  pos : Nat            -- qr.Pos
  desc : Nat           -- desc.position
  persisted : Nat      -- forwarder.json
  -- ghost
  start0 : Nat
  sessionStart : Nat
  sess : List Nat
  all : List Nat
  batches : List (Nat × Nat)   -- accepted batches `[a,b)` over all sessions, in order
  high : Nat           -- one past the highest index ever accepted (start0 if none)
  sessions : Nat
  accSince : Nat       -- events accepted since the last persist or restart
deriving DecidableEq, Repr

def init (n start : Nat) : S :=
  { n := n, pos := start, desc := start, persisted := start, start0 := start, sessionStart := start,
    sess := [], all := [], batches := [], high := start, sessions := 1, accSince := 0 }

inductive L where
  | qTransport | qServer | qEmpty
  | page (k : Nat) (accept : Bool)
  | persist
  | stop | graceful | crash
  | crashAfterAccept (k : Nat)   -- the sink accepts a page of up to k events, the process dies before `setPosition`
  | grow (k : Nat)
deriving DecidableEq, Repr

/-- `setBeforeSink = true` models the (wrong) order "setPosition before OnEvent" — only used to show what the
theorems exclude; the code's order is regenerated as `Generated.C18.setPositionAfterAccept`. -/
structure Cfg where
  setAfterAccept : Bool := true
  retryRejected : Bool := true
deriving DecidableEq, Repr

def restart (s : S) : S :=
  { s with pos := s.persisted, desc := s.persisted, sessionStart := s.persisted, sess := [], sessions := s.sessions + 1,
           accSince := 0 }

def step (c : Cfg) (s : S) : L → S
  | .qTransport => s
  | .qServer => s
  | .qEmpty => s
  | .page k acc =>
    let k' := min k (s.n - s.pos)
    if k' = 0 then s
    else if acc then
      { s with pos := s.pos + k', desc := s.pos + k', sess := s.sess ++ List.range' s.pos k',
               all := s.all ++ List.range' s.pos k', batches := s.batches ++ [(s.pos, s.pos + k')], high := max s.high (s.pos + k'),
               accSince := s.accSince + k' }
    else
      -- rejected: `continue` with the same request
      { s with desc := if c.setAfterAccept then s.desc else s.pos + k',
               pos := if c.retryRejected then s.pos else s.pos + k' }
  | .persist => { s with persisted := s.desc, accSince := 0 }
  | .stop => restart { s with persisted := s.desc, accSince := 0 }
  | .graceful => restart { s with persisted := s.desc, accSince := 0 }
  | .crash => restart s
  | .crashAfterAccept k =>
    let k' := min k (s.n - s.pos)
    restart { s with all := s.all ++ List.range' s.pos k', batches := s.batches ++ [(s.pos, s.pos + k')],
                     high := max s.high (s.pos + k') }
  | .grow k => { s with n := s.n + k }

def run (c : Cfg) (s : S) : List L → S
  | [] => s
  | l :: ls => run c (step c s l) ls

/-! ## worker start: ensuring the pipe (`worker.run` before its loop, `rpc.Client.EnsurePipe`, `syncWorkers`)

A worker whose pipe has no fixed destination first calls `EnsurePipe`. The call succeeds or fails in the transport.
* `reportsFailure` (fix b3f8b31): the rpc client returns the error; before, it returned nil and the worker went on with
  the zero `api.Pipe` — an empty destination, `SELECT FROM ` for ever (`blind`).
* `marksStopped` (fix 1b7795d): `worker.run` stores `wsStopped` before it returns the error; before, it just returned
  and `isStopped()` stayed false (`dead`): `syncWorkers` restarts only stopped workers.
`syncTick` is `Forwarder.syncWorkers` (every `SyncWorkersIntervalSec`). -/

inductive Start where
  | ensuring      -- the worker's goroutine is in getPipe
  | running       -- it has its destination: the poll loop (`S`, `step`) runs
  | stopped       -- the goroutine has ended and says so
  | dead          -- the goroutine has ended, isStopped() = false
  | blind         -- the poll loop runs with an empty destination
deriving DecidableEq, Repr

inductive StartL where
  | ensureOk | ensureFail | syncTick
deriving DecidableEq, Repr

structure StartCfg where
  reportsFailure : Bool
  marksStopped : Bool
deriving DecidableEq, Repr

def startStep (c : StartCfg) : Start → StartL → Start
  | .ensuring, .ensureOk => .running
  | .ensuring, .ensureFail =>
    if c.reportsFailure then (if c.marksStopped then .stopped else .dead) else .blind
  | .stopped, .syncTick => .ensuring       -- `!ok || w.isStopped()` ⇒ runWorker again
  | s, _ => s

def startRun (c : StartCfg) (s : Start) : List StartL → Start
  | [] => s
  | l :: ls => startRun c (startStep c s l) ls

end Logrange.Forwarder
