import Logrange.Model.RangedIter
import Logrange.Model.PartScan
/-!
# C02 — what a fresh ranged cursor of the pipeline model reads, as a fold over the chunk statuses

`statuses s` are the chunk statuses `chkSelector.rebuildChunkStatuses` computes for a fresh selector on the pipeline
state `s` (`RangedIter.rebuildStatuses`: `syncChunks`, then `updatePoss` per chunk through the chunk index `CIndex` on
the block tree `ITree`). `absScan s` is the proved abstract forward scan (`PartScan.scanAll`: `getPosForward`,
`Get`/`Next`/`advanceChunk` as a fold over the chunks) over those statuses followed by `fiterator`'s range re-check —
the value the driver compares with the stateful iterator (`RangedIter.scan`) on every scan (field `abs`), and the value
the end-to-end theorem of `Props/C02E2E.lean` is about. Positions are `(chunk index in the journal, record index)`.
-/
namespace Logrange.PipeRead
open Logrange Selector

/-- the chunk statuses of a fresh selector -/
def statuses (s : RangedIter.St) : List ChkSt := (RangedIter.rebuildStatuses s).stats.map (·.2)

/-- timestamp of record `kp.2` of the `kp.1`-th chunk -/
def tsOfPos (s : RangedIter.St) (kp : Nat × Nat) : Int := ((s.tss[kp.1]?).getD #[])[kp.2]?.getD 0

/-- forward scan of a fresh cursor: window positions chunk by chunk, then the range re-check -/
def absScan (s : RangedIter.St) : List (Nat × Nat) :=
  (PartScan.scanAll (statuses s)).filter (fun kp => RangedIter.fitInRange s.rmin s.rmax (tsOfPos s kp))

end Logrange.PipeRead
