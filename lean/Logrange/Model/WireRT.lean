import Logrange.Go.Basic
import Logrange.Generated.C01
/-!
# Wire model for C01 (round trip): `xbinary`, `model.LogEvent` record codec, RPC write packet

Mirrors, function by function:

* `github.com/logrange/range/pkg/utils/encoding/xbinary` (DESIGN Appendix A.6): fixed-width big-endian integers,
  `MarshalUint/UnmarshalUint` (base-128 varint, least significant group first, groups beyond 64 bits vanish),
  `MarshalBytes/UnmarshalBytes` incl. the `ln := int(uln)` conversion and the slice panic when `ln+idx < idx`.
* `pkg/model/logevent.go`: `header`, `Marshal`, `WritableSize`, `Unmarshal` (the record header constants are
  the *regenerated* ones of `Generated.C01`). `Unmarshal` does **not** touch `le.Fields` when the header bit is
  clear — the previous value stays (`prev`); `LogEventIterator.Next` clears it (`Release`).
* `api/rpc/encoder.go` (`writeLogEvent`, `unmarshalLogEvent`), `api/rpc/ingestor.go` (`writePacket.WriteTo`,
  `wpIterator.init/Get/Next`). `field.NewFieldsFromKVString` is a *parameter* `parseKV` (its meaning is C08's);
  `field.Parse` = `(parseKV ·).getD []` (errors swallowed); `Fields.Concat` = concatenation in the regenerated order.

The C13 check has its own copy of the decoder side (totality); this file is self-contained on purpose.
-/
namespace Logrange.WireRT
open Go

inductive Out (α : Type) where
  | ok (a : α)
  | err
  | panic
deriving Repr, DecidableEq

def two63 : Nat := 9223372036854775808
def two64 : Nat := 18446744073709551616
def two32 : Nat := 4294967296

/-! ## xbinary -/

/-- big-endian image of `n` on `k` bytes (`binary.BigEndian.PutUintNN`) -/
def be (n : Nat) : Nat → Bytes
  | 0 => []
  | k+1 => UInt8.ofNat (n / 256 ^ k % 256) :: be n k

def fromBE (b : Bytes) : Nat := b.foldl (fun a x => a * 256 + x.toNat) 0

/-- `UnmarshalUint64`: (bytes read, value) -/
def u64 (buf : Bytes) : Out (Nat × Nat) := if buf.length < 8 then .err else .ok (8, fromBE (buf.take 8))
/-- `UnmarshalUint32` -/
def u32 (buf : Bytes) : Out (Nat × Nat) := if buf.length < 4 then .err else .ok (4, fromBE (buf.take 4))

/-- `UnmarshalUint`: `res |= uint(b&127) << shft` — a shift of 64 or more gives 0, bits above 63 are lost. -/
def uvarintGo : Bytes → Nat → Nat → Nat → Out (Nat × Nat)
  | [], _, _, _ => .err
  | b :: r, idx, shft, res =>
    let add := if shft ≥ 64 then 0 else ((b.toNat % 128) * 2 ^ shft) % two64
    let res' := res ||| add
    if b.toNat ≤ 127 then .ok (idx + 1, res') else uvarintGo r (idx + 1) (shft + 7) res'

def uvarint (buf : Bytes) : Out (Nat × Nat) := uvarintGo buf 0 0 0

/-- `MarshalUint`: the loop runs at most 10 times for a 64-bit value. -/
def marshalUvarintGo : Nat → Nat → Bytes
  | 0, _ => []
  | fuel+1, v => if v > 127 then UInt8.ofNat (128 + v % 128) :: marshalUvarintGo fuel (v / 128) else [UInt8.ofNat v]

def marshalUvarint (v : Nat) : Bytes := marshalUvarintGo 10 (v % two64)

/-- `MarshalBytes` / `MarshalString` into a buffer of exactly `WritableSize` bytes -/
def marshalBytes (b : Bytes) : Bytes := marshalUvarint b.length ++ b

/-- int64 wrap-around of a mathematical integer -/
def wrap64 (x : Int) : Int :=
  let m := x % (two64 : Int)
  if m ≥ (two63 : Int) then m - (two64 : Int) else m

/-- `UnmarshalBytes` / `UnmarshalString`: (bytes read, value). `ln := int(uln)`; `len(buf) < ln+idx ⇒ error`;
`buf[idx:idx+ln]` panics when the int64 sum is below `idx`. -/
def bytesField (buf : Bytes) : Out (Nat × Bytes) :=
  match uvarint buf with
  | .err => .err
  | .panic => .panic
  | .ok (idx, uln) =>
    let ln : Int := wrap64 uln
    let hi : Int := wrap64 (ln + idx)
    if (buf.length : Int) < hi then .err
    else if hi < idx then .panic
    else .ok (hi.toNat, (buf.drop idx).take (hi.toNat - idx))

/-! ## model.LogEvent record -/

/-- `model.LogEvent`; `ts` is the uint64 image of the int64 timestamp, `fields` the binary `field.Fields`. -/
structure Event where
  ts : Nat
  msg : Bytes
  fields : Bytes
deriving DecidableEq, Repr, Inhabited

/-- the int64 a stored `ts` denotes -/
def tsInt (ts : Nat) : Int := wrap64 ts

/-- `LogEvent.header` -/
def Event.header (e : Event) : Nat :=
  if e.fields.length > 0 then Generated.C01.recVersion ||| Generated.C01.headerFieldsBit else Generated.C01.recVersion

/-- `LogEvent.Marshal` into a buffer of `WritableSize()` bytes -/
def Event.marshal (e : Event) : Bytes :=
  let hdr := e.header
  [UInt8.ofNat hdr] ++ be e.ts 8 ++ marshalBytes e.msg ++
    (if hdr &&& Generated.C01.marshalFieldsMask != 0 then marshalBytes e.fields else [])

def uvarLen (v : Nat) : Nat := (marshalUvarint v).length

/-- `LogEvent.WritableSize` -/
def Event.writableSize (e : Event) : Nat :=
  1 + 8 + (uvarLen e.msg.length + e.msg.length) +
    (if e.fields.length > 0 then uvarLen e.fields.length + e.fields.length else 0)

/-- `LogEvent.Unmarshal(buf, _)` on a struct whose `Fields` currently is `prev`: (bytes read, event). -/
def Event.unmarshal (prev : Bytes) (buf : Bytes) : Out (Nat × Event) :=
  match buf with
  | [] => .err
  | hdr :: r1 =>
    match u64 r1 with
    | .err => .err
    | .panic => .panic
    | .ok (_, ts) =>
      let r2 := r1.drop 8
      match bytesField r2 with
      | .err => .err
      | .panic => .panic
      | .ok (n, msg) =>
        if hdr.toNat &&& Generated.C01.unmarshalFieldsMask != 0 then
          match bytesField (r2.drop n) with
          | .err => .err
          | .panic => .panic
          | .ok (n2, f) => .ok (1 + 8 + n + n2, ⟨ts, msg, f⟩)
        else .ok (1 + 8 + n, ⟨ts, msg, prev⟩)

/-! ## RPC write packet -/

/-- `api.LogEvent` as the client hands it to `Write`: fields are KV *text*. -/
structure WEvent where
  ts : Nat
  msg : Bytes
  tags : Bytes
  fields : Bytes
deriving DecidableEq, Repr, Inhabited

/-- `writeLogEvent` -/
def encodeEvent (e : WEvent) : Bytes :=
  be e.ts 8 ++ marshalBytes e.msg ++ marshalBytes e.tags ++ marshalBytes e.fields

def encodeEvents : List WEvent → Bytes
  | [] => []
  | e :: es => encodeEvent e ++ encodeEvents es

/-- `writePacket.WriteTo`: tags, write-level fields text, `uint32(len(events))`, the events -/
def wpEncode (tags flds : Bytes) (evs : List WEvent) : Bytes :=
  marshalBytes tags ++ (marshalBytes flds ++ (be (evs.length % two32) 4 ++ encodeEvents evs))

/-- `api/rpc/encoder.go: unmarshalString` (since /repo commit dbbc1a7; regenerated fact `rpcStringsLengthGuarded`): a
length prefix larger than the bytes left is an error *before* the library is called — so the library's slice panic for
`uln ≥ 2⁶³ − idx` is unreachable from the RPC decoders. Without the guard it is `xbinary.UnmarshalString`. -/
def rpcString (buf : Bytes) : Out (Nat × Bytes) :=
  if Generated.C01.rpcStringsLengthGuarded then
    match uvarint buf with
    | .ok (idx, uln) => if uln > buf.length - idx then .err else bytesField buf
    | _ => bytesField buf
  else bytesField buf

/-- `unmarshalLogEvent`: (bytes read, event) -/
def decodeEvent (buf : Bytes) : Out (Nat × WEvent) :=
  match u64 buf with
  | .err => .err
  | .panic => .panic
  | .ok (_, ts) =>
    match rpcString (buf.drop 8) with
    | .err => .err
    | .panic => .panic
    | .ok (a, msg) =>
      match rpcString (buf.drop (8 + a)) with
      | .err => .err
      | .panic => .panic
      | .ok (b, tags) =>
        match rpcString (buf.drop (8 + a + b)) with
        | .err => .err
        | .panic => .panic
        | .ok (c, flds) => .ok (8 + a + b + c, ⟨ts, msg, tags, flds⟩)

/-- `Fields.Concat` (order regenerated from the source) -/
def concat (f f1 : Bytes) : Bytes := if Generated.C01.concatReceiverFirst then f ++ f1 else f1 ++ f

/-- what `wpIterator.Get` stores in `lge.Fields` for write-level fields `wf` and the event's parsed fields `ef` -/
def wpFields (wf ef : Bytes) : Bytes :=
  if Generated.C01.wpConcatReceiverIsWriteLevel then concat wf ef else concat ef wf

/-- `wpIterator` -/
structure WpIter where
  tags : Bytes
  flds : Bytes          -- parsed write-level fields
  rest : Bytes          -- `buf[pos:]`
  pos : Nat
  recs : Nat
  cur : Nat
  read : Bool
  lge : Event
deriving Repr

/-- Strict decoding of the events area: what a server that *rejects what it cannot store faithfully* accepts — the header
decodes, the write-level field text parses, exactly `count` events decode, every event's field text parses; the stored
fields are the write-level ones followed by the event's own. `none` = reject. -/
def strictLoop (parseKV : Bytes → Option Bytes) (wf : Bytes) : Nat → Bytes → Option (List Event)
  | 0, _ => some []
  | n+1, rest =>
    match decodeEvent rest with
    | .ok (k, we) =>
      match parseKV we.fields with
      | some ef => (strictLoop parseKV wf n (rest.drop k)).map (⟨we.ts, we.msg, wf ++ ef⟩ :: ·)
      | none => none
    | _ => none

/-- `wpIterator.init`. If the source validates the whole packet first (regenerated fact `wpInitValidatesEvents`, the proposed
repair of F20b/F20c) every announced event is decoded and its field text parsed before the iterator is handed out. -/
def wpInit (parseKV : Bytes → Option Bytes) (buf : Bytes) : Out WpIter :=
  match rpcString buf with
  | .err => .err
  | .panic => .panic
  | .ok (i1, tags) =>
    match rpcString (buf.drop i1) with
    | .err => .err
    | .panic => .panic
    | .ok (i2, flds) =>
      match u32 (buf.drop (i1 + i2)) with
      | .err => .err
      | .panic => .panic
      | .ok (n4, n) =>
        match parseKV flds with
        | none => .err
        | some wf =>
          let it : WpIter := ⟨tags, wf, buf.drop (i1 + i2 + n4), i1 + i2 + n4, n, 0, false, ⟨0, [], []⟩⟩
          if Generated.C01.wpInitValidatesEvents then
            match strictLoop parseKV wf n it.rest with
            | some _ => .ok it
            | none => .err
          else .ok it

/-- `wpIterator.Get`: `none` = `io.EOF` (also on a decode error: "end of batch"). -/
def wpGet (parseKV : Bytes → Option Bytes) (it : WpIter) : Out (WpIter × Option Event) :=
  if it.read then .ok (it, some it.lge)
  else if it.cur ≥ it.recs then .ok (it, none)
  else
    let it := { it with cur := it.cur + 1 }
    match decodeEvent it.rest with
    | .err => .ok (it, none)
    | .panic => .panic
    | .ok (n, we) =>
      let lge : Event := ⟨we.ts, we.msg, wpFields it.flds ((parseKV we.fields).getD [])⟩
      .ok ({ it with rest := it.rest.drop n, pos := it.pos + n, read := true, lge := lge }, some lge)

/-- `wpIterator.Next` -/
def wpNext (it : WpIter) : WpIter := { it with read := false }

/-- the consumer loop `for { Get; if EOF break; use; Next }` -/
def wpLoop (parseKV : Bytes → Option Bytes) : Nat → WpIter → Out (List Event)
  | 0, _ => .ok []
  | fuel+1, it =>
    match wpGet parseKV it with
    | .err => .err
    | .panic => .panic
    | .ok (_, none) => .ok []
    | .ok (it', some e) =>
      match wpLoop parseKV fuel (wpNext it') with
      | .ok es => .ok (e :: es)
      | .err => .err
      | .panic => .panic

/-- server side of one write packet: `init` then drain. Result: the tags and the events handed to the partition. -/
def wpDrain (parseKV : Bytes → Option Bytes) (buf : Bytes) : Out (Bytes × List Event) :=
  match wpInit parseKV buf with
  | .err => .err
  | .panic => .panic
  | .ok it =>
    match wpLoop parseKV (buf.length + 1) it with
    | .ok es => .ok (it.tags, es)
    | .err => .err
    | .panic => .panic

/-- SPEC: what the partition must hold for one client event — same timestamp, same message, write-level
fields followed by the event's own. `none` when the event's field text does not parse (such a write must be
rejected, not acknowledged). -/
def storedSpec (parseKV : Bytes → Option Bytes) (wf : Bytes) (e : WEvent) : Option Event :=
  (parseKV e.fields).map (fun ef => ⟨e.ts, e.msg, wf ++ ef⟩)

/-- MODEL: what `wpIterator.Get` hands over for one client event -/
def storedModel (parseKV : Bytes → Option Bytes) (wf : Bytes) (e : WEvent) : Event :=
  ⟨e.ts, e.msg, wpFields wf ((parseKV e.fields).getD [])⟩

end Logrange.WireRT

namespace Logrange.WireRT

/-- SPEC decoder of a write packet (its loop `strictLoop` is defined before `wpInit`, which uses it as the validation pass
of the proposed repair): complete packet, every field text parses, write-level fields before own fields. `none` = reject. -/
def wpDrainStrict (parseKV : Bytes → Option Bytes) (body : Bytes) : Option (Bytes × List Event) :=
  match wpInit parseKV body with
  | .ok it => (strictLoop parseKV it.flds it.recs it.rest).map (fun es => (it.tags, es))
  | _ => none

end Logrange.WireRT

namespace Logrange.WireRT

/-- what a client receives for a page the server built: the built bytes — provided the pooled buffer holding them is not
released before the last statement that sends it (regenerated lifetime fact `pooledBuffersReleasedAfterLastUse`); a buffer that
is back in the shared `bytes.Pool` while `SendResponse` still writes it to the socket may be refilled by another handler
(`env`: whatever the environment makes of it). -/
def responseOnWire (built : Bytes) (env : Bytes → Bytes) : Bytes :=
  if Generated.C01.pooledBuffersReleasedAfterLastUse then built else env built

end Logrange.WireRT
