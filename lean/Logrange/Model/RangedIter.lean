import Logrange.Model.WriteLoop
import Logrange.Model.Selector
/-!
# C02 — the ranged read path of one partition, chained on the write loop and the chunk index

`chkSelector.getChunkStatus / rebuildChunkStatuses / getPosForward / getPosBackward`, `partition.JIterator`
(`ensureChkIt`, `advanceChunk`, `Get`, `Next` with the window checks, `SetPos`, `SetBackward`) and the cursor layer on top
(`LogEventIterator` + `fiterator` with the `fitInRange` re-check; the inclusiveness of the two comparisons is the
regenerated pair `Generated.C02.fitLower/UpperInclusive`). State as of the fixes 94ffdf8 (`MinTs − 1`), 53beb1f (end
position from the count the decision used — identical to the chunk's count while the store is quiescent) and b7773f9
(a backward EOF keeps the position) and 008ef8e (`advanceChunk`: at the end of the last chunk the position is where the chunk
iterator stopped).

Chunk ids of the journal are the write loop's dense ids × 10 (so that `CId ± 1` of `advanceChunk` names no chunk, as
with the real time-derived ids); the chunk index uses the dense ids.
-/
namespace Logrange.RangedIter
open Logrange Selector

structure St where
  cks : Journal := #[]                   -- the journal's chunks (id = dense id × 10, confirmed count)
  cidx : CIndex.St := {}
  tss : Array (Array Int) := #[]         -- timestamps per chunk, `tss[i]` belongs to `cks[i]`
  rmin : Int := 0
  rmax : Int := 0
  stats : List (Nat × ChkSt) := []       -- chkSelector.stats
  rebuildReqs : Nat := 0                 -- RebuildIndex(force = false) requests sent by updatePoss
  -- iterator
  cid : Nat := 0
  idx : Nat := 0
  ci : Option CIt := none
  cst : Option ChkSt := none
  bkwd : Bool := false
  -- fiterator
  fValid : Bool := false
  fLe : Option (Nat × Nat) := none

/-- count of chunk `cid` (fast path: ids are dense × 10 while nothing was truncated) -/
def cntOfS (s : St) (cid : Nat) : Nat :=
  match s.cks[cid / 10 - 1]? with
  | some c => if c.id == cid then c.cnt else cntOf s.cks cid
  | none => cntOf s.cks cid

/-- `cindex.syncChunks` as far as a reader can observe it: chunks of the journal the index does not know are added
with the hull `lightFill` reads from their first and last record (no tree); since fix a2ca477 entries that are older than
their chunk are dropped first. -/
def syncChunks (s : St) : St :=
  -- fix a2ca477 (`dropStale`): an entry whose chunk holds more confirmed records than it accounts for is forgotten
  -- together with its tree; the chunk then takes the path of an unknown chunk
  let s :=
    if Generated.C02.syncChunksDropsStaleEntries then
      -- fix 7ea0278: only entries read from the snapshot file (`loaded`) can be stale; the others are kept and
      -- every compared entry loses the flag
      let only := Generated.C02.staleDropOnlyForSnapshotEntries
      let kept := s.cidx.chunks.filter (fun c =>
          match s.cks.find? (fun k => k.id / 10 == c.id) with
          | some k => !((!only || c.loaded) && k.cnt > c.recs)
          | none => true)
      let kept := kept.map (fun c =>
          if only && (s.cks.find? (fun k => k.id / 10 == c.id)).isSome then { c with loaded := false } else c)
      { s with cidx := { s.cidx with chunks := kept } }
    else s
  -- a KNOWN entry is never filled: `lightFill` reads the two records of an entry without hull (`MaxTs ≤ 0`) again, but the
  -- second `apply` puts the known entry back (finding #86); the proposed repair fills the entries that account for no record
  let unknown := (List.range s.cks.size).filter (fun i =>
      match CIndex.findChk s.cidx ((s.cks[i]!).id / 10) with
      | none => true
      | some c => Generated.C02.syncChunksRefillsUnfilledEntries && c.recs == 0 && decide (c.maxTs ≤ 0) && (s.cks[i]!).cnt > 0)
  if unknown.isEmpty then s else
  let add (cs : List CIndex.Chk) (i : Nat) : List CIndex.Chk :=
    let c := s.cks[i]!
    let ts := s.tss[i]!
    let (mn, mx) : Int × Int :=
      if c.cnt == 0 then (CIndex.maxI64, 0)
      else
        let a := ts[0]!
        let b := ts[c.cnt - 1]!
        -- proposed repair F78 (regenerated fact `lightFillScansAllRecords`): minimum and maximum over EVERY confirmed record
        if Generated.C02.lightFillScansAllRecords then ((ts.extract 0 c.cnt).foldl min a, (ts.extract 0 c.cnt).foldl max a)
        else (min a b, max a b)
    let nc : CIndex.Chk := { id := c.id / 10, minTs := mn, maxTs := mx, recs := c.cnt }
    (cs.filter (·.id < nc.id)) ++ [nc] ++ (cs.filter (·.id > nc.id))
  { s with cidx := { s.cidx with chunks := unknown.foldl add s.cidx.chunks } }

def updatePoss (s : St) (cid : Nat) (st : ChkSt) : ChkSt × Nat :=
  match CIndex.findChk s.cidx (cid / 10) with
  | none => if Generated.C02.updatePossOpensUnknownTail && st.count > 0 then ({ st with minPos := 0, maxPos := maxU32 }, 0) else (st, 0)
  | some c =>
    if Generated.C02.updatePossOpensUnknownTail && st.count > c.recs then
      -- records the journal has confirmed but the index has not been told about: the whole chunk stays open (repair of F46)
      ({ st with minPos := 0, maxPos := maxU32 }, 0)
    else
    updatePossWith s.rmin s.rmax c.minTs c.maxTs (CIndex.grEqAns s.cidx (cid / 10)) (CIndex.lessAns s.cidx (cid / 10)) st

def rebuildStatuses (s : St) : St :=
  let s := syncChunks s
  let (stats, k) := s.cks.foldl (fun (acc : List (Nat × ChkSt) × Nat) c =>
      let old := ((s.stats.find? (·.1 == c.id)).map (·.2)).getD {}
      let (st, k) := updatePoss s c.id { old with count := c.cnt }
      (acc.1 ++ [(c.id, st)], acc.2 + k)) ([], 0)
  { s with stats := stats, rebuildReqs := s.rebuildReqs + k }

/-- `getChunkStatus` -/
def getStatus (s : St) (cid : Nat) : St × ChkSt :=
  let cnt := cntOfS s cid
  match s.stats.find? (·.1 == cid) with
  | some (_, st) =>
    if s.cks.size != s.stats.length then
      let s := rebuildStatuses s
      (s, ((s.stats.find? (·.1 == cid)).map (·.2)).getD {})
    else if st.count != cnt then
      let (st', k) := updatePoss s cid { st with count := cnt }
      ({ s with stats := s.stats.map (fun p => if p.1 == cid then (cid, st') else p), rebuildReqs := s.rebuildReqs + k }, st')
    else (s, st)
  | none =>
    let s := rebuildStatuses s
    (s, ((s.stats.find? (·.1 == cid)).map (·.2)).getD {})

/-- getPosForward: (state, chunk?, status, newPos) -/
def getPosForward (s : St) (cid idx : Nat) : St × Option Nat × ChkSt × (Nat × Nat) :=
  let cks := s.cks.toList
  if cks.isEmpty then (s, none, {}, (0, 0)) else
  let after := cks.filter (·.id ≥ cid)
  match after with
  | [] => let l := cks.getLast!; (s, none, {}, (l.id, l.cnt))
  | c0 :: _ =>
    let pIdx0 := if c0.id != cid then 0 else idx
    let rec go (fuel : Nat) (s : St) (cs : List JChunk) (pIdx : Nat) (lastC : JChunk) (lastCnt : Nat) : St × Option Nat × ChkSt × (Nat × Nat) :=
      match fuel with
      | 0 => (s, none, {}, (lastC.id, lastCnt))
      | fuel+1 =>
        match cs with
        | [] => (s, none, {}, (lastC.id, lastCnt))
        | c :: rest =>
          let (s, st) := getStatus s c.id
          let (np, ok) := checkAdvance st pIdx
          if ok then (s, some c.id, st, (c.id, np)) else go fuel s rest 0 c st.count
    go (after.length + 1) s after pIdx0 c0 0

def getPosBackward (s : St) (cid idx : Nat) : St × Option Nat × ChkSt × (Nat × Nat) :=
  let cks := s.cks.toList
  if cks.isEmpty then (s, none, {}, (0, 0)) else
  let before := (cks.filter (·.id ≤ cid)).reverse
  match before with
  | [] => let f := cks.head!; (s, none, {}, (f.id, 0))
  | c0 :: _ =>
    let pIdx0 := if c0.id != cid then (c0.cnt + 4294967296 - 1) % 4294967296 else idx
    let rec go (fuel : Nat) (s : St) (cs : List JChunk) (pIdx : Nat) (lastC : JChunk) : St × Option Nat × ChkSt × (Nat × Nat) :=
      match fuel with
      | 0 => (s, none, {}, (lastC.id, 0))
      | fuel+1 =>
        match cs with
        | [] => (s, none, {}, (lastC.id, 0))
        | c :: rest =>
          let (s, st) := getStatus s c.id
          let (pp, ok) := checkReduce st pIdx
          if ok then (s, some c.id, st, (c.id, pp)) else go fuel s rest maxU32 c
    go (before.length + 1) s before pIdx0 c0

/-- `ensureChkIt`: (state, EOF?) -/
def ensure (s : St) : St × Bool :=
  match s.ci with
  | some _ => (s, false)
  | none =>
    let (s, chk?, st, pos) := if s.bkwd then getPosBackward s s.cid s.idx else getPosForward s s.cid s.idx
    match chk? with
    | none =>
      -- b7773f9: a backward EOF keeps the position
      (if s.bkwd then s else { s with cid := pos.1, idx := pos.2 }, true)
    | some c =>
      let s := { s with cid := pos.1, idx := pos.2 }
      let ci : CIt := { chunk := c }
      let ci := ciSetPos (cntOfS s c) ci s.idx
      ({ s with ci := some ci, cst := some st, idx := ci.pos.toNat }, false)

def advance (s : St) : St × Bool :=
  -- fix 008ef8e: where the chunk iterator stands now that it has run out of its chunk
  let leftCid := s.cid
  let leftIdx := match s.ci with
    | some c => if c.pos ≥ 0 then c.pos.toNat else s.idx
    | none => s.idx
  let bk := s.bkwd
  let s := { s with ci := none, cst := none }
  let s := if s.bkwd then { s with cid := s.cid - 1, idx := maxU32 } else { s with cid := s.cid + 1, idx := 0 }
  let (s, eof) := ensure s
  -- no chunk behind the one just left: the end-of-data position is where its iterator stopped
  if Generated.C02.advanceChunkKeepsIteratorPos && eof && !bk && s.cid == leftCid then ({ s with cid := leftCid, idx := leftIdx }, eof)
  else (s, eof)

/-- JIterator.Get: (chunk id, index) of the record or none -/
def itGet (s : St) : St × Option (Nat × Nat) :=
  let (s, eof) := ensure s
  if eof then (s, none) else
  let rec loop (fuel : Nat) (s : St) : St × Option (Nat × Nat) :=
    match fuel with
    | 0 => (s, none)
    | fuel+1 =>
      match s.ci with
      | none => (s, none)
      | some c =>
        let (c', r) := ciGet (cntOfS s c.chunk) s.bkwd c
        if r then ({ s with ci := some c' }, some (c'.chunk, c'.pos.toNat))
        else
          let (s', eof) := advance { s with ci := some c' }
          if eof then (s', none) else loop fuel s'
  loop (s.cks.size + 2) s

def itNext (s : St) : St :=
  let (s, _) := itGet s
  match s.ci, s.cst with
  | some c, some st =>
    let c' := ciNext (cntOfS s c.chunk) s.bkwd c
    if c'.pos < 0 || c'.pos.toNat < st.minPos || c'.pos.toNat > st.maxPos then (advance { s with ci := some c' }).1
    else { s with ci := some c', idx := c'.pos.toNat }
  | _, _ => s

def chunkIndexOf (s : St) (cid : Nat) : Nat :=
  match s.cks[cid / 10 - 1]? with
  | some c => if c.id == cid then cid / 10 - 1 else (s.cks.findIdx? (·.id == cid)).getD 0
  | none => (s.cks.findIdx? (·.id == cid)).getD 0
def tsAt (s : St) (p : Nat × Nat) : Int := ((s.tss[chunkIndexOf s p.1]?).getD #[])[p.2]?.getD 0

/-- `fiterator.fitInRange` -/
def fitInRange (rmin rmax t : Int) : Bool :=
  (if Generated.C02.fitLowerInclusive then t ≥ rmin else t > rmin) &&
  (if Generated.C02.fitUpperInclusive then t ≤ rmax else t < rmax)

/-- cursor level: LogEventIterator + fiterator(range) -/
def curNext (s : St) : St := { itNext s with fValid := false, fLe := none }
def curGet (fuel : Nat) (s : St) : St × Option (Nat × Nat) :=
  match fuel with
  | 0 => (s, none)
  | fuel+1 =>
    if s.fValid then (s, s.fLe) else
    let (s, v) := itGet s
    match v with
    | none => ({ s with fLe := none }, none)
    | some p =>
      if fitInRange s.rmin s.rmax (tsAt s p) then ({ s with fValid := true, fLe := some p }, some p)
      else curGet fuel (curNext { s with fLe := some p })

def setPos (s : St) (cid idx : Nat) : St :=
  if cid == s.cid && idx == s.idx then s else
  let s := if cid != s.cid then { s with ci := none, cst := none } else s
  let s := match s.ci with
    | some c => { s with ci := some (ciSetPos (cntOfS s c.chunk) c idx) }
    | none => s
  { s with cid := cid, idx := idx }
def setBackward (s : St) (b : Bool) : St := { s with bkwd := b }

/-- a new cursor at the position a previous page ended with (`State.Pos` → `applyPos` → `JIterator.SetPos`): the
iterator, its selector and the filter are new, only the position survives -/
def recreate (s : St) : St :=
  { s with stats := [], ci := none, cst := none, fValid := false, fLe := none }

/-- whole forward scan of a fresh cursor, re-created after every `page` results (`page = 0`: never) -/
def scan (s : St) (page : Nat) (fuel : Nat) : St × Array (Nat × Nat) :=
  let rec run (fuel : Nat) (s : St) (inPage : Nat) (acc : Array (Nat × Nat)) : St × Array (Nat × Nat) :=
    match fuel with
    | 0 => (s, acc)
    | fuel+1 =>
      match curGet (fuel + 1) s with
      | (s', none) => (s', acc)
      | (s', some p) =>
        let s' := curNext s'
        let inPage := inPage + 1
        if page != 0 && inPage ≥ page then run fuel (recreate s') 0 (acc.push p)
        else run fuel s' inPage (acc.push p)
  run fuel s 0 #[]

/-- `newCursor`: a missing lower / upper bound of RANGE becomes the regenerated default (0 / MaxInt64 in the code) -/
def rangeOf (lo hi : Option Int) : Int × Int :=
  (lo.getD Generated.C02.rangeDefaultLower, hi.getD Generated.C02.rangeDefaultUpper)

/-- Service.Write followed by the index update of every OnWrite call; returns the chunks that were answered
`ErrTmIndexCorrupted` (the rebuilder is asked for them) -/
def writeWith (iw0 : WriteLoop.IW) (wj : WriteLoop.J) (cidx : CIndex.St) (recs : List WriteLoop.Rec) : WriteLoop.J × CIndex.St × WriteLoop.Out × List Nat :=
  let (j', o) := WriteLoop.serviceWriteWith iw0 wj recs
  let (cidx', bad) := o.calls.foldl (fun (acc : CIndex.St × List Nat) (call : Nat × Nat × Nat × Int × Int) =>
    let (fi, la, cid, mn, mx) := call
    let (s', r) := CIndex.onWrite acc.1 fi la cid mn mx
    (s', if r != .ok && !acc.2.contains cid then acc.2 ++ [cid] else acc.2)) (cidx, [])
  (j', cidx', o, bad)

def write (wj : WriteLoop.J) (cidx : CIndex.St) (recs : List WriteLoop.Rec) := writeWith {} wj cidx recs

/-! ## class predicates of the open findings (evaluated by the driver on a history) -/

/-- #2: some `Write` call carries a record with `ts = 0` together with a non-zero timestamp -/
def classZeroSentinel (batches : List (List Int)) : Bool :=
  batches.any (fun b => b.any (· == 0) && b.any (· != 0))

/-- #3: no lower bound given and a stored timestamp is negative -/
def classOpenLower (lo : Option Int) (all : List Int) : Bool := lo.isNone && all.any (· < 0)

/-- #4: the partition's timestamps are not monotone non-decreasing in stored order -/
def classNonMonotone : List Int → Bool
  | a :: b :: r => a > b || classNonMonotone (b :: r)
  | _ => false

end Logrange.RangedIter
