import Logrange.Go.Basic
/-!
# Model of `pkg/model/mixer.go` (`model.Mixer`) and `pkg/model/iterator.go` (`LogEventIterator`)

Everything here is core Lean, total and executable (the driver `lrmodel_c04` links it).

* `Ev` — what `Iterator.Get` hands out: a log event *together with* the tag line it is reported under
  (`Get` returns `(LogEvent, tag.Line, error)`). `tags` is the identity of the partition's tag line and `msg`
  the identity of the payload (both abstract numbers: the mixer never looks inside them).
* `Source σ` — the `model.Iterator` interface as far as the mixer uses it: `Get`, `Next`, `Release`,
  `SetBackward`. `get` returns the new iterator state and `some e` or `none` (= `io.EOF`).
  **Not modelled:** errors other than `io.EOF` (a cancelled context, a corrupt record); `selectState` passes
  them through leaving `st = 0`. The values that travel next to an `io.EOF` are not modelled either (callers
  drop them). `CurrentPos` is not modelled here (it belongs to C03/C16: add a `pos` to `Source` there).
* `MixSt`/`It` — a tree of mixers over leaves of type `σ`. `It.get`/`It.next`/`It.release`/`It.setBackward`
  are `Mixer.Get`/`Next`/`Release`/`SetBackward` line by line: `st ∈ {0,1,2,3}` (0 = not selected, 1/2 = first /
  second source selected, 3 = both ended), the `eof` flags that only `Release` resets, the buffered heads
  `le1`/`le2`, `selectState`, `testFunc` (the comparison inverted when backward).
* `Leaf` — `LogEventIterator` wrapping the in-memory `records.Iterator` of the code base
  (`model.TestLogEventsWrapper`: a slice and an index, clamped by `Get`, `idx` runs from `-1` to `len`).
* `mergeSpec` — the SPEC: the pure two-way merge with the tie rule of the code (`GetEarliest` is `≤`, so the
  first source wins ties forward and — the comparison being negated — the second one backward).
-/
namespace Logrange.Mixer

/-- one delivered event: timestamp, payload identity, tag-line identity of the source it is attributed to -/
structure Ev where
  ts : Int
  msg : Nat
  tags : Nat
deriving DecidableEq, Repr, Inhabited

/-- `model.Iterator` as the mixer uses it (`none` = `io.EOF`). -/
class Source (σ : Type) where
  get : σ → σ × Option Ev
  next : σ → σ
  release : σ → σ
  setBackward : Bool → σ → σ

/-! ## model.Mixer -/

/-- `model.GetEarliest`: `ev1.Timestamp <= ev2.Timestamp` (the extractor regenerates the operator; `Props.C04.facts`
fails when it is no longer `<=`). -/
def getEarliest (e1 e2 : Ev) : Bool := decide (e1.ts ≤ e2.ts)

/-- the fields of `model.Mixer` besides the two iterators (`src1.it`, `src2.it` are the children in `It`) -/
structure MixSt where
  st : Nat := 0
  eof1 : Bool := false
  le1 : Ev := default
  eof2 : Bool := false
  le2 : Ev := default
  bkwd : Bool := false
deriving DecidableEq, Repr, Inhabited

/-- `Mixer.testFunc`: `res := sf(le1, le2); if bkwd { return !res }; return res` with `sf = GetEarliest` -/
def MixSt.testFunc (m : MixSt) : Bool :=
  let res := getEarliest m.le1 m.le2
  if m.bkwd then !res else res

/-- the part of `selectState` after the two fetches -/
def MixSt.choose (m : MixSt) : MixSt :=
  if m.eof1 && m.eof2 then { m with st := 3 }
  else if m.eof1 then { m with st := 2 }
  else if m.eof2 || m.testFunc then { m with st := 1 }
  else { m with st := 2 }

/-- `mr.src1.le, mr.src1.tags, err = mr.src1.it.Get(ctx)`; on `io.EOF` the flag is set (the buffer then holds what
came with the error — a zero event from a mixer — and is never read). -/
def MixSt.fetch1 (m : MixSt) : Option Ev → MixSt
  | some e => { m with le1 := e }
  | none => { m with le1 := default, eof1 := true }

def MixSt.fetch2 (m : MixSt) : Option Ev → MixSt
  | some e => { m with le2 := e }
  | none => { m with le2 := default, eof2 := true }

/-- what `Get` answers once the state is selected -/
def MixSt.out (m : MixSt) : Option Ev :=
  match m.st with
  | 1 => some m.le1
  | 2 => some m.le2
  | _ => none

/-- `Mixer.selectState`, given what `src1.it.Get` / `src2.it.Get` would answer (`ga`, `gb`: new source state and
answer). The answers are used only where the code asks for them: nothing when `st ≠ 0`, and a source whose `eof`
flag is set is not asked again (and keeps its state). Returns the new fields and the new states of the two sources. -/
def MixSt.selectState {α : Type} (m : MixSt) (a b : α) (ga gb : α × Option Ev) : MixSt × α × α :=
  if m.st ≠ 0 then (m, a, b) else
  let r1 := if !m.eof1 then (m.fetch1 ga.2, ga.1) else (m, a)
  let r2 := if !r1.1.eof2 then (r1.1.fetch2 gb.2, gb.1) else (r1.1, b)
  (r2.1.choose, r1.2, r2.2)

/-- a tree of mixers over leaves `σ` (what `newCursor` builds) -/
inductive It (σ : Type) where
  | leaf (s : σ)
  | mix (m : MixSt) (a b : It σ)
deriving Repr, Inhabited

namespace It
variable {σ : Type} [Source σ]

/-- `Get` (for a mixer: `selectState` followed by reading the selected buffer). -/
def get : It σ → It σ × Option Ev
  | .leaf s => (.leaf (Source.get s).1, (Source.get s).2)
  | .mix m a b =>
    let t := m.selectState a b a.get b.get
    (.mix t.1 t.2.1 t.2.2, t.1.out)

/-- number of nodes; every operation keeps the shape of the tree -/
def size : It σ → Nat
  | .leaf _ => 1
  | .mix _ a b => a.size + b.size + 1

theorem selectState_cases {α : Type} (m : MixSt) (a b : α) (ga gb : α × Option Ev) :
    ((m.selectState a b ga gb).2.1 = a ∨ (m.selectState a b ga gb).2.1 = ga.1) ∧
    ((m.selectState a b ga gb).2.2 = b ∨ (m.selectState a b ga gb).2.2 = gb.1) := by
  unfold MixSt.selectState
  by_cases h : m.st ≠ 0
  · simp [h]
  · simp only [h, if_false]
    constructor
    · by_cases h1 : m.eof1 <;> simp [h1]
    · by_cases h1 : m.eof1 <;> by_cases h2 : m.eof2 <;> cases ga.2 <;> simp [h1, h2, MixSt.fetch1]

theorem get_size (it : It σ) : it.get.1.size = it.size := by
  induction it with
  | leaf s => simp [get, size]
  | mix m a b iha ihb =>
    simp only [get, size]
    have hc := selectState_cases m a b a.get b.get
    rcases hc.1 with h1 | h1 <;> rcases hc.2 with h2 | h2 <;> simp [h1, h2, iha, ihb]

/-- `Next`: `selectState`; advance the selected source; `st = 0`.
(`le.Release()` returns the buffer to the pool — memory only.) -/
def next : It σ → It σ
  | .leaf s => .leaf (Source.next s)
  | .mix m a b =>
    match h : m.selectState a b a.get b.get with
    | (m', a', b') =>
      match m'.st with
      | 1 => .mix { m' with st := 0 } a'.next b'
      | 2 => .mix { m' with st := 0 } a' b'.next
      | _ => .mix { m' with st := 0 } a' b'
termination_by it => it.size
decreasing_by
  all_goals
    have hc := selectState_cases m a b a.get b.get
    rw [h] at hc
    have ha := get_size a
    have hb := get_size b
    have h1 := hc.1
    have h2 := hc.2
    simp only at h1 h2
    simp only [size]
    rcases h1 with h1 | h1 <;> rcases h2 with h2 | h2 <;> subst h1 <;> subst h2 <;> omega

/-- `Release`: release both sources, reset both `eof` flags, `st = 3` becomes `0`.
(`MakeItSafe` copies the selected buffer out of the released memory — memory only.) -/
def release : It σ → It σ
  | .leaf s => .leaf (Source.release s)
  | .mix m a b =>
    .mix { m with eof1 := false, eof2 := false, st := if m.st = 3 then 0 else m.st } a.release b.release

/-- `SetBackward`: nothing when the direction is the same; else set it, switch both sources, `Release`, `st = 0` -/
def setBackward (bk : Bool) : It σ → It σ
  | .leaf s => .leaf (Source.setBackward bk s)
  | .mix m a b =>
    if m.bkwd = bk then .mix m a b else
    match (It.mix { m with bkwd := bk } (a.setBackward bk) (b.setBackward bk)).release with
    | .mix m' a' b' => .mix { m' with st := 0 } a' b'
    | .leaf s => .leaf s          -- unreachable

/-- `Mixer.Init(GetEarliest, it1, it2)` -/
def init (a b : It σ) : It σ := .mix {} a b

/-- the reading loop of every consumer: `for { e, err := Get(); if err != nil break; emit e; Next() }`.
`fuel` bounds the number of events read. -/
def drain : Nat → It σ → List Ev
  | 0, _ => []
  | f+1, it =>
    match it.get with
    | (it', some e) => e :: drain f it'.next
    | (_, none) => []

/-- the same loop with `Release` calls thrown in: `rel k = (r₁, r₂)` releases before the `k`-th `Get` when `r₁` and
between that `Get` and its `Next` when `r₂` (what a paged reader, `WaitNewData`, a cursor put back into the
provider's cache do). -/
def drainRel (rel : Nat → Bool × Bool) : Nat → Nat → It σ → List Ev
  | 0, _, _ => []
  | f+1, k, it =>
    let it := if (rel k).1 then it.release else it
    match it.get with
    | (it', some e) =>
      let it' := if (rel k).2 then it'.release else it'
      e :: drainRel rel f (k+1) it'.next
    | (_, none) => []

/-- the sources of the tree, left to right -/
def leaves : It σ → List σ
  | .leaf s => [s]
  | .mix _ a b => a.leaves ++ b.leaves

/-- number of sources -/
def nleaves : It σ → Nat
  | .leaf _ => 1
  | .mix _ a b => a.nleaves + b.nleaves

/-- the tree with its `k`-th source (left to right, from 0) changed by `f` — what happens when somebody appends to the
partition under a cursor: the mixers are not told -/
def modifyLeaf (f : σ → σ) : Nat → It σ → It σ
  | k, .leaf s => if k = 0 then .leaf (f s) else .leaf s
  | k, .mix m a b =>
    if k < a.nleaves then .mix m (modifyLeaf f k a) b else .mix m a (modifyLeaf f (k - a.nleaves) b)

/-- every source changed by `f` -/
def mapLeaves (f : σ → σ) : It σ → It σ
  | .leaf s => .leaf (f s)
  | .mix m a b => .mix m (mapLeaves f a) (mapLeaves f b)

instance : Source (It σ) := ⟨get, next, release, setBackward⟩

end It

/-! ## SPEC: the pure merge -/

/-- does the first source deliver next? `bk = false`: `x.ts ≤ y.ts`; `bk = true`: the negation -/
def pick (bk : Bool) (x y : Ev) : Bool := if bk then !decide (x.ts ≤ y.ts) else decide (x.ts ≤ y.ts)

def mergeSpec (bk : Bool) : List Ev → List Ev → List Ev
  | [], ys => ys
  | xs, [] => xs
  | x :: xs, y :: ys =>
    if pick bk x y then x :: mergeSpec bk xs (y :: ys) else y :: mergeSpec bk (x :: xs) ys
termination_by xs ys => xs.length + ys.length

/-! ## the leaf: `LogEventIterator` over `TestLogEventsWrapper` -/

structure Rec where
  ts : Int
  msg : Nat
deriving DecidableEq, Repr, Inhabited

/-- `LogEventIterator{tags, it}` with `it = TestLogEventsWrapper{les, idx, bkwd}`. `LogEventIterator.st` is never
set to 1 in the code, so its cache branch is dead and `Get` always asks the wrapped iterator. -/
structure Leaf where
  tags : Nat
  les : List Rec
  idx : Int := 0
  bkwd : Bool := false
deriving DecidableEq, Repr, Inhabited

namespace Leaf

def ev (l : Leaf) (r : Rec) : Ev := ⟨r.ts, r.msg, l.tags⟩

/-- the index `TestLogEventsWrapper.Get` settles on before it looks: `if bkwd && idx >= len { idx = len-1 }`,
`if !bkwd && idx < 0 { idx = 0 }` -/
def clamp (l : Leaf) : Int :=
  let len : Int := l.les.length
  let idx := if l.bkwd && l.idx ≥ len then len - 1 else l.idx
  if !l.bkwd && idx < 0 then 0 else idx

/-- `TestLogEventsWrapper.Get` under `LogEventIterator.Get`: clamp the index, then the record there or `io.EOF` -/
def get (l : Leaf) : Leaf × Option Ev :=
  let idx := l.clamp
  ({ l with idx := idx },
    if idx < l.les.length ∧ idx ≥ 0 then (l.les[idx.toNat]?).map l.ev else none)

/-- `TestLogEventsWrapper.Next` -/
def next (l : Leaf) : Leaf :=
  if l.bkwd then (if l.idx ≥ 0 then { l with idx := l.idx - 1 } else l)
  else (if l.idx < l.les.length then { l with idx := l.idx + 1 } else l)

def release (l : Leaf) : Leaf := l
def setBackward (bk : Bool) (l : Leaf) : Leaf := { l with bkwd := bk }

/-- a record is appended to the slice under the iterator (a writer adds to the partition) -/
def append (r : Rec) (l : Leaf) : Leaf := { l with les := l.les ++ [r] }

instance : Source Leaf := ⟨get, next, release, setBackward⟩

end Leaf

end Logrange.Mixer
