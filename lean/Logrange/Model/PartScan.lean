import Logrange.Model.Selector
/-!
# C02 — the forward scan of a ranged read as a fold over the journal's chunks

Abstract (position-level) mirror of `chkSelector.getPosForward` + `partition.JIterator.Get/Next` in forward direction:

* `getPosForward cs pIdx k` — walk the chunks `cs` (the wanted chunk and its successors; `k` = index of the first of
  them): the first chunk whose status accepts the entry index (`checkPosOrAdvance`; `pIdx` for the first chunk, 0 for
  the later ones) is opened at the corrected position;
* `scanFrom st fuel pos` — inside an opened chunk: `Get` delivers the record at `pos` while `pos < count` (the chunk
  iterator reports EOF otherwise → `advanceChunk`), `Next` moves to `pos + 1` and leaves the chunk when that position is
  outside the window (`uint32(pos) < minPos || uint32(pos) > maxPos` → `advanceChunk`);
* `scan` — `advanceChunk` re-enters `getPosForward` at `(next chunk, 0)`.

The executable pipeline model (`RangedIter`) runs the same functions on richer state (positions as `journal.Pos`,
cached statuses, the chunk iterator's clamping); the correspondence harness compares it with the real iterator. This
file is the form the partition theorem is proved about.
-/
namespace Logrange.PartScan
open Logrange Selector

/-- `getPosForward`: (index of the opened chunk, corrected position, its status, the chunks after it) -/
def getPosForward : List ChkSt → Nat → Nat → Option (Nat × Nat × ChkSt × List ChkSt)
  | [], _, _ => none
  | st :: rest, pIdx, k =>
    match checkAdvance st pIdx with
    | (np, true) => some (k, np, st, rest)
    | (_, false) => getPosForward rest 0 (k + 1)

/-- positions delivered from an opened chunk, starting at `pos` -/
def scanFrom (st : ChkSt) : Nat → Nat → List Nat
  | 0, _ => []
  | fuel + 1, pos =>
    if pos < st.count then
      pos :: (if pos + 1 < st.minPos || pos + 1 > st.maxPos then [] else scanFrom st fuel (pos + 1))
    else []

/-- the whole forward scan: (chunk index, position) of every record `Get` delivers before the range filter -/
def scan : Nat → List ChkSt → Nat → Nat → List (Nat × Nat)
  | 0, _, _, _ => []
  | fuel + 1, cs, pIdx, k =>
    match getPosForward cs pIdx k with
    | none => []
    | some (k', np, st, rest) => (scanFrom st st.count np).map (fun p => (k', p)) ++ scan fuel rest 0 (k' + 1)

/-- a fresh cursor: position (first chunk, 0) -/
def scanAll (cs : List ChkSt) : List (Nat × Nat) := scan (cs.length + 1) cs 0 0

/-- what the scan of one chunk should be: the positions of the chunk inside its window -/
def windowPositions (st : ChkSt) : List Nat :=
  (List.range st.count).filter (fun p => decide (st.minPos ≤ p ∧ p ≤ st.maxPos))

/-- … and of a journal: chunk by chunk -/
def journalPositions : List ChkSt → Nat → List (Nat × Nat)
  | [], _ => []
  | st :: rest, k => (windowPositions st).map (fun p => (k, p)) ++ journalPositions rest (k + 1)

end Logrange.PartScan
