import Logrange.Go.Basic
/-!
# Outcomes with explicit panics, and checked slicing / indexing (C13)

Go code that decodes request bytes can end in four ways that matter for C13: it returns a value, it returns an
error, it **panics** (slice or index out of range — fatal for the server, the RPC layer has no `recover`), or it
does not return at all. The models of the decoders return an `Outcome`; every `s[i:j]`, `s[i:]` and `s[i]` of the
Go code is a *checked* operation here (`Go.slice`, `Go.sliceFrom`, `Go.index`) that yields `.panic` exactly when
Go's bounds check would fail. "Never reads outside the request buffer" is therefore not a separate statement: a
model function that does not return `.panic` has passed every bounds check of the code it mirrors.
Loops that are not structurally recursive take fuel and return `.outOfFuel` when it is exhausted; a theorem with
an explicit fuel bound says that the loop terminates.
-/
namespace Logrange

inductive Outcome (α : Type) where
  | ok (a : α)
  | err
  | panic (why : String)
  | outOfFuel
  deriving Repr, DecidableEq

namespace Outcome

def isPanic : Outcome α → Bool
  | .panic _ => true
  | _ => false

def isOk : Outcome α → Bool
  | .ok _ => true
  | _ => false

def isOutOfFuel : Outcome α → Bool
  | .outOfFuel => true
  | _ => false

/-- sequencing: `x, err := …; if err != nil { return err }` -/
def bind (x : Outcome α) (f : α → Outcome β) : Outcome β :=
  match x with
  | .ok a => f a
  | .err => .err
  | .panic w => .panic w
  | .outOfFuel => .outOfFuel

def map (f : α → β) (x : Outcome α) : Outcome β := x.bind (fun a => .ok (f a))

theorem bind_ok (a : α) (f : α → Outcome β) : (Outcome.ok a).bind f = f a := rfl
theorem bind_err (f : α → Outcome β) : (Outcome.err : Outcome α).bind f = .err := rfl
theorem bind_panic (w : String) (f : α → Outcome β) : (Outcome.panic w : Outcome α).bind f = .panic w := rfl
theorem bind_outOfFuel (f : α → Outcome β) : (Outcome.outOfFuel : Outcome α).bind f = .outOfFuel := rfl

theorem bind_isPanic_false {x : Outcome α} {f : α → Outcome β}
    (hx : x.isPanic = false) (hf : ∀ a, x = .ok a → (f a).isPanic = false) : (x.bind f).isPanic = false := by
  cases x with
  | ok a => exact hf a rfl
  | err => rfl
  | panic w => simp [isPanic] at hx
  | outOfFuel => rfl

theorem bind_eq_ok {x : Outcome α} {f : α → Outcome β} {b : β} (h : x.bind f = .ok b) :
    ∃ a, x = .ok a ∧ f a = .ok b := by
  cases x with
  | ok a => exact ⟨a, rfl, h⟩
  | err => simp [bind] at h
  | panic w => simp [bind] at h
  | outOfFuel => simp [bind] at h

theorem isPanic_false_of_ne {x : Outcome α} (h : ∀ w, x ≠ .panic w) : x.isPanic = false := by
  cases x with
  | panic w => exact absurd rfl (h w)
  | _ => rfl

theorem ne_panic_of_isPanic_false {x : Outcome α} (h : x.isPanic = false) (w : String) : x ≠ .panic w := by
  intro e; subst e; simp [isPanic] at h

end Outcome
end Logrange

namespace Go
open Logrange

/-- `b[i:j]` with Go's bounds check `0 ≤ i ≤ j ≤ len(b)` (for a slice whose capacity equals its length, which is
how request buffers and strings arrive). Bounds are `Int` because the reachable failure is a *negative* or
wrapped-around bound. -/
def slice (b : Bytes) (i j : Int) : Outcome Bytes :=
  if 0 ≤ i ∧ i ≤ j ∧ j ≤ (b.length : Int) then .ok ((b.drop i.toNat).take (j.toNat - i.toNat))
  else .panic "slice bounds out of range"

/-- `b[i:]` -/
def sliceFrom (b : Bytes) (i : Nat) : Outcome Bytes :=
  if i ≤ b.length then .ok (b.drop i) else .panic "slice bounds out of range"

/-- `b[i]` -/
def index (b : List α) (i : Nat) : Outcome α :=
  match b[i]? with
  | some x => .ok x
  | none => .panic "index out of range"

theorem slice_ok_of {b : Bytes} {i j : Int} (h : 0 ≤ i ∧ i ≤ j ∧ j ≤ (b.length : Int)) :
    slice b i j = .ok ((b.drop i.toNat).take (j.toNat - i.toNat)) := by
  simp [slice, h]

theorem sliceFrom_ok_of {b : Bytes} {i : Nat} (h : i ≤ b.length) : sliceFrom b i = .ok (b.drop i) := by
  simp [sliceFrom, h]

end Go
