import Logrange.Model.RdSelector
/-!
# The cursor: sources, `LogEventIterator`, the `Mixer` tree of `newCursor`, `fiterator`, positions

pkg/cursor/cursor.go (`newCursor`, `Get/Next/Release/SetBackward/CurrentPos`, `State`, `collectPos`,
`applyPos/applyCornerPos/applyStatePos`), pkg/model/mixer.go, pkg/model/iterator.go, pkg/cursor/fiterator.go
(with the cache dropped on a direction switch, 1a882be). This file keeps its own copy of the mixer (C04 has
another one) on purpose.

A source is one partition: its journal value and its journal iterator — the library one for un-ranged
queries, `partition.JIterator` when the query has a RANGE. `order` is the order in which Go's map iteration
handed the sources to `newCursor` (leaf order of the mixer tree).
-/
namespace Logrange.Rd

inductive SrcIt
  | lib (it : It)
  | rng (it : RIt)
deriving Repr

structure Src where
  name : Nat := 0           -- journal name (dense id of the partition)
  jrnl : Journal := []
  it : SrcIt := .lib {}
deriving Repr, Inhabited

def Src.get (s : Src) : Src × Option Rec :=
  match s.it with
  | .lib it => let (it', r) := Rd.get s.jrnl it; ({ s with it := .lib it' }, r)
  | .rng it => let (it', r) := rGet s.jrnl it; ({ s with it := .rng it' }, r)
def Src.next (s : Src) : Src :=
  match s.it with
  | .lib it => { s with it := .lib (Rd.next s.jrnl it) }
  | .rng it => { s with it := .rng (rNext s.jrnl it) }
def Src.release (s : Src) : Src :=
  match s.it with
  | .lib it => { s with it := .lib (Rd.release it) }
  | .rng it => { s with it := .rng (rRelease it) }
def Src.setBackward (s : Src) (b : Bool) : Src :=
  match s.it with
  | .lib it => { s with it := .lib (Rd.setBackward it b) }
  | .rng it => { s with it := .rng (rSetBackward it b) }
def Src.setPos (s : Src) (p : Pos) : Src :=
  match s.it with
  | .lib it => { s with it := .lib (Rd.setPos s.jrnl it p) }
  | .rng it => { s with it := .rng (rSetPos s.jrnl it p) }
def Src.pos (s : Src) : Pos :=
  match s.it with
  | .lib it => it.pos
  | .rng it => it.pos

/-- iterator tree: leaves are sources, inner nodes mixers (indices into `nodes`) -/
inductive Node
  | leaf (src : Nat)
  | mix (l r : Nat)
deriving Repr, Inhabited

structure MixSt where
  st : Nat := 0        -- 0 unknown, 1 src1, 2 src2, 3 both ended
  eof1 : Bool := false
  eof2 : Bool := false
  le1 : Option Rec := none
  le2 : Option Rec := none
  bkwd : Bool := false
deriving Repr, Inhabited

structure Cur where
  srcs : Array Src
  nodes : Array Node
  mix : Array MixSt
  root : Nat
  -- fiterator (present when the query has WHERE or RANGE)
  useF : Bool := false
  fValid : Bool := false
  fLe : Option Rec := none
  where_ : Bool := false      -- WHERE keeps records with `keep`
  minTs : Option Int := none  -- RANGE bounds (none = model.MinTimestamp / MaxTimestamp)
  maxTs : Option Int := none
deriving Inhabited

/-- `CurrentPos` identity: (source, chunk id, index); `none` = `IteratorPosUnknown` -/
abbrev PosId := Option (Nat × Nat × Nat)

def setSrc (s : Cur) (i : Nat) (x : Src) : Cur := { s with srcs := s.srcs.set! i x }

mutual
/-- `Get` of node `n` (`LogEventIterator.Get` for a leaf — its `st` is never 1 —, `Mixer.Get` otherwise) -/
def nodeGet : Nat → Cur → Nat → Cur × Option Rec
  | 0, s, _ => (s, none)
  | fuel+1, s, n =>
    match s.nodes[n]! with
    | .leaf i =>
      let (src', r) := (s.srcs[i]!).get
      (setSrc s i src', r)
    | .mix _ _ =>
      let s := selectState fuel s n
      let m := s.mix[n]!
      (s, if m.st == 1 then m.le1 else if m.st == 2 then m.le2 else none)
/-- `Mixer.selectState` with `GetEarliest` -/
def selectState : Nat → Cur → Nat → Cur
  | 0, s, _ => s
  | fuel+1, s, n =>
    let m := s.mix[n]!
    if m.st != 0 then s else
    match s.nodes[n]! with
    | .leaf _ => s
    | .mix l r =>
      let (s, m) := if !m.eof1 then
          let (s', v) := nodeGet fuel s l
          (s', match v with | some x => { m with le1 := some x } | none => { m with eof1 := true, le1 := none })
        else (s, m)
      let (s, m) := if !m.eof2 then
          let (s', v) := nodeGet fuel s r
          (s', match v with | some x => { m with le2 := some x } | none => { m with eof2 := true, le2 := none })
        else (s, m)
      let st :=
        if m.eof1 && m.eof2 then 3
        else if m.eof1 then 2
        else if m.eof2 then 1
        else
          let res := match m.le1, m.le2 with
            | some a, some b => decide (a.ts ≤ b.ts)
            | _, _ => true
          let res := if m.bkwd then !res else res
          if res then 1 else 2
      { s with mix := s.mix.set! n { m with st := st } }
end

/-- `Next` of node `n` -/
def nodeNext : Nat → Cur → Nat → Cur
  | 0, s, _ => s
  | fuel+1, s, n =>
    match s.nodes[n]! with
    | .leaf i => setSrc s i (s.srcs[i]!).next
    | .mix l r =>
      let s := selectState (fuel+1) s n
      let m := s.mix[n]!
      let s := if m.st == 1 then nodeNext fuel s l else if m.st == 2 then nodeNext fuel s r else s
      let m := s.mix[n]!
      let m := if m.st == 1 then { m with le1 := none } else if m.st == 2 then { m with le2 := none } else m
      { s with mix := s.mix.set! n { m with st := 0 } }

/-- `Release` of node `n` -/
def nodeRelease : Nat → Cur → Nat → Cur
  | 0, s, _ => s
  | fuel+1, s, n =>
    match s.nodes[n]! with
    | .leaf i => setSrc s i (s.srcs[i]!).release
    | .mix l r =>
      let s := nodeRelease fuel s l
      let s := nodeRelease fuel s r
      let m := s.mix[n]!
      { s with mix := s.mix.set! n { m with eof1 := false, eof2 := false, st := if m.st == 3 then 0 else m.st } }

/-- `SetBackward` of node `n` -/
def nodeSetBackward : Nat → Cur → Nat → Bool → Cur
  | 0, s, _, _ => s
  | fuel+1, s, n, b =>
    match s.nodes[n]! with
    | .leaf i => setSrc s i ((s.srcs[i]!).setBackward b)
    | .mix l r =>
      let m := s.mix[n]!
      if m.bkwd == b then s else
      let s := { s with mix := s.mix.set! n { m with bkwd := b } }
      let s := nodeSetBackward fuel s l b
      let s := nodeSetBackward fuel s r b
      let s := nodeRelease (fuel+1) s n
      let m := s.mix[n]!
      { s with mix := s.mix.set! n { m with st := 0 } }

/-- `CurrentPos` of node `n` -/
def nodePos : Nat → Cur → Nat → PosId
  | 0, _, _ => none
  | fuel+1, s, n =>
    match s.nodes[n]! with
    | .leaf i => let p := (s.srcs[i]!).pos; some (i, p.cid, p.idx)
    | .mix l r => let m := s.mix[n]!; if m.st == 1 then nodePos fuel s l else if m.st == 2 then nodePos fuel s r else none

/-- recursion depth of the tree walks: the tree has at most `srcs.size` levels + 1 -/
def Cur.depth (s : Cur) : Nat := s.nodes.size + 2

def passes (s : Cur) (r : Rec) : Bool :=
  (!s.where_ || r.keep) &&
  (match s.minTs with | some m => decide (m ≤ r.ts) | none => true) &&
  (match s.maxTs with | some m => decide (r.ts ≤ m) | none => true)

/-- `crsr.Next` (through `fiterator.Next` when there is a filter) -/
def curNext (s : Cur) : Cur :=
  let s := nodeNext s.depth s s.root
  if s.useF then { s with fValid := false } else s

/-- the skip loop of `fiterator.Get`; `fuel` bounds the number of records skipped (the real loop has no bound) -/
def fGetLoop : Nat → Cur → Cur × Option Rec
  | 0, s => (s, none)
  | fuel+1, s =>
    if s.fValid then (s, s.fLe) else
    let (s, v) := nodeGet s.depth s s.root
    match v with
    | none => (s, none)
    | some l =>
      if passes s l then ({ s with fValid := true, fLe := some l }, some l)
      else fGetLoop fuel (curNext { s with fLe := some l })

/-- total number of records of all sources: bound for every walk over the data -/
def Cur.size (s : Cur) : Nat := (s.srcs.toList.map (fun x => (flat x.jrnl).length)).sum

/-- `crsr.Get` -/
def curGet (s : Cur) : Cur × Option Rec :=
  if !s.useF then nodeGet s.depth s s.root else fGetLoop (s.size + 2) s

/-- `crsr.SetBackward` (`fiterator.SetBackward` drops the cached event) -/
def curSetBackward (s : Cur) (b : Bool) : Cur :=
  let s := nodeSetBackward s.depth s s.root b
  if s.useF then { s with fValid := false } else s

/-- `crsr.Release` (`fiterator.Release` keeps `valid`) -/
def curRelease (s : Cur) : Cur := nodeRelease s.depth s s.root

def curPos (s : Cur) : PosId := nodePos s.depth s s.root

/-! ## building the cursor (`newCursor`) -/

/-- pairwise reduction of `mxs` exactly as the `for len(mxs) > 1` loop; returns the node table and the root -/
def reduceTree : Nat → Array Node → List Nat → Array Node × Nat
  | 0, nodes, mxs => (nodes, mxs.headD 0)
  | fuel+1, nodes, mxs =>
    match mxs with
    | [] => (nodes, 0)
    | [r] => (nodes, r)
    | _ =>
      let rec pairs (nodes : Array Node) : List Nat → Array Node × List Nat
        | a :: b :: rest =>
          let nodes := nodes.push (.mix a b)
          let (nodes', out) := pairs nodes rest
          (nodes', (nodes.size - 1) :: out)
        | [a] => (nodes, [a])
        | [] => (nodes, [])
      let (nodes, mxs') := pairs nodes mxs
      reduceTree fuel nodes mxs'

/-- `newCursor` for the sources in map order `srcs`; `ranged` = the query has a RANGE (→ ranged iterators) -/
def mkCur (srcs : List Src) (where_ : Bool) (minTs maxTs : Option Int) (ranged : Bool) : Cur :=
  let leaves : Array Node := ((List.range srcs.length).map Node.leaf).toArray
  let (nodes, root) := reduceTree (srcs.length + 1) leaves (List.range srcs.length)
  { srcs := srcs.toArray, nodes := nodes, mix := (List.replicate nodes.size ({} : MixSt)).toArray, root := root,
    useF := where_ || ranged, where_ := where_, minTs := minTs, maxTs := maxTs }

/-! ## positions -/

/-- `applyCornerPos` for "tail" / "head" / "" (the caller decides which text it is) -/
def applyCorner (s : Cur) (tail : Bool) : Cur :=
  let p : Pos := if tail then ⟨tailCid, maxU32⟩ else {}
  { s with srcs := s.srcs.map (fun x => x.setPos p) }

/-- `applyStatePos` on the parsed map: unknown journals are ignored, sources not named keep their position -/
def applyStatePos (s : Cur) (m : List (Nat × Pos)) : Cur :=
  { s with srcs := s.srcs.map (fun x => match m.find? (·.1 == x.name) with | some (_, p) => x.setPos p | none => x) }

/-- `collectPos` (as the map name → position; the text joins them in map order) -/
def collectPos (s : Cur) : List (Nat × Pos) := s.srcs.toList.map (fun x => (x.name, x.pos))

/-- `crsr.State`: `Get` to settle the position, then collect -/
def curState (s : Cur) : Cur × List (Nat × Pos) :=
  let (s, _) := curGet s
  (s, collectPos s)

/-- `crsr.commit` -/
def commit (s : Cur) : Cur × List (Nat × Pos) :=
  let (s, st) := curState s
  (curRelease s, st)

/-- the journals changed under the cursor (appends between two calls) -/
def setJournals (s : Cur) (js : List (Nat × Journal)) : Cur :=
  { s with srcs := s.srcs.map (fun x => match js.find? (·.1 == x.name) with | some (_, j) => { x with jrnl := j } | none => x) }

end Logrange.Rd
