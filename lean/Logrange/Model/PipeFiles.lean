import Logrange.Model.CIndexFile
/-!
# C07 — pipe files (`pkg/pipe/persister.go`, `service.go: Init/Shutdown/savePipes`, `ppipe.go: newPPipe/saveState/delete`)

* `pipes.dat` — the registry (`[]Pipe`), written by `savePipes` (callers: `Generated.C07.savePipesCallers` — today
  `CreatePipe`, `DeletePipe`, `Shutdown`) through `pipes.dat.tmp` and a rename.
* `pipe<escaped name>.dat` — the per-source positions of one pipe (`map[string]*ppDesc`), written by
  `savePipeInfo` after every copied batch, removed by `onDeleteStream`.

File names are computed by the code's own function: `pipeFileName` = prefix ++ escape(name) ++ suffix with the
generated prefix/suffix; `escape` is `fileutil.EscapeToFileName` (library `strings.Replacer` over ten terms,
validated by correspondence). `pipeFileName "s" = "pipes.dat"`.
-/
namespace Logrange.Persist
open Logrange.Generated.C07

structure Pipe where
  name : Bytes
  tags : Bytes
  flt : Bytes
deriving DecidableEq, Repr

structure Pos where
  cid : Nat
  idx : Nat
deriving DecidableEq, Repr

/-- `ppipe.partitions`: source journal → synced position -/
abbrev PosMap := List (Src × Pos)

structure PPipe where
  cfg : Pipe
  poss : PosMap
deriving DecidableEq, Repr

/-- `fileutil.FileNameEscaper`: leader `_`, terms `_ / \ ` * | ; " ' :` replaced by `_00 … _09` -/
def escapeByte (b : UInt8) : Bytes :=
  if b = 95 then [95, 48, 48]        -- _
  else if b = 47 then [95, 48, 49]   -- /
  else if b = 92 then [95, 48, 50]   -- \
  else if b = 96 then [95, 48, 51]   -- `
  else if b = 42 then [95, 48, 52]   -- *
  else if b = 124 then [95, 48, 53]  -- |
  else if b = 59 then [95, 48, 54]   -- ;
  else if b = 34 then [95, 48, 55]   -- "
  else if b = 39 then [95, 48, 56]   -- '
  else if b = 58 then [95, 48, 57]   -- :
  else [b]

def escape (n : Bytes) : Bytes := n.flatMap escapeByte

def pipeFileName (name : Bytes) : Bytes :=
  pipeFilePrefix ++ (if pipeFileNameEscapes then escape name else name) ++ pipeFileSuffix

def pipesDat : Path := .pipesDir pipesFileName
/-- `pipes.dat.tmp` -/
def pipesTmp : Path := .pipesDir (pipesFileName ++ [46, 116, 109, 112])
def pipeInfoPath (name : Bytes) : Path := .pipesDir (pipeFileName name)

/-- `persister.savePipes`: the new content is written next to the file and renamed over it
(`Generated.C07.savePipesViaTmpRename`; before the repair of finding F41: rewritten in place) -/
def savePipesSteps (c : Codec (List Pipe)) (ps : List Pipe) : List Step :=
  if savePipesViaTmpRename then writeFile pipesTmp (c.enc ps) ++ [.rename pipesTmp pipesDat]
  else writeFile pipesDat (c.enc ps)
def savePipeInfoSteps (c : Codec PosMap) (name : Bytes) (pm : PosMap) : List Step :=
  writeFile (pipeInfoPath name) (c.enc pm)

/-- `loadPipes`: missing file = no pipes; undecodable = error (`none`; `Service.Init` fails) -/
def loadPipes (c : Codec (List Pipe)) (f : Files) : Option (List Pipe) :=
  match f pipesDat with
  | none => some []
  | some d => c.dec d

/-- `loadPipeInfo` as used by `newPPipe`: the error is dropped, the map stays empty -/
def loadPipeInfo (c : Codec PosMap) (f : Files) (name : Bytes) : PosMap :=
  match f (pipeInfoPath name) with
  | none => []
  | some d => (c.dec d).getD []

/-- `Service.Init` (registry part) -/
def pipesInit (cp : Codec (List Pipe)) (ci : Codec PosMap) (f : Files) : Option (List PPipe) :=
  (loadPipes cp f).map (fun ps => ps.map (fun p => ⟨p, loadPipeInfo ci f p.name⟩))

end Logrange.Persist
