import Logrange.Model.PipeLts
/-!
# The pipe LTS with the repairs of F79 and F10 (C10)

`Logrange/Model/PipeLts.lean` stays as it is; `stepR` is that LTS with three switches, each a fact regenerated from the source:

* `catchUpAtInit` (F79 a; `Service.Init` → `ppipe.catchUp`): after `newPPipe` loaded the positions, for every source the
  pipe has a descriptor for, `LastKnwnPos := max LastKnwnPos (end of the stored data)` and `startWorker`;
* `persistFirst` (F79 b; `onWriteEvent`): the notification that creates a descriptor writes the positions file at once
  (`savePipeInfo` writes the whole map);
* `writeLock` (F10; `partition.Service.Write`): a per-partition mutex is held from before the journal write until after the
  publication of the write event — while a write event of source `s` is unpublished (`pend`), no other write to `s` starts.

With all three off `stepR` is `step` (`Props/C10Rep.unrepaired_is_plain`): the plain LTS is the model of a tree without the
repairs, and its counterexample runs (`cex_restart_strands_data`, `cex_first_notification_reordered`) are "the other branch".
-/
namespace Logrange.PipeLts

structure RCfg where
  catchUpAtInit : Bool
  persistFirst : Bool
  writeLock : Bool
deriving DecidableEq, Repr

def unrepaired : RCfg := ⟨false, false, false⟩
def repaired : RCfg := ⟨true, true, true⟩

/-- `savePipeInfo(name, pp.partitions)`: the whole map goes to the positions file -/
def resaveAll (st : State) : State := { st with srcs := fun s => { st.srcs s with saved := (st.srcs s).desc } }

/-- `ppipe.catchUp` for one source (the service is running, the pipe alive: `startWorker`'s first conjunct holds) -/
def catchUpSrc (σ : SrcSt) : SrcSt :=
  match σ.desc with
  | none => σ
  | some d => startWorker false σ { d with lastKnown := max d.lastKnown σ.log.length }

/-- does the notification at the head of the channel create a descriptor (pipe found, alive, source not known yet)? -/
def firstSeen (st : State) : Bool :=
  match st.chan with
  | [] => false
  | we :: _ => (pipesForSource st we.src).1 && (st.srcs we.src).desc.isNone && st.pipe != .deleted

def stepR (cfg : Cfg) (rc : RCfg) (st : State) : Label → Option State
  | .write s batch =>
    if rc.writeLock && st.pend.any (fun we => we.src == s) then none else step cfg st (.write s batch)
  | .notify =>
    match step cfg st .notify with
    | none => none
    | some st' => if rc.persistFirst && firstSeen st then some (resaveAll st') else some st'
  | .restart =>
    match step cfg st .restart with
    | none => none
    | some st' =>
      if rc.catchUpAtInit && st'.pipe == .live then some { st' with srcs := fun s => catchUpSrc (st'.srcs s) } else some st'
  | l => step cfg st l

def runR (cfg : Cfg) (rc : RCfg) (st : State) : List Label → State
  | [] => st
  | l :: ls => match stepR cfg rc st l with
    | some st' => runR cfg rc st' ls
    | none => runR cfg rc st ls

end Logrange.PipeLts
