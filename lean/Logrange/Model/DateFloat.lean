import Logrange.Model.DateParser
/-!
# lql `parseRalativeDateTime`: the float64 arithmetic of `-<num>(m|h|d)`

Go: `val, err := strconv.ParseFloat(num, 64)`; `val = val * float64(unitNanos)`; `time.Now().Add(-time.Duration(val))`.

Everything is modelled over `Nat`, without any floating point primitive:

* a non-negative binary64 is a dyadic `m · 2^(k-1074)` (`F64.fin m k`, the exponent is kept BIASED by 1074 — the
  exponent of the smallest subnormal — so that it is a natural number), or `+Inf`;
* `f64Round num den` is the binary64 nearest to `num/den`, ties to even, subnormals and overflow included — which is
  what a correctly rounded `strconv.ParseFloat` and a correctly rounded IEEE multiplication return;
* `f64ToDur` is the float64→int64 conversion of `time.Duration(val)` followed by the negation, as the number of
  nanoseconds subtracted from now.

Only the texts `digits`, `digits.digits`, `digits.`, `.digits` are modelled (`decValue`).
-/
namespace Logrange.Date

/-- ⌊log₂ n⌋ (0 for 0) -/
def log2Floor (n : Nat) : Nat := Nat.log2 n

/-- non-negative binary64 as a dyadic: `fin m k` is `m · 2^(k - 1074)`; not necessarily normalised -/
inductive F64
  | fin (m : Nat) (k : Nat)
  | inf
deriving Repr, DecidableEq

/-- the unbiased exponent of the dyadic -/
def F64.e : F64 → Int
  | .fin _ k => (k : Int) - 1074
  | .inf => 0

/-- the value multiplied by 2^1074 (`none` for +Inf) -/
def F64.scaled : F64 → Option Nat
  | .fin m k => some (m * 2 ^ k)
  | .inf => none

/-- the integer nearest to `x / y`, ties to even -/
def rne (x y : Nat) : Nat :=
  if 2 * (x % y) < y then x / y
  else if y < 2 * (x % y) then x / y + 1
  else if (x / y) % 2 = 0 then x / y else x / y + 1

/-- the exponent (biased by 1074) of the binade of `N / D / 2^1074`: `max (⌊log₂ q⌋ - 52) (-1074) + 1074` -/
def binade (N D : Nat) : Nat := log2Floor (N / D) - 52

/-- 2^1024 as a scaled value: results at or above it are +Inf -/
def ovfScaled : Nat := 2 ^ 2098

/-- binary64 nearest to `num / den`, round half to even -/
def f64Round (num den : Nat) : F64 :=
  if rne (num * 2 ^ 1074) (den * 2 ^ binade (num * 2 ^ 1074) den) * 2 ^ binade (num * 2 ^ 1074) den < ovfScaled then
    .fin (rne (num * 2 ^ 1074) (den * 2 ^ binade (num * 2 ^ 1074) den)) (binade (num * 2 ^ 1074) den)
  else .inf

/-- value of an unsigned decimal text without exponent: (numerator, 10^fraction digits) -/
def decValue (s : Bytes) : Option (Nat × Nat) :=
  match s.dropWhile isDig with
  | [] => if (s.takeWhile isDig).isEmpty then none else some (natOfDigits (s.takeWhile isDig), 1)
  | c :: fr =>
    if c == 46 && fr.all isDig && !((s.takeWhile isDig).isEmpty && fr.isEmpty) then
      some (natOfDigits (s.takeWhile isDig ++ fr), 10 ^ fr.length)
    else none

/-- +Inf is a range error -/
def F64.finite? : F64 → Option F64
  | .inf => none
  | .fin m k => some (.fin m k)

/-- `strconv.ParseFloat(s, 64)` on the modelled texts; `none` = range error (or a text outside the model) -/
def parseFloatDec (s : Bytes) : Option F64 :=
  (decValue s).bind (fun p => F64.finite? (f64Round p.1 p.2))

/-- `v * float64(mult)` for an exactly representable integer `mult` -/
def f64MulNat (v : F64) (mult : Nat) : F64 :=
  match v with
  | .inf => .inf
  | .fin m k => f64Round (m * 2 ^ k * mult) (2 ^ 1074)

/-- 2^63 as a scaled value -/
def durBound : Nat := 2 ^ 63 * 2 ^ 1074

/-- nanoseconds subtracted from now by `Add(-time.Duration(v))`; `ovfSub` is what a conversion out of the int64 range
subtracts (2^63 on amd64, 2^63-1 on arm64) -/
def f64ToDur (ovfSub : Nat) (v : F64) : Nat :=
  match v with
  | .inf => ovfSub
  | .fin m k => if m * 2 ^ k < durBound then m * 2 ^ k / 2 ^ 1074 else ovfSub

def relDur (ovfSub : Nat) (num : Bytes) (mult : Nat) : Option Int :=
  (parseFloatDec num).map (fun v => ((f64ToDur ovfSub (f64MulNat v mult) : Nat) : Int))

def amd64Ovf : Nat := 9223372036854775808

/-- line-protocol answer: "unsupported" | "err" | the decimal number of `relDur amd64Ovf` -/
def relDurText (s : Bytes) (mult : Nat) : String :=
  match decValue s with
  | none => "unsupported"
  | some _ =>
    match relDur amd64Ovf s mult with
    | none => "err"
    | some r => toString r

end Logrange.Date
