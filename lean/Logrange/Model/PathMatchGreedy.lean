import Logrange.Model.PathSpec
/-!
# What Go's `path.Match` computes, said on the pattern's terms: the leftmost-commit reading of `*`

`PathSpec.matchItems` is the documented (existential) meaning: a `*` may take any run of non-`/` bytes such that the
rest of the pattern matches the rest of the name. Go's algorithm does something more specific. It cuts the pattern
at its stars into star-free *segments* (`scanChunk`'s chunks); a segment that follows a star is tried at position 0,
1, 2 … of the name (never stepping over a `/`), and **the first position at which the segment matches is final** —
except for the last segment of the pattern, which must also reach the end of the name and is therefore tried at
every position. `greedy` is exactly this, written on the item list of the specification (no bytes of the pattern, no
`scanChunk`, no `matchChunk`): segments are consumed by the deterministic `consume`.

`starSafe` / `starSafeAscii` are decidable conditions on the item list under which the leftmost-commit reading and
the existential one coincide (Proofs/PathMatchGreedy*.lean); the two counterexamples in Props/C05.lean lie outside.
-/
namespace Logrange.PathSpec
open Logrange.PathMatch

def Item.isStar : Item → Bool
  | .star => true
  | _ => false

def inRanges (rs : List (Nat × Nat)) (ch : Nat) : Bool := rs.any (fun lh => decide (lh.1 ≤ ch) && decide (ch ≤ lh.2))

/-- deterministic consumption of a name prefix by star-free items: what is left of the name, or `none` -/
def consume : List Item → Bytes → Option Bytes
  | [], s => some s
  | .star :: _, _ => none
  | .any :: r, s =>
    (match s with
     | [] => none
     | c :: _ => if c != SL then consume r (s.drop (decodeRune s).2) else none)
  | .cls neg rs :: r, s =>
    (match s with
     | [] => none
     | _ :: _ => if inRanges rs (decodeRune s).1 != neg then consume r (s.drop (decodeRune s).2) else none)
  | .lit c :: r, s =>
    (match s with
     | [] => none
     | x :: t => if x == c then consume r t else none)

def hasStar : List Item → Bool
  | [] => false
  | .star :: _ => true
  | _ :: r => hasStar r

/-- `scanChunk` on items: (a star run stands in front, the star-free segment, what follows it) -/
def splitSeg (its : List Item) : Bool × List Item × List Item :=
  let r := its.dropWhile Item.isStar
  (match its with | i :: _ => i.isStar | [] => false, r.takeWhile (fun i => !i.isStar), r.dropWhile (fun i => !i.isStar))

/-- the star loop: the star takes `c`, then one more byte, … never a `/`; the segment is tried after each step;
`lastSeg`: the segment is the pattern's last one, so it must also use up the name. `none` = no position. -/
def starLoopI (seg : List Item) : Bytes → Bool → Option Bytes
  | [], _ => none
  | c :: rest, lastSeg =>
    if c == SL then none else
    match consume seg rest with
    | some t => if lastSeg && !t.isEmpty then starLoopI seg rest lastSeg else some t
    | none => starLoopI seg rest lastSeg

/-- `path.Match` on the item list: leftmost position wins, segment by segment -/
def greedy (fuel : Nat) (its : List Item) (name : Bytes) : Bool :=
  match fuel with
  | 0 => false
  | fuel+1 =>
    if its.isEmpty then name.isEmpty else
    let (star, seg, rest) := splitSeg its
    if star && seg.isEmpty then !name.contains SL else
    let viaStar : Bool :=
      if star then
        (match starLoopI seg name rest.isEmpty with
         | some t' => greedy fuel rest t'
         | none => false)
      else false
    match consume seg name with
    | some t => if t.isEmpty || !rest.isEmpty then greedy fuel rest t else viaStar
    | none => viaStar

/-- the leftmost-commit meaning of a well-formed pattern -/
def greedyMatch (its : List Item) (name : Bytes) : Bool := greedy (its.length + 1) its name

/-! ## when leftmost-commit = existential -/

/-- every segment that stands between two stars consists of literal bytes other than `/` only (segments before the
first star and after the last star are unrestricted: `?`, classes, `/`, anything). State: `after` = a star has been
seen, `ok` = the segment since the last star is literal-only so far. -/
def starSafeGo : Bool → Bool → List Item → Bool
  | _, _, [] => true
  | after, ok, .star :: r => (!after || ok) && starSafeGo true true r
  | after, ok, .lit c :: r => starSafeGo after (ok && c != SL) r
  | after, _, .any :: r => starSafeGo after false r
  | after, _, .cls _ _ :: r => starSafeGo after false r

/-- decidable condition under which `greedyMatch = matchItems` for **every** name (any bytes) -/
def starSafe (its : List Item) : Bool := starSafeGo false true its

/-- an item that consumes exactly one byte of an ASCII name and never a `/`: a literal other than `/`, `?`, a
non-negated class none of whose ranges contains `/` -/
def Item.asciiMid : Item → Bool
  | .lit c => c != SL
  | .any => true
  | .cls neg rs => !neg && rs.all (fun lh => !(decide (lh.1 ≤ 47) && decide (47 ≤ lh.2)))
  | .star => false

def starSafeAsciiGo : Bool → Bool → List Item → Bool
  | _, _, [] => true
  | after, ok, .star :: r => (!after || ok) && starSafeAsciiGo true true r
  | after, ok, i :: r => starSafeAsciiGo after (ok && i.asciiMid) r

/-- decidable condition under which `greedyMatch = matchItems` for every **ASCII** name (all bytes < 0x80) -/
def starSafeAscii (its : List Item) : Bool := starSafeAsciiGo false true its

/-- every `*` byte of the pattern is a star term (no `\*`, no `*` inside a class): then `scanChunk`'s chunks are the
maximal `*`-free pieces of the pattern -/
def plainStars (p : Bytes) (its : List Item) : Bool := (its.filter Item.isStar).length == (p.filter (· == STAR)).length

end Logrange.PathSpec
