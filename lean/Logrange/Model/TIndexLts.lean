/-!
# Model of the tag index lock protocol (`pkg/tindex/inmem.go`) as a labelled transition system

One label = one critical section of `inmemService.lock` (DESIGN §4.3), performed by an actor (a goroutine /
a `Visit` activation). The shared state is what the mutex protects: for every partition source its
descriptor `tagsDesc{tags, readers, exclusive}` (`smap`; `tmap` is the same set keyed by the tag line).
Sources are never re-used (`newSrc()` is unique), so a source number also identifies the descriptor
*object* a running `Visit` keeps a pointer to.

Ghost state (not in the code, used to state the property):
* `holds`   — one token per acquisition that has not been given back: who acquired, which source, and whether
              the running `Visit` itself owes the release (`auto = true`) or the client must call `Release`.
* `locker`  — who holds the exclusive lock of a source.
* `vis`     — the local variables of an actor's running `Visit` (`vstd`, `startIdx`/`maxIdx` as lists).

Code → labels:
* `getOrCreateJournal(tags, create)`  → `getOrCreate` (one loop iteration: found & exclusive ⇒ nothing changes, the
  caller sleeps and retries, i.e. performs the label again)
* `GetJournalTags(src, lock)`         → `getTags` (same retry structure)
* `Release`                           → `release` (panics on misuse: modelled by `relRaw`, flag `panicked`)
* `LockExclusively`/`UnlockExclusively`/`Delete` → `lockX`/`unlockX`/`delete`
* `visitSkippingIfLocked`: first locked section = `visitBegin … skipping:=true` (snapshot + acquire all);
  every callback = `visitCb` (no lock; the order of `range vstd` = Go map order = the label's choice of `s`);
  final locked section = `visitEnd`.
* `Shutdown()`                         → `shutdown` (sets `done`)
* `visitWaitingIfLocked`: first locked section = `visitBegin … skipping:=false` (snapshot only); per item one
  locked section `visitTry` (gone ⇒ skipped, exclusive ⇒ sleeps and retries, else acquired), callback return =
  `visitCb`, final locked section = `visitEnd`.

`step` returns `none` when the label is not enabled for an actor that follows the calling protocol
(releases only what it holds and not what it has locked exclusively, locks only what it holds, unlocks /
deletes only what it locked, one `Visit` per actor at a time).
-/
namespace Logrange.TIndexLts

/-! Sources and actors are natural numbers (`Src`, `Actor` in the comments). -/

structure Part where
  tags : Nat
  readers : Int
  exclusive : Bool
deriving DecidableEq, Repr

structure Tok where
  actor : Nat
  src : Nat
  auto : Bool
deriving DecidableEq, Repr

structure Visit where
  skipping : Bool
  noRelease : Bool
  /-- snapshot entries (`vstd`) whose turn has not come yet -/
  pending : List Nat
  /-- entries whose `readers` the final locked section will decrement -/
  owed : List Nat
  /-- waiting flavour: the entry acquired by the last `visitTry`, its callback is running -/
  cur : Option Nat
  aborted : Bool
deriving DecidableEq, Repr

/-- what `ims.lock` protects, plus the ghost tokens and lockers -/
structure Core where
  parts : Nat → Option Part
  next : Nat
  holds : List Tok
  locker : Nat → Option Nat

structure St where
  c : Core
  vis : Nat → Option Visit
  panicked : Bool
  /-- `ims.done`: set by `Shutdown()`; acquisitions and visits then fail, a waiting `Visit` that notices it in its
  per-item section returns at once WITHOUT its final locked section (what it still owes stays acquired: the
  process is about to exit) -/
  done : Bool := false

def upd {α : Type} (f : Nat → α) (k : Nat) (v : α) : Nat → α := fun x => if x = k then v else f x

/-- number of outstanding acquisitions of `s` (Σ over actors) -/
def nTok (s : Nat) (h : List Tok) : Nat := h.countP (fun t => t.src == s)

def holdsAny (h : List Tok) (a : Nat) (s : Nat) : Bool := h.contains ⟨a, s, false⟩ || h.contains ⟨a, s, true⟩

/-! ## the critical sections on the protected maps (no ghost state) -/

inductive RelRes | ok | absent | panicExclusive | panicNotAcquired
deriving DecidableEq, Repr

/-- `Release(jn)` -/
def relRaw (parts : Nat → Option Part) (s : Nat) : (Nat → Option Part) × RelRes :=
  match parts s with
  | none => (parts, .absent)
  | some p =>
    if p.exclusive then (parts, .panicExclusive)
    else if p.readers ≤ 0 then (parts, .panicNotAcquired)
    else (upd parts s (some { p with readers := p.readers - 1 }), .ok)

/-- `LockExclusively(jn)` -/
def lockRaw (parts : Nat → Option Part) (s : Nat) : (Nat → Option Part) × Bool :=
  match parts s with
  | none => (parts, false)
  | some p =>
    if !p.exclusive && p.readers == 1 then (upd parts s (some { p with exclusive := true }), true) else (parts, false)

inductive UnlRes | ok | absent | panic
deriving DecidableEq, Repr

/-- `UnlockExclusively(jn)` -/
def unlockRaw (parts : Nat → Option Part) (s : Nat) : (Nat → Option Part) × UnlRes :=
  match parts s with
  | none => (parts, .absent)
  | some p =>
    if !p.exclusive || p.readers != 1 then (parts, .panic) else (upd parts s (some { p with exclusive := false }), .ok)

inductive DelRes | ok | notFound | wrongState
deriving DecidableEq, Repr

/-- `Delete(jn)` -/
def deleteRaw (parts : Nat → Option Part) (s : Nat) : (Nat → Option Part) × DelRes :=
  match parts s with
  | none => (parts, .notFound)
  | some p => if p.exclusive then (upd parts s none, .ok) else (parts, .wrongState)

/-- the `*tagsDesc` decrement of the final locked section of both visit flavours: `v.readers--` on the descriptor
object, whether or not it is still in the maps -/
def decDesc (parts : Nat → Option Part) (s : Nat) : Nat → Option Part :=
  match parts s with
  | none => parts
  | some p => upd parts s (some { p with readers := p.readers - 1 })

def incDesc (parts : Nat → Option Part) (s : Nat) (p : Part) : Nat → Option Part :=
  upd parts s (some { p with readers := p.readers + 1 })

/-- `tmap[tags]`: the live source with these tags (scan of `0 … n-1`) -/
def findTags (parts : Nat → Option Part) (tags : Nat) : Nat → Option Nat
  | 0 => none
  | k+1 =>
    match findTags parts tags k with
    | some s => some s
    | none =>
      match parts k with
      | some p => if p.tags = tags then some k else none
      | none => none

/-- the first locked section of both visit flavours over the sources `l`: collects the matching, not exclusively
locked entries; the skipping flavour (`acq`) acquires each of them on the spot -/
def snap (a : Nat) (sel : List Nat) (acq : Bool) :
    List Nat → (Nat → Option Part) → List Tok → (Nat → Option Part) × List Tok × List Nat
  | [], parts, holds => (parts, holds, [])
  | s :: ss, parts, holds =>
    match parts s with
    | some p =>
      if sel.contains p.tags && !p.exclusive then
        if acq then
          let r := snap a sel acq ss (incDesc parts s p) (⟨a, s, true⟩ :: holds)
          (r.1, r.2.1, s :: r.2.2)
        else
          let r := snap a sel acq ss parts holds
          (r.1, r.2.1, s :: r.2.2)
      else snap a sel acq ss parts holds
    | none => snap a sel acq ss parts holds

/-- the final locked section: decrement every owed descriptor -/
def relAll (a : Nat) : List Nat → (Nat → Option Part) → List Tok → (Nat → Option Part) × List Tok
  | [], parts, holds => (parts, holds)
  | s :: ss, parts, holds => relAll a ss (decDesc parts s) (holds.erase ⟨a, s, true⟩)

/-! ## labels and the step function -/

inductive Lbl
  | getOrCreate (a : Nat) (tags : Nat) (create : Bool)
  | getTags (a : Nat) (s : Nat) (lock : Bool)
  | release (a : Nat) (s : Nat)
  | lockX (a : Nat) (s : Nat)
  | unlockX (a : Nat) (s : Nat)
  | delete (a : Nat) (s : Nat)
  | visitBegin (a : Nat) (sel : List Nat) (skipping noRelease : Bool)
  | visitTry (a : Nat) (s : Nat)
  | visitCb (a : Nat) (s : Nat) (cont : Bool)
  | visitEnd (a : Nat)
  | shutdown
deriving Repr

/-- may actor `a` hand back an acquisition of `s` now? (not while it holds `s` exclusively) -/
def mayRelease (c : Core) (a : Nat) (s : Nat) : Bool :=
  (c.parts s).isNone || c.locker s != some a

/-- is a callback on `s` what actor's visit `v` does next? (skipping flavour: any entry not visited yet — the order of
`range vstd` is Go's map order; waiting flavour: the entry just acquired) -/
def cbOk (v : Visit) (s : Nat) : Bool :=
  !v.aborted && (if v.skipping then v.pending.contains s else v.cur == some s) && v.owed.contains s

def step (st : St) : Lbl → Option St
  | .getOrCreate a tags create =>
    if st.done then some st else                 -- "already shut-down."
    match findTags st.c.parts tags st.c.next with
    | some s =>
      match st.c.parts s with
      | some p =>
        if p.exclusive then some st            -- sleeps 1 ms and retries
        else some { st with c := { st.c with parts := incDesc st.c.parts s p, holds := ⟨a, s, false⟩ :: st.c.holds } }
      | none => some st
    | none =>
      if create then
        some { st with c := { st.c with parts := upd st.c.parts st.c.next (some ⟨tags, 1, false⟩),
                                        holds := ⟨a, st.c.next, false⟩ :: st.c.holds, next := st.c.next + 1 } }
      else some st                             -- NotFound
  | .getTags a s lock =>
    if st.done then some st else                 -- "already shut-down."
    match st.c.parts s with
    | none => some st                          -- NotFound
    | some p =>
      if p.exclusive then some st              -- sleeps 1 ms and retries
      else if lock then
        some { st with c := { st.c with parts := incDesc st.c.parts s p, holds := ⟨a, s, false⟩ :: st.c.holds } }
      else some st
  | .release a s =>
    if st.c.holds.contains ⟨a, s, false⟩ && mayRelease st.c a s then
      match relRaw st.c.parts s with
      | (parts', .ok) => some { st with c := { st.c with parts := parts', holds := st.c.holds.erase ⟨a, s, false⟩ } }
      | (_, .absent) => some { st with c := { st.c with holds := st.c.holds.erase ⟨a, s, false⟩ } }
      | (_, _) => some { st with panicked := true }
    else none
  | .lockX a s =>
    if holdsAny st.c.holds a s then
      match lockRaw st.c.parts s with
      | (parts', true) => some { st with c := { st.c with parts := parts', locker := upd st.c.locker s (some a) } }
      | (_, false) => some st
    else none
  | .unlockX a s =>
    match st.c.parts s with
    | none => some st                          -- not in the maps (deleted meanwhile): nothing happens
    | some _ =>
      if st.c.locker s == some a then
        match unlockRaw st.c.parts s with
        | (parts', .ok) => some { st with c := { st.c with parts := parts', locker := upd st.c.locker s none } }
        | (_, .absent) => some st
        | (_, .panic) => some { st with panicked := true }
      else none
  | .delete a s =>
    match st.c.parts s with
    | none => some st                          -- NotFound
    | some p =>
      if !p.exclusive then some st             -- WrongState
      else if st.c.locker s == some a then
        some { st with c := { st.c with parts := (deleteRaw st.c.parts s).1, locker := upd st.c.locker s none } }
      else none
  | .visitBegin a sel skipping noRelease =>
    match st.vis a with
    | some _ => none
    | none =>
      if st.done then some st else               -- "already shut-down.": no visit starts
      let r := snap a sel skipping (List.range st.c.next) st.c.parts st.c.holds
      some { st with c := { st.c with parts := r.1, holds := r.2.1 },
                     vis := upd st.vis a (some ⟨skipping, noRelease, r.2.2, if skipping then r.2.2 else [], none, false⟩) }
  | .visitTry a s =>
    match st.vis a with
    | none => none
    | some v =>
      if v.skipping || v.aborted || v.cur.isSome || !v.pending.contains s then none else
      if st.done then some { st with vis := upd st.vis a none } else   -- `return errors2.WrongState`, no final section
      match st.c.parts s with
      | none => some { st with vis := upd st.vis a (some { v with pending := v.pending.erase s }) }   -- vstd[i] = nil
      | some p =>
        if p.exclusive then some st            -- sleeps 1 ms and retries
        else some { st with c := { st.c with parts := incDesc st.c.parts s p, holds := ⟨a, s, true⟩ :: st.c.holds },
                            vis := upd st.vis a (some { v with pending := v.pending.erase s, owed := s :: v.owed, cur := some s }) }
  | .visitCb a s cont =>
    match st.vis a with
    | none => none
    | some v =>
      if cbOk v s then
        let v1 := { v with pending := v.pending.erase s, cur := none, aborted := !cont }
        if v.noRelease then
          -- the entry stays acquired for the client (skipping: startIdx moves past it; waiting: vstd[i] = nil)
          some { st with c := { st.c with holds := ⟨a, s, false⟩ :: st.c.holds.erase ⟨a, s, true⟩ },
                         vis := upd st.vis a (some { v1 with owed := v.owed.erase s }) }
        else some { st with vis := upd st.vis a (some v1) }
      else none
  | .visitEnd a =>
    match st.vis a with
    | none => none
    | some v =>
      if (v.pending.isEmpty || v.aborted) && v.cur.isNone && v.owed.all (mayRelease st.c a) then
        let r := relAll a v.owed st.c.parts st.c.holds
        some { st with c := { st.c with parts := r.1, holds := r.2 }, vis := upd st.vis a none }
      else none
  | .shutdown => some { st with done := true }

def init : St := ⟨⟨fun _ => none, 0, [], fun _ => none⟩, fun _ => none, false, false⟩

/-- a trace; labels that are not enabled are skipped -/
def run (st : St) : List Lbl → St
  | [] => st
  | l :: ls => match step st l with
    | some st' => run st' ls
    | none => run st ls

end Logrange.TIndexLts
