import Logrange.Model.Outcome
import Logrange.Generated.C13
/-!
# Wire formats (C13, reused by C01): xbinary, model.LogEvent, the RPC write packet and query messages

Mirrors, function by function:

* `github.com/logrange/range/pkg/utils/encoding/xbinary` (dependency, outside `/repo`): `UnmarshalByte`,
  `UnmarshalUint16/32/64` (big endian), `UnmarshalUint` (base-128 varint, least significant group first, groups
  shifted by ≥ 64 bits vanish), `UnmarshalBytes` / `UnmarshalString` **including the defect**: `ln := int(uln)`,
  `if len(buf) < ln+idx { error }`, `buf[idx : idx+ln]` — the `uint → int` conversion and the `int` sum wrap
  around (two's complement, 64 bit), so a length varint `≥ 2⁶³ − idx` passes the size test with a sum that is
  *below* `idx` and the slice expression panics. `MarshalUint`, `MarshalBytes` and the `ObjectsWriter` methods
  for the encoder side.
* `pkg/model/logevent.go`: `LogEvent.Marshal` / `Unmarshal` / `header` (stored record format).
* `api/rpc/encoder.go`: `writeLogEvent`, `unmarshalLogEvent`, `writeQueryRequest`, `unmarshalQueryRequest`,
  `writeQueryResult`, `unmarshalQueryResult`.
* `api/rpc/ingestor.go`: `writePacket.WriteTo` (client) and the server-side `wpIterator.init / Get / Next`
  ("a decode error inside the batch is the end of the batch": `Get` answers `io.EOF`).

The repeated Go idiom

    n, x, err := Unmarshal…(buf[nn:]); nn += n; if err != nil { return nn, err }

is `Dec.next nn buf d k` (checked `buf[nn:]`, decoder `d`, continuation `k` with the new `nn` and the value).

What is *not* modelled here: `field.NewFieldsFromKVString` (kvstring splitting and `strconv.Unquote`, owned by C08)
enters as a parameter `kv : Bytes → Option Bytes` (`none` = error). All totality theorems hold for every `kv`.
The byte count returned together with an *error* is not modelled (no caller uses it).
-/
namespace Logrange.Wire
open Go Logrange

/-- a decoder: bytes consumed and the value, or error / panic -/
abbrev Dec (α : Type) := Bytes → Outcome (Nat × α)

def fromBE (b : Bytes) : Nat := b.foldl (fun a x => a * 256 + x.toNat) 0
def toBE (width n : Nat) : Bytes := (List.range width).reverse.map (fun i => UInt8.ofNat ((n / 256 ^ i) % 256))

/-! ## xbinary decoders -/

def unmarshalByte : Dec UInt8
  | [] => .err
  | b :: _ => .ok (1, b)

def unmarshalUint16 : Dec Nat := fun buf => if buf.length < 2 then .err else .ok (2, fromBE (buf.take 2))
def unmarshalUint32 : Dec Nat := fun buf => if buf.length < 4 then .err else .ok (4, fromBE (buf.take 4))
def unmarshalUint64 : Dec Nat := fun buf => if buf.length < 8 then .err else .ok (8, fromBE (buf.take 8))

/-- the loop of `UnmarshalUint`: `res |= uint(b&127) << shft` (a shift count ≥ 64 gives 0 in Go) -/
def uvarintGo : Bytes → Nat → Nat → Nat → Outcome (Nat × Nat)
  | [], _, _, _ => .err
  | b :: r, idx, shft, res =>
    let res' := res ||| (if shft < 64 then ((b.toNat % 128) <<< shft) % 18446744073709551616 else 0)
    if b.toNat ≤ 127 then .ok (idx + 1, res') else uvarintGo r (idx + 1) (shft + 7) res'

def unmarshalUint : Dec Nat := fun buf => uvarintGo buf 0 0 0

/-- Go's conversion of a 64-bit pattern to `int` and the wrap-around of `int` arithmetic: the representative of
`x` modulo 2⁶⁴ in `[−2⁶³, 2⁶³)`. -/
def wrap64 (x : Int) : Int :=
  let m := x % 18446744073709551616
  if m < 9223372036854775808 then m else m - 18446744073709551616

/-- `xbinary.UnmarshalBytes` (and `UnmarshalString`): see the file header for the wrap-around. -/
def unmarshalBytes : Dec Bytes := fun buf =>
  (unmarshalUint buf).bind fun p =>
    let idx : Int := p.1
    let ln : Int := wrap64 p.2                 -- ln := int(uln)
    let hi : Int := wrap64 (ln + idx)          -- ln+idx, idx+ln in int arithmetic
    if (buf.length : Int) < hi then .err       -- if len(buf) < ln+idx { return …, noBufErr }
    else (Go.slice buf idx hi).bind fun res => .ok (hi.toNat, res)   -- res := buf[idx : idx+ln]

abbrev unmarshalString : Dec Bytes := unmarshalBytes

/-- `api/rpc/encoder.go: unmarshalString` (commit dbbc1a7): before calling the library the length varint is compared with the
bytes left, `uln > uint(len(buf)-idx) ⇒ error`. `guard` is the regenerated fact `Generated.C13.rpcStringLengthGuard` (the
wrapper exists, has that test, and no api/rpc decoder calls the library directly); with `false` this is the code before
the commit. (`len(buf)-idx ≥ 0` because the varint reader consumed `idx ≤ len(buf)` bytes, so the `uint` conversion is exact.) -/
def rpcStringG (guard : Bool) : Dec Bytes := fun buf =>
  match unmarshalUint buf with
  | .ok (idx, uln) => if guard = true ∧ buf.length - idx < uln then .err else unmarshalString buf
  | _ => unmarshalString buf

/-- the string decoder of the api/rpc decoders as `/repo` has it now -/
abbrev rpcString : Dec Bytes := rpcStringG Generated.C13.rpcStringLengthGuard

/-- `n, x, err := d(buf[nn:]); nn += n; if err != nil { return }; k nn x` -/
def Dec.next (nn : Nat) (buf : Bytes) (d : Dec α) (k : Nat → α → Outcome β) : Outcome β :=
  (Go.sliceFrom buf nn).bind fun b => (d b).bind fun p => k (nn + p.1) p.2

/-! ## stored record: model.LogEvent -/

structure Event where
  ts : Nat            -- uint64 image of the int64 timestamp
  msg : Bytes
  fields : Bytes      -- binary field list (field.Fields)
  deriving Repr, DecidableEq, Inhabited

/-- `LogEvent.Unmarshal` on a zero LogEvent -/
def Event.unmarshal : Dec Event := fun buf =>
  Dec.next 0 buf unmarshalByte fun nn hdr =>
  Dec.next nn buf unmarshalUint64 fun nn ts =>
  Dec.next nn buf unmarshalBytes fun nn msg =>
    if hdr.toNat % 2 = 1 then
      Dec.next nn buf unmarshalString fun nn flds => .ok (nn, ⟨ts, msg, flds⟩)
    else .ok (nn, ⟨ts, msg, []⟩)

/-! ## RPC messages -/

/-- api.LogEvent on the wire -/
structure ApiEvent where
  ts : Nat
  msg : Bytes
  tags : Bytes
  fields : Bytes      -- KV text
  deriving Repr, DecidableEq, Inhabited

def unmarshalLogEvent : Dec ApiEvent := fun buf =>
  Dec.next 0 buf unmarshalUint64 fun nn ts =>
  Dec.next nn buf rpcString fun nn msg =>
  Dec.next nn buf rpcString fun nn tags =>
  Dec.next nn buf rpcString fun nn flds => .ok (nn, ⟨ts, msg, tags, flds⟩)

structure QueryRequest where
  reqId : Nat
  query : Bytes
  pos : Bytes
  waitTimeout : Nat   -- int(uint16)
  offset : Int        -- int(int32(uint32))
  limit : Nat         -- int(uint32)
  deriving Repr, DecidableEq, Inhabited

def toInt32 (u : Nat) : Int := if u < 2147483648 then u else (u : Int) - 4294967296

def unmarshalQueryRequest : Dec QueryRequest := fun buf =>
  Dec.next 0 buf unmarshalUint64 fun nn id =>
  Dec.next nn buf rpcString fun nn q =>
  Dec.next nn buf rpcString fun nn p =>
  Dec.next nn buf unmarshalUint16 fun nn wt =>
  Dec.next nn buf unmarshalUint32 fun nn off =>
  Dec.next nn buf unmarshalUint32 fun nn lim => .ok (nn, ⟨id, q, p, wt, toInt32 off, lim⟩)

/-- the `for i := 0; i < int(ln); i++` loop of `unmarshalQueryResult` (client side) -/
def unmarshalEvents (buf : Bytes) : Nat → Nat → List ApiEvent → Outcome (Nat × List ApiEvent)
  | 0, nn, acc => .ok (nn, acc.reverse)
  | k + 1, nn, acc => Dec.next nn buf unmarshalLogEvent fun nn' e => unmarshalEvents buf k nn' (e :: acc)

/-- `unmarshalQueryResult` is what the *client* runs on a server's answer (the allocation
`make([]*api.LogEvent, ln)` for a hostile count is a client-side concern and is not modelled). -/
def unmarshalQueryResult : Dec (List ApiEvent × QueryRequest) := fun buf =>
  Dec.next 0 buf unmarshalUint32 fun nn ln =>
  (unmarshalEvents buf ln nn []).bind fun r =>
  Dec.next r.1 buf unmarshalQueryRequest fun nn q => .ok (nn, (r.2, q))

/-! ## server side of Write: wpIterator -/

structure WpIter where
  tags : Bytes
  flds : Bytes        -- write-level fields, already turned into the binary form
  buf : Bytes
  read : Bool
  pos : Nat
  recs : Nat
  cur : Nat
  lge : Event
  deriving Repr, Inhabited

/-- the first part of `wpIterator.init`: tags, write-level fields, count; `kv` is `field.NewFieldsFromKVString` -/
def wpInitCore (kv : Bytes → Option Bytes) (buf : Bytes) : Outcome WpIter :=
  Dec.next 0 buf rpcString fun idx tags =>
  Dec.next idx buf rpcString fun idx flds =>
  Dec.next idx buf unmarshalUint32 fun pos ln =>
    match kv flds with
    | none => .err
    | some wf => .ok { tags := tags, flds := wf, buf := buf, read := false, pos := pos, recs := ln, cur := 0, lge := default }

/-- the validation loop of `init` (commit c6bbc14): `for i := 0; i < wpi.recs; i++ { n, err = unmarshalLogEvent(buf[p:], …); …;
NewFieldsFromKVString(le.Fields) …; p += n }` — every announced event must decode and its field text must parse -/
def wpValidate (kv : Bytes → Option Bytes) (buf : Bytes) : Nat → Nat → Outcome Unit
  | 0, _ => .ok ()
  | k + 1, p =>
    Dec.next p buf unmarshalLogEvent fun p' le =>
      match kv le.fields with
      | none => .err
      | some _ => wpValidate kv buf k p'

/-- `wpIterator.init`; whether the packet is validated completely is the regenerated fact `Generated.C13.wpInitValidates` -/
def wpInit (kv : Bytes → Option Bytes) (buf : Bytes) : Outcome WpIter :=
  (wpInitCore kv buf).bind fun it =>
    if Generated.C13.wpInitValidates = true then (wpValidate kv buf it.recs it.pos).bind fun _ => .ok it else .ok it

/-- `wpIterator.Get`: `none` is `io.EOF` (also after a decode error: the batch silently ends there) -/
def wpGet (kv : Bytes → Option Bytes) (it : WpIter) : Outcome (WpIter × Option Event) :=
  if it.read then .ok (it, some it.lge)
  else if it.cur ≥ it.recs then .ok (it, none)
  else
    let it := { it with cur := it.cur + 1 }
    (Go.sliceFrom it.buf it.pos).bind fun b =>
      match unmarshalLogEvent b with
      | .ok (n, le) =>
        let fldsLE := (kv le.fields).getD []                   -- field.Parse: errors give the empty list
        let lge : Event := ⟨le.ts, le.msg, it.flds ++ fldsLE⟩   -- Fields.Concat
        .ok ({ it with pos := it.pos + n, read := true, lge := lge }, some lge)
      | .err => .ok (it, none)
      | .panic w => .panic w
      | .outOfFuel => .outOfFuel

/-- `wpIterator.Next` -/
def wpNext (it : WpIter) : WpIter := { it with read := false }

/-- what a consumer of the iterator does (`Get`, stop at EOF, `Next`): the list of events the packet delivers -/
def wpDrain (kv : Bytes → Option Bytes) : Nat → WpIter → List Event → Outcome (List Event)
  | 0, _, _ => .outOfFuel
  | f + 1, it, acc =>
    (wpGet kv it).bind fun r =>
      match r.2 with
      | none => .ok acc.reverse
      | some e => wpDrain kv f (wpNext r.1) (e :: acc)

/-- the fuel that always suffices: every `Get` that is not served from the cache increments `cur` -/
def wpFuel (it : WpIter) : Nat := it.recs - it.cur + 1

/-- whole server-side decoding of one Write request body: tags + delivered events -/
def wpDecode (kv : Bytes → Option Bytes) (buf : Bytes) : Outcome (Bytes × List Event) :=
  (wpInit kv buf).bind fun it => (wpDrain kv (wpFuel it) it []).bind fun evs => .ok (it.tags, evs)

/-! ## encoders (client side and storage side; for the round trips of C01) -/

/-- `xbinary.MarshalUint` into the 10-byte scratch buffer of `ObjectsWriter` (enough for any 64-bit value) -/
def marshalUintGo : Nat → Nat → Bytes
  | 0, _ => []
  | f + 1, v => if v > 127 then UInt8.ofNat (128 + v % 128) :: marshalUintGo f (v / 128) else [UInt8.ofNat v]

def marshalUint (v : Nat) : Bytes := marshalUintGo 10 v
def marshalBytes (b : Bytes) : Bytes := marshalUint b.length ++ b

def Event.header (e : Event) : Nat := if e.fields.isEmpty then Generated.C13.recVersion else Generated.C13.recVersion + 1

/-- `LogEvent.Marshal` -/
def Event.marshal (e : Event) : Bytes :=
  [UInt8.ofNat e.header] ++ toBE 8 e.ts ++ marshalBytes e.msg ++ (if e.header % 2 = 1 then marshalBytes e.fields else [])

def writeLogEvent (e : ApiEvent) : Bytes := toBE 8 e.ts ++ marshalBytes e.msg ++ marshalBytes e.tags ++ marshalBytes e.fields

def writeQueryRequest (q : QueryRequest) : Bytes :=
  toBE 8 q.reqId ++ marshalBytes q.query ++ marshalBytes q.pos ++ toBE 2 (q.waitTimeout % 65536)
    ++ toBE 4 (q.offset % 4294967296).toNat ++ toBE 4 (q.limit % 4294967296)

/-- `writePacket.WriteTo` -/
def wpEncode (tags flds : Bytes) (evs : List ApiEvent) : Bytes :=
  marshalBytes tags ++ marshalBytes flds ++ toBE 4 (evs.length % 4294967296) ++ evs.flatMap writeLogEvent

def writeQueryResult (evs : List ApiEvent) (q : QueryRequest) : Bytes :=
  toBE 4 (evs.length % 4294967296) ++ evs.flatMap writeLogEvent ++ writeQueryRequest q

/-! ## the class of (fixed) finding F13: what still makes the *library* function panic -/

/-- the length of a Go slice is an `int` -/
def IsGoSlice (buf : Bytes) : Prop := buf.length < 9223372036854775808


/-- no varint that starts at the beginning of `b` decodes to a value `≥ 2⁶³ − (its own size)` -/
def SafeAt (b : Bytes) : Prop := ∀ idx v, unmarshalUint b = .ok (idx, v) → v + idx < 9223372036854775808

/-- … at no position of the buffer -/
def Safe (buf : Bytes) : Prop := ∀ k, SafeAt (buf.drop k)

/-- the decidable form of `Safe` (what the driver evaluates as the class predicate of F13) -/
def lensSafe (buf : Bytes) : Bool :=
  (List.range (buf.length + 1)).all fun k =>
    match unmarshalUint (buf.drop k) with
    | .ok (idx, v) => decide (v + idx < 9223372036854775808)
    | _ => true

end Logrange.Wire
