import Logrange.Model.RebuildHist
/-!
# C02 — a chunk-index entry older than its chunk (fix a2ca477), Points level

`cindex.syncChunks` → `sortedChunks.dropStale`: when a reader synchronises the index with the journal and a chunk holds
more CONFIRMED records (`m`) than the index entry accounts for (`Recs`, the model's `n`), the entry and its tree are
dropped and `lightFill` re-derives the entry from the chunk: hull = first and last confirmed record, no tree,
`Recs := m`. This happens when a reader runs between `Journal.Write` and `onWriteCIndex` of a writer (the window of
finding F46) or after a crash (C07).

`lateNotify` is the writer's `onWrite` that arrives afterwards: it names positions `a … a+k-1` that the re-derived
entry may already account for (`a < n`); the entry has no tree, so the interval starts a new one at `first = a`.
-/
namespace Logrange.RebuildHist
open Logrange.Points Logrange.ChunkHist

/-- `dropStale` + `lightFill` for a chunk with `m` confirmed records (`tsOf` = their timestamps) -/
def relight (tsOf : Nat → Int) (m : Nat) (c : ChunkIdx) : ChunkIdx :=
  if m ≤ c.n then c        -- the entry accounts for every confirmed record: kept
  else { n := m, pts := [], lastRec := 0, corrupted := false,
         hull := some ⟨min (tsOf 0) (tsOf (m - 1)), max (tsOf 0) (tsOf (m - 1))⟩ }

/-- `cindex.onWrite` for the positions `a … a+k-1` on an entry WITHOUT a tree (`pts = []`, `lastRec = 0`), as left by
`relight` or by a rebuild of nothing: hull merged, `Recs := a + k`, big gap → corrupted, otherwise the interval becomes
the first one of a new tree -/
def lateNotify (bigGap : Nat) (c : ChunkIdx) (a k : Nat) (mn mx : Int) : ChunkIdx :=
  let last := a + k - 1
  let hull : Hull := newHull c.hull mn mx
  if c.corrupted = true then { c with n := a + k, hull := some hull }
  else if last - c.lastRec > bigGap then { c with n := a + k, hull := some hull, corrupted := true, pts := [] }
  else { c with n := a + k, hull := some hull, pts := add [] ⟨⟨mn, a⟩, ⟨mx, last⟩⟩, lastRec := last }

end Logrange.RebuildHist
