import Logrange.Model.TIndexId
import Logrange.Model.TagsW
import Logrange.Generated.C06
/-!
# `getOrCreateJournal` with the write-time guard of the proposed repair F08r

`proposed-fixes/F08r.diff` adds, between the emptiness test and the look-up of the canonical line,

```go
if !tgs.Reparses() { ims.lock.Unlock(); return "", tag.EmptySet, fmt.Errorf(…) }
```
where `tag.Set.Reparses` = "`kvstring.ToMap(line)` succeeds and `MapsEquals` the set" (`Tags.reparses`). Whether the code
has this guard is a fact regenerated from the source (`Generated.C06.reparseGuardBeforeLookup`; `false` for the tree as
it is, where `getOrCreateG false` is literally `TIndexId.getOrCreate`: `guard_off_is_current`).
-/
namespace Logrange.TIndexGuard
open Go Logrange.KV Logrange.Tags Logrange.TIndexId

inductive ResG where
  | res (r : Res)
  | notReparsing      -- refused by the guard: the canonical line of the parsed set would not read back as that set
deriving DecidableEq, Repr

/-- one critical section of `getOrCreateJournal(raw, create)`; `g` = the guard is present -/
def getOrCreateG (g : Bool) (s : St) (raw : Bytes) (create : Bool) : St × ResG :=
  match lookup s.tmap raw with
  | some td => (s, .res (.ok td.src))
  | none =>
    match parse raw with
    | none => (s, .res .badTags)
    | some tgs =>
      if tgs.isEmpty then (s, .res .empty) else
      if g && !reparses tgs then (s, .notReparsing) else
      match lookup s.tmap (line tgs) with
      | some td2 => (s, .res (.ok td2.src))
      | none =>
        if !create then (s, .res .notFound) else
        ({ tmap := (line tgs, ⟨s.next, tgs⟩) :: s.tmap, next := s.next + 1 }, .res (.ok s.next))

/-- the guard refuses this text in this state: not a key already, parses to a non-empty set whose line does not read back -/
def guardRejects (s : St) (raw : Bytes) : Bool :=
  (lookup s.tmap raw).isNone &&
    (match parse raw with
     | some m => !m.isEmpty && !reparses m
     | none => false)

/-- the guard fact of the code as it is now -/
def codeGuard : Bool := Logrange.Generated.C06.reparseGuardBeforeLookup

def runG (g : Bool) (s : St) : List (Bytes × Bool) → St
  | [] => s
  | (raw, create) :: ops => runG g (getOrCreateG g s raw create).1 ops

end Logrange.TIndexGuard
