import Logrange.Model.LqlPrinter
/-!
# The expression / source sub-grammar as a direct recursive-descent parser over tokens

Same language and same AST as the engine interpreting the regenerated grammar for the structs `Source`,
`Expression`, `OrCondition`, `XCondition`, `Condition`, `Identifier` (checked against the engine *and* the real
`lql.ParseExpr` / `lql.ParseSource` by the harness on every run). Literals are byte lists, recursion is structural
on fuel, so the round-trip theorems (`Proofs/Lql.lean`) are proved about this function.

`toks…` is the token sequence the printers' output lexes to (`tokensOf`): operands keep their text and are Keyword
tokens exactly when the text is a keyword, operators are Operator or Keyword tokens, every value is a String token
(the printer quotes every value), parentheses and commas are Operator tokens.
-/
namespace Logrange.Lql

def kwNOT : Bytes := [78, 79, 84]
def kwAND : Bytes := [65, 78, 68]
def kwOR : Bytes := [79, 82]
def LP : Bytes := [40]
def RP : Bytes := [41]
def COMMA : Bytes := [44]

/-- the literals of `Condition.Op`, in grammar order -/
def condOps : List Bytes :=
  [[60], [62], [62, 61], [60, 61], [33, 61], [61],
   [67, 79, 78, 84, 65, 73, 78, 83], [80, 82, 69, 70, 73, 88], [83, 85, 70, 70, 73, 88], [76, 73, 75, 69]]

def isOpTok (tk : Tok) : Bool := condOps.any (fun o => litMatch tk o)
def isValueTok (tk : Tok) : Bool := tk.t == .string || tk.t == .ident || tk.t == .number
def isOperandTok (tk : Tok) : Bool := tk.t == .ident || tk.t == .keyword

abbrev PR (α : Type) := Option (α × List Tok)

mutual
/-- `Identifier`: `(@Ident|@Keyword) ("(" @@ {"," @@} ")")?` -/
def dIdent : Nat → List Tok → PR Ident
  | 0, _ => none
  | _+1, [] => none
  | f+1, tk :: rest =>
    if isOperandTok tk then
      match rest with
      | p :: rest' =>
        if litMatch p LP then
          match dIdent f rest' with
          | some (i1, r1) =>
            (match dIdentTail f r1 with
             | some (is, q :: r3) => if litMatch q RP then some (.mk tk.v (.cons i1 is), r3) else none
             | _ => none)
          | none => none
        else some (.mk tk.v .nil, rest)
      | [] => some (.mk tk.v .nil, [])
    else none
/-- `{"," @@}` -/
def dIdentTail : Nat → List Tok → PR IdentList
  | 0, _ => none
  | _+1, [] => some (.nil, [])
  | f+1, c :: rest =>
    if litMatch c COMMA then
      match dIdent f rest with
      | some (i, r1) => (match dIdentTail f r1 with | some (is, r2) => some (.cons i is, r2) | none => none)
      | none => none
    else some (.nil, c :: rest)
end

/-- `Condition`: `@@ (@(op…)) (@String|@Ident|@Number)` -/
def dCond (f : Nat) (toks : List Tok) : PR Cond :=
  match dIdent f toks with
  | some (i, o :: v :: rest) => if isOpTok o && isValueTok v then some (⟨i, o.v, v.v⟩, rest) else none
  | _ => none

mutual
/-- `Expression`: `@@ { "OR" @@ }` -/
def dExpr : Nat → List Tok → PR Expr
  | 0, _ => none
  | f+1, toks =>
    match dOr f toks with
    | some (o, r) => (match dOrTail f r with | some (os, r2) => some (.mk (.cons o os), r2) | none => none)
    | none => none
def dOrTail : Nat → List Tok → PR OrList
  | 0, _ => none
  | _+1, [] => some (.nil, [])
  | f+1, t :: r =>
    if litMatch t kwOR then
      match dOr f r with
      | some (o, r1) => (match dOrTail f r1 with | some (os, r2) => some (.cons o os, r2) | none => none)
      | none => none
    else some (.nil, t :: r)
/-- `OrCondition`: `@@ { "AND" @@ }` -/
def dOr : Nat → List Tok → PR OrCond
  | 0, _ => none
  | f+1, toks =>
    match dX f toks with
    | some (x, r) => (match dAndTail f r with | some (xs, r2) => some (.mk (.cons x xs), r2) | none => none)
    | none => none
def dAndTail : Nat → List Tok → PR XList
  | 0, _ => none
  | _+1, [] => some (.nil, [])
  | f+1, t :: r =>
    if litMatch t kwAND then
      match dX f r with
      | some (x, r1) => (match dAndTail f r1 with | some (xs, r2) => some (.cons x xs, r2) | none => none)
      | none => none
    else some (.nil, t :: r)
/-- `XCondition`: `[@"NOT"] ( @@ | "(" @@ ")" )` -/
def dX : Nat → List Tok → PR XCond
  | 0, _ => none
  | _+1, [] => none
  | f+1, t :: r =>
    if litMatch t kwNOT then dXBody f true r else dXBody f false (t :: r)
def dXBody : Nat → Bool → List Tok → PR XCond
  | 0, _, _ => none
  | _+1, _, [] => none
  | f+1, neg, t :: r =>
    if isOperandTok t then
      match dCond f (t :: r) with
      | some (c, r') => some (.cond neg c, r')
      | none => none
    else if litMatch t LP then
      match dExpr f r with
      | some (e, q :: r2) => if litMatch q RP then some (.paren neg e, r2) else none
      | _ => none
    else none
end

/-- `Source`: `@Tags | @@` (the Tags capture goes through `tag.Parse`) -/
def dSource (f : Nat) : List Tok → PR Source
  | [] => none
  | t :: r =>
    if t.t == .tags then (KV.tagParse t.v).map (fun m => (.tags m, r))
    else (dExpr f (t :: r)).map (fun (e, r') => (.expr e, r'))

def directFuel (toks : List Tok) : Nat := 4 * toks.length + 16

/-- `lql.ParseExpr` on tokens: the root must match and no token may remain -/
def directExpr (toks : List Tok) : Option Expr :=
  match dExpr (directFuel toks) toks with
  | some (e, []) => some e
  | _ => none

/-- `lql.ParseSource` on tokens -/
def directSource (toks : List Tok) : Option Source :=
  match dSource (directFuel toks) toks with
  | some (s, []) => some s
  | _ => none

/-! ## tokensOf -/

def symOps : List Bytes := [[60], [62], [62, 61], [60, 61], [33, 61], [61]]
def operandTok (v : Bytes) : Tok := ⟨if isKeyword v then .keyword else .ident, v⟩
def opTok (op : Bytes) : Tok := ⟨if symOps.contains op then .operator else .keyword, op⟩
def tLP : Tok := ⟨.operator, LP⟩
def tRP : Tok := ⟨.operator, RP⟩
def tCOMMA : Tok := ⟨.operator, COMMA⟩
def tNOT : Tok := ⟨.keyword, kwNOT⟩
def tAND : Tok := ⟨.keyword, kwAND⟩
def tOR : Tok := ⟨.keyword, kwOR⟩

mutual
def toksIdent : Ident → List Tok
  | .mk op .nil => [operandTok op]
  | .mk op (.cons h t) => operandTok op :: tLP :: (toksIdent h ++ (toksIdentsTail t ++ [tRP]))
def toksIdentsTail : IdentList → List Tok
  | .nil => []
  | .cons h t => tCOMMA :: (toksIdent h ++ toksIdentsTail t)
end

def toksCond (c : Cond) : List Tok := toksIdent c.ident ++ [opTok c.op, ⟨.string, c.value⟩]

mutual
def toksExpr : Expr → List Tok
  | .mk .nil => []
  | .mk (.cons h t) => toksOr h ++ toksOrsTail t
def toksOrsTail : OrList → List Tok
  | .nil => []
  | .cons h t => tOR :: (toksOr h ++ toksOrsTail t)
def toksOr : OrCond → List Tok
  | .mk .nil => []
  | .mk (.cons h t) => toksX h ++ toksXsTail t
def toksXsTail : XList → List Tok
  | .nil => []
  | .cons h t => tAND :: (toksX h ++ toksXsTail t)
def toksX : XCond → List Tok
  | .cond neg c => (if neg then [tNOT] else []) ++ toksCond c
  | .paren neg e => (if neg then [tNOT] else []) ++ (tLP :: (toksExpr e ++ [tRP]))
end

def toksSource : Source → List Tok
  | .tags m => [⟨.tags, KV.LB :: (KV.line m ++ [KV.RB])⟩]
  | .expr e => toksExpr e


/-! ## the TRUNCATE statement as a direct parser, and its tokens

`Lql`: `"TRUNCATE" (@@)?`, `Truncate`: `(@"DRYRUN")? (@@)? ("MINSIZE" @Number)? ("MAXSIZE" @Number)? ("BEFORE" @String)?
("MAXDBSIZE" @Number)?`. The unguarded `(@@)?` source is tried first; when it does not match, parsing goes on with the
clauses (in the engine a failing source attempt that consumed at most one token is swallowed, a deeper one is a hard
error — in both cases the direct parser rejects exactly when the engine does; compared on every run). -/

def kwTRUNCATE : Bytes := [84, 82, 85, 78, 67, 65, 84, 69]
def kwDRYRUN : Bytes := [68, 82, 89, 82, 85, 78]
def kwMINSIZE : Bytes := [77, 73, 78, 83, 73, 90, 69]
def kwMAXSIZE : Bytes := [77, 65, 88, 83, 73, 90, 69]
def kwBEFORE : Bytes := [66, 69, 70, 79, 82, 69]
def kwMAXDBSIZE : Bytes := [77, 65, 88, 68, 66, 83, 73, 90, 69]
def tKw (k : Bytes) : Tok := ⟨.keyword, k⟩

/-- `("KW" @Number)?` into a `*Size` (capture through `humanize.ParseBytes`); `none` = the parse fails -/
def dSizeClause (kw : Bytes) : List Tok → Option (Option Nat × List Tok)
  | [] => some (none, [])
  | t :: rest =>
    if litMatch t kw then
      match rest with
      | n :: rest' => if n.t == .number then (parseBytes n.v).map (fun v => (some v, rest')) else none
      | [] => none
    else some (none, t :: rest)

/-- `("BEFORE" @String)?` into a `*DateTime` (capture through the opaque date parser `dp`) -/
def dDateClause (dp : Bytes → Option Int) (kw : Bytes) : List Tok → Option (Option Int × List Tok)
  | [] => some (none, [])
  | t :: rest =>
    if litMatch t kw then
      match rest with
      | n :: rest' => if n.t == .string then (dp n.v).map (fun v => (some v, rest')) else none
      | [] => none
    else some (none, t :: rest)

/-- the unguarded `(@@)?` source of `Truncate` -/
def dOptSource (f : Nat) : List Tok → Option (Option Source × List Tok)
  | [] => some (none, [])
  | t :: r =>
    if t.t == .tags then (KV.tagParse t.v).map (fun m => (some (.tags m), r))
    else match dExpr f (t :: r) with
      | some (e, r') => some (some (.expr e), r')
      | none => some (none, t :: r)

def dDryRun : List Tok → Bool × List Tok
  | [] => (false, [])
  | t :: r => if litMatch t kwDRYRUN then (true, r) else (false, t :: r)

/-- the `Truncate` struct on tokens; every token must be consumed -/
def dTruncBody (dp : Bytes → Option Int) (f : Nat) (toks : List Tok) : Option Truncate :=
  match dOptSource f (dDryRun toks).2 with
  | none => none
  | some (src, t2) =>
    match dSizeClause kwMINSIZE t2 with
    | none => none
    | some (mn, t3) =>
      match dSizeClause kwMAXSIZE t3 with
      | none => none
      | some (mx, t4) =>
        match dDateClause dp kwBEFORE t4 with
        | none => none
        | some (bf, t5) =>
          match dSizeClause kwMAXDBSIZE t5 with
          | some (db, []) => some { dryRun := (dDryRun toks).1, source := src, minSize := mn, maxSize := mx, before := bf, maxDbSize := db }
          | _ => none

/-- `lql.ParseLql` on the tokens of a TRUNCATE statement -/
def directTruncateFuel (dp : Bytes → Option Int) (f : Nat) : List Tok → Option Truncate
  | [] => none
  | t :: r => if litMatch t kwTRUNCATE then dTruncBody dp f r else none

def directTruncate (dp : Bytes → Option Int) (toks : List Tok) : Option Truncate :=
  directTruncateFuel dp (directFuel toks) toks

def sizeToks (kw : Bytes) : Option Nat → List Tok
  | none => []
  | some n => [tKw kw, ⟨.number, decNat n⟩]

def beforeToks (rd : Int → Bytes) : Option Int → List Tok
  | none => []
  | some v => [tKw kwBEFORE, ⟨.string, rd v⟩]

/-- the clauses after the source, as `Truncate.makeString` prints them now -/
def clauseToks (rd : Int → Bytes) (t : Truncate) : List Tok :=
  sizeToks kwMINSIZE t.minSize ++ (sizeToks kwMAXSIZE t.maxSize ++ (beforeToks rd t.before ++ sizeToks kwMAXDBSIZE t.maxDbSize))

def optSourceToks : Option Source → List Tok
  | none => []
  | some s => toksSource s

def toksTruncate (rd : Int → Bytes) (t : Truncate) : List Tok :=
  tKw kwTRUNCATE :: ((if t.dryRun then [tKw kwDRYRUN] else []) ++ (optSourceToks t.source ++ clauseToks rd t))

end Logrange.Lql
