import Logrange.Model.LqlEngine
/-!
# Typed LQL AST (the Go structs of pkg/lql/parser.go) and the typed application of captures

`setField`/`conform` of participle: `*int64`/`*int` through `strconv.ParseInt(s, 0, 64)`, `bool` = true when
captured, strings concatenate, `Size`/`TagsVal`/`DateTime` through their `Capture` hooks (`humanize.ParseBytes`,
`tag.Parse`, `parseLqlDateTime`). The date parser is **opaque** here (property C20): it is the parameter
`dp : Bytes → Option Int` (unix nanoseconds), supplied by the harness from the real function.
A failing conversion fails the parse (checked against the real parser by the harness on every run).
Pointers are `Option`, `[]*T` are the explicit list types below (mutual inductives without nesting, so that
structural recursion and induction are direct).
-/
namespace Logrange.Lql

mutual
inductive Ident
  | mk (operand : Bytes) (params : IdentList)
inductive IdentList
  | nil
  | cons (h : Ident) (t : IdentList)
end

structure Cond where
  ident : Ident
  op : Bytes
  value : Bytes

mutual
inductive Expr
  | mk (ors : OrList)
inductive OrList
  | nil
  | cons (h : OrCond) (t : OrList)
inductive OrCond
  | mk (ands : XList)
inductive XList
  | nil
  | cons (h : XCond) (t : XList)
/-- `XCondition`: in the parser's image exactly one of `Cond` / `Expr` is set -/
inductive XCond
  | cond (neg : Bool) (c : Cond)
  | paren (neg : Bool) (e : Expr)
end

abbrev TagMap := List (Bytes × Bytes)

inductive Source
  | tags (m : TagMap)
  | expr (e : Expr)

structure Range where
  p1 : Option Int
  p2 : Option Int

structure Select where
  format : Option Bytes := none
  source : Option Source := none
  range : Option Range := none
  where_ : Option Expr := none
  position : Option Bytes := none
  offset : Option Int := none
  limit : Option Int := none

structure Describe where
  partition : Option TagMap := none
  pipe : Option Bytes := none

structure Partitions where
  source : Option Source := none
  offset : Option Int := none
  limit : Option Int := none

structure Pipes where
  void : Option Source := none
  offset : Option Int := none
  limit : Option Int := none

structure ShowS where
  partitions : Option Partitions := none
  pipes : Option Pipes := none

structure Truncate where
  dryRun : Bool := false
  source : Option Source := none
  minSize : Option Nat := none
  maxSize : Option Nat := none
  before : Option Int := none
  maxDbSize : Option Nat := none

structure Pipe where
  name : Bytes
  from_ : Option Source := none
  where_ : Option Expr := none

structure Create where
  pipe : Option Pipe := none

structure Delete where
  pipeName : Option Bytes := none

structure Lql where
  select : Option Select := none
  describe : Option Describe := none
  truncate : Option Truncate := none
  show_ : Option ShowS := none
  create : Option Create := none
  delete : Option Delete := none

/-! ## scalar conversions -/

def digitsVal (b : Bytes) : Option Nat :=
  if b.isEmpty then none else b.foldlM (fun a c => if isDigit c then some (a * 10 + (c.toNat - 48)) else none) 0

/-- `strconv.ParseInt(s, 0, 64)` for the texts a Number token can have: sign, decimal or leading-0 octal; anything
else (fraction, exponent, unit suffix, `08`) fails; out of int64 range fails -/
def parseInt0 (b : Bytes) : Option Int :=
  let (neg, r) := match b with | c :: r => if c == 45 then (true, r) else if c == 43 then (false, r) else (false, b) | [] => (false, b)
  if r.isEmpty then none else
  let v? : Option Nat :=
    match r with
    | c :: rest => if c == 48 && !rest.isEmpty then
        rest.foldlM (fun a d => if 48 ≤ d.toNat && d.toNat ≤ 55 then some (a * 8 + (d.toNat - 48)) else none) 0
      else digitsVal r
    | [] => none
  match v? with
  | none => none
  | some v => let i : Int := if neg then -(v : Int) else v; if i < -(2^63) ∨ i ≥ 2^63 then none else some i

def unitOf (s : Bytes) : Option Nat :=
  let u := String.ofList (s.map (fun c => Char.ofNat (lower c).toNat))
  match u with
  | "" | "b" => some 1 | "kib" | "ki" => some 1024 | "kb" | "k" => some 1000
  | "mib" | "mi" => some (1024^2) | "mb" | "m" => some (1000^2) | "gib" | "gi" => some (1024^3) | "gb" | "g" => some (1000^3)
  | "tib" | "ti" => some (1024^4) | "tb" | "t" => some (1000^4) | "pib" | "pi" => some (1024^5) | "pb" | "p" => some (1000^5)
  | "eib" | "ei" => some (1024^6) | "eb" | "e" => some (1000^6) | _ => none

/-- number of binary digits -/
def bitLen (n : Nat) : Nat := if n == 0 then 0 else n.log2 + 1

/-- IEEE-754 binary64 round-to-nearest-even of the positive rational `num/den` (normal range only), as a rational
`(m, e)` meaning `m * 2^e` with `e : Int` -/
def roundDouble (num den : Nat) : Nat × Int :=
  if num == 0 then (0, 0) else
  -- scale so that the quotient has 53 or 54 bits, then fix up
  let sh : Int := (bitLen den : Int) + 54 - (bitLen num : Int)     -- q = num * 2^sh / den has 53..55 bits
  let (n2, d2) := if sh ≥ 0 then (num * 2 ^ sh.toNat, den) else (num, den * 2 ^ (-sh).toNat)
  let q := n2 / d2
  let extra := bitLen q - 53          -- bits to drop (≥ 0)
  let unit := 2 ^ extra
  let m0 := q / unit
  -- remainder relative to half a unit, exactly: compare (n2 - m0*unit*d2) * 2 with unit*d2
  let remN := n2 - m0 * unit * d2
  let halfCmp := compare (remN * 2) (unit * d2)
  let m1 := match halfCmp with
    | .lt => m0
    | .gt => m0 + 1
    | .eq => if m0 % 2 == 0 then m0 else m0 + 1
  (m1, (extra : Int) - sh)

/-- `humanize.ParseBytes` on a Number token's text: decimal prefix through `strconv.ParseFloat`, unit from the
table, product in float64, `>= MaxUint64` (as float64 = 2^64) rejected, truncated to uint64 -/
def parseBytes (b : Bytes) : Option Nat :=
  let numPart := b.takeWhile (fun c => isDigit c || c == 46 || c == 44)
  let extra := b.drop numPart.length
  let num := numPart.filter (· != 44)
  let ip := num.takeWhile (· != 46)
  let fp := num.drop ip.length
  if fp.length > 0 && (fp.drop 1).any (· == 46) then none else
  let fdig := fp.drop 1
  if ip.isEmpty && fdig.isEmpty then none else
  match (if ip.isEmpty then some 0 else digitsVal ip), (if fdig.isEmpty then some 0 else digitsVal fdig) with
  | some i, some f =>
    match unitOf ((extra.dropWhile isSpace).reverse.dropWhile isSpace).reverse with
    | none => none
    | some u =>
      let den := 10 ^ fdig.length
      let (m, e) := roundDouble (i * den + f) den           -- ParseFloat
      -- f * float64(u): exact product then rounded again
      let (pn, pd) : Nat × Nat := if e ≥ 0 then (m * 2 ^ e.toNat * u, 1) else (m * u, 2 ^ (-e).toNat)
      let (m2, e2) := roundDouble pn pd
      let (vn, vd) : Nat × Nat := if e2 ≥ 0 then (m2 * 2 ^ e2.toNat, 1) else (m2, 2 ^ (-e2).toNat)
      if vn ≥ 2 ^ 64 * vd then none else some (vn / vd)
  | _, _ => none

/-! ## Val → typed AST -/

def fieldVals (fs : Caps) (f : String) : List Val := (fs.filter (·.1 == f)).flatMap (·.2)
def strs (vs : List Val) : Bytes := vs.flatMap (fun v => match v with | .str b => b | .node _ _ => [])
def fv (v : Val) (f : String) : List Val := match v with | .node _ fs => fieldVals fs f | .str _ => []

/-- optional scalar field through a conversion; `none` = conversion failed, `some none` = absent -/
def optConv {α} (v : Val) (f : String) (conv : Bytes → Option α) : Option (Option α) :=
  match fv v f with
  | [] => some none
  | vs => (conv (strs vs)).map some

def optStr (v : Val) (f : String) : Option Bytes := match fv v f with | [] => none | vs => some (strs vs)

mutual
def toIdent : Nat → Val → Option Ident
  | 0, _ => none
  | fuel+1, v => do
    let ps ← toIdents fuel (fv v "Params")
    pure (.mk (strs (fv v "Operand")) ps)
def toIdents : Nat → List Val → Option IdentList
  | 0, _ => none
  | _, [] => some .nil
  | fuel+1, v :: vs => do
    let i ← toIdent fuel v
    let r ← toIdents fuel vs
    pure (.cons i r)
end

def toCond (fuel : Nat) (v : Val) : Option Cond := do
  let i ← match fv v "Ident" with | [x] => toIdent fuel x | _ => none
  pure ⟨i, strs (fv v "Op"), strs (fv v "Value")⟩

mutual
def toExpr : Nat → Val → Option Expr
  | 0, _ => none
  | fuel+1, v => do pure (.mk (← toOrs fuel (fv v "Or")))
def toOrs : Nat → List Val → Option OrList
  | 0, _ => none
  | _, [] => some .nil
  | fuel+1, v :: vs => do
    let xs ← toXs fuel (fv v "And")
    let r ← toOrs fuel vs
    pure (.cons (.mk xs) r)
def toXs : Nat → List Val → Option XList
  | 0, _ => none
  | _, [] => some .nil
  | fuel+1, v :: vs => do
    let x ← toX fuel v
    let r ← toXs fuel vs
    pure (.cons x r)
def toX : Nat → Val → Option XCond
  | 0, _ => none
  | fuel+1, v =>
    let neg := !(fv v "Not").isEmpty
    match fv v "Expr", fv v "Cond" with
    | [e], [] => (toExpr fuel e).map (.paren neg)
    | [], [c] => (toCond fuel c).map (.cond neg)
    | _, _ => none
end

def toSource (fuel : Nat) (v : Val) : Option Source :=
  match fv v "Tags" with
  | [] => (match fv v "Expr" with | [e] => (toExpr fuel e).map .expr | _ => none)
  | ts => (KV.tagParse (strs ts)).map .tags

def optSource (fuel : Nat) (v : Val) (f : String) : Option (Option Source) :=
  match fv v f with
  | [] => some none
  | [s] => (toSource fuel s).map some
  | _ => none

def optExpr (fuel : Nat) (v : Val) (f : String) : Option (Option Expr) :=
  match fv v f with
  | [] => some none
  | [s] => (toExpr fuel s).map some
  | _ => none

def optNode {α} (v : Val) (f : String) (conv : Val → Option α) : Option (Option α) :=
  match fv v f with
  | [] => some none
  | [s] => (conv s).map some
  | _ => none

/-- typed application of all captures of a parsed statement -/
def toLql (dp : Bytes → Option Int) (fuel : Nat) (v : Val) : Option Lql := do
  let sel ← optNode v "Select" (fun s => do
    let src ← optSource fuel s "Source"
    let rng ← optNode s "Range" (fun r => do
      let p1 ← optConv r "TmPoint1" dp
      let p2 ← optConv r "TmPoint2" dp
      pure (⟨p1, p2⟩ : Range))
    let wh ← optExpr fuel s "Where"
    let pos ← optNode s "Position" (fun p => some (strs (fv p "PosId")))
    let off ← optConv s "Offset" parseInt0
    let lim ← optConv s "Limit" parseInt0
    pure ({ format := optStr s "Format", source := src, range := rng, where_ := wh, position := pos, offset := off, limit := lim } : Select))
  let desc ← optNode v "Describe" (fun d => do
    let p ← optConv d "Partition" KV.tagParse
    pure ({ partition := p, pipe := optStr d "Pipe" } : Describe))
  let tr ← optNode v "Truncate" (fun t => do
    let src ← optSource fuel t "Source"
    let mn ← optConv t "MinSize" parseBytes
    let mx ← optConv t "MaxSize" parseBytes
    let bf ← optConv t "Before" dp
    let db ← optConv t "MaxDbSize" parseBytes
    pure ({ dryRun := !(fv t "DryRun").isEmpty, source := src, minSize := mn, maxSize := mx, before := bf, maxDbSize := db } : Truncate))
  let sh ← optNode v "Show" (fun s => do
    let pa ← optNode s "Partitions" (fun p => do
      let src ← optSource fuel p "Source"
      let off ← optConv p "Offset" parseInt0
      let lim ← optConv p "Limit" parseInt0
      pure ({ source := src, offset := off, limit := lim } : Partitions))
    let pi ← optNode s "Pipes" (fun p => do
      let src ← optSource fuel p "Void"
      let off ← optConv p "Offset" parseInt0
      let lim ← optConv p "Limit" parseInt0
      pure ({ void := src, offset := off, limit := lim } : Pipes))
    pure ({ partitions := pa, pipes := pi } : ShowS))
  let cr ← optNode v "Create" (fun c => do
    let p ← optNode c "Pipe" (fun p => do
      let fr ← optSource fuel p "From"
      let wh ← optExpr fuel p "Where"
      pure ({ name := strs (fv p "Name"), from_ := fr, where_ := wh } : Pipe))
    pure ({ pipe := p } : Create))
  let de ← optNode v "Delete" (fun d => some ({ pipeName := optStr d "PipeName" } : Delete))
  pure { select := sel, describe := desc, truncate := tr, show_ := sh, create := cr, delete := de }

/-- a SELECT whose `Range` has neither time point (`RANGE [`: every part of the Range grammar is optional) -/
def hasEmptyRange (l : Lql) : Bool :=
  match l.select with
  | some s => (match s.range with | some r => r.p1.isNone && r.p2.isNone | none => false)
  | none => false

/-- the post-check of `ParseLql` after the participle parse (2681434), as the extractor finds it in /repo now -/
def postCheck (l : Lql) : Option Lql :=
  if Logrange.Generated.C12.parseLqlRejectsEmptyRange && hasEmptyRange l then none else some l

/-- `lql.ParseLql` after lexing: typed application of the captures, then the post-check -/
def toLqlChecked (dp : Bytes → Option Int) (fuel : Nat) (v : Val) : Option Lql := (toLql dp fuel v).bind postCheck

/-! ## canonical serialisation (compared with the Go harness' reflection-based serialisation of the real AST) -/

def hexS (b : Bytes) : String := Go.hex b
def fld (name : String) (body : String) : String := " " ++ name ++ "=[" ++ body ++ "]"
def oFld {α} (name : String) (o : Option α) (f : α → String) : String := match o with | none => "" | some a => fld name (f a)
def sStr (b : Bytes) : String := "s:" ++ hexS b

mutual
def canonIdent : Ident → String
  | .mk op ps => "(Identifier" ++ fld "Operand" (sStr op) ++ (match ps with | .nil => "" | _ => fld "Params" (canonIdents ps)) ++ ")"
def canonIdents : IdentList → String
  | .nil => ""
  | .cons h .nil => canonIdent h
  | .cons h t => canonIdent h ++ " " ++ canonIdents t
end

def canonCond (c : Cond) : String :=
  "(Condition" ++ fld "Ident" (canonIdent c.ident) ++ fld "Op" (sStr c.op) ++ fld "Value" (sStr c.value) ++ ")"

mutual
def canonExpr : Expr → String
  | .mk ors => "(Expression" ++ (match ors with | .nil => "" | _ => fld "Or" (canonOrs ors)) ++ ")"
def canonOrs : OrList → String
  | .nil => ""
  | .cons h .nil => canonOr h
  | .cons h t => canonOr h ++ " " ++ canonOrs t
def canonOr : OrCond → String
  | .mk xs => "(OrCondition" ++ (match xs with | .nil => "" | _ => fld "And" (canonXs xs)) ++ ")"
def canonXs : XList → String
  | .nil => ""
  | .cons h .nil => canonX h
  | .cons h t => canonX h ++ " " ++ canonXs t
def canonX : XCond → String
  | .cond neg c => "(XCondition" ++ (if neg then fld "Not" "1" else "") ++ fld "Cond" (canonCond c) ++ ")"
  | .paren neg e => "(XCondition" ++ (if neg then fld "Not" "1" else "") ++ fld "Expr" (canonExpr e) ++ ")"
end

def canonTags (m : TagMap) : String := "t:" ++ hexS (KV.line m)

def canonSource : Source → String
  | .tags m => "(Source" ++ fld "Tags" (canonTags m) ++ ")"
  | .expr e => "(Source" ++ fld "Expr" (canonExpr e) ++ ")"

def canonInt (i : Int) : String := toString i
def canonNat (n : Nat) : String := toString n
def canonDt (i : Int) : String := "dt:" ++ toString i

def canonLql (l : Lql) : String :=
  "(Lql"
  ++ oFld "Select" l.select (fun s => "(Select" ++ oFld "Format" s.format sStr ++ oFld "Source" s.source canonSource
      ++ oFld "Range" s.range (fun r => "(Range" ++ oFld "TmPoint1" r.p1 canonDt ++ oFld "TmPoint2" r.p2 canonDt ++ ")")
      ++ oFld "Where" s.where_ canonExpr ++ oFld "Position" s.position (fun p => "(Position" ++ fld "PosId" (sStr p) ++ ")")
      ++ oFld "Offset" s.offset canonInt ++ oFld "Limit" s.limit canonInt ++ ")")
  ++ oFld "Describe" l.describe (fun d => "(Describe" ++ oFld "Partition" d.partition canonTags ++ oFld "Pipe" d.pipe sStr ++ ")")
  ++ oFld "Truncate" l.truncate (fun t => "(Truncate" ++ (if t.dryRun then fld "DryRun" "1" else "") ++ oFld "Source" t.source canonSource
      ++ oFld "MinSize" t.minSize canonNat ++ oFld "MaxSize" t.maxSize canonNat ++ oFld "Before" t.before canonDt
      ++ oFld "MaxDbSize" t.maxDbSize canonNat ++ ")")
  ++ oFld "Show" l.show_ (fun s => "(Show"
      ++ oFld "Partitions" s.partitions (fun p => "(Partitions" ++ oFld "Source" p.source canonSource ++ oFld "Offset" p.offset canonInt ++ oFld "Limit" p.limit canonInt ++ ")")
      ++ oFld "Pipes" s.pipes (fun p => "(Pipes" ++ oFld "Void" p.void canonSource ++ oFld "Offset" p.offset canonInt ++ oFld "Limit" p.limit canonInt ++ ")")
      ++ ")")
  ++ oFld "Create" l.create (fun c => "(Create" ++ oFld "Pipe" c.pipe (fun p => "(Pipe" ++ fld "Name" (sStr p.name) ++ oFld "From" p.from_ canonSource ++ oFld "Where" p.where_ canonExpr ++ ")") ++ ")")
  ++ oFld "Delete" l.delete (fun d => "(Delete" ++ oFld "PipeName" d.pipeName sStr ++ ")")
  ++ ")"

end Logrange.Lql
