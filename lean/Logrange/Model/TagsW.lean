import Logrange.Model.Tags
/-!
# Tag sets: the position-aware class `safeW` and the write-time guard `reparses` (round 2)
-/
namespace Logrange.Tags
open Go Logrange.Quote Logrange.KV

/-! ## The position-aware class `safeW` (round 2: how tight is `safe`?)

`safe` asks of *every* name that it does not start with `{` and of *every* raw value that it does not end with `}`;
`RemoveCurlyBraces` only ever looks at the two ends of the whole line, i.e. at the FIRST name and the LAST value.
`safeW` asks exactly that (`safe m → safeW m`, and `safeW` is strictly larger on sets of two or more pairs). On
one-pair sets the two classes coincide and are exactly the sets whose line re-parses to the same set
(`Props.C08.singleton_roundtrip_iff_safe`). -/

def okKey (k : Bytes) : Bool := !k.isEmpty && trimmed k && inert k

def okRaw (v : Bytes) : Bool := !v.isEmpty && trimmed v && inert v && v.head? != some DQ && v.head? != some BQ

def okPair (p : Bytes × Bytes) : Bool := okKey p.1 && (needsQuote p.2 || okRaw p.2)

/-- the first name does not start with `{` -/
def firstOK (m : Map) : Bool := match m.head? with
  | some p => p.1.head? != some LB
  | none => true

/-- the last value, when printed raw, does not end with `}` -/
def lastOK (m : Map) : Bool := match m.getLast? with
  | some p => needsQuote p.2 || p.2.getLast? != some RB
  | none => true

def safeW (m : Map) : Bool := m.all okPair && firstOK m && lastOK m

/-- the guard of the proposed write-time repair F08r (`tag.Set.Reparses`): the canonical line of the set is accepted
by the parser and denotes the same set -/
def reparses (m : Map) : Bool := parse (line m) == some m

end Logrange.Tags
