import Logrange.Model.Outcome
import Logrange.Generated.C13
/-!
# `utils.EscapeJsonStr` (pkg/utils/json.go) and `utf8.DecodeRuneInString` (C13)

`decodeRune` follows the standard library's table-driven decoder (first-byte classes, accept ranges of the second
byte, `(RuneError, 1)` for every malformed or truncated sequence, `(RuneError, 0)` for the empty string).

`loop` is the `for i := 0; i < len(s); { … }` loop of `EscapeJsonStr` with its three variables `i`, `start` and the
output buffer; the slices `s[start:i]` and `s[start:]` are checked. The loop has no structural measure in the code
(the index is advanced by different amounts in different branches), so the model takes **fuel**; the termination
theorem gives the bound `|s| + 1`.

The parameter `skipsValid` is the regenerated fact `Generated.C13.escapeJsonSkipsValidRunes`: the rune test is
`c != utf8.RuneError || size != 1` (commit d161ff4). With `false` the model is the code before that commit, where
a well-formed U+FFFD (`EF BF BD`, decoded as `(RuneError, 3)`) took neither branch and the index never advanced.
-/
namespace Logrange.EscapeJson
open Go Logrange

def runeError : Nat := 65533

/-- size of the sequence announced by a first byte in 0xC2–0xF4 (`first[s0] & 7`) -/
def seqSize (c : Nat) : Nat := if c < 224 then 2 else if c < 240 then 3 else 4
/-- accept range of the second byte (`acceptRanges[first[s0] >> 4]`) -/
def loBound (c : Nat) : Nat := if c = 224 then 160 else if c = 240 then 144 else 128
def hiBound (c : Nat) : Nat := if c = 237 then 159 else if c = 244 then 143 else 191

/-- `utf8.DecodeRuneInString`: (rune, size) -/
def decodeRune (s : Bytes) : Nat × Nat :=
  match s with
  | [] => (runeError, 0)
  | s0 :: r =>
    if s0.toNat < 128 then (s0.toNat, 1)
    else if s0.toNat < 194 ∨ 244 < s0.toNat then (runeError, 1)          -- 0x80–0xC1, 0xF5–0xFF: class xx
    else if r.length + 1 < seqSize s0.toNat then (runeError, 1)
    else match r with
      | [] => (runeError, 1)
      | s1 :: r1 =>
        if s1.toNat < loBound s0.toNat ∨ hiBound s0.toNat < s1.toNat then (runeError, 1)
        else if seqSize s0.toNat ≤ 2 then ((s0.toNat % 32) * 64 + s1.toNat % 64, 2)
        else match r1 with
          | [] => (runeError, 1)
          | s2 :: r2 =>
            if s2.toNat < 128 ∨ 191 < s2.toNat then (runeError, 1)
            else if seqSize s0.toNat ≤ 3 then ((s0.toNat % 16) * 4096 + (s1.toNat % 64) * 64 + s2.toNat % 64, 3)
            else match r2 with
              | [] => (runeError, 1)
              | s3 :: _ =>
                if s3.toNat < 128 ∨ 191 < s3.toNat then (runeError, 1)
                else ((s0.toNat % 8) * 262144 + (s1.toNat % 64) * 4096 + (s2.toNat % 64) * 64 + s3.toNat % 64, 4)

def hexChar (n : Nat) : UInt8 := if n < 10 then UInt8.ofNat (48 + n) else UInt8.ofNat (87 + n)

/-- what is written after the backslash for a byte below 0x80 that needs escaping -/
def escapeByte (b : Nat) : Bytes :=
  if b = 92 ∨ b = 34 then [UInt8.ofNat b]
  else if b = 10 then [110]
  else if b = 13 then [114]
  else if b = 9 then [116]
  else [117, 48, 48, hexChar (b / 16), hexChar (b % 16)]

/-- `if start < i { e.WriteString(s[start:i]) }` -/
def flush (s : Bytes) (start i : Nat) (e : Bytes) : Outcome Bytes :=
  if start < i then (Go.slice s start i).bind fun x => .ok (e ++ x) else .ok e

def loop (skipsValid : Bool) (s : Bytes) : Nat → Nat → Nat → Bytes → Outcome Bytes
  | 0, _, _, _ => .outOfFuel
  | fuel + 1, i, start, e =>
    if i < s.length then
      (Go.index s i).bind fun bb =>
        let b := bb.toNat
        if b < 128 then
          if 32 ≤ b ∧ b ≠ 34 ∧ b ≠ 92 then loop skipsValid s fuel (i + 1) start e
          else
            (flush s start i e).bind fun e =>
              loop skipsValid s fuel (i + 1) (i + 1) (e ++ [92] ++ escapeByte b)
        else
          (Go.sliceFrom s i).bind fun rest =>
            let cs := decodeRune rest
            if cs.1 ≠ runeError ∨ (skipsValid = true ∧ cs.2 ≠ 1) then loop skipsValid s fuel (i + cs.2) start e
            else if skipsValid = false ∧ cs.2 ≠ 1 then loop skipsValid s fuel i start e   -- before d161ff4
            else
              (flush s start i e).bind fun e =>
                loop skipsValid s fuel (i + cs.2) (i + cs.2) (e ++ [92, 117, 102, 102, 102, 100])
    else
      (if start < s.length then (Go.sliceFrom s start).bind fun x => .ok (e ++ x) else .ok e).bind fun e =>
        .ok (e ++ [34])

/-- `EscapeJsonStr(s)` with the fuel that always suffices for the current code -/
def escapeJson (skipsValid : Bool) (s : Bytes) : Outcome Bytes := loop skipsValid s (s.length + 1) 0 0 [34]

end Logrange.EscapeJson
