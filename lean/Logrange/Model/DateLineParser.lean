import Logrange.Model.DateParser
/-!
# `lineParser.parse` (pkg/scanner/parser/line_parser.go): the remembered format and the fail/skip counters

Plain state, in the shape of the Go code: try the remembered format first (fast path); otherwise, in state `parsing`
ask the full parser (a detected format is remembered, a failure forgets it and counts; `maxFail` failures switch to
`skipping`), in state `skipping` only count (after `maxSkip` lines back to `parsing`, the skip length doubling below
`skipCap`). A line no format dated carries `lastDate` (`calcDate`). Where the counter is reset and where `lastDate` is
set are switches read from the source by the extractor.
-/
namespace Logrange.Date

structure LPCfg where
  maxFail : Nat := 10
  maxSkip0 : Nat := 10
  maxSkipOnDetect : Nat := 10      -- 0 = not set back
  skipCap : Nat := 100
  resetOnFast : Bool := false
  resetOnDetect : Bool := true
  lastOnFast : Bool := false
  lastOnDetect : Bool := true
deriving Repr, DecidableEq

structure LP where
  cur : Option Nat := none         -- index of the remembered format
  last : Option Civil := none      -- lastDate (none = the zero time)
  skipping : Bool := false
  maxSkip : Nat := 10
  cnt : Nat := 0                   -- failSkipCnt
deriving Repr, DecidableEq

def LP.init (cfg : LPCfg) : LP := { maxSkip := cfg.maxSkip0 }

inductive LRec
  | dated (idx : Nat) (c : Civil)   -- the line's own date, found by format `idx`
  | carried (c : Option Civil)      -- `calcDate`: lastDate (none = zero time)
deriving Repr, DecidableEq

/-- what the fast path does when the remembered format parses the line -/
def lpFast (cfg : LPCfg) (lp : LP) (c : Civil) : LP :=
  { lp with cnt := if cfg.resetOnFast then 0 else lp.cnt, last := if cfg.lastOnFast then some c else lp.last }

/-- the `switch lp.state` of `parse`, given the full parser's answer for the line (`none` = no format found) -/
def lpSlow (cfg : LPCfg) (lp : LP) (found : Option (Nat × Civil)) : LP × LRec :=
  if !lp.skipping then
    match found with
    | some (i, c) =>
      let lp' : LP := { lp with cur := some i, last := if cfg.lastOnDetect then some c else lp.last,
                                maxSkip := if cfg.maxSkipOnDetect == 0 then lp.maxSkip else cfg.maxSkipOnDetect,
                                cnt := if cfg.resetOnDetect then 0 else lp.cnt }
      (lp', .dated i c)
    | none =>
      let n := lp.cnt + 1
      let lp' : LP := if n ≥ cfg.maxFail then { lp with cur := none, skipping := true, cnt := 0 }
                      else { lp with cur := none, cnt := n }
      (lp', .carried lp.last)
  else
    let n := lp.cnt + 1
    let lp' : LP := if n ≥ lp.maxSkip then
        { lp with skipping := false, cnt := 0, maxSkip := if lp.maxSkip < cfg.skipCap then lp.maxSkip * 2 else lp.maxSkip }
      else { lp with cnt := n }
    (lp', .carried lp.last)

/-- what the date parsers answer for one line: the remembered format `i` alone, and the full parser (first format wins) -/
structure LineAns where
  fast : Nat → Option Civil
  full : Unit → Option (Nat × Civil)

/-- `lineParser.parse` on the parsers' answers -/
def lpStepA (cfg : LPCfg) (lp : LP) (a : LineAns) : LP × LRec :=
  match lp.cur.bind (fun i => (a.fast i).map (fun c => (i, c))) with
  | some (i, c) => (lpFast cfg lp c, .dated i c)
  | none => lpSlow cfg lp (if lp.skipping then none else a.full ())

/-- the answers of the real parsers for a line (a format outside the modelled subset counts as "does not parse"; the
formats of the default list are all inside it — checked by the `terms` section of the harness) -/
def lineAns (adj : Adjust) (fmts : List CFormat) (now : Now) (buf : Bytes) : LineAns :=
  { fast := fun i => match fmts[i]? with
      | none => none
      | some cf => match formatParse adj cf now buf with | .ok c => some c | _ => none
    full := fun _ => match parseFirst adj fmts now buf with | .ok i c => some (i, c) | _ => none }

/-- `lineParser.parse` -/
def lpStep (cfg : LPCfg) (adj : Adjust) (fmts : List CFormat) (now : Now) (lp : LP) (buf : Bytes) : LP × LRec :=
  lpStepA cfg lp (lineAns adj fmts now buf)

/-- a whole file -/
def lpRun (cfg : LPCfg) : LP → List LineAns → List LRec
  | _, [] => []
  | lp, a :: rest => (lpStepA cfg lp a).2 :: lpRun cfg (lpStepA cfg lp a).1 rest

end Logrange.Date
