import Logrange.Go.Basic
/-!
# date.go — the `terms` table applied to a format string (`dateMap`, `regexpMap`)

Both functions run `strings.Replace(s, term.format, term.{layout,expr}, -1)` **sequentially in table order over the
already rewritten text**, so the output of an earlier replacement can be hit by a later term (this is what damages
the literal `MST` in `DDD MMM _D HH:mm:ss MST YYYY`: `M` → `1` turns it into `1ST`). The table is a parameter; the
driver and the theorems instantiate it with the regenerated `Logrange.Generated.C20.terms`.
-/
namespace Logrange.Date

/-- `strings.HasPrefix` -/
def hasPrefix : Bytes → Bytes → Bool
  | _, [] => true
  | [], _ :: _ => false
  | a :: as, b :: bs => a == b && hasPrefix as bs

/-- `strings.Replace(s, old, new, -1)` for a non-empty `old`, left to right, non-overlapping. -/
def replaceGo (old new : Bytes) : Nat → Bytes → Bytes
  | 0, s => s
  | _ + 1, [] => []
  | fuel + 1, c :: rest =>
    if hasPrefix (c :: rest) old then new ++ replaceGo old new fuel ((c :: rest).drop old.length)
    else c :: replaceGo old new fuel rest

def replaceAll (s old new : Bytes) : Bytes :=
  if old.isEmpty then s else replaceGo old new (s.length + 1) s

abbrev Term := Bytes × Bytes × Bytes

/-- `dateMap`: user format → Go layout -/
def dateMap (terms : List Term) (f : Bytes) : Bytes :=
  terms.foldl (fun l t => replaceAll l t.1 t.2.1) f

/-- `regexpMap`: user format → regular expression text -/
def regexpMap (terms : List Term) (f : Bytes) : Bytes :=
  terms.foldl (fun l t => replaceAll l t.1 t.2.2) f

end Logrange.Date
