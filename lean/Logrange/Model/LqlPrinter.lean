import Logrange.Model.LqlAst
/-!
# The LQL printers: every `makeString` / `String()` of pkg/lql/parser.go, on the typed AST

Same branches, same order, same blanks (incl. the leading blank of `Delete.makeString`, the two blanks before a
SELECT format). The shapes of `Truncate.makeString` that were repaired (unsigned sizes, MAXDBSIZE printed, BEFORE
quoted once) are read from regenerated facts, so the model follows the code if one of them is undone.
`rd : Int → Bytes` is Go's rendering of the instant, `time.Unix(0, v).Format(layout)` with the layout the extractor
reads from `DateTime.String()` (or `time.Time.String()` when no layout is used). It stays an **input**: calendar
arithmetic, `time.Format` and the process' local time zone are not modelled; the harness computes it with the Go
library from the regenerated layout.
-/
namespace Logrange.Lql
open GoLib

def bs (s : String) : Bytes := Go.ofAscii s

def natDigits : Nat → Nat → Bytes → Bytes
  | 0, _, acc => acc
  | fuel+1, n, acc => if n < 10 then UInt8.ofNat (48 + n) :: acc else natDigits fuel (n / 10) (UInt8.ofNat (48 + n % 10) :: acc)

/-- `fmt.Sprintf("%d", n)` for n ≥ 0 -/
def decNat (n : Nat) : Bytes := natDigits (n + 1) n []
/-- `fmt.Sprintf("%d", i)` -/
def decInt (i : Int) : Bytes := if i < 0 then 45 :: decNat i.natAbs else decNat i.toNat

mutual
/-- `Identifier.makeString` (the loop over `Params` writes a comma before every parameter but the first) -/
def printIdent : Ident → Bytes
  | .mk op .nil => op
  | .mk op (.cons h t) => op ++ [40] ++ printIdent h ++ printIdentsTail t ++ [41]
def printIdentsTail : IdentList → Bytes
  | .nil => []
  | .cons h t => [44] ++ printIdent h ++ printIdentsTail t
end

/-- `Condition.makeString` -/
def printCond (c : Cond) : Bytes := [32] ++ printIdent c.ident ++ [32] ++ c.op ++ [32] ++ quote c.value

mutual
/-- `Expression.makeString` (the `next` flag: " OR " before every element but the first) -/
def printExpr : Expr → Bytes
  | .mk .nil => []
  | .mk (.cons h t) => printOr h ++ printOrsTail t
def printOrsTail : OrList → Bytes
  | .nil => []
  | .cons h t => bs " OR " ++ printOr h ++ printOrsTail t
/-- `OrCondition.makeString` -/
def printOr : OrCond → Bytes
  | .mk .nil => []
  | .mk (.cons h t) => printX h ++ printXsTail t
def printXsTail : XList → Bytes
  | .nil => []
  | .cons h t => bs " AND " ++ printX h ++ printXsTail t
/-- `XCondition.makeString` -/
def printX : XCond → Bytes
  | .cond neg c => (if neg then bs " NOT" else []) ++ printCond c
  | .paren neg e => (if neg then bs " NOT" else []) ++ bs " (" ++ printExpr e ++ bs " )"
end

/-- `Source.makeString` -/
def printSource : Source → Bytes
  | .tags m => bs " {" ++ KV.line m ++ [125]
  | .expr e => printExpr e

def printOptSource : Option Source → Bytes
  | none => []
  | some s => printSource s

/-- `addInt64IfNotEmpty` / `addIntIfNotEmpty` -/
def addInt (pfx : String) : Option Int → Bytes
  | none => []
  | some v => [32] ++ bs pfx ++ [32] ++ decInt v

/-- `addStringIfNotEmpty` -/
def addStr (pfx : String) : Option Bytes → Bytes
  | none => []
  | some v => if v.isEmpty then [] else [32] ++ bs pfx ++ [32] ++ quote v

/-- `DateTime.String()` -/
def printDate (rd : Int → Bytes) (v : Int) : Bytes := quote (rd v)

/-- `Range.makeString` -/
def printRange (rd : Int → Bytes) (r : Range) : Bytes :=
  match r.p2 with
  | none => [32] ++ (match r.p1 with | none => [] | some v => printDate rd v)
  | some v2 => bs " [" ++ (match r.p1 with | none => [] | some v => printDate rd v) ++ [58] ++ printDate rd v2 ++ [93]

/-- `int64(*t.MinSize)`: two's complement reinterpretation of a uint64 -/
def asInt64 (n : Nat) : Int := if n ≥ 2^63 then (n : Int) - 2^64 else n

/-- `Select.makeString` -/
def printSelect (rd : Int → Bytes) (s : Select) : Bytes :=
  bs "SELECT" ++ addStr "" s.format
  ++ (match s.source with | none => [] | some src => bs " FROM" ++ printSource src)
  ++ (match s.range with | none => [] | some r => bs " RANGE" ++ printRange rd r)
  ++ (match s.where_ with | none => [] | some e => bs " WHERE" ++ printExpr e)
  ++ (match s.position with | none => [] | some p => bs " POSITION" ++ [32] ++ quote p)
  ++ addInt "OFFSET" s.offset ++ addInt "LIMIT" s.limit

/-- `Describe.makeString` -/
def printDescribe (d : Describe) : Bytes :=
  bs "DESCRIBE"
  ++ (match d.partition with | none => [] | some m => bs " PARTITION " ++ [123] ++ KV.line m ++ [125])
  ++ (match d.pipe with | none => [] | some p => bs " PIPE " ++ p)

/-- one size clause: `fmt.Sprintf(" KW %d", uint64(*p))` — or, when the regenerated fact says the code still converts
through `int64(...)`, the signed text -/
def sizeClause (unsigned : Bool) (kw : String) : Option Nat → Bytes
  | none => []
  | some n => [32] ++ bs kw ++ [32] ++ (if unsigned then decNat n else decInt (asInt64 n))

/-- the BEFORE clause: `" BEFORE " ++ Before.String()` (quoted once) — or, per the regenerated fact, the old
`addStringIfNotEmpty("BEFORE", &val)` that quotes the quoted text again -/
def beforeClause (once : Bool) (rd : Int → Bytes) : Option Int → Bytes
  | none => []
  | some v => if once then bs " BEFORE " ++ printDate rd v else addStr "BEFORE" (some (printDate rd v))

/-- what `Truncate.makeString` writes after the source, with the printer shapes as parameters -/
def truncateTailWith (unsigned unsignedDb printsDb once : Bool) (rd : Int → Bytes) (t : Truncate) : Bytes :=
  sizeClause unsigned "MINSIZE" t.minSize ++ sizeClause unsigned "MAXSIZE" t.maxSize
  ++ beforeClause once rd t.before ++ (if printsDb then sizeClause unsignedDb "MAXDBSIZE" t.maxDbSize else [])

/-- … with the shapes the extractor found in /repo **now** (`Generated.C12`) -/
def truncateTail (rd : Int → Bytes) (t : Truncate) : Bytes :=
  truncateTailWith Logrange.Generated.C12.truncateSizesUnsigned Logrange.Generated.C12.truncateDbSizeUnsigned
    Logrange.Generated.C12.truncatePrintsMaxDbSize
    Logrange.Generated.C12.beforeQuotedOnce rd t

/-- `Truncate.makeString` -/
def printTruncate (rd : Int → Bytes) (t : Truncate) : Bytes :=
  bs "TRUNCATE" ++ (if t.dryRun then bs " DRYRUN" else []) ++ printOptSource t.source ++ truncateTail rd t

/-- `Show.makeString` with `Partitions.makeString` -/
def printShow (s : ShowS) : Bytes :=
  bs "SHOW"
  ++ (match s.partitions with | none => [] | some p => bs " PARTITIONS" ++ printOptSource p.source ++ addInt "OFFSET" p.offset ++ addInt "LIMIT" p.limit)
  ++ (match s.pipes with | none => [] | some p => bs " PIPES" ++ addInt "OFFSET" p.offset ++ addInt "LIMIT" p.limit)

/-- `Pipe.makeString` -/
def printPipe (p : Pipe) : Bytes :=
  bs " PIPE " ++ p.name
  ++ (match p.from_ with | none => [] | some s => bs " FROM" ++ printSource s)
  ++ (match p.where_ with | none => [] | some e => bs " WHERE" ++ printExpr e)

/-- `Create.makeString` -/
def printCreate (c : Create) : Bytes := bs "CREATE" ++ (match c.pipe with | none => [] | some p => printPipe p)

/-- `Delete.makeString` (leading blank as in the code) -/
def printDelete (d : Delete) : Bytes := bs " DELETE" ++ (match d.pipeName with | none => [] | some n => bs " PIPE " ++ n)

/-- `Lql.String()` -/
def printLql (rd : Int → Bytes) (l : Lql) : Bytes :=
  (match l.select with | none => [] | some s => printSelect rd s)
  ++ (match l.describe with | none => [] | some d => printDescribe d)
  ++ (match l.truncate with | none => [] | some t => printTruncate rd t)
  ++ (match l.show_ with | none => [] | some s => printShow s)
  ++ (match l.create with | none => [] | some c => printCreate c)
  ++ (match l.delete with | none => [] | some d => printDelete d)

/-- `Source.String()` as `cmdCreatePipe` calls it on a possibly-nil pointer -/
def sourceString : Option Source → Bytes
  | none => []
  | some s => printSource s
/-- `Expression.String()` on a possibly-nil pointer -/
def exprString : Option Expr → Bytes
  | none => []
  | some e => printExpr e

end Logrange.Lql
