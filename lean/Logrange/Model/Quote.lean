import Logrange.Go.Basic
import Logrange.Generated.C08
/-!
# `strconv.Quote` / `strconv.Unquote` / `strconv.UnquoteChar`, `utf8.DecodeRune` / `utf8.AppendRune` over bytes

Mirrors the Go standard library (toolchain of the image, 1.23.x) function by function; validated against it by
the C08 harness (sections `quote`, `unquote`). `isPrint` is a binary search over the table the extractor
regenerates from `strconv.IsPrint` of the toolchain in use (`Generated.C08.isPrintRanges`).
-/
namespace Logrange.Quote

def isPrint (r : Nat) : Bool :=
  -- binary search over generated ranges
  let a := Logrange.Generated.C08.isPrintRanges
  let rec go (lo hi : Nat) (fuel : Nat) : Bool :=
    match fuel with
    | 0 => false
    | fuel+1 =>
      if lo ≥ hi then false else
      let mid := (lo + hi) / 2
      let (s, e) := a[mid]!
      if r < s then go lo mid fuel
      else if r > e then go (mid+1) hi fuel
      else true
  go 0 a.size 32

def runeError : Nat := 0xFFFD
def validRune (r : Nat) : Bool := r < 0xD800 || (0xE000 ≤ r && r ≤ 0x10FFFF)

/-- utf8.DecodeRune: returns (rune, width); invalid → (RuneError, 1); empty → (RuneError, 0) -/
def decodeRune (s : Bytes) : Nat × Nat :=
  match s with
  | [] => (runeError, 0)
  | b0 :: rest =>
    let c0 := b0.toNat
    if c0 < 0x80 then (c0, 1)
    else if c0 < 0xC2 then (runeError, 1)
    else if c0 < 0xE0 then
      match rest with
      | b1 :: _ => let c1 := b1.toNat
        if 0x80 ≤ c1 && c1 ≤ 0xBF then ((c0 - 0xC0) * 64 + (c1 - 0x80), 2) else (runeError, 1)
      | _ => (runeError, 1)
    else if c0 < 0xF0 then
      match rest with
      | b1 :: b2 :: _ => let c1 := b1.toNat; let c2 := b2.toNat
        let lo := if c0 == 0xE0 then 0xA0 else 0x80
        let hi := if c0 == 0xED then 0x9F else 0xBF
        if lo ≤ c1 && c1 ≤ hi && 0x80 ≤ c2 && c2 ≤ 0xBF then
          ((c0 - 0xE0) * 4096 + (c1 - 0x80) * 64 + (c2 - 0x80), 3) else (runeError, 1)
      | _ => (runeError, 1)
    else if c0 < 0xF5 then
      match rest with
      | b1 :: b2 :: b3 :: _ => let c1 := b1.toNat; let c2 := b2.toNat; let c3 := b3.toNat
        let lo := if c0 == 0xF0 then 0x90 else 0x80
        let hi := if c0 == 0xF4 then 0x8F else 0xBF
        if lo ≤ c1 && c1 ≤ hi && 0x80 ≤ c2 && c2 ≤ 0xBF && 0x80 ≤ c3 && c3 ≤ 0xBF then
          ((c0 - 0xF0) * 262144 + (c1 - 0x80) * 4096 + (c2 - 0x80) * 64 + (c3 - 0x80), 4) else (runeError, 1)
      | _ => (runeError, 1)
    else (runeError, 1)

def b (n : Nat) : UInt8 := UInt8.ofNat n

/-- utf8.AppendRune (invalid runes encode as U+FFFD) -/
def encodeRune (r : Nat) : Bytes :=
  let r := if validRune r then r else runeError
  if r < 0x80 then [b r]
  else if r < 0x800 then [b (0xC0 + r / 64), b (0x80 + r % 64)]
  else if r < 0x10000 then [b (0xE0 + r / 4096), b (0x80 + (r / 64) % 64), b (0x80 + r % 64)]
  else [b (0xF0 + r / 262144), b (0x80 + (r / 4096) % 64), b (0x80 + (r / 64) % 64), b (0x80 + r % 64)]

def hexDigit (n : Nat) : UInt8 := if n < 10 then b (48 + n) else b (87 + n)   -- lowerhex
def hexN (r : Nat) (digits : Nat) : Bytes :=
  (List.range digits).reverse.map (fun i => hexDigit ((r / (16 ^ i)) % 16))

def BS : UInt8 := 92
def DQ : UInt8 := 34

def appendEscapedRune (r : Nat) (quote : UInt8) : Bytes :=
  if r == quote.toNat || r == 92 then [BS, b r]
  else if isPrint r then encodeRune r
  else if r == 7 then [BS, 97] else if r == 8 then [BS, 98] else if r == 12 then [BS, 102]
  else if r == 10 then [BS, 110] else if r == 13 then [BS, 114] else if r == 9 then [BS, 116]
  else if r == 11 then [BS, 118]
  else if r < 32 || r == 0x7f then [BS, 120] ++ hexN r 2
  else if !validRune r then [BS, 117] ++ hexN runeError 4
  else if r < 0x10000 then [BS, 117] ++ hexN r 4
  else [BS, 85] ++ hexN r 8

def quoteBody (fuel : Nat) (s : Bytes) (quote : UInt8) : Bytes :=
  match fuel with
  | 0 => []
  | fuel+1 =>
    match s with
    | [] => []
    | c :: _ =>
      let (r, w) := if c.toNat ≥ 0x80 then decodeRune s else (c.toNat, 1)
      if w == 1 && r == runeError then
        [BS, 120, hexDigit (c.toNat / 16), hexDigit (c.toNat % 16)] ++ quoteBody fuel (s.drop 1) quote
      else appendEscapedRune r quote ++ quoteBody fuel (s.drop w) quote

def quote (s : Bytes) : Bytes := DQ :: quoteBody (s.length + 1) s DQ ++ [DQ]

def unhex (c : UInt8) : Option Nat :=
  let n := c.toNat
  if 48 ≤ n && n ≤ 57 then some (n - 48)
  else if 97 ≤ n && n ≤ 102 then some (n - 87)
  else if 65 ≤ n && n ≤ 70 then some (n - 55)
  else none

def readHex (s : Bytes) (n : Nat) : Option Nat :=
  if s.length < n then none else
  (s.take n).foldlM (fun acc c => (unhex c).map (fun x => acc * 16 + x)) 0

/-- strconv.UnquoteChar: (value, multibyte, tail) or none (ErrSyntax) -/
def unquoteChar (s : Bytes) (quote : UInt8) : Option (Nat × Bool × Bytes) :=
  match s with
  | [] => none
  | c :: rest =>
    if c == quote && (quote == 39 || quote == 34) then none
    else if c.toNat ≥ 0x80 then let (r, w) := decodeRune s; some (r, true, s.drop w)
    else if c != BS then some (c.toNat, false, rest)
    else match rest with
      | [] => none
      | c1 :: s2 =>
        let simple (v : Nat) := some (v, false, s2)
        if c1 == 97 then simple 7 else if c1 == 98 then simple 8 else if c1 == 102 then simple 12
        else if c1 == 110 then simple 10 else if c1 == 114 then simple 13 else if c1 == 116 then simple 9
        else if c1 == 118 then simple 11
        else if c1 == 120 then (readHex s2 2).map (fun v => (v, false, s2.drop 2))
        else if c1 == 117 then (readHex s2 4).bind (fun v => if validRune v then some (v, true, s2.drop 4) else none)
        else if c1 == 85 then (readHex s2 8).bind (fun v => if validRune v then some (v, true, s2.drop 8) else none)
        else if 48 ≤ c1.toNat && c1.toNat ≤ 55 then
          match s2 with
          | d1 :: d2 :: s3 =>
            if 48 ≤ d1.toNat && d1.toNat ≤ 55 && 48 ≤ d2.toNat && d2.toNat ≤ 55 then
              let v := (c1.toNat - 48) * 64 + (d1.toNat - 48) * 8 + (d2.toNat - 48)
              if v > 255 then none else some (v, false, s3)
            else none
          | _ => none
        else if c1 == BS then simple 92
        else if c1 == 39 || c1 == 34 then (if c1 != quote then none else simple c1.toNat)
        else none

def validUtf8 (fuel : Nat) (s : Bytes) : Bool :=
  match fuel with
  | 0 => true
  | fuel+1 => match s with
    | [] => true
    | c :: rest => if c.toNat < 0x80 then validUtf8 fuel rest else
        let (r, w) := decodeRune s
        if r == runeError && w == 1 then false else validUtf8 fuel (s.drop w)

def indexOf (s : Bytes) (c : UInt8) : Option Nat :=
  let i := s.findIdx (· == c); if i < s.length then some i else none

/-- strconv.Unquote for strings starting with " or ` (what kvstring/fields call) ; also ' handled -/
def unquote (inp : Bytes) : Option Bytes :=
  match inp with
  | q :: rest1 =>
    if inp.length < 2 then none else
    match indexOf rest1 q with
    | none => none
    | some e =>
      let end_ := e + 2
      if q == 96 then
        if end_ != inp.length then none
        else some ((inp.drop 1).take (end_ - 2) |>.filter (· != 13))
      else if q == DQ || q == 39 then
        let inner := (inp.drop 1).take (end_ - 2)
        let pre := inp.take end_
        let fast :=
          if !pre.contains BS && !pre.contains 10 then
            if q == DQ then validUtf8 (inner.length + 1) inner
            else let (r, n) := decodeRune inner; (1 + n + 1 == end_) && (r != runeError || n != 1)
          else false
        if fast then (if end_ == inp.length then some inner else none)
        else
          let rec loop (fuel : Nat) (s : Bytes) (acc : Bytes) : Option (Bytes × Bytes) :=
            match fuel with
            | 0 => none
            | fuel+1 =>
              match s with
              | [] => none      -- no closing quote
              | c :: _ =>
                if c == q then some (acc, s.drop 1)
                else match unquoteChar s q with
                  | none => none
                  | some (r, mb, tail) =>
                    if c == 10 then none else
                    let acc' := if r < 0x80 || !mb then acc ++ [b r] else acc ++ encodeRune r
                    if q == 39 then
                      (match tail with
                       | c2 :: t2 => if c2 == q then some (acc', t2) else none
                       | [] => none)
                    else loop fuel tail acc'
          match loop (inp.length + 1) (inp.drop 1) [] with
          | some (out, rem) => if rem.isEmpty then some out else none
          | none => none
      else none
  | [] => none

end Logrange.Quote
