import Logrange.Model.TIndexGuard
/-!
# `getOrCreateJournal` with the UTF-8 guard of fix a7918dd (F-C07-901)

```go
if create && !utf8.ValidString(string(tgs.Line())) { ims.lock.Unlock(); return "", tag.EmptySet, fmt.Errorf(…) }
```
stands between the emptiness test and the look-up of the canonical line: a call that MAY create is refused when the
canonical line of the parsed set is not valid UTF-8 (`encoding/json` would store another key) — also when that line is a key
already; the raw-text fast path and `GetJournal` (create = false) still find such a partition. Whether the code has the guard
is the regenerated fact `Generated.C06.utf8GuardOnCreate`. The step is the step of `TIndexId.getOrCreate` behind the test
`utf8Rejects`, which changes nothing when it fires — every invariant of the unguarded model carries over (`Proofs/TIndexUtf8`).
-/
namespace Logrange.TIndexUtf8
open Go Logrange.Quote Logrange.KV Logrange.Tags Logrange.TIndexId

def validLine (l : Bytes) : Bool := validUtf8 (l.length + 1) l

inductive ResU where
  | res (r : Res)
  | badUtf8           -- refused: the canonical line of the set is not valid UTF-8 and the call may create
  | notReparsing      -- refused by the (proposed, absent) guard of F08r
deriving DecidableEq, Repr

/-- the guard fires: the text is not a key already (fast path), parses to a non-empty set, the call may create, and the
canonical line of the set is not valid UTF-8 -/
def utf8Rejects (s : St) (raw : Bytes) (create : Bool) : Bool :=
  create && (lookup s.tmap raw).isNone &&
    (match parse raw with
     | some m => !m.isEmpty && !validLine (line m)
     | none => false)

/-- one critical section of the code as it is: `u` = the UTF-8 guard is present, `g` = the F08r guard is present -/
def getOrCreateU (u g : Bool) (s : St) (raw : Bytes) (create : Bool) : St × ResU :=
  if u && utf8Rejects s raw create then (s, .badUtf8)
  else if g && Logrange.TIndexGuard.guardRejects s raw then (s, .notReparsing)
  else ((getOrCreate s raw create).1, .res (getOrCreate s raw create).2)

/-- the step with the facts of the code as it is now -/
def codeStep (s : St) (raw : Bytes) (create : Bool) : St × ResU :=
  getOrCreateU Logrange.Generated.C06.utf8GuardOnCreate Logrange.TIndexGuard.codeGuard s raw create

def runU (u g : Bool) (s : St) : List (Bytes × Bool) → St
  | [] => s
  | (raw, create) :: ops => runU u g (getOrCreateU u g s raw create).1 ops

end Logrange.TIndexUtf8
