import Logrange.Model.FieldsKV
import Logrange.Generated.C08Q
/-!
# The RPC querier's emission loop (`api/rpc/querier.go`, `ServerQuerier.query`): Fields text per event, with the cache

```go
flds := field.Fields(""); kvsFields := ""
for … { lge, tags, err = cur.Get(ctx)
  if lge.Fields != flds { kvsFields = lge.Fields.AsKVString(); flds = lge.Fields.MakeCopy() }
  le.Tags = string(tags); le.Fields = kvsFields; … }
```
`Fields` is a Go string: `!=` compares contents. `lge.Fields` points into the chunk reader's record buffer, which is reused
for the next record — the cache must therefore hold a COPY (`MakeCopy()`); whether it does is the regenerated fact
`Generated.C08Q.querierCacheCopies`. The model is the loop with a copying cache: the state is the remembered fields and the
text rendered for them. (`AsKVString` can panic on malformed bytes: `Res`.)
-/
namespace Logrange.FieldsEmit
open Go Logrange.FieldsKV

/-- the loop body over the fields of the events one Query call returns, in read order -/
def emitLoop (flds : Bytes) (kvs : Res) : List Bytes → List Res
  | [] => []
  | f :: r => if f != flds then asKV f :: emitLoop f (asKV f) r else kvs :: emitLoop flds kvs r

/-- `flds := field.Fields("")`, `kvsFields := ""` -/
def emit (events : List Bytes) : List Res := emitLoop [] (.ok []) events

end Logrange.FieldsEmit
