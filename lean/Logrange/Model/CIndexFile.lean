import Logrange.Model.TIndexFile
/-!
# C07 — the time-index snapshot (`pkg/tmindex/cindex.go`: `init`, `close`, `onWrite` hull part, `syncChunks`,
`lightFill`; `ckictrlr.go`: `cleanup`)

`cindex.dat` (chunk hulls `MinTs/MaxTs` and index roots per partition) is written **only** by `close()` (graceful
shutdown; `Generated.C07.cindexSnapshotOnlyAtClose`). `init` loads it — a missing or undecodable file is an empty
index, never an error — opens the tree files and removes those no loaded chunk refers to. The first query of a
partition reconciles through `syncChunks`: a chunk known from the snapshot keeps the snapshot's hull, an unknown
chunk gets `lightFill`'s hull (timestamps of its first and last record).

The block tree inside a `.tidx` file is C02's model; here a tree file is only present or absent, and a chunk's
`root` is the id of the file its tree lives in (`0` = none).
-/
namespace Logrange.Persist

structure ChkInfo where
  id : Nat
  minTs : Int
  maxTs : Int
  root : Nat
  /-- `Recs`: how many of the chunk's records the hull accounts for (0 = unknown: a snapshot written before the field
  existed, or — on a tree without the repair of F06, which never looks at it — simply unused) -/
  recs : Nat
deriving DecidableEq, Repr

/-- `journals`: partition → chunks sorted by id (the JSON object written to `cindex.dat`) -/
abbrev CMap := List (Src × List ChkInfo)

/-- a chunk of a journal: its id and the timestamps of its flushed records in write order -/
structure Chunk where
  id : Nat
  recs : List Int
deriving DecidableEq, Repr

def alookup {β : Type} (m : List (Bytes × β)) (k : Bytes) : Option β := (m.find? (fun e => e.1 == k)).map (·.2)
def aerase {β : Type} (m : List (Bytes × β)) (k : Bytes) : List (Bytes × β) := m.filter (fun e => !(e.1 == k))
/-- replace in place, or append -/
def aset {β : Type} : List (Bytes × β) → Bytes → β → List (Bytes × β)
  | [], k, v => [(k, v)]
  | e :: r, k, v => if e.1 == k then (k, v) :: r else e :: aset r k v

def maxInt64 : Int := 9223372036854775807

def cindexLoad (c : Codec CMap) (f : Files) : CMap :=
  match f .cindexDat with
  | none => []
  | some d => (c.dec d).getD []

def cindexSaveSteps (c : Codec CMap) (m : CMap) : List Step := writeFile .cindexDat (c.enc m)

def referencedTrees (m : CMap) : List Nat :=
  (m.flatMap (·.2)).filterMap (fun ci => if ci.root = 0 then none else some ci.root)

/-- `ckiCtrlr.cleanup`: tree files no loaded chunk refers to are removed -/
def cleanupTrees (m : CMap) (trees : List Nat) : List Nat := trees.filter (fun t => (referencedTrees m).contains t)

/-- `cindex.init` after the repair of finding F47 (`Generated.C07.cindexInitValidatesRoots`): a loaded root whose block
cannot be read or is empty (`usable r = false`: the tree file is missing, cut or zero-filled) is forgotten, so the chunk
takes the "no index → rebuild" path instead of reading blocks that get re-allocated to other trees -/
def forgetUnusableRoots (usable : Nat → Bool) (m : CMap) : CMap :=
  if Logrange.Generated.C07.cindexInitValidatesRoots then
    m.map (fun e => (e.1, e.2.map (fun ci => if ci.root ≠ 0 ∧ usable ci.root = false then { ci with root := 0 } else ci)))
  else m

/-- `chkInfo.update` -/
def ChkInfo.update (ci : ChkInfo) (mn mx : Int) : ChkInfo :=
  { ci with minTs := if ci.minTs > mn then mn else ci.minTs, maxTs := if ci.maxTs < mx then mx else ci.maxTs }

/-- hull part of `cindex.onWrite(src, …, rInfo{Id, MinTs, MaxTs})` -/
def cindexOnWrite (m : CMap) (src : Src) (cid : Nat) (mn mx : Int) (n : Nat) : CMap :=
  -- `n` = `lastRec + 1`: the number of records of the chunk after this write (`last.Recs = lastRec + 1`)
  match alookup m src with
  | none => aset m src [⟨cid, mn, mx, 0, n⟩]
  | some sc =>
    match sc.getLast? with
    | none => aset m src [⟨cid, mn, mx, 0, n⟩]
    | some last =>
      if last.id ≠ cid then aset m src (sc ++ [⟨cid, mn, mx, 0, n⟩])
      else aset m src (sc.dropLast ++ [{ last.update mn mx with recs := n }])

/-- `lightFill` for one chunk: skipped when `MaxTs > 0`; an empty chunk stays as it is; otherwise the hull is
the first and the last record's timestamps (swapped when the last is smaller) -/
def lightFill1 (ck : Chunk) (ci : ChkInfo) : ChkInfo :=
  if ci.maxTs > 0 then ci else
  match ck.recs.head?, ck.recs.getLast? with
  | some a, some b =>
    if b < a then { ci with minTs := b, maxTs := a, recs := ck.recs.length }
    else { ci with minTs := a, maxTs := b, recs := ck.recs.length }
  | _, _ => ci

/-- `syncChunks` for one chunk of the journal: a chunk the index knows keeps its object (the second `apply`
puts the old object back, so `lightFill`'s work on a copy of a known chunk is dropped); an unknown chunk starts
as `{MinTs: MaxInt64, MaxTs: 0}` and goes through `lightFill`. Chunk ids are sorted and unique on both sides, so
the two-pointer merge of `apply` is a look-up by id. -/
def syncChunkC (drops dropFirst : Bool) (old : List ChkInfo) (ck : Chunk) : ChkInfo :=
  match old.find? (fun o => o.id == ck.id) with
  | some o =>
    -- `dropStale` (repair of F06, `drops`): the chunk holds more records than the entry accounts for — it has grown since
    -- the hull was taken (a snapshot from before a crash) — so the entry is dropped and the chunk handled as unknown.
    -- `dropFirst`: the drop comes before the hull copy `apply(sc, true)`; were the hull copied first, the new entry
    -- would carry the stale hull (no root, `Recs` 0) and `lightFill` would skip it (`MaxTs > 0`)
    if drops && decide (o.recs < ck.recs.length) then
      (if dropFirst then lightFill1 ck ⟨ck.id, maxInt64, 0, 0, 0⟩ else lightFill1 ck ⟨ck.id, o.minTs, o.maxTs, 0, 0⟩)
    else o
  | none => lightFill1 ck ⟨ck.id, maxInt64, 0, 0, 0⟩

def syncChunkB (drops : Bool) (old : List ChkInfo) (ck : Chunk) : ChkInfo := syncChunkC drops true old ck

def syncChunk (old : List ChkInfo) (ck : Chunk) : ChkInfo :=
  syncChunkC Logrange.Generated.C07.syncChunksDropsStaleEntries Logrange.Generated.C07.syncChunksDropsStaleBeforeHullCopy old ck

def syncChunks (old : List ChkInfo) (cks : List Chunk) : List ChkInfo := cks.map (syncChunk old)

/-- the hulls a new RANGE cursor sees for a partition (`rebuildChunkStatuses` → `SyncChunks`) -/
def hullView (m : CMap) (src : Src) (cks : List Chunk) : List ChkInfo := syncChunks ((alookup m src).getD []) cks

/-- `chkSelector.updatePoss` case 1: the chunk is skipped when its hull and the range are disjoint -/
def hullHits (h : ChkInfo) (lo hi : Int) : Bool := !(decide (hi < h.minTs) || decide (lo > h.maxTs))

def inRange (lo hi : Int) (t : Int) : Bool := decide (lo ≤ t) && decide (t ≤ hi)

/-- what a RANGE [lo:hi] query can return, at the granularity of chunk hulls (inside a chunk whose hull meets
the range the look-up is C02's) -/
def rangeVisible : List ChkInfo → List Chunk → Int → Int → List Int
  | h :: hs, ck :: cks, lo, hi =>
    -- a7caf30 (`selectorOpensChunkAheadOfIndex`): a chunk that holds more records than the index accounts for stays wholly
    -- open, the range is applied record by record
    (if (Logrange.Generated.C07.selectorOpensChunkAheadOfIndex && decide (h.recs < ck.recs.length)) || hullHits h lo hi
      then ck.recs.filter (inRange lo hi) else []) ++ rangeVisible hs cks lo hi
  | _, _, _, _ => []

/-- SPEC: the flushed events whose timestamp is in range -/
def rangeSpec (cks : List Chunk) (lo hi : Int) : List Int := cks.flatMap (fun ck => ck.recs.filter (inRange lo hi))

/-- class predicate of finding F06: the index knows the chunk with a set hull (`MaxTs > 0`, so `lightFill`
skips it) and the chunk holds a record outside that hull — a stale snapshot of a chunk that grew since -/
def staleGrown (old : List ChkInfo) (cks : List Chunk) : Bool :=
  cks.any fun ck =>
    match old.find? (fun o => o.id == ck.id) with
    | some o =>
      !(Logrange.Generated.C07.syncChunksDropsStaleEntries && decide (o.recs < ck.recs.length)) &&
        decide (o.maxTs > 0) && ck.recs.any (fun t => decide (t < o.minTs) || decide (t > o.maxTs))
    | none => false

end Logrange.Persist
