import Logrange.Go.Basic
/-!
# The library journal iterator where every `Count()` read is a separate observation — C01, finding #34

`github.com/logrange/range/pkg/records/journal.JIterator` (forward direction), over chunk iterators that follow contract
A.1 (DESIGN Appendix A): the confirmed record count is *read at each call* (`Get`, `Next`, `SetPos` when the position
changes). A concurrent writer advances that counter (A.3a), so two reads inside one iterator call can differ. The model
takes every read from a **script** attached to the chunk: the i-th `Count()` read of a chunk answers `script[min(i, len-1)]`.

* `ciSetPos / ciGet / ciNext` — chunk iterator (A.1).
* `ensure` — `ensureChkIt`: chunk with id ≥ `pos.CId`, else the last chunk and **EOF with `pos := (last.id, last.Count())`**
  — the second read; a chunk with a greater id resets `Idx := 0`; then the chunk iterator is positioned (`SetPos`) and
  `pos.Idx` re-read from it.
* `get` — `ensureChkIt`, chunk `Get`, on EOF `advanceChunk` (`CId+1, 0`, `ensureChkIt`) and again. Besides the answer it
  reports, when it ends in the last-chunk branch, the two observations of that end-of-data step: the count the chunk
  iterator decided EOF against (`c₁`) and the count the position was built from (`c₂`).
* `next` — `Get`, chunk `Next`, `pos.Idx := chunk pos`.

`Tail` (second half) is the same algorithm specialised to a reader that has reached the journal's LAST chunk, with the
observations as a function of the read index; `tail_read_no_skip_partial` is proved on it, and the driver runs it next to the
general model and the real iterator on every script (three-way comparison).
-/
namespace Logrange.JIterObs

structure Chunk where
  id : Nat
  script : List Nat      -- successive answers of Count(); the last one repeats
  reads : Nat := 0
deriving Inhabited, Repr

abbrev Journal := List Chunk

/-- one `Count()` call on chunk `id` -/
def count (j : Journal) (id : Nat) : Nat × Journal :=
  match j.find? (·.id == id) with
  | none => (0, j)
  | some c =>
    let v := c.script.getD (min c.reads (c.script.length - 1)) 0
    (v, j.map (fun x => if x.id == id then { x with reads := x.reads + 1 } else x))

structure CIt where
  chunk : Nat
  pos : Int := 0
deriving Repr

structure It where
  cid : Nat := 0
  idx : Nat := 0
  ci : Option CIt := none
deriving Repr

/-- chunk iterator `SetPos(p)`: no-op if equal; otherwise one count read, clamp to `[-1, cnt]` -/
def ciSetPos (j : Journal) (c : CIt) (p : Int) : CIt × Journal :=
  if p == c.pos then (c, j) else
  let (cnt, j) := count j c.chunk
  let p := if p > cnt then (cnt : Int) else p
  let p := if p < 0 then -1 else p
  ({ c with pos := p }, j)

/-- chunk iterator forward `Get`: (iterator, record index or EOF, the count it read, journal) -/
def ciGet (j : Journal) (c : CIt) : CIt × Option Nat × Nat × Journal :=
  let (cnt, j) := count j c.chunk
  let c := if c.pos < 0 then { c with pos := 0 } else c
  if c.pos ≥ cnt then (c, none, cnt, j) else (c, some c.pos.toNat, cnt, j)

/-- chunk iterator `Next`: `Get`; on success `pos+1` -/
def ciNext (j : Journal) (c : CIt) : CIt × Journal :=
  let (c, r, _, j) := ciGet j c
  match r with
  | some _ => ({ c with pos := c.pos + 1 }, j)
  | none => (c, j)

/-- `ensureChkIt`: (iterator, EOF?, the count read for the end-of-data position if that branch was taken, journal) -/
def ensure (j : Journal) (it : It) : It × Bool × Option Nat × Journal :=
  match it.ci with
  | some _ => (it, false, none, j)
  | none =>
    match (match j.find? (·.id ≥ it.cid) with | some c => some c | none => j.getLast?) with
    | none => (it, true, none, j)
    | some chk =>
      if chk.id < it.cid then
        let (cnt, j) := count j chk.id        -- the second read: the position is built from it
        ({ it with cid := chk.id, idx := cnt }, true, some cnt, j)
      else
        let it := if chk.id > it.cid then { it with cid := chk.id, idx := 0 } else it
        let (c, j) := ciSetPos j { chunk := chk.id } it.idx
        ({ it with ci := some c, idx := c.pos.toNat }, false, none, j)

/-- `advanceChunk` (forward) -/
def advance (j : Journal) (it : It) : It × Bool × Option Nat × Journal :=
  ensure j { it with ci := none, cid := it.cid + 1, idx := 0 }

structure GetRes where
  it : It
  got : Option (Nat × Nat)            -- (chunk id, record index) or EOF
  eofObs : Option (Nat × Nat) := none -- (c₁, c₂) of an end-of-data step that went through the last-chunk branch
  j : Journal

def getLoop : Nat → Journal → It → GetRes
  | 0, j, it => ⟨it, none, none, j⟩
  | fuel+1, j, it =>
    match it.ci with
    | none => ⟨it, none, none, j⟩
    | some c =>
      let (c', r, c1, j) := ciGet j c
      match r with
      | some p => ⟨{ it with ci := some c' }, some (c'.chunk, p), none, j⟩
      | none =>
        let (it', eof, c2, j) := advance j { it with ci := some c' }
        if eof then ⟨it', none, c2.map (fun x => (c1, x)), j⟩ else getLoop fuel j it'

/-- `JIterator.Get` -/
def get (j : Journal) (it : It) : GetRes :=
  let (it, eof, _, j) := ensure j it
  if eof then ⟨it, none, none, j⟩ else getLoop (j.length + 2) j it

/-- `JIterator.Next` -/
def next (j : Journal) (it : It) : It × Journal :=
  let r := get j it
  match r.it.ci with
  | some c =>
    let (c', j) := ciNext r.j c
    ({ r.it with ci := some c', idx := c'.pos.toNat }, j)
  | none => (r.it, r.j)

/-- `JIterator.SetPos` -/
def setPos (j : Journal) (it : It) (cid idx : Nat) : It × Journal :=
  if cid == it.cid && idx == it.idx then (it, j) else
  let it := if cid != it.cid then { it with ci := none } else it
  match it.ci with
  | some c => let (c', j) := ciSetPos j c idx; ({ it with ci := some c', cid := cid, idx := idx }, j)
  | none => ({ it with cid := cid, idx := idx }, j)

structure Probe where
  firstEof : Bool            -- the first Get reported end of data
  pos : Nat × Nat            -- position after the first Get
  delivered : List Nat       -- record indices of the new chunk delivered afterwards, in order
  grew : Bool                -- some end-of-data step saw c₁ < c₂ (the class predicate of finding F34)
deriving DecidableEq, Repr

def pollLoop : Nat → Nat → Journal → It → List Nat → Bool → List Nat × Bool
  | 0, _, _, _, acc, g => (acc.reverse, g)
  | _, 0, _, _, acc, g => (acc.reverse, g)
  | fuel+1, polls+1, j, it, acc, g =>
    let r := get j it
    let g := g || (match r.eofObs with | some (a, b) => decide (a < b) | none => false)
    match r.got with
    | none => pollLoop fuel polls r.j r.it acc g
    | some (_, p) => let (it, j) := next r.j r.it; pollLoop fuel (polls + 1) j it (p :: acc) g

/-- the tail probe: an old chunk (id 10, `old` records, all read) and a new chunk (id 20) whose confirmed count follows
`script`; the reader sits at `(10, old)`; one `Get`, then `Get`/`Next` until `polls` end-of-data answers (at most `fuel` calls) -/
def probe (old : Nat) (script : List Nat) (fuel polls : Nat) : Probe :=
  let j : Journal := [{ id := 10, script := [old] }, { id := 20, script := script }]
  let (it, j) := setPos j {} 10 old
  let r := get j it
  let g := match r.eofObs with | some (a, b) => decide (a < b) | none => false
  let (d, g) := pollLoop fuel polls r.j r.it [] g
  ⟨r.got.isNone, (r.it.cid, r.it.idx), d, g⟩

/-! ## the tail of the last chunk, observations as a function of the read index -/

namespace Tail

structure St where
  pos : Nat := 0        -- `pos.Idx`, a position in the last chunk
  opened : Bool := false  -- the chunk iterator exists
  reads : Nat := 0      -- `Count()` reads of the last chunk so far
deriving DecidableEq, Repr

/-- `ensureChkIt` on the last chunk: a new chunk iterator starts at 0; `SetPos(pos)` reads the count unless `pos = 0`, and
clamps; the resulting position … -/
def ensPos (obs : Nat → Nat) (s : St) : Nat :=
  if s.opened then s.pos else if s.pos = 0 then 0 else min s.pos (obs s.reads)
/-- … and the number of count reads so far -/
def ensReads (s : St) : Nat :=
  if s.opened then s.reads else if s.pos = 0 then s.reads else s.reads + 1

/-- `JIterator.Get` of a reader whose position is in the last chunk: (state, record index or EOF, the end-of-data
observations `(c₁, c₂)` if the step ended there) -/
def get (obs : Nat → Nat) (s : St) : St × Option Nat × Option (Nat × Nat) :=
  let p := ensPos obs s
  let r := ensReads s
  let c1 := obs r
  if p < c1 then ({ pos := p, opened := true, reads := r + 1 }, some p, none)
  else
    -- advanceChunk: no chunk with a greater id; the last chunk's id is below pos.CId: pos := (last.id, last.Count())
    let c2 := obs (r + 1)
    ({ pos := c2, opened := false, reads := r + 2 }, none, some (c1, c2))

/-- `JIterator.Next`: `Get`; if the chunk iterator exists: chunk `Next` (its own `Get`: one more read), `pos.Idx := chunk pos` -/
def next (obs : Nat → Nat) (s : St) : St :=
  let (s1, _, _) := get obs s
  if s1.opened then
    let c := obs s1.reads
    if s1.pos < c then { s1 with pos := s1.pos + 1, reads := s1.reads + 1 } else { s1 with reads := s1.reads + 1 }
  else s1

structure Run where
  s : St := {}
  delivered : List Nat := []   -- record indices handed to the reader, in order
  stable : Bool := true        -- every end-of-data step so far had c₁ = c₂

/-- one step of a tailing reader: `Get`; a record is consumed with `Next`; at end of data the reader polls again later -/
def step (obs : Nat → Nat) (r : Run) : Run :=
  let (s1, rec, eo) := get obs r.s
  let st := r.stable && (match eo with | some (a, b) => a == b | none => true)
  match rec with
  | some p => { s := next obs s1, delivered := r.delivered ++ [p], stable := st }
  | none => { s := s1, delivered := r.delivered, stable := st }

def run (obs : Nat → Nat) : Nat → Run → Run
  | 0, r => r
  | n+1, r => run obs n (step obs r)

/-- script semantics of the probe: the i-th read answers `script[min(i, len-1)]` -/
def scriptObs (script : List Nat) (i : Nat) : Nat := script.getD (min i (script.length - 1)) 0

/-- the probe of `JIterObs.probe`, on the tail model: first `Get`, then `Get`/`Next` until `polls` end-of-data answers -/
def pollLoop (obs : Nat → Nat) : Nat → Nat → St → List Nat → Bool → List Nat × Bool
  | 0, _, _, acc, g => (acc.reverse, g)
  | _, 0, _, acc, g => (acc.reverse, g)
  | fuel+1, polls+1, s, acc, g =>
    let (s1, rec, eo) := get obs s
    let g := g || (match eo with | some (a, b) => decide (a < b) | none => false)
    match rec with
    | none => pollLoop obs fuel polls s1 acc g
    | some p => pollLoop obs fuel (polls + 1) (next obs s1) (p :: acc) g

def probe (script : List Nat) (fuel polls : Nat) : Probe :=
  let obs := scriptObs script
  let (s1, rec, eo) := get obs {}
  let g := match eo with | some (a, b) => decide (a < b) | none => false
  let (d, g) := pollLoop obs fuel polls s1 [] g
  ⟨rec.isNone, (20, s1.pos), d, g⟩

end Tail

end Logrange.JIterObs
