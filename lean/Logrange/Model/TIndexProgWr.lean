import Logrange.Model.TIndexProg
/-!
# The per-partition write lock (`partition.Service.wrLocks`) on top of the caller programs

`partition.Service.Write` (since 25f9816 / 3e8b3c3): acquire the partition in the tag index (`GetOrCreateJournal`), THEN take
the partition's write mutex (`wrLocks[src]`, `mu.Lock(); defer mu.Unlock()`), write, tell the time index, publish the write
event, `TIndex.Release(src)`, return (unlock). Lock order: tag-index acquisition → write lock. Nobody else takes the write
lock: `deleteJournal` / `Truncate` only try-lock the tag-index entry.

The extension keeps the system of `Model/TIndexProg.lean` as it is and adds two ghost maps: `wr s` = the actor that holds the
write lock of source `s`, `ph a` = the writer phase of actor `a` (`(s, false)`: acquired `s`, waiting for / about to take the
write lock; `(s, true)`: holds it). A writer is an actor whose program `acqTags tags true` has just acquired a source (its
control state became `rel s [] fin`): before it may perform its `Release` it has to take the write lock (`take`), which is
possible only when nobody holds it; its `Release` step gives the write lock back (the deferred unlock runs right after
`Release`, nothing of the tag index in between).
-/
namespace Logrange.TIndexProg
open Logrange.TIndexLts

structure SysW where
  x : Sys
  /-- holder of the write lock of a source -/
  wr : Nat → Option Nat
  /-- writer phase of an actor: the source it writes to, and whether it holds that source's write lock -/
  ph : Nat → Option (Nat × Bool)

/-- an actor becomes a writer in phase "waiting for the write lock" when `Write`'s acquisition succeeds -/
def mark : Ctl → Ctl → Option (Nat × Bool)
  | .acqTags _ true, .rel s [] .fin => some (s, false)
  | _, _ => none

inductive StepW : SysW → SysW → Prop
  /-- a critical section of the tag index by an actor that is not inside `Write`'s locked part -/
  | base {z : SysW} {y : Sys} (a : Nat) (hp : z.ph a = none) (s : SysStepBy a z.x y) :
      StepW z ⟨y, z.wr, upd z.ph a (mark (z.x.ctl a) (y.ctl a))⟩
  /-- `mu.Lock()` succeeds: nobody holds the write lock of `s` -/
  | take {z : SysW} (a s : Nat) (hp : z.ph a = some (s, false)) (hfree : z.wr s = none) :
      StepW z ⟨z.x, upd z.wr s (some a), upd z.ph a (some (s, true))⟩
  /-- the writer's `TIndex.Release(src)` followed by the deferred `mu.Unlock()` -/
  | rel {z : SysW} {y : Sys} (a s : Nat) (hp : z.ph a = some (s, true)) (st : SysStepBy a z.x y) :
      StepW z ⟨y, upd z.wr s none, upd z.ph a none⟩

inductive ReachW : SysW → Prop
  | start (ctl : Nat → Ctl) (h : ∀ a, isEntry (ctl a)) : ReachW ⟨⟨init, ctl⟩, fun _ => none, fun _ => none⟩
  | step {z z' : SysW} (h : ReachW z) (s : StepW z z') : ReachW z'
  | call {z : SysW} (h : ReachW z) (a : Nat) (c : Ctl) (hf : z.x.ctl a = .fin) (he : isEntry c) :
      ReachW ⟨⟨z.x.st, upd z.x.ctl a c⟩, z.wr, z.ph⟩
  | shutdown {z : SysW} (h : ReachW z) : ReachW ⟨⟨{ z.x.st with done := true }, z.x.ctl⟩, z.wr, z.ph⟩

/-- a step that is not a pure wait: something changes -/
def MovesW (z z' : SysW) : Prop :=
  z'.x.ctl ≠ z.x.ctl ∨ z'.x.st ≠ z.x.st ∨ z'.ph ≠ z.ph

end Logrange.TIndexProg
