import Logrange.Model.ScanWorker
/-!
# The scanner worker LTS with the state file's two-step replacement: every state is a crash point

`Model/ScanWorker.lean` takes `persistState()` as ONE step (`persist` / `finalPersist`: `persisted := offset`). Since
fix e59ee79 `fileStorage.WriteData` writes `scanner.json.tmp` and renames it over `scanner.json`; the worker and the
consumer keep running between the two. Here a save is two steps:

* `saveBegin final` — `json.Marshal(descs)` reads `desc.Offset`, the bytes go to the temporary file. It is the
  `persist` (`final = false`, a tick) or `finalPersist` (`final = true`, enabled as in the worker LTS: after the cancel and,
  with fix c6aad9a, after the worker has left its loop) step of the inner system, whose field `persisted` is from now on
  *what the newest marshalled content holds* — the temporary file while `saving`, `scanner.json` otherwise;
* `saveRename` — `os.Rename`: `scanner.json` (`disk`) now holds that content.

All other labels of the worker LTS run in between unchanged (`w l`). There is one persist goroutine, so saves do not
overlap. A crash is not a label: every reachable state is a crash point, and what the next session starts from is
`disk` (the temporary file is ignored by `loadState`). Ghost: `diskConf` / `diskWin` = the inner system's
`confAtPersist` / `persistInWindow` of the content `scanner.json` holds; `diskFinal` = that content was written by the
final persist.
-/
namespace Logrange.ScanCrash
open Logrange.ScanWorker

structure CS where
  s : S
  saving : Bool
  disk : Nat
  diskConf : Nat
  diskWin : Bool
  tmpFinal : Bool        -- the save in progress is the final one
  diskFinal : Bool
deriving DecidableEq, Repr

def cinit (start : Nat) : CS :=
  { s := init start, saving := false, disk := start, diskConf := start, diskWin := false, tmpFinal := false,
    diskFinal := false }

inductive CL where
  | w (l : L)
  | saveBegin (final : Bool)
  | saveRename
deriving DecidableEq, Repr

def isPersistLabel : L → Bool
  | .persist => true
  | .finalPersist => true
  | _ => false

def cstep (c : Cfg) (x : CS) : CL → Option CS
  | .w l =>
    if isPersistLabel l then none
    else match step c x.s l with
      | some s' => some { x with s := s' }
      | none => none
  | .saveBegin final =>
    if x.saving then none
    else match step c x.s (if final then .finalPersist else .persist) with
      | some s' => some { x with s := s', saving := true, tmpFinal := final }
      | none => none
  | .saveRename =>
    if x.saving then
      some { x with saving := false, disk := x.s.persisted, diskConf := x.s.confAtPersist,
                    diskWin := x.s.persistInWindow, diskFinal := x.tmpFinal }
    else none

/-- run a trace; labels that are not enabled are skipped -/
def crun (c : Cfg) (x : CS) : List CL → CS
  | [] => x
  | l :: ls => match cstep c x l with
    | some x' => crun c x' ls
    | none => crun c x ls

end Logrange.ScanCrash
