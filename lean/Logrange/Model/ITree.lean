import Logrange.Generated.C02
import Logrange.Model.Points
/-!
# C02 — `pkg/tmindex/ckindex.go` once more: the block tree as an INDUCTIVE tree

`Logrange.IdxTree` models the same code with blocks in an array and block numbers as pointers (validated against the
real tree). This file ports the same Go functions, branch by branch and in the same order, to an inductive tree — no
store, no block numbers — so that facts can be proved by induction. A child "pointer" (`record.idx` of an upper level
record) is the child tree itself; where the Go code keeps a block number in a record the model keeps `0` (the ported
functions never read that field: look-ups and `traversal` only return level-0 records).

Representation of one block:
* `leaf recs`                 — level 0: its records;
* `node level keys kids last` — level > 0 with `keys.length + 1` records (`0` records when `keys = []`):
  record `j < keys.length` is `(keys[j], block of kids[j])`, the last record is `last`.
  Between two calls `kids.length = keys.length`. Inside the `errFullBlock` loop of `block.addInterval`,
  `appendInterval` has pushed the old last record into key position and written `p1` as the new last record, the
  child does not exist yet: `keys.length = kids.length + 1`. The next iteration creates the child and
  `setLastInterval(lb.theBlockInterval())` overwrites records `recs-2` and `recs-1` — `setLastInterval` below
  therefore takes the child tree and installs it at position `records - 2`.

Recursion: `block.addInterval` creates new blocks on its way down, so it is not structural in the tree; it takes a
depth bound `d` (a block of level `l` needs `d > l`; `add` passes `level + 1`). The `for` loop of the upper levels
appends one record per iteration to a block of at most `maxRecs` records, its bound is `maxRecs + 1`. The look-ups,
`traversal`, `prune`, `firstRec`, `lastRec` are structural.

`findIntervalIdx` / `findIntervalInsertIdx`: the Go binary search (`r.ts <= ts → i = h+1`) returns the number of
records with `ts ≤ t` on ts-sorted records; the model counts `takeWhile (ts ≤ t)` (`Points.cntLE`), which is the same
number on ts-sorted records.
Only core Lean; everything is computable.
-/
namespace Logrange.ITree
open Logrange.Points (Pt Iv)

/-- `maxRecsPerBlock` of the real code; the functions below take it as a parameter -/
def maxRecs : Nat := Logrange.Generated.C02.maxRecsPerBlock

inductive T where
  | leaf (recs : List Pt)
  | node (level : Nat) (keys : List Int) (kids : List T) (last : Pt)
deriving Inhabited

inductive Err | full | corrupted
deriving DecidableEq, Repr

/-- (block after the call, returned record, error) -/
abbrev Res := T × Pt × Option Err

def zeroPt : Pt := ⟨0, 0⟩

def level : T → Nat
  | .leaf _ => 0
  | .node l _ _ _ => l

/-- the records of one block, block numbers shown as 0 -/
def recsOf : T → List Pt
  | .leaf recs => recs
  | .node _ keys _ last =>
    match keys with
    | [] => []
    | _ :: _ => keys.map (fun k => (⟨k, 0⟩ : Pt)) ++ [last]

def records (b : T) : Nat := (recsOf b).length

def intervals (b : T) : Nat := if records b ≤ 1 then 0 else records b - 1

/-- the binary search of `findIntervalIdx` / `findIntervalInsertIdx`: number of records with `ts ≤ t` -/
def cntLE (b : T) (ts : Int) : Nat := Points.cntLE (recsOf b) ts

def findIntervalInsertIdx (b : T) (ts : Int) : Int :=
  let recs := records b
  if recs = 0 then 0 else
  let i := cntLE b ts
  match b with
  | .leaf _ => (i : Int) - 1
  | .node .. => if i = recs then (recs : Int) - 2 else max 0 ((i : Int) - 1)

def findIntervalIdx (b : T) (ts : Int) : Int :=
  if records b = 0 then 0 else (cntLE b ts : Int) - 1

/-- `(readRecord(0) with idx := b.idx, readRecord(recs-1))`; the block number is not represented -/
def theBlockInterval : T → Iv
  | .leaf recs => ⟨⟨(recs.headD zeroPt).ts, 0⟩, recs.getLastD zeroPt⟩
  | .node _ keys _ last => ⟨⟨keys.headD 0, 0⟩, last⟩

/-- `setLastInterval(it)`; at level > 0 `it.p0.idx` is a block number: `kid` is that block -/
def setLastInterval (b : T) (it : Iv) (kid : T) : T :=
  match b with
  | .leaf recs =>
    if recs.length = 0 then .leaf [it.p0, it.p1]
    else .leaf (recs.take (recs.length - 2) ++ [it.p0, it.p1])
  | .node l keys kids _ =>
    match keys with
    | [] => .node l [it.p0.ts] [kid] it.p1
    | _ :: _ => .node l (keys.dropLast ++ [it.p0.ts]) (kids.take (keys.length - 1) ++ [kid]) it.p1

def appendInterval (m : Nat) (b : T) (it : Iv) : Res :=
  let recs := records b
  if recs = m then (b, (recsOf b).getLastD zeroPt, some .full)
  else
    match b with
    | .leaf rs =>
      if recs = 0 then (.leaf [it.p0, it.p1], it.p1, none)
      else (.leaf (rs ++ [it.p1]), it.p1, none)
    | .node l keys kids last =>
      if recs = 0 then (.node l [it.p0.ts] kids it.p1, it.p1, none)
      else (.node l (keys ++ [last.ts]) kids it.p1, it.p1, none)   -- the child of the new interval does not exist yet

/-- drops the last record (both when 2 are left); at level > 0 the child of the last interval is freed -/
def removeLastInterval (b : T) : T :=
  let recs := records b
  if recs = 0 then b
  else
    match b with
    | .leaf rs => if recs = 2 then .leaf [] else .leaf rs.dropLast
    | .node l keys kids last =>
      if recs = 2 then .node l [] [] last
      else .node l keys.dropLast (kids.take (keys.length - 1)) ⟨keys.getLastD 0, 0⟩

def removeLoop : Nat → T → T
  | 0, b => b
  | n+1, b => removeLoop n (removeLastInterval b)

/-- a just arranged (zeroed) block with its level set -/
def emptyBlock (lvl : Nat) : T := if lvl = 0 then .leaf [] else .node lvl [] [] zeroPt

/-- `readBlock(readRecord(i).idx)` -/
def kidAt (b : T) (i : Nat) : T :=
  match b with
  | .leaf _ => .leaf []
  | .node _ _ kids _ => kids.getD i (.leaf [])

/-- the child block is mutated in place in the real code -/
def setKid (b : T) (i : Nat) (k : T) : T :=
  match b with
  | .leaf _ => b
  | .node l keys kids last => .node l keys (kids.set i k) last

def reduce (r r1 : Pt) : Pt := ⟨min r.ts r1.ts, min r.idx r1.idx⟩

/-- the `for` loop of `block.addInterval` at level > 0; `addKid` is `lb.addInterval` -/
def upperLoop (m : Nat) (addKid : T → Iv → Res) : Nat → T → Iv → Nat → Bool → Res
  | 0, b, _, _, _ => (b, zeroPt, some .corrupted)
  | n+1, b, it, insIdx, newBlock =>
    let lb := if newBlock then emptyBlock (level b - 1) else kidAt b insIdx
    match addKid lb it with
    | (lb', lr, none) => (setLastInterval b (theBlockInterval lb') lb', lr, none)
    | (_, lr, some .corrupted) => (b, lr, some .corrupted)
    | (lb', lr, some .full) =>
      -- the child keeps what the failed call did to it; a fresh block that failed is leaked
      let b1 := if newBlock then b else setKid b insIdx lb'
      match appendInterval m b1 it with
      | (_, _, some _) => (b1, lr, some .full)
      | (b2, _, none) => upperLoop m addKid n b2 { it with p0 := lr } insIdx true

/-- `block.addInterval`; `d` bounds the depth -/
def blockAdd (m : Nat) : Nat → T → Iv → Res
  | 0, b, _ => (b, zeroPt, some .corrupted)
  | d+1, b, it =>
    let insIdx := findIntervalInsertIdx b it.p0.ts
    let ints := intervals b
    match b with
    | .leaf recs =>
      if insIdx = (ints : Int) then appendInterval m b it
      else
        -- readRecord(ints) is the last record
        let p1 : Pt := if ints > 0 then ⟨max it.p1.ts (recs.getLastD zeroPt).ts, it.p1.idx⟩ else it.p1
        if insIdx < 0 then
          let p0 := if ints > 0 then reduce it.p0 (recs.headD zeroPt) else it.p0
          (setLastInterval (.leaf []) ⟨p0, p1⟩ (.leaf []), p1, none)
        else
          let p0 := recs.getD insIdx.toNat zeroPt
          (setLastInterval (.leaf (recs.take (insIdx.toNat + 2))) ⟨p0, p1⟩ (.leaf []), p1, none)
    | .node .. =>
      -- remove all intervals that go after insIdx
      let b1 := removeLoop ((ints : Int) - (insIdx + 1)).toNat b
      let ints1 := intervals b1
      upperLoop m (blockAdd m d) (m + 1) b1 it insIdx.toNat (ints1 == 0)

mutual
/-- `prune`: drops upper blocks with a single interval -/
def prune : T → T
  | .leaf recs => .leaf recs
  | .node l keys kids last =>
    if intervals (.node l keys kids last) > 1 then .node l keys kids last
    else pruneL kids (.node l keys kids last)
def pruneL : List T → T → T
  | [], b => b
  | k :: _, _ => prune k
end

def makeRootFor (br : T) : T :=
  setLastInterval (.node (level br + 1) [] [] zeroPt) (theBlockInterval br) br

/-- the loop of `ckindex.addInterval`; `none` = an error or the bound exhausted -/
def addLoop (m : Nat) : Nat → T → Iv → Option T
  | 0, _, _ => none
  | n+1, b, it =>
    match blockAdd m (level b + 1) b it with
    | (b', lr, some .full) => addLoop m n (makeRootFor b') { it with p0 := lr }
    | (_, _, some .corrupted) => none
    | (b', _, none) => some (prune b')

/-- `ckindex.addInterval`; the empty index (`idx < 0`: a fresh level-0 block) is `leaf []` -/
def add (m : Nat) (t : T) (it : Iv) : Option T := addLoop m 8 t it

def pairs : List Pt → List Iv
  | a :: b :: r => ⟨a, b⟩ :: pairs (b :: r)
  | _ => []

mutual
def traversal : T → List Iv
  | .leaf recs => pairs recs
  | .node _ _ kids _ => traversalL kids
def traversalL : List T → List Iv
  | [] => []
  | k :: ks => traversal k ++ traversalL ks
end

/-- the index as a point list, the way the harness prints it: `p0` of the first interval, then every `p1` -/
def points (t : T) : List Pt :=
  match traversal t with
  | [] => []
  | iv :: r => iv.p0 :: (iv :: r).map (·.p1)

mutual
/-- `readFirstRecordInTheTree` -/
def firstRec : T → Pt
  | .leaf recs => recs.headD zeroPt
  | .node _ keys kids _ => match keys with | [] => zeroPt | _ :: _ => firstRecL kids
def firstRecL : List T → Pt
  | [] => zeroPt
  | k :: _ => firstRec k
end

mutual
/-- `readLastRecordInTheTree`: descends into the child of record `recs - 2` -/
def lastRec : T → Pt
  | .leaf recs => recs.getLastD zeroPt
  | .node _ keys kids _ => match keys with | [] => zeroPt | _ :: _ => lastRecL kids (keys.length - 1)
def lastRecL : List T → Nat → Pt
  | [], _ => zeroPt
  | k :: _, 0 => lastRec k
  | _ :: ks, i+1 => lastRecL ks i
end

mutual
/-- `grEqInt`; `none` = `errAllMatches` -/
def grEq : T → Int → Option Pt
  | .leaf recs, ts =>
    let i := findIntervalIdx (.leaf recs) ts
    if i < 0 then none
    else if i = (intervals (.leaf recs) : Int) then some (lastRec (.leaf recs))
    else some (recs.getD i.toNat zeroPt)
  | .node l keys kids last, ts =>
    let i := findIntervalIdx (.node l keys kids last) ts
    if i < 0 then none
    else if i = (intervals (.node l keys kids last) : Int) then some (lastRec (.node l keys kids last))
    else grEqL kids i.toNat ts
def grEqL : List T → Nat → Int → Option Pt
  | [], _, _ => none
  | k :: _, 0, ts => grEq k ts
  | _ :: ks, i+1, ts => grEqL ks i ts
end

mutual
/-- `lessInt`; `none` = `errAllMatches` -/
def less : T → Int → Option Pt
  | .leaf recs, ts =>
    let i := findIntervalIdx (.leaf recs) ts
    if i < 0 then some (firstRec (.leaf recs))
    else if i = (intervals (.leaf recs) : Int) then none
    else some (recs.getD (i.toNat + 1) zeroPt)
  | .node l keys kids last, ts =>
    let i := findIntervalIdx (.node l keys kids last) ts
    if i < 0 then some (firstRec (.node l keys kids last))
    else if i = (intervals (.node l keys kids last) : Int) then none
    else lessL kids i.toNat ts
def lessL : List T → Nat → Int → Option Pt
  | [], _, _ => none
  | k :: _, 0, ts => less k ts
  | _ :: ks, i+1, ts => lessL ks i ts
end

def rootLevel (t : T) : Nat := level t

end Logrange.ITree
