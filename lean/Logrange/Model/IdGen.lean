import Logrange.Generated.C06
/-!
# Partition source ids across restarts (`pkg/utils/simpleid.go`, `pkg/tindex/idgen.go`) and the cursor cache's query check

`utils.init()` seeds a process-wide counter once: `(uint64(time.Now().UnixNano()) & 0xFFFFFFFFFFFF0000) | hostId16`;
`NextSimpleId()` adds `0x10000` per id; `tindex.newSrc()` spells the counter `%X%02X`. Arithmetic model (for clock readings below
2^64 and a host id below 2^16 — the bit identities `x & 0xFFFFFFFFFFFF0000 = x / 65536 * 65536` and `| h = + h` are compared
with Go's uint64 operations by the harness, section `idgen`): one id per TICK of 65 536 ns. The ids are persistent (journal
names, values of `tindex.dat`), so what `TIndexId`'s "a created partition gets a fresh id" needs across restarts is that a later
process never re-issues an id of an earlier one.
-/
namespace Logrange.IdGen

def tick : Nat := 65536

/-- the counter after `init()` in a process that starts at clock reading `t` (ns) with host id `h` -/
def seedN (t h : Nat) : Nat := t / tick * tick + h

/-- the `k`-th id (k ≥ 1) of that process -/
def idN (t h k : Nat) : Nat := seedN t h + k * tick

/-- the seeded-change variant `uint64(time.Now().Unix()) << 16 | h`: one id per SECOND -/
def seedS (tsec h : Nat) : Nat := tsec * 65536 + h
def idS (tsec h k : Nat) : Nat := seedS tsec h + k * 65536

/-! ## the cursor cache: which query does a request get served from?

`provider.GetOrCreate` looks a cached cursor up by `state.Id` and calls `ApplyState`; a cursor that refuses the state is not used
and a new one is built from the request's own query text. `checkQuery` = `ApplyState` compares the query texts (regenerated
fact `Generated.C06.applyStateChecksQuery`). -/

structure Held where
  id : Nat
  query : List UInt8
deriving DecidableEq, Repr

/-- the query text the cursor that serves request `(rid, q)` was built from -/
def servingQuery (checkQuery : Bool) (cache : List Held) (rid : Nat) (q : List UInt8) : List UInt8 :=
  match cache.find? (fun h => h.id == rid) with
  | some h => if !checkQuery || h.query == q then h.query else q
  | none => q

end Logrange.IdGen
