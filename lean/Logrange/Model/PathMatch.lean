import Logrange.Go.Basic
/-!
# Model of Go's `path.Match` (go 1.23.5, `path/match.go`) over byte strings

Mirrors `Match`, `scanChunk`, `matchChunk`, `getEsc` and the class loop function by function.
Result: `some true/false`, or `none` = `ErrBadPattern`. Runes are decoded with `utf8.DecodeRuneInString`
(`decodeRune`), so patterns and names that are not valid UTF-8 behave as in Go.
Loops carry fuel; the wrappers pass fuel that is never exhausted (length of what is consumed + 2).
-/
namespace Logrange.PathMatch

def runeError : Nat := 0xFFFD

/-- `utf8.DecodeRune`: (rune, width); invalid → (RuneError, 1); empty → (RuneError, 0) -/
def decodeRune (s : Bytes) : Nat × Nat :=
  match s with
  | [] => (runeError, 0)
  | b0 :: rest =>
    let c0 := b0.toNat
    if c0 < 0x80 then (c0, 1)
    else if c0 < 0xC2 then (runeError, 1)
    else if c0 < 0xE0 then
      match rest with
      | b1 :: _ => let c1 := b1.toNat
        if 0x80 ≤ c1 && c1 ≤ 0xBF then ((c0 - 0xC0) * 64 + (c1 - 0x80), 2) else (runeError, 1)
      | _ => (runeError, 1)
    else if c0 < 0xF0 then
      match rest with
      | b1 :: b2 :: _ => let c1 := b1.toNat; let c2 := b2.toNat
        let lo := if c0 == 0xE0 then 0xA0 else 0x80
        let hi := if c0 == 0xED then 0x9F else 0xBF
        if lo ≤ c1 && c1 ≤ hi && 0x80 ≤ c2 && c2 ≤ 0xBF then
          ((c0 - 0xE0) * 4096 + (c1 - 0x80) * 64 + (c2 - 0x80), 3) else (runeError, 1)
      | _ => (runeError, 1)
    else if c0 < 0xF5 then
      match rest with
      | b1 :: b2 :: b3 :: _ => let c1 := b1.toNat; let c2 := b2.toNat; let c3 := b3.toNat
        let lo := if c0 == 0xF0 then 0x90 else 0x80
        let hi := if c0 == 0xF4 then 0x8F else 0xBF
        if lo ≤ c1 && c1 ≤ hi && 0x80 ≤ c2 && c2 ≤ 0xBF && 0x80 ≤ c3 && c3 ≤ 0xBF then
          ((c0 - 0xF0) * 262144 + (c1 - 0x80) * 4096 + (c2 - 0x80) * 64 + (c3 - 0x80), 4) else (runeError, 1)
      | _ => (runeError, 1)
    else (runeError, 1)

def STAR : UInt8 := 42
def LBR : UInt8 := 91
def RBR : UInt8 := 93
def SL : UInt8 := 47
def QM : UInt8 := 63
def CARET : UInt8 := 94
def DASH : UInt8 := 45
def BS : UInt8 := 92

/-- the scanning loop of `scanChunk`: index of the first unbracketed `*` -/
def scanLoop (fuel : Nat) (r : Bytes) (i : Nat) (inrange : Bool) : Nat :=
  match fuel with
  | 0 => i
  | fuel+1 =>
    match r with
    | [] => i
    | c :: r' =>
      if c == BS then
        match r' with
        | _ :: r'' => scanLoop fuel r'' (i + 2) inrange      -- skip the escaped byte
        | [] => i + 1                                         -- trailing backslash
      else if c == LBR then scanLoop fuel r' (i + 1) true
      else if c == RBR then scanLoop fuel r' (i + 1) false
      else if c == STAR && !inrange then i
      else scanLoop fuel r' (i + 1) inrange

/-- `scanChunk`: (star, chunk, rest) -/
def scanChunk (pattern : Bytes) : Bool × Bytes × Bytes :=
  let stars := (pattern.takeWhile (· == STAR)).length
  let p := pattern.drop stars
  let i := scanLoop (p.length + 1) p 0 false
  (stars > 0, p.take i, p.drop i)

/-- `getEsc`: (rune, rest) or `none` = ErrBadPattern -/
def getEsc (chunk : Bytes) : Option (Nat × Bytes) :=
  match chunk with
  | [] => none
  | c :: _ =>
    if c == DASH || c == RBR then none else
    let chunk1 := if c == BS then chunk.drop 1 else chunk
    if chunk1.isEmpty then none else
    let (r, n) := decodeRune chunk1
    if r == runeError && n == 1 then none else
    let nchunk := chunk1.drop n
    if nchunk.isEmpty then none else some (r, nchunk)

/-- the class body after the optional `^`: (matched?, rest after `]`) or `none` (bad pattern) -/
def classLoop (fuel : Nat) (chunk : Bytes) (r : Nat) (haveR : Bool) (nrange : Nat) (m : Bool) : Option (Bool × Bytes) :=
  match fuel with
  | 0 => none
  | fuel+1 =>
    match chunk with
    | c :: rest =>
      if c == RBR && nrange > 0 then some (m, rest) else
      match getEsc chunk with
      | none => none
      | some (lo, ch1) =>
        match ch1 with
        | d :: ch2 =>
          if d == DASH then
            match getEsc ch2 with
            | none => none
            | some (hi, ch3) => classLoop fuel ch3 r haveR (nrange + 1) (m || (haveR && lo ≤ r && r ≤ hi))
          else classLoop fuel ch1 r haveR (nrange + 1) (m || (haveR && lo ≤ r && r ≤ lo))
        | [] => none   -- unreachable: getEsc guarantees a non-empty rest
    | [] => none

/-- `matchChunk`: `none` = ErrBadPattern; `some (rest, ok)` -/
def matchChunk (fuel : Nat) (chunk s : Bytes) (failed : Bool) : Option (Bytes × Bool) :=
  match fuel with
  | 0 => none
  | fuel+1 =>
    match chunk with
    | [] => if failed then some ([], false) else some (s, true)
    | c :: crest =>
      let failed := failed || s.isEmpty
      if c == LBR then
        -- when not failed a rune is consumed from s; when failed r stays 0 (Go's zero value)
        let (r, n) := if !failed then decodeRune s else (0, 0)
        let s' := if !failed then s.drop n else s
        let (negated, body) := match crest with
          | x :: b => if x == CARET then (true, b) else (false, crest)
          | [] => (false, crest)
        match classLoop (body.length + 2) body r true 0 false with
        | none => none
        | some (m, rest) => matchChunk fuel rest s' (failed || (m == negated))
      else if c == QM then
        if !failed then
          let f2 := (match s with | x :: _ => x == SL | [] => false)
          let (_, n) := decodeRune s
          matchChunk fuel crest (s.drop n) f2
        else matchChunk fuel crest s failed
      else
        -- '\\' falls through to the literal comparison of the next byte
        let lit? : Option (UInt8 × Bytes) :=
          if c == BS then (match crest with | x :: r => some (x, r) | [] => none) else some (c, crest)
        match lit? with
        | none => none
        | some (x, rest) =>
          if !failed then
            match s with
            | y :: s' => matchChunk fuel rest s' (x != y)
            | [] => matchChunk fuel rest s true
          else matchChunk fuel rest s failed

def mc (chunk s : Bytes) : Option (Bytes × Bool) := matchChunk (chunk.length + 2) chunk s false

/-- "Before returning false with no error, check that the remainder of the pattern is syntactically valid." -/
def validateRest (fuel : Nat) (pattern : Bytes) : Bool :=
  match fuel with
  | 0 => true
  | fuel+1 =>
    if pattern.isEmpty then true else
    let (_, chunk, rest) := scanChunk pattern
    match mc chunk [] with
    | none => false
    | some _ => if rest.length < pattern.length then validateRest fuel rest else true

/-- the star loop: try `name[i+1:]` for `i = 0 …` while `name[i] != '/'`.
`none` = bad pattern; `some none` = no position matched; `some (some t)` = continue with `name := t` -/
def starLoop (fuel : Nat) (chunk : Bytes) (name : Bytes) (patEmpty : Bool) : Option (Option Bytes) :=
  match fuel with
  | 0 => some none
  | fuel+1 =>
    match name with
    | [] => some none
    | c :: rest =>
      if c == SL then some none else
      match mc chunk rest with
      | none => none
      | some (t, true) => if patEmpty && !t.isEmpty then starLoop fuel chunk rest patEmpty else some (some t)
      | some (_, false) => starLoop fuel chunk rest patEmpty

def matchGo (fuel : Nat) (pattern name : Bytes) : Option Bool :=
  match fuel with
  | 0 => none
  | fuel+1 =>
    if pattern.isEmpty then some name.isEmpty else
    let (star, chunk, rest) := scanChunk pattern
    if star && chunk.isEmpty then some (!name.contains SL) else
    match mc chunk name with
    | none => none          -- Go tests `ok` first, but ok implies err == nil
    | some (t, ok) =>
      if ok && (t.isEmpty || !rest.isEmpty) then matchGo fuel rest t
      else if star then
        match starLoop (name.length + 1) chunk name rest.isEmpty with
        | none => none
        | some (some t') => matchGo fuel rest t'
        | some none => if validateRest (rest.length + 1) rest then some false else none
      else if validateRest (rest.length + 1) rest then some false else none

/-- `path.Match(pattern, name)`: `none` = ErrBadPattern -/
def pathMatch (pattern name : Bytes) : Option Bool := matchGo (pattern.length + 2) pattern name

end Logrange.PathMatch
