import Logrange.Model.ChunkHist
/-!
# C02 — write notifications of one chunk delivered in ANY order (concurrent writers), Points level

`Service.Write` stores a batch under the chunk's write lock but calls `onWriteCIndex` after the lock is gone: with several
writers the notifications `(firstRec, lastRec, hull)` of the batches of one chunk reach `cindex.onWrite` in any order.
`notify` is `cindex.onWrite` for one chunk with the positions explicit, in the shape of the repaired code (fix f6d29cf:
`Recs` never decreases — the model's `n` —, a notification whose last record is not beyond the last indexed one leaves
the tree alone): hull merge; already corrupted → nothing else; the chunk's FIRST notification names `firstRec > 0` →
corrupted (rebuild asked); late or sparse → skip; no tree and a big gap → corrupted; otherwise `addInterval`.
`Proofs/PipeHist.lean` (`notify_last`, `notify_new`) proves that `CIndex.onWrite` on the block tree refines it.
Only core Lean; everything is computable.
-/
namespace Logrange.Reorder
open Logrange.Points Logrange.ChunkHist

/-- one notification: positions `f … l` of the chunk, hull `[mn, mx]` -/
structure Note where
  f : Nat
  l : Nat
  mn : Int
  mx : Int
deriving DecidableEq, Repr

/-- proposed repair of F-C02-901 (regenerated fact `onWriteLateByRecs`, false on the current tree): the index has been told
about the batch's records already — by a later notification or by a rebuild that scanned them -/
def lateByRecs (c : ChunkIdx) (b : Note) : Prop := Generated.C02.onWriteLateByRecs = true ∧ b.l + 1 ≤ c.n
instance (c : ChunkIdx) (b : Note) : Decidable (lateByRecs c b) := by unfold lateByRecs; exact inferInstance

def notify (sparse bigGap : Nat) (c : ChunkIdx) (b : Note) : ChunkIdx :=
  let hull : Hull := newHull c.hull b.mn b.mx
  let n' := max c.n (b.l + 1)
  if c.corrupted = true then { c with n := n', hull := some hull }
  else if c.hull = none ∧ b.f > 0 then { c with n := n', hull := some hull, corrupted := true, pts := [] }
  else if lateByRecs c b ∨ (c.lastRec > 0 ∧ (b.l ≤ c.lastRec ∨ b.l - c.lastRec < sparse)) then { c with n := n', hull := some hull }
  else if c.pts = [] ∧ b.l - c.lastRec > bigGap then { c with n := n', hull := some hull, corrupted := true, pts := [] }
  else { c with n := n', hull := some hull, pts := add c.pts ⟨⟨b.mn, b.f⟩, ⟨b.mx, b.l⟩⟩, lastRec := b.l }

/-- the chunk's index entry after the notifications `ds`, in the order of the list -/
def deliver (sparse bigGap : Nat) (ds : List Note) : ChunkIdx := ds.foldl (notify sparse bigGap) {}

end Logrange.Reorder
