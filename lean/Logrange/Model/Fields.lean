import Logrange.Go.Basic
/-!
# Model of `field.Fields` (`pkg/model/field/field.go`): the binary field encoding and `Fields.Value`

A `Fields` value is a Go string: a sequence of length-prefixed items (one length byte, then that many
bytes), alternating field name, field value.

* `valueGo` mirrors the loop of `Fields.Value` on arbitrary bytes, including the places where Go panics on a
  malformed encoding (slice bounds / index out of range) — `none`.
* `decode` is the reference reading of the encoding (SPEC side): the list of (name, value) pairs, or `none`
  when the bytes are not a well-formed encoding. `encode` is what `NewFieldsFromSlice` writes.
* `firstValue` is the documented meaning of a look-up: the value of the first pair with that name.
-/
namespace Logrange.Fields

/-- `Fields.Value(name)`; `none` = the Go code panics (malformed encoding).
`for idx < len(f) { n := int(f[idx]); if even && n == len(name) && string(f[idx+1:idx+n+1]) == name {…}; even = !even; idx += n+1 }` -/
def valueGo (name : Bytes) : Nat → Bytes → Bool → Option Bytes
  | 0, _, _ => some []
  | _+1, [], _ => some []
  | fuel+1, n :: rest, even =>
    if even && n.toNat == name.length then
      -- the slice f[idx+1:idx+n+1] is evaluated: panics when it runs past the end
      if rest.length < n.toNat then none
      else if rest.take n.toNat == name then
        -- idx += n+1; n := int(f[idx]); return string(f[idx+1:idx+n+1])
        match rest.drop n.toNat with
        | [] => none
        | m :: r2 => if r2.length < m.toNat then none else some (r2.take m.toNat)
      else valueGo name fuel (rest.drop n.toNat) (!even)
    else valueGo name fuel (rest.drop n.toNat) (!even)

/-- `Fields.Value` with its panic made visible -/
def valueP (f name : Bytes) : Option Bytes := valueGo name (f.length + 1) f true

/-- `Fields.Value` as the WHERE evaluator uses it (on a well-formed encoding it never panics: `value_wf`) -/
def value (f name : Bytes) : Bytes := (valueP f name).getD []

/-- reference decoder: all (name, value) pairs; `none` = not a well-formed encoding -/
def decode : Nat → Bytes → Option (List (Bytes × Bytes))
  | 0, _ => none
  | _+1, [] => some []
  | fuel+1, n :: rest =>
    if rest.length < n.toNat then none else
    match rest.drop n.toNat with
    | [] => none
    | m :: r2 =>
      if r2.length < m.toNat then none else
      (decode fuel (r2.drop m.toNat)).map (fun ps => (rest.take n.toNat, r2.take m.toNat) :: ps)

def pairs? (f : Bytes) : Option (List (Bytes × Bytes)) := decode (f.length + 1) f

/-- a well-formed field encoding -/
def WF (f : Bytes) : Prop := ∃ ps, pairs? f = some ps

instance (f : Bytes) : Decidable (WF f) :=
  match h : pairs? f with
  | some ps => isTrue ⟨ps, h⟩
  | none => isFalse (by intro ⟨ps, hp⟩; rw [h] at hp; cases hp)

/-- the pairs of a field encoding (empty when malformed) -/
def pairs (f : Bytes) : List (Bytes × Bytes) := (pairs? f).getD []

/-- documented meaning of a look-up: the value of the first pair whose name is `name` -/
def firstValue (ps : List (Bytes × Bytes)) (name : Bytes) : Option Bytes :=
  (ps.find? (fun p => p.1 == name)).map (·.2)

/-- what `NewFieldsFromSlice` writes for one pair / a list of pairs (names and values of at most 255 bytes) -/
def encPair (kv : Bytes × Bytes) : Bytes :=
  UInt8.ofNat kv.1.length :: kv.1 ++ (UInt8.ofNat kv.2.length :: kv.2)

def encode (ps : List (Bytes × Bytes)) : Bytes := ps.flatMap encPair

end Logrange.Fields
