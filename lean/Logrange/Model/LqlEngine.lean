import Logrange.Model.LqlLexer
/-!
# participle v0.2.1 combinator semantics (nodes.go), as an interpreter over `Node`

Nodes return *values*, *no match* (`nil`) or *error*. The two subtleties of DESIGN Appendix A.8 are reproduced:
(i) a sequence whose children all matched emptily returns Go's `nil` slice, read as "no match" by every caller;
(ii) values survive swallowed errors (`hv`): an optional / repeated group that abandons a branch after a soft
error still appends the values that came back *with* the error.
The one-token `Stop` rule: a failing branch whose cursor went more than `lookahead` (= 1) tokens beyond the branch
point is a hard error.  Captures are recorded per struct (`Caps`); their typed application (`conform`, `Capture`
hooks) is `LqlAst.lean`.
-/
namespace Logrange.Lql

/-- generic AST: what the engine collects, before typed application of captures -/
inductive Val
  | str (b : Bytes)
  | node (name : String) (fields : List (String × List Val))

abbrev Caps := List (String × List Val)

inductive Res
  | ok (vals : List Val) (caps : Caps) (cur : Nat)
  | noMatch
  | err (cur : Nat) (hv : Bool)    -- cursor reached by the failing branch; hv = Go returned a non-empty value list with the error

def lookahead : Nat := 1

structure Ctx where
  toks : List Tok
  grammar : String → Option Node

def peek (c : Ctx) (cur : Nat) : Option Tok := c.toks[cur]?

/-- `literal.Parse`: case-insensitive for Keyword tokens (participle.CaseInsensitive("Keyword")), exact otherwise;
the token *type* is not looked at -/
def litMatch (tk : Tok) (s : Bytes) : Bool :=
  if tk.t == .keyword then eqFold tk.v s else tk.v == s

mutual
def parse (c : Ctx) : Nat → Node → Nat → Res
  | 0, _, cur => .err cur false
  | fuel+1, n, cur =>
    match n with
    | .ref t => (match peek c cur with
        | some tk => if tk.t == t then .ok [.str tk.v] [] (cur+1) else .noMatch
        | none => .noMatch)
    | .lit s => (match peek c cur with
        | some tk => if litMatch tk s then .ok [.str tk.v] [] (cur+1) else .noMatch
        | none => .noMatch)
    | .capture f n' => (match parse c fuel n' cur with
        | .ok vals caps cur' => .ok [.str []] (caps ++ [(f, vals)]) cur'   -- returns [parent]
        | .noMatch => .noMatch
        | .err k _ => .err k true)
    | .strct name => (match c.grammar name with
        | none => .err cur false
        | some body => (match parse c fuel body cur with
            | .ok _ caps cur' => .ok [.node name caps] [] cur'
            | .noMatch => .noMatch
            | .err k _ => .err k true))
    | .seq ns => parseSeq c fuel ns cur true [] []
    | .disj ns => parseDisj c fuel ns cur none
    | .group n' .once => parse c fuel n' cur
    | .group n' .zeroOrOne => (match parse c fuel n' cur with
        | .ok vals caps cur' => .ok vals caps cur'
        | .noMatch => .ok [] [] cur
        | .err k hv => if k > cur + lookahead then .err k hv else .ok (if hv then [.str []] else []) [] cur)
    | .group n' .zeroOrMore => parseRep c fuel n' cur [] []
def parseSeq (c : Ctx) : Nat → List Node → Nat → Bool → List Val → Caps → Res
  | 0, _, cur, _, _, _ => .err cur false
  | _, [], cur, _, vals, caps => if vals.isEmpty then .noMatch else .ok vals caps cur
  | fuel+1, n :: ns, cur, first, vals, caps =>
    match parse c fuel n cur with
    | .ok v cp cur' => parseSeq c fuel ns cur' false (vals ++ v) (caps ++ cp)
    | .noMatch => if first then .noMatch else .err cur (!vals.isEmpty)
    | .err k hv => .err k (hv || !vals.isEmpty)
def parseDisj (c : Ctx) : Nat → List Node → Nat → Option (Nat × Bool) → Res
  | 0, _, cur, _ => .err cur false
  | _, [], _, deepest => (match deepest with | some (k, hv) => .err k hv | none => .noMatch)
  | fuel+1, n :: ns, cur, deepest =>
    match parse c fuel n cur with
    | .ok vals caps cur' => .ok vals caps cur'
    | .noMatch => parseDisj c fuel ns cur deepest
    | .err k hv =>
      if k > cur + lookahead then .err k hv
      else
        let d := match deepest with | some (d, dh) => if k ≥ d then some (k, hv) else some (d, dh) | none => some (k, hv)
        parseDisj c fuel ns cur d
def parseRep (c : Ctx) : Nat → Node → Nat → List Val → Caps → Res
  | 0, _, cur, _, _ => .err cur false
  | fuel+1, n, cur, vals, caps =>
    match parse c fuel n cur with
    | .ok v cp cur' => if cur' == cur then .ok (vals ++ v) (caps ++ cp) cur' else parseRep c fuel n cur' (vals ++ v) (caps ++ cp)
    | .noMatch => .ok vals caps cur
    | .err k hv => if k > cur + lookahead then .err k (hv || !vals.isEmpty) else .ok (if hv then vals ++ [.str []] else vals) caps cur
end

/-- `Parser.ParseString` on a token stream with `root` as the grammar's root struct: the root must match and no
token may remain -/
def runEngine (g : String → Option Node) (root : String) (toks : List Tok) : Option Val :=
  match parse ⟨toks, g⟩ (60 * toks.length + 200) (.strct root) 0 with
  | .ok [v] _ cur => if cur == toks.length then some v else none
  | _ => none

end Logrange.Lql
