import Logrange.Model.Tags
/-!
# `pkg/lql/tagseval.go`: the tag-expression builder, its reference evaluator, and Go's `path.Match`

The AST is participle's result for `Source` / `Expression` (pkg/lql/parser.go) with the repetition
`@@ { "OR" @@ }` as a list type (`OrList` / `AndList`; the builder handles the empty list too).
An `Identifier` with 0 parameters is `leaf`, with exactly one `call`, with more `bad` (the builder rejects it).
`strings.ToUpper/ToLower` and `path.Match` are parameters (`StrOps`) of the builder and of the reference
evaluator; the driver instantiates them with an ASCII case mapping and the `pathMatch` model below.
-/
namespace Logrange.PathMatch
open Go Logrange.Quote

def STAR : UInt8 := 42
def LBR : UInt8 := 91
def RBR : UInt8 := 93
def SL : UInt8 := 47
def QM : UInt8 := 63
def CARET : UInt8 := 94
def DASH : UInt8 := 45

/-- scanChunk: (star, chunk, rest) -/
def scanChunk (pattern : Bytes) : Bool × Bytes × Bytes :=
  let stars := (pattern.takeWhile (· == STAR)).length
  let p := pattern.drop stars
  let rec scan (fuel : Nat) (r : Bytes) (i : Nat) (inrange : Bool) : Nat :=
    match fuel with
    | 0 => i
    | fuel+1 =>
      match r with
      | [] => i
      | c :: r' =>
        if c == BS then
          match r' with
          | _ :: r'' => scan fuel r'' (i + 2) inrange      -- skip escaped char
          | [] => i + 1                                     -- trailing backslash: i++ by loop only
        else if c == LBR then scan fuel r' (i + 1) true
        else if c == RBR then scan fuel r' (i + 1) false
        else if c == STAR && !inrange then i
        else scan fuel r' (i + 1) inrange
  let i := scan (p.length + 1) p 0 false
  (stars > 0, p.take i, p.drop i)

/-- getEsc: (rune, rest) or none -/
def getEsc (chunk : Bytes) : Option (Nat × Bytes) :=
  match chunk with
  | [] => none
  | c :: _ =>
    if c == DASH || c == RBR then none else
    let chunk1 := if c == BS then chunk.drop 1 else chunk
    if chunk1.isEmpty then none else
    let (r, n) := decodeRune chunk1
    if r == runeError && n == 1 then none else
    let nchunk := chunk1.drop n
    if nchunk.isEmpty then none else some (r, nchunk)

/-- class body after optional '^': returns (matched?, rest after ']') or none (bad pattern) -/
def classLoop (fuel : Nat) (chunk : Bytes) (r : Nat) (haveR : Bool) (nrange : Nat) (m : Bool) : Option (Bool × Bytes) :=
  match fuel with
  | 0 => none
  | fuel+1 =>
    match chunk with
    | c :: rest => 
      if c == RBR && nrange > 0 then some (m, rest) else
      match getEsc chunk with
      | none => none
      | some (lo, ch1) =>
        match ch1 with
        | d :: ch2 =>
          if d == DASH then
            match getEsc ch2 with
            | none => none
            | some (hi, ch3) => classLoop fuel ch3 r haveR (nrange + 1) (m || (haveR && lo ≤ r && r ≤ hi))
          else classLoop fuel ch1 r haveR (nrange + 1) (m || (haveR && lo ≤ r && r ≤ lo))
        | [] => none   -- unreachable: getEsc guarantees non-empty rest
    | [] => (match getEsc chunk with | none => none | some _ => none)

/-- matchChunk: none = ErrBadPattern; some (rest, ok) -/
def matchChunk (fuel : Nat) (chunk s : Bytes) (failed : Bool) : Option (Bytes × Bool) :=
  match fuel with
  | 0 => none
  | fuel+1 =>
    match chunk with
    | [] => if failed then some ([], false) else some (s, true)
    | c :: crest =>
      let failed := failed || s.isEmpty
      if c == LBR then
        -- when not failed a rune is consumed from s; when failed r stays 0 (Go's zero value)
        let (r, n) := if !failed then decodeRune s else (0, 0)
        let s' := if !failed then s.drop n else s
        let (negated, body) := match crest with
          | x :: b => if x == CARET then (true, b) else (false, crest)
          | [] => (false, crest)
        match classLoop (body.length + 2) body r true 0 false with
        | none => none
        | some (m, rest) => matchChunk fuel rest s' (failed || (m == negated))
      else if c == QM then
        if !failed then
          let f2 := (match s with | x :: _ => x == SL | [] => false)
          let (_, n) := decodeRune s
          matchChunk fuel crest (s.drop n) f2
        else matchChunk fuel crest s failed
      else
        -- '\\' falls through to literal compare of next char
        let lit? : Option (UInt8 × Bytes) :=
          if c == BS then (match crest with | x :: r => some (x, r) | [] => none) else some (c, crest)
        match lit? with
        | none => none
        | some (x, rest) =>
          if !failed then
            match s with
            | y :: s' => matchChunk fuel rest s' (x != y)
            | [] => matchChunk fuel rest s true
          else matchChunk fuel rest s failed

def mc (chunk s : Bytes) : Option (Bytes × Bool) := matchChunk (chunk.length + 2) chunk s false

/-- validate remaining chunks against "" -/
def validateRest (fuel : Nat) (pattern : Bytes) : Bool :=
  match fuel with
  | 0 => true
  | fuel+1 =>
    if pattern.isEmpty then true else
    let (_, chunk, rest) := scanChunk pattern
    match mc chunk [] with
    | none => false
    | some _ => if rest.length < pattern.length then validateRest fuel rest else true

/-- the star loop: try name[i+1:] for i = 0.. while name[i] != '/' -/
def starLoop (fuel : Nat) (chunk : Bytes) (name : Bytes) (patEmpty : Bool) : Option (Option Bytes) :=
  -- returns none = bad pattern; some none = no position matched; some (some t) = continue with name := t
  match fuel with
  | 0 => some none
  | fuel+1 =>
    match name with
    | [] => some none
    | c :: rest =>
      if c == SL then some none else
      match mc chunk rest with
      | none => none
      | some (t, true) => if patEmpty && !t.isEmpty then starLoop fuel chunk rest patEmpty else some (some t)
      | some (_, false) => starLoop fuel chunk rest patEmpty

def matchGo (fuel : Nat) (pattern name : Bytes) : Option Bool :=
  match fuel with
  | 0 => none
  | fuel+1 =>
    if pattern.isEmpty then some name.isEmpty else
    let (star, chunk, rest) := scanChunk pattern
    if star && chunk.isEmpty then some (!name.contains SL) else
    match mc chunk name with
    | none => none          -- note: Go checks `ok` first, but ok implies err == nil
    | some (t, ok) =>
      if ok && (t.isEmpty || !rest.isEmpty) then matchGo fuel rest t
      else if star then
        match starLoop (name.length + 1) chunk name rest.isEmpty with
        | none => none
        | some (some t') => matchGo fuel rest t'
        | some none => if validateRest (rest.length + 1) rest then some false else none
      else if validateRest (rest.length + 1) rest then some false else none

def pathMatch (pattern name : Bytes) : Option Bool := matchGo (pattern.length + 2) pattern name

end Logrange.PathMatch

namespace Logrange.TagsEval
open Go Logrange.KV Logrange.Tags

inductive Op where
  | lt | gt | le | ge | ne | eq | like | contains | prefix_ | suffix | other
deriving DecidableEq, Repr, Inhabited

inductive Ident where
  | leaf (operand : Bytes)
  | call (operand : Bytes) (param : Ident)
  | bad (operand : Bytes)           -- more than one parameter
deriving Repr, Inhabited

structure Cond where
  ident : Ident
  op : Op
  value : Bytes
deriving Repr, Inhabited

mutual
  inductive OrList where
    | nil
    | cons (h : AndList) (t : OrList)
  inductive AndList where
    | nil
    | cons (h : XCond) (t : AndList)
  inductive XCond where
    | cond (not : Bool) (c : Cond)
    | expr (not : Bool) (e : OrList)
end

/-- `lql.Source` as `BuildTagsExpFuncBySource` sees it -/
inductive Source where
  | none                      -- nil source: no FROM
  | tags (m : Map)            -- FROM {tags}
  | expr (e : OrList)         -- FROM <expression>

structure StrOps where
  upper : Bytes → Bytes
  lower : Bytes → Bytes
  /-- `path.Match(pattern, name)`: `none` = `ErrBadPattern` -/
  like : Bytes → Bytes → Option Bool

def isInfix (needle hay : Bytes) : Bool :=
  needle.isEmpty || (List.range (hay.length + 1)).any (fun i => (hay.drop i).take needle.length == needle)
def hasPrefix (s p : Bytes) : Bool := s.take p.length == p
def hasSuffix (s p : Bytes) : Bool := p.length ≤ s.length && s.drop (s.length - p.length) == p

/-- `Set.Tag`: the value or "" -/
def tagOf (m : Map) (k : Bytes) : Bytes := (m.get? k).getD []

def asciiUpper (b : Bytes) : Bytes := b.map (fun c => if 97 ≤ c.toNat && c.toNat ≤ 122 then UInt8.ofNat (c.toNat - 32) else c)
def asciiLower (b : Bytes) : Bytes := b.map (fun c => if 65 ≤ c.toNat && c.toNat ≤ 90 then UInt8.ofNat (c.toNat + 32) else c)

def UPPER : Bytes := [85, 80, 80, 69, 82]
def LOWER : Bytes := [76, 79, 87, 69, 82]

/-! ## the builder (closures become Lean functions built by the same recursion) -/

/-- `buildTagIdent` -/
def buildIdent (so : StrOps) : Ident → Option (Map → Bytes)
  | .leaf operand => some (fun m => tagOf m operand)
  | .bad _ => none
  | .call operand p =>
    match buildIdent so p with
    | none => none
    | some fint =>
      let fn := so.upper operand
      if fn = UPPER then some (fun m => so.upper (fint m))
      else if fn = LOWER then some (fun m => so.lower (fint m))
      else none

/-- `buildTagCond` (the operator arrives upper-cased; LIKE is tested against "abc" first) -/
def buildCond (so : StrOps) (cn : Cond) : Option (Map → Bool) :=
  match buildIdent so cn.ident with
  | none => none
  | some tvf =>
    match cn.op with
    | .lt => some (fun m => bytesLt (tvf m) cn.value)
    | .gt => some (fun m => bytesLt cn.value (tvf m))
    | .le => some (fun m => bytesLe (tvf m) cn.value)
    | .ge => some (fun m => bytesLe cn.value (tvf m))
    | .ne => some (fun m => decide (tvf m ≠ cn.value))
    | .eq => some (fun m => decide (tvf m = cn.value))
    | .like =>
      match so.like cn.value [97, 98, 99] with
      | none => none
      | some _ => some (fun m => (so.like cn.value (tvf m)).getD false)
    | .contains => some (fun m => isInfix cn.value (tvf m))
    | .prefix_ => some (fun m => hasPrefix (tvf m) cn.value)
    | .suffix => some (fun m => hasSuffix (tvf m) cn.value)
    | .other => none

mutual
  /-- `buildOrConds` -/
  def buildOr (so : StrOps) : OrList → Option (Map → Bool)
    | .nil => some (fun _ => true)
    | .cons a .nil => buildAnd so a
    | .cons a (.cons b t) =>
      match buildAnd so a with
      | none => none
      | some efd0 =>
        match buildOr so (.cons b t) with
        | none => none
        | some efd1 => some (fun m => efd0 m || efd1 m)
  /-- `buildXConds` -/
  def buildAnd (so : StrOps) : AndList → Option (Map → Bool)
    | .nil => some (fun _ => true)
    | .cons x .nil => buildX so x
    | .cons x (.cons y t) =>
      match buildX so x with
      | none => none
      | some efd0 =>
        match buildAnd so (.cons y t) with
        | none => none
        | some efd1 => some (fun m => efd0 m && efd1 m)
  /-- `buildXCond` -/
  def buildX (so : StrOps) : XCond → Option (Map → Bool)
    | .cond nt c =>
      match buildCond so c with
      | none => none
      | some f => if nt then some (fun m => !f m) else some f
    | .expr nt e =>
      match buildOr so e with
      | none => none
      | some f => if nt then some (fun m => !f m) else some f
end

/-- `BuildTagsExpFuncBySource` -/
def buildSource (so : StrOps) : Source → Option (Map → Bool)
  | .none => some (fun _ => true)
  | .tags t => some (fun m => subsetOf t m)
  | .expr e => buildOr so e

/-! ## the reference evaluator (SPEC): the plain meaning of the expression on a tag set; `none` = not an expression -/

def identRef (so : StrOps) : Ident → Map → Option Bytes
  | .leaf operand, m => some (tagOf m operand)
  | .bad _, _ => none
  | .call operand p, m =>
    match identRef so p m with
    | none => none
    | some v =>
      if so.upper operand = UPPER then some (so.upper v)
      else if so.upper operand = LOWER then some (so.lower v)
      else none

def condRef (so : StrOps) (cn : Cond) (m : Map) : Option Bool :=
  match identRef so cn.ident m with
  | none => none
  | some v =>
    match cn.op with
    | .lt => some (bytesLt v cn.value)
    | .gt => some (bytesLt cn.value v)
    | .le => some (!bytesLt cn.value v)
    | .ge => some (!bytesLt v cn.value)
    | .ne => some (decide (v ≠ cn.value))
    | .eq => some (decide (v = cn.value))
    | .like => if (so.like cn.value [97, 98, 99]).isNone then none else some ((so.like cn.value v) == some true)
    | .contains => some (isInfix cn.value v)
    | .prefix_ => some (hasPrefix v cn.value)
    | .suffix => some (hasSuffix v cn.value)
    | .other => none

mutual
  def orRef (so : StrOps) : OrList → Map → Option Bool
    | .nil, _ => some true                      -- the empty expression selects everything (as the code)
    | .cons a .nil, m => andRef so a m
    | .cons a (.cons b t), m =>
      match andRef so a m, orRef so (.cons b t) m with
      | some x, some y => some (x || y)
      | _, _ => none
  def andRef (so : StrOps) : AndList → Map → Option Bool
    | .nil, _ => some true
    | .cons x .nil, m => xRef so x m
    | .cons x (.cons y t), m =>
      match xRef so x m, andRef so (.cons y t) m with
      | some a, some b => some (a && b)
      | _, _ => none
  def xRef (so : StrOps) : XCond → Map → Option Bool
    | .cond nt c, m => (condRef so c m).map (fun b => if nt then !b else b)
    | .expr nt e, m => (orRef so e m).map (fun b => if nt then !b else b)
end

/-- SPEC of FROM: the reference meaning of a source on a partition's tag set -/
def evalTagsRef (so : StrOps) : Source → Map → Option Bool
  | .none, _ => some true
  | .tags t, m => some (t.all (fun p => m.get? p.1 == some p.2))
  | .expr e, m => orRef so e m

end Logrange.TagsEval
