import Logrange.Model.EscapeJson
/-! Lemmas about `EscapeJsonStr` (C13): the loop passes every bounds check and ends within `|s| + 1` iterations. -/
namespace Logrange.EscapeJson
open Go Logrange Outcome

/-- a decoded rune of a non-empty string has a size between 1 and the length of the string -/
theorem decodeRune_size (s : Bytes) (h : s ≠ []) : 1 ≤ (decodeRune s).2 ∧ (decodeRune s).2 ≤ s.length := by
  unfold decodeRune
  repeat' split
  all_goals first | contradiction | (simp only [List.length_cons]; omega)

theorem flush_fine (s : Bytes) (start i : Nat) (e : Bytes) (_h1 : start ≤ i) (h2 : i ≤ s.length) :
    ∃ e', flush s start i e = .ok e' := by
  unfold flush
  split
  · have hb : (0 : Int) ≤ (start : Int) ∧ (start : Int) ≤ (i : Int) ∧ (i : Int) ≤ (s.length : Int) := by omega
    rw [slice_ok_of hb, bind_ok]
    exact ⟨_, rfl⟩
  · exact ⟨_, rfl⟩

/-- `r` is neither a panic nor out of fuel -/
def Ends (r : Outcome Bytes) : Prop := r.isPanic = false ∧ r.isOutOfFuel = false

/-- the loop invariant `start ≤ i ≤ len(s)` and the measure `len(s) − i < fuel` -/
theorem loop_ends (s : Bytes) : ∀ (fuel i start : Nat) (e : Bytes), start ≤ i → i ≤ s.length → s.length - i < fuel →
    Ends (loop true s fuel i start e)
  | 0, _, _, _, _, _, h => by omega
  | fuel + 1, i, start, e, h1, h2, h3 => by
    unfold loop
    split
    · rename_i hi
      have hidx : Go.index s i = .ok s[i] := by
        unfold Go.index
        simp [hi]
      rw [hidx, bind_ok]
      simp only []
      split
      · split
        · exact loop_ends s fuel (i + 1) start e (by omega) (by omega) (by omega)
        · obtain ⟨e', he'⟩ := flush_fine s start i e h1 h2
          rw [he', bind_ok]
          exact loop_ends s fuel (i + 1) (i + 1) _ (by omega) (by omega) (by omega)
      · rw [sliceFrom_ok_of h2, bind_ok]
        have hne : s.drop i ≠ [] := by
          intro hnil
          have : (s.drop i).length = 0 := by rw [hnil]; rfl
          simp only [List.length_drop] at this
          omega
        have hsz := decodeRune_size (s.drop i) hne
        simp only [List.length_drop] at hsz
        split
        · exact loop_ends s fuel (i + (decodeRune (s.drop i)).2) start e (by omega) (by omega) (by omega)
        · split
          · rename_i hc; exact absurd hc.1 (by decide)
          · obtain ⟨e', he'⟩ := flush_fine s start i e h1 h2
            rw [he', bind_ok]
            exact loop_ends s fuel (i + (decodeRune (s.drop i)).2) (i + (decodeRune (s.drop i)).2) _ (by omega) (by omega) (by omega)
    · rename_i hi
      split
      · rw [sliceFrom_ok_of (by omega), bind_ok, bind_ok]
        exact ⟨rfl, rfl⟩
      · rw [bind_ok]
        exact ⟨rfl, rfl⟩

end Logrange.EscapeJson
