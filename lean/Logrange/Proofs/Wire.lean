import Logrange.Model.Wire
/-!
# Lemmas about the wire decoders (C13)

`Fine L o`: the outcome `o` of a decoder is not a panic and a byte count it returns is at most `L`.
`Good P d`: on every buffer satisfying `P`, decoder `d` is `Fine` — it passes every bounds check of the code it mirrors and
never claims to have read more than the buffer holds. `P = Safe` (no length varint of the F13 class) for the stored-record
decoder that still calls the library directly; `P = IsGoSlice` (the length fits an `int`, no condition on the content) for
the api/rpc decoders, whose string reads go through the length guard of commit dbbc1a7.
`Good` is closed under the sequencing idiom `Dec.next`, which gives the composite decoders.
-/
namespace Logrange.Wire
open Go Logrange Outcome

def Fine (L : Nat) (o : Outcome (Nat × β)) : Prop :=
  o.isPanic = false ∧ ∀ n x, o = .ok (n, x) → n ≤ L

/-- decoder `d` is `Fine` on every buffer that satisfies `P` (`P` = `Safe` for decoders that call the library's
`UnmarshalBytes` directly, `P` = `IsGoSlice` — no condition on the content — for the guarded api/rpc decoders) -/
def Good (P : Bytes → Prop) (d : Dec α) : Prop := ∀ b, P b → Fine b.length (d b)

/-- the buffer predicate survives `buf[k:]` -/
def DropClosed (P : Bytes → Prop) : Prop := ∀ b k, P b → P (b.drop k)

theorem fine_err {L : Nat} : Fine L (.err : Outcome (Nat × β)) := ⟨rfl, by intro n x h; cases h⟩

theorem fine_ok {L n : Nat} {x : β} (h : n ≤ L) : Fine L (.ok (n, x)) :=
  ⟨rfl, by intro n' x' e; cases e; exact h⟩

theorem Safe.drop {b : Bytes} (h : Safe b) (k : Nat) : Safe (b.drop k) := by
  intro j
  have := h (k + j)
  simpa [List.drop_drop] using this

theorem safe_dropClosed : DropClosed Safe := fun _ k h => h.drop k

theorem goSlice_dropClosed : DropClosed IsGoSlice := by
  intro b k h
  unfold IsGoSlice at *
  simp only [List.length_drop]; omega

theorem Safe.at {b : Bytes} (h : Safe b) : SafeAt b := by simpa using h 0

theorem wrap64_of_lt {x : Int} (h0 : 0 ≤ x) (h1 : x < 9223372036854775808) : wrap64 x = x := by
  unfold wrap64
  have : x % 18446744073709551616 = x := Int.emod_eq_of_lt h0 (by omega)
  simp only [this]
  split <;> omega

/-! ### fixed-width decoders -/

theorem good_byte {P : Bytes → Prop} : Good P unmarshalByte := by
  intro b _
  cases b with
  | nil => exact fine_err
  | cons x r => exact fine_ok (by simp)

theorem good_u16 {P : Bytes → Prop} : Good P unmarshalUint16 := by
  intro b _; unfold unmarshalUint16
  split
  · exact fine_err
  · exact fine_ok (by omega)

theorem good_u32 {P : Bytes → Prop} : Good P unmarshalUint32 := by
  intro b _; unfold unmarshalUint32
  split
  · exact fine_err
  · exact fine_ok (by omega)

theorem good_u64 {P : Bytes → Prop} : Good P unmarshalUint64 := by
  intro b _; unfold unmarshalUint64
  split
  · exact fine_err
  · exact fine_ok (by omega)

/-! ### the varint and the length-prefixed byte string -/

theorem uvarintGo_noPanic : ∀ (b : Bytes) (idx shft res : Nat), (uvarintGo b idx shft res).isPanic = false
  | [], _, _, _ => rfl
  | x :: r, idx, shft, res => by
    unfold uvarintGo
    simp only []
    split
    · rfl
    · exact uvarintGo_noPanic r _ _ _

theorem uvarintGo_noFuel : ∀ (b : Bytes) (idx shft res : Nat), (uvarintGo b idx shft res).isOutOfFuel = false
  | [], _, _, _ => rfl
  | x :: r, idx, shft, res => by
    unfold uvarintGo
    simp only []
    split
    · rfl
    · exact uvarintGo_noFuel r _ _ _

/-- the varint reader consumes at most the buffer -/
theorem uvarintGo_le : ∀ (b : Bytes) (idx shft res n v : Nat), uvarintGo b idx shft res = .ok (n, v) → n ≤ idx + b.length
  | [], _, _, _, _, _, h => by simp [uvarintGo] at h
  | x :: r, idx, shft, res, n, v, h => by
    unfold uvarintGo at h
    simp only [] at h
    split at h
    · cases h; simp
    · have := uvarintGo_le r _ _ _ _ _ h
      simp only [List.length_cons]; omega

/-- **the only panic of `UnmarshalBytes` is the F13 class**: without a length varint `≥ 2⁶³ − idx` at the start of
the buffer it returns a value or an error, and what it consumed lies inside the buffer. -/
theorem fine_unmarshalBytes (b : Bytes) (hs : SafeAt b) : Fine b.length (unmarshalBytes b) := by
  unfold unmarshalBytes
  cases hu : unmarshalUint b with
  | err => exact fine_err
  | outOfFuel => exact ⟨rfl, by intro n x h; cases h⟩
  | panic w =>
    have := uvarintGo_noPanic b 0 0 0
    unfold unmarshalUint at hu
    rw [hu] at this; simp [isPanic] at this
  | ok p =>
    obtain ⟨idx, v⟩ := p
    have hv := hs idx v hu
    have hidx : idx ≤ b.length := by
      have := uvarintGo_le b 0 0 0 idx v hu
      omega
    rw [bind_ok]
    simp only []
    have e1 : wrap64 (v : Int) = v := wrap64_of_lt (by omega) (by omega)
    rw [e1]
    have e2 : wrap64 ((v : Int) + (idx : Int)) = (v : Int) + idx := wrap64_of_lt (by omega) (by omega)
    rw [e2]
    split
    · exact fine_err
    · rename_i hlen
      have hb : (0 : Int) ≤ idx ∧ (idx : Int) ≤ (v : Int) + idx ∧ (v : Int) + idx ≤ (b.length : Int) := by omega
      rw [slice_ok_of hb, bind_ok]
      exact fine_ok (by omega)

theorem good_bytes : Good Safe unmarshalBytes := fun b hs => fine_unmarshalBytes b hs.at

/-- **the guarded string decoder of api/rpc never panics**, whatever the bytes: either the guard rejects the length, or the
length fits the bytes left and the library call is inside its safe range (`len(buf)` is an `int`). -/
theorem fine_rpcString (b : Bytes) (hb : IsGoSlice b) : Fine b.length (rpcStringG true b) := by
  unfold rpcStringG
  cases hu : unmarshalUint b with
  | ok p =>
    obtain ⟨idx, v⟩ := p
    simp only []
    split
    · exact fine_err
    · rename_i hc
      have hidx : idx ≤ b.length := by
        have := uvarintGo_le b 0 0 0 idx v hu
        omega
      apply fine_unmarshalBytes
      intro idx' v' hu'
      rw [hu] at hu'
      cases hu'
      unfold IsGoSlice at hb
      simp only [true_and, Nat.not_lt] at hc
      omega
  | err => exact fine_unmarshalBytes b (by intro i v h; rw [hu] at h; cases h)
  | outOfFuel => exact fine_unmarshalBytes b (by intro i v h; rw [hu] at h; cases h)
  | panic w => exact fine_unmarshalBytes b (by intro i v h; rw [hu] at h; cases h)

theorem good_rpcString (hg : Generated.C13.rpcStringLengthGuard = true) : Good IsGoSlice rpcString := by
  intro b hb
  show Fine b.length (rpcStringG Generated.C13.rpcStringLengthGuard b)
  rw [hg]
  exact fine_rpcString b hb

/-- converse direction, used for the class predicate: a panic of `UnmarshalBytes` exhibits the varint -/
theorem unmarshalBytes_panic {b : Bytes} (h : (unmarshalBytes b).isPanic = true) :
    ∃ idx v, unmarshalUint b = .ok (idx, v) ∧ 9223372036854775808 ≤ v + idx := by
  by_cases hs : SafeAt b
  · have := (fine_unmarshalBytes b hs).1
    rw [this] at h; cases h
  · unfold SafeAt at hs
    simp only [Classical.not_forall] at hs
    obtain ⟨idx, v, hu, hn⟩ := hs
    exact ⟨idx, v, hu, by omega⟩

/-! ### sequencing -/

theorem next_fine {P : Bytes → Prop} {d : Dec α} {k : Nat → α → Outcome (Nat × β)} {buf : Bytes} {nn : Nat}
    (hP : DropClosed P) (hd : Good P d) (hs : P buf) (hnn : nn ≤ buf.length)
    (hk : ∀ n a, nn + n ≤ buf.length → Fine buf.length (k (nn + n) a)) :
    Fine buf.length (Dec.next nn buf d k) := by
  unfold Dec.next
  rw [sliceFrom_ok_of hnn, bind_ok]
  have hg := hd (buf.drop nn) (hP _ nn hs)
  cases hdb : d (buf.drop nn) with
  | err => exact fine_err
  | outOfFuel => exact ⟨rfl, by intro n x h; cases h⟩
  | panic w => rw [hdb] at hg; have := hg.1; simp [isPanic] at this
  | ok p =>
    obtain ⟨n, a⟩ := p
    rw [hdb] at hg
    have hn := hg.2 n a rfl
    simp only [List.length_drop] at hn
    rw [bind_ok]
    exact hk n a (by omega)

/-- `Dec.next` when the continuation produces something that is not a (count, value) pair: only "no panic" -/
theorem next_noPanic {P : Bytes → Prop} {d : Dec α} {k : Nat → α → Outcome β} {buf : Bytes} {nn : Nat}
    (hP : DropClosed P) (hd : Good P d) (hs : P buf) (hnn : nn ≤ buf.length)
    (hk : ∀ n a, nn + n ≤ buf.length → (k (nn + n) a).isPanic = false) :
    (Dec.next nn buf d k).isPanic = false := by
  unfold Dec.next
  rw [sliceFrom_ok_of hnn, bind_ok]
  have hg := hd (buf.drop nn) (hP _ nn hs)
  cases hdb : d (buf.drop nn) with
  | err => rfl
  | outOfFuel => rfl
  | panic w => rw [hdb] at hg; have := hg.1; simp [isPanic] at this
  | ok p =>
    obtain ⟨n, a⟩ := p
    rw [hdb] at hg
    have hn := hg.2 n a rfl
    simp only [List.length_drop] at hn
    rw [bind_ok]
    exact hk n a (by omega)

/-! ### composite decoders -/

theorem good_event : Good Safe Event.unmarshal := by
  intro b hs
  unfold Event.unmarshal
  refine next_fine safe_dropClosed good_byte hs (by omega) ?_
  intro n1 hdr h1
  refine next_fine safe_dropClosed good_u64 hs h1 ?_
  intro n2 ts h2
  refine next_fine safe_dropClosed good_bytes hs h2 ?_
  intro n3 msg h3
  split
  · refine next_fine safe_dropClosed good_bytes hs h3 ?_
    intro n4 flds h4
    exact fine_ok h4
  · exact fine_ok h3

theorem good_logEvent (hg : Generated.C13.rpcStringLengthGuard = true) : Good IsGoSlice unmarshalLogEvent := by
  intro b hs
  unfold unmarshalLogEvent
  refine next_fine goSlice_dropClosed good_u64 hs (by omega) ?_
  intro n1 ts h1
  refine next_fine goSlice_dropClosed (good_rpcString hg) hs h1 ?_
  intro n2 msg h2
  refine next_fine goSlice_dropClosed (good_rpcString hg) hs h2 ?_
  intro n3 tags h3
  refine next_fine goSlice_dropClosed (good_rpcString hg) hs h3 ?_
  intro n4 flds h4
  exact fine_ok h4

theorem good_queryRequest (hg : Generated.C13.rpcStringLengthGuard = true) : Good IsGoSlice unmarshalQueryRequest := by
  intro b hs
  unfold unmarshalQueryRequest
  refine next_fine goSlice_dropClosed good_u64 hs (by omega) ?_
  intro n1 _ h1
  refine next_fine goSlice_dropClosed (good_rpcString hg) hs h1 ?_
  intro n2 _ h2
  refine next_fine goSlice_dropClosed (good_rpcString hg) hs h2 ?_
  intro n3 _ h3
  refine next_fine goSlice_dropClosed good_u16 hs h3 ?_
  intro n4 _ h4
  refine next_fine goSlice_dropClosed good_u32 hs h4 ?_
  intro n5 _ h5
  refine next_fine goSlice_dropClosed good_u32 hs h5 ?_
  intro n6 _ h6
  exact fine_ok h6

theorem fine_events (hg : Generated.C13.rpcStringLengthGuard = true) (buf : Bytes) (hs : IsGoSlice buf) :
    ∀ (k nn : Nat) (acc : List ApiEvent), nn ≤ buf.length → Fine buf.length (unmarshalEvents buf k nn acc)
  | 0, nn, acc, h => by unfold unmarshalEvents; exact fine_ok h
  | k + 1, nn, acc, h => by
    unfold unmarshalEvents
    refine next_fine goSlice_dropClosed (good_logEvent hg) hs h ?_
    intro n e hn
    exact fine_events hg buf hs k (nn + n) (e :: acc) hn

theorem good_queryResult (hg : Generated.C13.rpcStringLengthGuard = true) : Good IsGoSlice unmarshalQueryResult := by
  intro b hs
  unfold unmarshalQueryResult
  refine next_fine goSlice_dropClosed good_u32 hs (by omega) ?_
  intro n1 ln h1
  have hev := fine_events hg b hs ln (0 + n1) [] h1
  cases he : unmarshalEvents b ln (0 + n1) [] with
  | err => exact fine_err
  | outOfFuel => exact ⟨rfl, by intro n x h; cases h⟩
  | panic w => rw [he] at hev; have := hev.1; simp [isPanic] at this
  | ok r =>
    obtain ⟨nn, evs⟩ := r
    rw [he] at hev
    have hnn := hev.2 nn evs rfl
    rw [bind_ok]
    refine next_fine goSlice_dropClosed (good_queryRequest hg) hs hnn ?_
    intro n2 q h2
    exact fine_ok h2

/-! ### wpIterator -/

/-- invariant of the server-side iterator over a write packet -/
def WpInv (it : WpIter) : Prop := IsGoSlice it.buf ∧ it.pos ≤ it.buf.length

theorem wpInitCore_noPanic (hg : Generated.C13.rpcStringLengthGuard = true) (kv : Bytes → Option Bytes) (buf : Bytes) (hs : IsGoSlice buf) : (wpInitCore kv buf).isPanic = false := by
  unfold wpInitCore
  refine next_noPanic goSlice_dropClosed (good_rpcString hg) hs (by omega) ?_
  intro n1 tags h1
  refine next_noPanic goSlice_dropClosed (good_rpcString hg) hs h1 ?_
  intro n2 flds h2
  refine next_noPanic goSlice_dropClosed good_u32 hs h2 ?_
  intro n3 ln h3
  split <;> rfl

theorem next_eq_ok {d : Dec α} {k : Nat → α → Outcome β} {buf : Bytes} {nn : Nat} {r : β}
    (h : Dec.next nn buf d k = .ok r) : ∃ n a, d (buf.drop nn) = .ok (n, a) ∧ nn ≤ buf.length ∧ k (nn + n) a = .ok r := by
  unfold Dec.next at h
  obtain ⟨b, hb, h⟩ := bind_eq_ok h
  unfold sliceFrom at hb
  split at hb
  · cases hb
    obtain ⟨p, hp, h⟩ := bind_eq_ok h
    exact ⟨p.1, p.2, hp, by assumption, h⟩
  · cases hb

theorem wpInitCore_inv (kv : Bytes → Option Bytes) (buf : Bytes) (hs : IsGoSlice buf) (it : WpIter)
    (h : wpInitCore kv buf = .ok it) : WpInv it ∧ it.buf = buf := by
  unfold wpInitCore at h
  obtain ⟨n1, tags, hd1, hl1, h⟩ := next_eq_ok h
  obtain ⟨n2, flds, hd2, hl2, h⟩ := next_eq_ok h
  obtain ⟨n3, ln, hd3, hl3, h⟩ := next_eq_ok h
  have b3 := (good_u32 (P := IsGoSlice) (buf.drop (0 + n1 + n2)) (goSlice_dropClosed _ _ hs)).2 n3 ln hd3
  simp only [List.length_drop] at b3
  split at h
  · cases h
  · cases h
    exact ⟨⟨hs, by simp only []; omega⟩, rfl⟩

theorem wpGet_noPanic (hg : Generated.C13.rpcStringLengthGuard = true) (kv : Bytes → Option Bytes) (it : WpIter) (hi : WpInv it) : (wpGet kv it).isPanic = false := by
  unfold wpGet
  split
  · rfl
  · split
    · rfl
    · simp only []
      rw [sliceFrom_ok_of hi.2, bind_ok]
      have hg := good_logEvent hg (it.buf.drop it.pos) (goSlice_dropClosed _ _ hi.1)
      cases hd : unmarshalLogEvent (it.buf.drop it.pos) with
      | err => rfl
      | outOfFuel => rfl
      | panic w => rw [hd] at hg; have := hg.1; simp [isPanic] at this
      | ok p => rfl

theorem wpGet_inv (hg : Generated.C13.rpcStringLengthGuard = true) (kv : Bytes → Option Bytes) (it it' : WpIter) (r : Option Event) (hi : WpInv it)
    (h : wpGet kv it = .ok (it', r)) : WpInv it' := by
  unfold wpGet at h
  split at h
  · cases h; exact hi
  · split at h
    · cases h; exact hi
    · simp only [] at h
      rw [sliceFrom_ok_of hi.2, bind_ok] at h
      have hg := good_logEvent hg (it.buf.drop it.pos) (goSlice_dropClosed _ _ hi.1)
      cases hd : unmarshalLogEvent (it.buf.drop it.pos) with
      | err => rw [hd] at h; cases h; exact hi
      | outOfFuel => rw [hd] at h; cases h
      | panic w => rw [hd] at h; cases h
      | ok p =>
        obtain ⟨n, le⟩ := p
        rw [hd] at h hg
        have hn := hg.2 n le rfl
        simp only [List.length_drop] at hn
        cases h
        exact ⟨hi.1, by simp only []; have := hi.2; omega⟩

theorem wpNext_inv (it : WpIter) (hi : WpInv it) : WpInv (wpNext it) := hi

theorem wpDrain_noPanic (hg : Generated.C13.rpcStringLengthGuard = true) (kv : Bytes → Option Bytes) :
    ∀ (fuel : Nat) (it : WpIter) (acc : List Event), WpInv it → (wpDrain kv fuel it acc).isPanic = false
  | 0, _, _, _ => rfl
  | f + 1, it, acc, hi => by
    unfold wpDrain
    refine bind_isPanic_false (wpGet_noPanic hg kv it hi) ?_
    intro r hr
    obtain ⟨it', e⟩ := r
    have hi' := wpGet_inv hg kv it it' e hi hr
    cases e with
    | none => rfl
    | some ev => exact wpDrain_noPanic hg kv f (wpNext it') (ev :: acc) (wpNext_inv it' hi')

/-! ### termination of the drain loop

No decoder has a fuel parameter (`NoFuel`); a delivered event consumed at least the 8 bytes of its timestamp
(`unmarshalLogEvent_ge`), so the number of iterations is bounded by the bytes left in the buffer; independently, every `Get`
that is not served from the cache increments `cur`, so it is also bounded by the (client-controlled) count field. -/

def NoFuel (d : Dec α) : Prop := ∀ b, (d b).isOutOfFuel = false

theorem next_noFuel {d : Dec α} {k : Nat → α → Outcome β} {buf : Bytes} {nn : Nat}
    (hd : NoFuel d) (hk : ∀ n a, (k n a).isOutOfFuel = false) : (Dec.next nn buf d k).isOutOfFuel = false := by
  unfold Dec.next sliceFrom
  split
  · rw [bind_ok]
    have := hd (buf.drop nn)
    cases hdb : d (buf.drop nn) with
    | ok p => rw [bind_ok]; exact hk _ _
    | err => rfl
    | panic w => rfl
    | outOfFuel => rw [hdb] at this; cases this
  · rfl

theorem noFuel_u64 : NoFuel unmarshalUint64 := by
  intro b; unfold unmarshalUint64; split <;> rfl

theorem noFuel_bytes : NoFuel unmarshalBytes := by
  intro b
  unfold unmarshalBytes
  have := uvarintGo_noFuel b 0 0 0
  unfold unmarshalUint
  cases hu : uvarintGo b 0 0 0 with
  | ok p =>
    rw [bind_ok]
    simp only []
    split
    · rfl
    · unfold slice
      split
      · rfl
      · rfl
  | err => rfl
  | panic w => rfl
  | outOfFuel => rw [hu] at this; cases this

theorem noFuel_rpcString (g : Bool) : NoFuel (rpcStringG g) := by
  intro b
  unfold rpcStringG
  split
  · split
    · rfl
    · exact noFuel_bytes b
  · exact noFuel_bytes b

theorem noFuel_logEvent : NoFuel unmarshalLogEvent := by
  intro b
  unfold unmarshalLogEvent
  refine next_noFuel noFuel_u64 ?_
  intro _ _
  refine next_noFuel (noFuel_rpcString _) ?_
  intro _ _
  refine next_noFuel (noFuel_rpcString _) ?_
  intro _ _
  refine next_noFuel (noFuel_rpcString _) ?_
  intro _ _
  rfl

/-- a decoded api event consumed at least its 8-byte timestamp: no zero-byte events -/
theorem unmarshalLogEvent_ge (b : Bytes) (n : Nat) (e : ApiEvent) (h : unmarshalLogEvent b = .ok (n, e)) : 8 ≤ n := by
  unfold unmarshalLogEvent at h
  obtain ⟨n1, ts, hd1, _, h⟩ := next_eq_ok h
  obtain ⟨n2, _, _, _, h⟩ := next_eq_ok h
  obtain ⟨n3, _, _, _, h⟩ := next_eq_ok h
  obtain ⟨n4, _, _, _, h⟩ := next_eq_ok h
  cases h
  unfold unmarshalUint64 at hd1
  split at hd1
  · cases hd1
  · cases hd1; omega

/-- a byte count a decoder returns with a value lies inside the slice it was given — for every input (no `Safe`) -/
def CountLe (d : Dec α) : Prop := ∀ b n x, d b = .ok (n, x) → n ≤ b.length

theorem countLe_u64 : CountLe unmarshalUint64 := by
  intro b n x h; unfold unmarshalUint64 at h
  split at h
  · cases h
  · cases h; omega

theorem countLe_bytes : CountLe unmarshalBytes := by
  intro b m x hm
  unfold unmarshalBytes at hm
  obtain ⟨p, hp, hm⟩ := bind_eq_ok hm
  simp only [] at hm
  split at hm
  · cases hm
  · obtain ⟨r, hr, hm⟩ := bind_eq_ok hm
    have h1 := congrArg Prod.fst (Outcome.ok.inj hm)
    simp only [] at h1
    rw [← h1]
    unfold slice at hr
    split at hr
    · rename_i hc; omega
    · cases hr

theorem countLe_rpcString (g : Bool) : CountLe (rpcStringG g) := by
  intro b m x h
  unfold rpcStringG at h
  split at h
  · split at h
    · cases h
    · exact countLe_bytes _ _ _ h
  · exact countLe_bytes _ _ _ h

theorem countLe_logEvent : CountLe unmarshalLogEvent := by
  intro b n e h
  unfold unmarshalLogEvent at h
  obtain ⟨n1, _, hd1, l1, h⟩ := next_eq_ok h
  obtain ⟨n2, _, hd2, l2, h⟩ := next_eq_ok h
  obtain ⟨n3, _, hd3, l3, h⟩ := next_eq_ok h
  obtain ⟨n4, _, hd4, l4, h⟩ := next_eq_ok h
  cases h
  have := countLe_rpcString _ _ _ _ hd4
  simp only [List.length_drop] at this
  omega

theorem wpGet_noFuel (kv : Bytes → Option Bytes) (it : WpIter) : (wpGet kv it).isOutOfFuel = false := by
  unfold wpGet
  split
  · rfl
  · split
    · rfl
    · simp only []
      unfold sliceFrom
      split
      · rw [bind_ok]
        have := noFuel_logEvent (it.buf.drop it.pos)
        cases hd : unmarshalLogEvent (it.buf.drop it.pos) with
        | ok p => rfl
        | err => rfl
        | panic w => rfl
        | outOfFuel => rw [hd] at this; cases this
      · rfl

/-- one `Get`: either the batch ends, or an event is delivered and — unless it came from the cache — at least 8 more bytes
of the buffer are behind the position and `cur` has advanced -/
theorem wpGet_progress (kv : Bytes → Option Bytes) (it it' : WpIter) (e : Event) (h : wpGet kv it = .ok (it', some e)) :
    it'.buf = it.buf ∧ it'.recs = it.recs ∧
    ((it.read = true ∧ it'.pos = it.pos ∧ it'.cur = it.cur) ∨
     (it.read = false ∧ it.pos + 8 ≤ it'.pos ∧ it'.pos ≤ it.buf.length ∧ it'.cur = it.cur + 1 ∧ it.cur < it.recs)) := by
  unfold wpGet at h
  split at h
  · rename_i hr
    cases h
    exact ⟨rfl, rfl, Or.inl ⟨hr, rfl, rfl⟩⟩
  · rename_i hnr
    split at h
    · cases h
    · rename_i hcur
      simp only [] at h
      unfold sliceFrom at h
      split at h
      · rename_i hpos
        rw [bind_ok] at h
        split at h
        · rename_i n le hd
          cases h
          have h8 := unmarshalLogEvent_ge _ n le hd
          refine ⟨rfl, rfl, Or.inr ⟨by simpa using hnr, by simp only []; omega, ?_, rfl, by omega⟩⟩
          simp only []
          have hle := countLe_logEvent _ n le hd
          simp only [List.length_drop] at hle
          omega
        · cases h
        · cases h
        · cases h
      · cases h

/-- **the drain loop ends within `(bytes left) + 2` iterations**, whatever the count field says -/
theorem wpDrain_terminates_buf (kv : Bytes → Option Bytes) :
    ∀ (fuel : Nat) (it : WpIter) (acc : List Event), it.pos ≤ it.buf.length →
      it.buf.length - it.pos + (if it.read then 1 else 0) + 1 ≤ fuel → (wpDrain kv fuel it acc).isOutOfFuel = false
  | 0, _, _, _, h => by omega
  | f + 1, it, acc, hpos, hf => by
    unfold wpDrain
    have hnf := wpGet_noFuel kv it
    cases hg : wpGet kv it with
    | ok r =>
      obtain ⟨it', e⟩ := r
      rw [bind_ok]
      cases e with
      | none => rfl
      | some ev =>
        simp only []
        obtain ⟨hb, _, hp⟩ := wpGet_progress kv it it' ev hg
        apply wpDrain_terminates_buf kv f (wpNext it') (ev :: acc)
        · show it'.pos ≤ it'.buf.length
          rcases hp with ⟨_, hp, _⟩ | ⟨_, _, hp, _⟩
          · rw [hp, hb]; exact hpos
          · rw [hb]; exact hp
        · show it'.buf.length - it'.pos + (if (wpNext it').read then 1 else 0) + 1 ≤ f
          have hr : (wpNext it').read = false := rfl
          rw [hr, hb]
          rcases hp with ⟨hread, hp, _⟩ | ⟨hread, hp, hp2, _⟩
          · rw [hread] at hf; rw [hp]; simp at hf ⊢; omega
          · rw [hread] at hf; simp at hf ⊢; omega
    | err => rfl
    | panic w => rfl
    | outOfFuel => rw [hg] at hnf; cases hnf

/-- … and within `(recs − cur) + 2` iterations: the bound the model's `wpFuel` uses -/
theorem wpDrain_terminates_cnt (kv : Bytes → Option Bytes) :
    ∀ (fuel : Nat) (it : WpIter) (acc : List Event),
      it.recs - it.cur + (if it.read then 1 else 0) + 1 ≤ fuel → (wpDrain kv fuel it acc).isOutOfFuel = false
  | 0, _, _, h => by omega
  | f + 1, it, acc, hf => by
    unfold wpDrain
    have hnf := wpGet_noFuel kv it
    cases hg : wpGet kv it with
    | ok r =>
      obtain ⟨it', e⟩ := r
      rw [bind_ok]
      cases e with
      | none => rfl
      | some ev =>
        simp only []
        obtain ⟨_, hrec, hp⟩ := wpGet_progress kv it it' ev hg
        apply wpDrain_terminates_cnt kv f (wpNext it') (ev :: acc)
        show it'.recs - it'.cur + (if (wpNext it').read then 1 else 0) + 1 ≤ f
        have hr : (wpNext it').read = false := rfl
        rw [hr, hrec]
        rcases hp with ⟨hread, _, hc⟩ | ⟨hread, _, _, hc, hlt⟩
        · rw [hread] at hf; rw [hc]; simp at hf ⊢; omega
        · rw [hread] at hf; rw [hc]; simp at hf ⊢; omega
    | err => rfl
    | panic w => rfl
    | outOfFuel => rw [hg] at hnf; cases hnf

theorem noFuel_u32 : NoFuel unmarshalUint32 := by
  intro b; unfold unmarshalUint32; split <;> rfl

theorem wpInitCore_noFuel (kv : Bytes → Option Bytes) (buf : Bytes) : (wpInitCore kv buf).isOutOfFuel = false := by
  unfold wpInitCore
  refine next_noFuel (noFuel_rpcString _) ?_
  intro _ _
  refine next_noFuel (noFuel_rpcString _) ?_
  intro _ _
  refine next_noFuel noFuel_u32 ?_
  intro _ _
  split <;> rfl

theorem wpInitCore_fresh (kv : Bytes → Option Bytes) (buf : Bytes) (it : WpIter) (h : wpInitCore kv buf = .ok it) :
    it.read = false ∧ it.cur = 0 := by
  unfold wpInitCore at h
  obtain ⟨_, _, _, _, h⟩ := next_eq_ok h
  obtain ⟨_, _, _, _, h⟩ := next_eq_ok h
  obtain ⟨_, _, _, _, h⟩ := next_eq_ok h
  split at h
  · cases h
  · cases h; exact ⟨rfl, rfl⟩

/-! ### `init` with the validation loop (commit c6bbc14) -/

/-- what `init` accepts is what its first part built -/
theorem wpInit_core (kv : Bytes → Option Bytes) (buf : Bytes) (it : WpIter) (h : wpInit kv buf = .ok it) :
    wpInitCore kv buf = .ok it := by
  unfold wpInit at h
  obtain ⟨it0, h0, h⟩ := bind_eq_ok h
  split at h
  · obtain ⟨_, _, h⟩ := bind_eq_ok h
    cases h; exact h0
  · cases h; exact h0

theorem wpValidate_noPanic (hg : Generated.C13.rpcStringLengthGuard = true) (kv : Bytes → Option Bytes) (buf : Bytes)
    (hs : IsGoSlice buf) : ∀ (k p : Nat), p ≤ buf.length → (wpValidate kv buf k p).isPanic = false
  | 0, _, _ => rfl
  | k + 1, p, hp => by
    unfold wpValidate
    refine next_noPanic goSlice_dropClosed (good_logEvent hg) hs hp ?_
    intro n le hn
    split
    · rfl
    · exact wpValidate_noPanic hg kv buf hs k (p + n) hn

theorem wpValidate_noFuel (kv : Bytes → Option Bytes) (buf : Bytes) : ∀ (k p : Nat), (wpValidate kv buf k p).isOutOfFuel = false
  | 0, _ => rfl
  | k + 1, p => by
    unfold wpValidate
    refine next_noFuel noFuel_logEvent ?_
    intro n le
    split
    · rfl
    · exact wpValidate_noFuel kv buf k n

theorem wpInit_noPanic (hg : Generated.C13.rpcStringLengthGuard = true) (kv : Bytes → Option Bytes) (buf : Bytes)
    (hs : IsGoSlice buf) : (wpInit kv buf).isPanic = false := by
  unfold wpInit
  refine bind_isPanic_false (wpInitCore_noPanic hg kv buf hs) ?_
  intro it hit
  obtain ⟨hinv, hb⟩ := wpInitCore_inv kv buf hs it hit
  split
  · refine bind_isPanic_false (wpValidate_noPanic hg kv buf hs it.recs it.pos (by rw [← hb]; exact hinv.2)) ?_
    intro _ _; rfl
  · rfl

theorem wpInit_inv (kv : Bytes → Option Bytes) (buf : Bytes) (hs : IsGoSlice buf) (it : WpIter)
    (h : wpInit kv buf = .ok it) : WpInv it ∧ it.buf = buf :=
  wpInitCore_inv kv buf hs it (wpInit_core kv buf it h)

theorem wpInit_noFuel (kv : Bytes → Option Bytes) (buf : Bytes) : (wpInit kv buf).isOutOfFuel = false := by
  unfold wpInit
  have h0 := wpInitCore_noFuel kv buf
  cases hc : wpInitCore kv buf with
  | ok it =>
    rw [bind_ok]
    split
    · have hv := wpValidate_noFuel kv buf it.recs it.pos
      cases hvv : wpValidate kv buf it.recs it.pos with
      | ok u => rfl
      | err => rfl
      | panic w => rfl
      | outOfFuel => rw [hvv] at hv; cases hv
    · rfl
  | err => rfl
  | panic w => rfl
  | outOfFuel => rw [hc] at h0; cases h0

theorem wpInit_fresh (kv : Bytes → Option Bytes) (buf : Bytes) (it : WpIter) (h : wpInit kv buf = .ok it) :
    it.read = false ∧ it.cur = 0 :=
  wpInitCore_fresh kv buf it (wpInit_core kv buf it h)

end Logrange.Wire
