import Logrange.Proofs.LqlEngineMisc
import Logrange.Proofs.LqlEngineSelect
import Logrange.Proofs.LqlEngineTrunc
/-!
# C12: engine = direct parser for EVERY statement kind (root `Lql`)

`engine_direct_lql`: `runEngine` on the regenerated grammar followed by `toLqlChecked` (typed captures + post-check) equals
`directLql`, from the per-kind theorems `engine_direct_select` (LqlEngineSelect), `engine_direct_truncate`, `engine_direct_show`
(LqlEngineTrunc), `engine_direct_describe`, `engine_direct_create` (LqlEngineMisc), `engine_direct_delete` (LqlEngineStmt).
-/
namespace Logrange.Lql
open Logrange.Generated.C12

theorem kwAlt_noTok (c : Ctx) (kw : Bytes) (fl S : String) (f cur : Nat) (hn : c.toks[cur]? = none) :
    parse c (f+3) (kwAlt kw fl S) cur = .noMatch := by
  simp only [kwAlt, parse_seq, parseSeq_cons, parse_lit, peek, hn, if_true]

theorem run_lql_nil : runEngine grammar "Lql" [] = none := by
  rw [run_lql]
  have hn : (⟨[], grammar⟩ : Ctx).toks[0]? = none := rfl
  rw [show 60 * ([] : List Tok).length + 200 = 169 + 31 from rfl, parse_strct _ _ "Lql" lqlBody 0 rfl]
  simp only [lqlBody, parse_once, parse_disj, parseDisj_cons, parseDisj_nil]
  rw [kwAlt_noTok _ _ _ _ 193 0 hn, kwAlt_noTok _ _ _ _ 192 0 hn, kwAlt_noTok _ _ _ _ 191 0 hn, kwAlt_noTok _ _ _ _ 190 0 hn,
    kwAlt_noTok _ _ _ _ 189 0 hn, kwAlt_noTok _ _ _ _ 188 0 hn]
  rfl

theorem run_lql_nokw (t : Tok) (r : List Tok)
    (h1 : litMatch t kwSELECT = false) (h2 : litMatch t kwDESCRIBE = false) (h3 : litMatch t kwTRUNCATE = false)
    (h4 : litMatch t kwSHOW = false) (h5 : litMatch t kwCREATE = false) (h6 : litMatch t kwDELETE = false) :
    runEngine grammar "Lql" (t :: r) = none := by
  rw [run_lql]
  have hn : (⟨t :: r, grammar⟩ : Ctx).toks[0]? = some t := rfl
  obtain ⟨g, hg⟩ : ∃ g, 60 * (t :: r).length + 200 = g + 30 := ⟨60 * (t :: r).length + 170, rfl⟩
  rw [hg, parse_strct _ _ "Lql" lqlBody 0 rfl]
  simp only [lqlBody, parse_once, parse_disj]
  rw [disj_skip _ 0 t hn _ _ _ _ (g+23) _ h1, disj_skip _ 0 t hn _ _ _ _ (g+22) _ h2, disj_skip _ 0 t hn _ _ _ _ (g+21) _ h3,
    disj_skip _ 0 t hn _ _ _ _ (g+20) _ h4, disj_skip _ 0 t hn _ _ _ _ (g+19) _ h5, disj_skip _ 0 t hn _ _ _ _ (g+18) _ h6,
    parseDisj_nil]
  rfl

theorem kw_excl_all (t : Tok) (a b : Bytes) (hab : (a == b) = false) (hf : eqFold a b = false) (h : litMatch t a = true) :
    litMatch t b = false := litMatch_excl t a b hab hf h


/-- the statement-level theorem from the per-kind theorems: DESCRIBE, CREATE, DELETE, "no statement keyword" and the empty
token list are proved here; SELECT, TRUNCATE, SHOW are taken as arguments (instantiated in `engine_direct_lql`) -/
theorem engine_direct_lql_of (dp : Bytes → Option Int) (toks : List Tok) (hH : OperandNotParen toks)
    (HS : ∀ t r, toks = t :: r → litMatch t kwSELECT = true →
      (runEngine grammar "Lql" toks).bind (toLqlChecked dp (8 * toks.length + 50)) = dSelectRest dp (directFuel toks) r)
    (HT : ∀ t r, toks = t :: r → litMatch t kwSELECT = false → litMatch t kwDESCRIBE = false → litMatch t kwTRUNCATE = true →
      (runEngine grammar "Lql" toks).bind (toLqlChecked dp (8 * toks.length + 50)) = dTruncateRest dp (directFuel toks) r)
    (HW : ∀ t r, toks = t :: r → litMatch t kwSELECT = false → litMatch t kwDESCRIBE = false → litMatch t kwTRUNCATE = false →
      litMatch t kwSHOW = true →
      (runEngine grammar "Lql" toks).bind (toLqlChecked dp (8 * toks.length + 50)) = dShowRest (directFuel toks) r) :
    (runEngine grammar "Lql" toks).bind (toLqlChecked dp (8 * toks.length + 50)) = directLql dp toks := by
  cases toks with
  | nil => rw [run_lql_nil]; rfl
  | cons t r =>
    unfold directLql directLqlFuel
    cases h1 : litMatch t kwSELECT with
    | true => simp only [h1, if_true]; exact HS t r rfl h1
    | false =>
      cases h2 : litMatch t kwDESCRIBE with
      | true => simp only [h1, h2, Bool.false_eq_true, if_false, if_true]; exact engine_direct_describe dp _ t r h1 h2
      | false =>
        cases h3 : litMatch t kwTRUNCATE with
        | true => simp only [h1, h2, h3, Bool.false_eq_true, if_false, if_true]; exact HT t r rfl h1 h2 h3
        | false =>
          cases h4 : litMatch t kwSHOW with
          | true => simp only [h1, h2, h3, h4, Bool.false_eq_true, if_false, if_true]; exact HW t r rfl h1 h2 h3 h4
          | false =>
            cases h5 : litMatch t kwCREATE with
            | true =>
              simp only [h1, h2, h3, h4, h5, Bool.false_eq_true, if_false, if_true]
              exact engine_direct_create dp _ t r hH (Nat.le_refl _) h1 h2 h3 h4 h5
            | false =>
              cases h6 : litMatch t kwDELETE with
              | true =>
                simp only [h1, h2, h3, h4, h5, h6, Bool.false_eq_true, if_false, if_true]
                exact engine_direct_delete dp _ t r h1 h2 h3 h4 h5 h6
              | false =>
                simp only [h1, h2, h3, h4, h5, h6, Bool.false_eq_true, if_false]
                rw [run_lql_nokw t r h1 h2 h3 h4 h5 h6]; rfl

/-- what is proved without the SELECT / TRUNCATE / SHOW files: every token list whose first token is none of those keywords -/
theorem engine_direct_lql_misc (dp : Bytes → Option Int) (toks : List Tok) (hH : OperandNotParen toks)
    (hk : ∀ t ∈ toks.head?, litMatch t kwSELECT = false ∧ litMatch t kwTRUNCATE = false ∧ litMatch t kwSHOW = false) :
    (runEngine grammar "Lql" toks).bind (toLqlChecked dp (8 * toks.length + 50)) = directLql dp toks := by
  refine engine_direct_lql_of dp toks hH ?_ ?_ ?_
  · intro t r e h; subst e; have := (hk t (by simp)).1; rw [h] at this; cases this
  · intro t r e _ _ h; subst e; have := (hk t (by simp)).2.1; rw [h] at this; cases this
  · intro t r e _ _ _ h; subst e; have := (hk t (by simp)).2.2; rw [h] at this; cases this


/-- **engine = direct parser, root `Lql`, every statement kind.** Hypotheses: `OperandNotParen toks` (true of every lexed token
list) and `hdp`: the date parser rejects the eleven texts `(`, `<`, `>`, `>=`, `<=`, `!=`, `=`, `CONTAINS`, `PREFIX`, `SUFFIX`,
`LIKE` (needed for `TRUNCATE BEFORE "<one of these>" …` only — see `cex_truncate_dp`: there the engine's unguarded source attempt
reads `BEFORE ( …` as a function call and fails hard, while the direct parser goes on with the clauses). -/
theorem engine_direct_lql (dp : Bytes → Option Int) (hdp : ∀ b ∈ LP :: condOps, dp b = none) (toks : List Tok)
    (hH : OperandNotParen toks) :
    (runEngine grammar "Lql" toks).bind (toLqlChecked dp (8 * toks.length + 50)) = directLql dp toks := by
  refine engine_direct_lql_of dp toks hH ?_ ?_ ?_
  · intro t r e h; subst e; exact engine_direct_select dp _ t r hH (Nat.le_refl _) h
  · intro t r e h1 h2 h3; subst e; exact engine_direct_truncate dp hdp _ t r hH (Nat.le_refl _) h1 h2 h3
  · intro t r e h1 h2 h3 h4; subst e; exact engine_direct_show dp _ t r hH (Nat.le_refl _) h1 h2 h3 h4

end Logrange.Lql
