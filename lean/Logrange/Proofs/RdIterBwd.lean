import Logrange.Proofs.RdIterDefs
/-!
Backward direction of the journal iterator (C03/C16): `get` / `next` with `bkwd = true` against the flat
record list. All declarations are prefixed `bw_`.

Result: `GetBwdSpec` / `NextBwdSpec` of RdIterDefs.lean are FALSE as stated (`bw_getBwdSpec_false`,
`bw_nextBwdSpec_false`): the model puts no bound on a chunk's record count, and backward `advanceChunk`
enters the previous chunk at index `maxU32`, so a chunk with ≥ `maxU32 + 2` records loses its tail. With the
extra hypothesis `bw_ChunkBound j` (every chunk has ≤ `maxU32 + 1` records; the real count is a `uint32`)
both specs hold with every conjunct: `bw_getBwd_bounded`, `bw_nextBwd_bounded`.
-/
namespace Logrange.Rd

/-- the summand of `flatIdx` for one chunk -/
def bw_term (c : Chunk) (p : Pos) : Nat :=
  if c.id < p.cid then c.cnt else if c.id = p.cid then min p.idx c.cnt else 0

theorem bw_flatIdx_cons (c : Chunk) (rest : Journal) (p : Pos) :
    flatIdx (c :: rest) p = bw_term c p + flatIdx rest p := rfl

/-- `flatIdx` is a sum of per-chunk terms: equal terms, equal sums -/
theorem bw_flatIdx_congr (j : Journal) (p q : Pos)
    (h : ∀ c ∈ j, bw_term c p = bw_term c q) : flatIdx j p = flatIdx j q := by
  induction j with
  | nil => rfl
  | cons c rest ih =>
    rw [bw_flatIdx_cons, bw_flatIdx_cons, h c (List.mem_cons_self ..),
      ih (fun d hd => h d (List.mem_cons_of_mem _ hd))]

theorem bw_flatIdx_eq_zero (j : Journal) (p : Pos) (h : ∀ c ∈ j, p.cid < c.id) : flatIdx j p = 0 := by
  induction j with
  | nil => rfl
  | cons c rest ih =>
    have h1 := h c (List.mem_cons_self ..)
    rw [bw_flatIdx_cons, ih (fun d hd => h d (List.mem_cons_of_mem _ hd))]
    simp only [bw_term]
    split
    · omega
    · split
      · omega
      · rfl

theorem bw_flatIdx_le (j : Journal) (p : Pos) : flatIdx j p ≤ (flat j).length := by
  induction j with
  | nil => simp [flatIdx]
  | cons c rest ih =>
    rw [bw_flatIdx_cons]
    have : (flat (c :: rest)).length = c.cnt + (flat rest).length := by
      simp [flat, Chunk.cnt]
    rw [this]
    have : bw_term c p ≤ c.cnt := by
      simp only [bw_term]
      split
      · omega
      · split <;> omega
    omega

theorem bw_sorted_cons {c : Chunk} {rest : Journal} (h : Sorted (c :: rest)) :
    (∀ d ∈ rest, c.id < d.id) ∧ Sorted rest := by
  simpa [Sorted] using h

theorem bw_findChunk_mem (j : Journal) (hs : Sorted j) (ch : Chunk) (hm : ch ∈ j) :
    findChunk j ch.id = some ch := by
  induction j with
  | nil => simp at hm
  | cons c rest ih =>
    obtain ⟨h1, h2⟩ := bw_sorted_cons hs
    rcases List.mem_cons.mp hm with e | hm'
    · subst e
      simp [findChunk]
    · have := h1 ch hm'
      have hne : (c.id == ch.id) = false := by
        simp; omega
      have := ih h2 hm'
      simp only [findChunk] at this ⊢
      simp [hne, this]

theorem bw_cntOf_mem (j : Journal) (hs : Sorted j) (ch : Chunk) (hm : ch ∈ j) :
    cntOf j ch.id = ch.cnt := by
  simp [cntOf, bw_findChunk_mem j hs ch hm]

/-- inside a chunk: the record at local index `k` is the flat record number `flatIdx ⟨id,k⟩`, and one step
further in the chunk is one step further in the flat list -/
theorem bw_recAt_flat (j : Journal) (hs : Sorted j) (ch : Chunk) (hm : ch ∈ j) (k : Nat) (hk : k < ch.cnt) :
    recAt j ch.id k = (flat j)[flatIdx j ⟨ch.id, k⟩]? ∧
    flatIdx j ⟨ch.id, k + 1⟩ = flatIdx j ⟨ch.id, k⟩ + 1 ∧
    (recAt j ch.id k).isSome := by
  induction j with
  | nil => simp at hm
  | cons c rest ih =>
    obtain ⟨h1, h2⟩ := bw_sorted_cons hs
    have hflat : flat (c :: rest) = c.recs ++ flat rest := by simp [flat]
    rcases List.mem_cons.mp hm with e | hm'
    · subst e
      have z1 : flatIdx rest ⟨ch.id, k⟩ = 0 := bw_flatIdx_eq_zero _ _ (fun d hd => h1 d hd)
      have z2 : flatIdx rest ⟨ch.id, k + 1⟩ = 0 := bw_flatIdx_eq_zero _ _ (fun d hd => h1 d hd)
      have hk' : k < ch.recs.length := hk
      have t1 : bw_term ch ⟨ch.id, k⟩ = k := by simp [bw_term]; omega
      have t2 : bw_term ch ⟨ch.id, k + 1⟩ = k + 1 := by simp [bw_term]; omega
      rw [bw_flatIdx_cons, bw_flatIdx_cons, z1, z2, t1, t2, hflat]
      have hr : recAt (ch :: rest) ch.id k = ch.recs[k]? := by simp [recAt, findChunk]
      rw [hr, Nat.add_zero, List.getElem?_append_left hk']
      simp [hk']
    · have hlt := h1 ch hm'
      obtain ⟨i1, i2, i3⟩ := ih h2 hm'
      have t1 : bw_term c ⟨ch.id, k⟩ = c.recs.length := by simp [bw_term, hlt, Chunk.cnt]
      have t2 : bw_term c ⟨ch.id, k + 1⟩ = c.recs.length := by simp [bw_term, hlt, Chunk.cnt]
      have hr : recAt (c :: rest) ch.id k = recAt rest ch.id k := by
        have hne : (c.id == ch.id) = false := by simp; omega
        simp [recAt, findChunk, hne]
      rw [bw_flatIdx_cons, bw_flatIdx_cons, t1, t2, hflat, hr]
      refine ⟨?_, by omega, i3⟩
      rw [List.getElem?_append_right (by omega), i1]
      congr 1
      omega

theorem bw_mem_unique (j : Journal) (hs : Sorted j) (a b : Chunk) (ha : a ∈ j) (hb : b ∈ j)
    (e : a.id = b.id) : a = b := by
  have h1 := bw_findChunk_mem j hs a ha
  have h2 := bw_findChunk_mem j hs b hb
  rw [e, h2] at h1
  exact (Option.some.inj h1).symm

/-- the last element of an id-sorted list has the greatest id -/
theorem bw_getLast_max (l : List Chunk) (hs : Sorted l) (x : Chunk) (hx : l.getLast? = some x) :
    ∀ y ∈ l, y.id ≤ x.id := by
  induction l with
  | nil => simp at hx
  | cons a t ih =>
    obtain ⟨h1, h2⟩ := bw_sorted_cons hs
    cases t with
    | nil =>
      simp at hx
      subst hx
      intro y hy
      simp at hy
      subst hy
      exact Nat.le_refl _
    | cons b t' =>
      rw [List.getLast?_cons_cons] at hx
      intro y hy
      rcases List.mem_cons.mp hy with e | hy'
      · subst e
        have := h1 x (List.mem_of_getLast? hx)
        omega
      · exact ih h2 hx y hy'

theorem bw_orLess_none (j : Journal) (hs : Sorted j) (cid : Nat) (h : orLess j cid = none) :
    ∀ c ∈ j, cid < c.id := by
  cases j with
  | nil => intro c hc; simp at hc
  | cons c0 rest =>
    obtain ⟨h1, _⟩ := bw_sorted_cons hs
    simp only [orLess] at h
    split at h
    · rename_i hgt
      intro c hc
      rcases List.mem_cons.mp hc with e | hc'
      · subst e; omega
      · have := h1 c hc'; omega
    · rename_i hle
      exfalso
      have hm : c0 ∈ (c0 :: rest).filter (fun c => decide (c.id ≤ cid)) := by
        simp [List.mem_filter]; omega
      rw [List.getLast?_eq_none_iff] at h
      rw [h] at hm
      simp at hm

theorem bw_orLess_some (j : Journal) (hs : Sorted j) (cid : Nat) (chk : Chunk) (h : orLess j cid = some chk) :
    chk ∈ j ∧ chk.id ≤ cid ∧ ∀ c ∈ j, c.id ≤ chk.id ∨ cid < c.id := by
  cases j with
  | nil => simp [orLess] at h
  | cons c0 rest =>
    simp only [orLess] at h
    split at h
    · simp at h
    · have hmem := List.mem_of_getLast? h
      rw [List.mem_filter] at hmem
      have hsf : Sorted ((c0 :: rest).filter (fun c => decide (c.id ≤ cid))) :=
        List.Pairwise.filter _ hs
      have hmax := bw_getLast_max _ hsf chk h
      refine ⟨hmem.1, by simpa using hmem.2, ?_⟩
      intro c hc
      by_cases hle : c.id ≤ cid
      · left
        apply hmax
        rw [List.mem_filter]
        exact ⟨hc, by simpa using hle⟩
      · right; omega

/-- opening a chunk iterator at a natural index: clamped to the chunk's count -/
theorem bw_ciSetPos_open (j : Journal) (id n : Nat) :
    (ciSetPos j { chunk := id } (n : Int)).chunk = id ∧
    (ciSetPos j { chunk := id } (n : Int)).cached = false ∧
    (ciSetPos j { chunk := id } (n : Int)).pos = ((min n (cntOf j id) : Nat) : Int) := by
  unfold ciSetPos
  by_cases h0 : (n : Int) = 0
  · simp [h0]
    omega
  · simp only [h0, if_false]
    refine ⟨trivial, trivial, ?_⟩
    split <;> split <;> omega

theorem bw_ensure_none (j : Journal) (it : It) (hci : it.ci = none) (hb : it.bkwd = true)
    (h : orLess j it.cid = none) : ensure j it = (it, true) := by
  unfold ensure
  simp [hci, hb, h]

theorem bw_ensure_some (j : Journal) (it : It) (hci : it.ci = none) (hb : it.bkwd = true)
    (chk : Chunk) (h : orLess j it.cid = some chk) (hle : chk.id ≤ it.cid) :
    ensure j it =
      ({ cid := chk.id,
         idx := (ciSetPos j { chunk := chk.id } ((if chk.id < it.cid then chk.cnt else it.idx : Nat) : Int)).pos.toNat,
         ci := some (ciSetPos j { chunk := chk.id } ((if chk.id < it.cid then chk.cnt else it.idx : Nat) : Int)),
         bkwd := true }, false) := by
  obtain ⟨cid, idx, ci, bkwd⟩ := it
  simp only at hci hb h hle
  subst hci hb
  unfold ensure
  simp only [h, if_true]
  by_cases hlt : chk.id < cid
  · simp [hlt]
  · have : chk.id = cid := by omega
    subst this
    simp

theorem bw_bCount_none (j : Journal) (it : It) (hci : it.ci = none) :
    bCount j it = flatIdx j ⟨it.cid, it.idx + 1⟩ := by
  simp [bCount, hci]

theorem bw_bCount_some (j : Journal) (it : It) (c : CIt) (hci : it.ci = some c) :
    bCount j it = flatIdx j ⟨c.chunk, (c.pos + 1).toNat⟩ := by
  simp [bCount, hci]

/-- backward `ensure` on a closed iterator: EOF exactly when nothing is at or before the position, otherwise
it opens the last chunk at or before it without changing the count -/
theorem bw_ensure (j : Journal) (hs : Sorted j) (it : It) (hci : it.ci = none) (hb : it.bkwd = true) :
    ((ensure j it).2 = true ∧ (ensure j it).1 = it ∧ bCount j it = 0) ∨
    ((ensure j it).2 = false ∧ (∃ c, (ensure j it).1.ci = some c) ∧ WF j (ensure j it).1 ∧
      (ensure j it).1.bkwd = true ∧ bCount j (ensure j it).1 = bCount j it ∧
      (ensure j it).1.cid ≤ it.cid) := by
  cases h : orLess j it.cid with
  | none =>
    left
    rw [bw_ensure_none j it hci hb h]
    refine ⟨rfl, rfl, ?_⟩
    rw [bw_bCount_none j it hci]
    exact bw_flatIdx_eq_zero _ _ (bw_orLess_none j hs it.cid h)
  | some chk =>
    right
    obtain ⟨hm, hle, hmax⟩ := bw_orLess_some j hs it.cid chk h
    rw [bw_ensure_some j it hci hb chk h hle]
    have hcnt := bw_cntOf_mem j hs chk hm
    generalize hn : (if chk.id < it.cid then chk.cnt else it.idx : Nat) = n
    obtain ⟨e1, e2, e3⟩ := bw_ciSetPos_open j chk.id n
    generalize ciSetPos j { chunk := chk.id } (n : Int) = c at e1 e2 e3
    obtain ⟨chunk, pos, cached⟩ := c
    simp only at e1 e2 e3
    subst e1 e2 e3
    rw [hcnt]
    refine ⟨rfl, ⟨_, rfl⟩, ?_, rfl, ?_, hle⟩
    · simp only [WF]
      refine ⟨trivial, ⟨chk, hm, rfl⟩, by omega, by rw [hcnt]; omega, by simp⟩
    · rw [bw_bCount_none j it hci, bw_bCount_some j _ _ rfl]
      apply bw_flatIdx_congr
      intro d hd
      have h1 := hmax d hd
      have h2 : d.id = chk.id → d.cnt = chk.cnt := fun e => by rw [bw_mem_unique j hs d chk hd hm e]
      simp only [bw_term]
      subst hn
      repeat' split
      all_goals omega

/-- no chunk holds more records than a `uint32` index can reach from `maxU32` (the real chunk count is a
`uint32`); needed because backward `advanceChunk` enters the previous chunk at index `maxU32` -/
def bw_ChunkBound (j : Journal) : Prop := ∀ c ∈ j, c.cnt ≤ maxU32 + 1

/-- backward chunk-iterator `Get` on a well-formed chunk iterator -/
theorem bw_ciGet (j : Journal) (hs : Sorted j) (c : CIt) (ch : Chunk) (hm : ch ∈ j) (hc : c.chunk = ch.id)
    (h1 : -1 ≤ c.pos) (h2 : c.pos ≤ (ch.cnt : Int))
    (h3 : c.cached = true → 0 ≤ c.pos ∧ c.pos < (ch.cnt : Int)) :
    (ciGet j true c).1.chunk = ch.id ∧
    (ciGet j true c).1.pos = (if c.pos ≥ (ch.cnt : Int) then (ch.cnt : Int) - 1 else c.pos) ∧
    ((ciGet j true c).1.pos < 0 → (ciGet j true c).2 = none ∧ (ciGet j true c).1.cached = false) ∧
    (0 ≤ (ciGet j true c).1.pos → (ciGet j true c).2 = recAt j ch.id (ciGet j true c).1.pos.toNat ∧
      (ciGet j true c).1.cached = true) := by
  obtain ⟨chunk, pos, cached⟩ := c
  simp only at hc h1 h2 h3
  subst hc
  have hcnt := bw_cntOf_mem j hs ch hm
  unfold ciGet
  simp only [hcnt, if_true]
  cases cached with
  | true =>
    have := h3 rfl
    simp only [if_true]
    refine ⟨trivial, ?_, ?_, ?_⟩
    · split <;> omega
    · intro h; omega
    · intro _; exact ⟨trivial, trivial⟩
  | false =>
    simp only [Bool.false_eq_true, if_false]
    by_cases hge : pos ≥ (ch.cnt : Int)
    · have hp : pos = ch.cnt := by omega
      subst hp
      have hsp : ciSetPos j { chunk := ch.id, pos := (ch.cnt : Int), cached := false } ((ch.cnt : Int) - 1) =
          { chunk := ch.id, pos := (ch.cnt : Int) - 1, cached := false } := by
        unfold ciSetPos
        have : ¬ ((ch.cnt : Int) - 1 = (ch.cnt : Int)) := by omega
        simp only [this, if_false, hcnt]
        congr 1
        split <;> split <;> omega
      rw [if_pos hge, hsp]
      by_cases h0 : (ch.cnt : Int) - 1 < 0
      · have hor : (ch.cnt : Int) - 1 < 0 ∨ (ch.cnt : Int) - 1 ≥ ch.cnt := Or.inl h0
        rw [if_pos hor]
        refine ⟨rfl, by simp, fun _ => ⟨rfl, rfl⟩, fun h => ?_⟩
        exfalso; simp only at h; omega
      · have hor : ¬ ((ch.cnt : Int) - 1 < 0 ∨ (ch.cnt : Int) - 1 ≥ ch.cnt) := by omega
        rw [if_neg hor]
        refine ⟨rfl, by simp, fun h => ?_, fun _ => ⟨rfl, rfl⟩⟩
        exfalso; simp only at h; omega
    · rw [if_neg hge, if_neg hge]
      by_cases h0 : pos < 0
      · have hor : pos < 0 ∨ pos ≥ ch.cnt := Or.inl h0
        rw [if_pos hor]
        refine ⟨rfl, rfl, fun _ => ⟨rfl, rfl⟩, fun h => ?_⟩
        exfalso; simp only at h; omega
      · have hor : ¬ (pos < 0 ∨ pos ≥ ch.cnt) := by omega
        rw [if_neg hor]
        refine ⟨rfl, rfl, fun h => ?_, fun _ => ⟨rfl, rfl⟩⟩
        exfalso; simp only at h; omega

/-- the chunk before an existing chunk, entered at `maxU32`, stands right before that chunk's first record -/
theorem bw_flatIdx_prev (j : Journal) (hp : PosIds j) (hb : bw_ChunkBound j) (ch : Chunk) (hm : ch ∈ j) :
    flatIdx j ⟨ch.id - 1, maxU32 + 1⟩ = flatIdx j ⟨ch.id, 0⟩ := by
  apply bw_flatIdx_congr
  intro d hd
  have h1 := hb d hd
  have h2 := hp ch hm
  simp only [bw_term]
  repeat' split
  all_goals omega

/-- within one chunk only the index clamped to the chunk's count matters -/
theorem bw_flatIdx_clamp (j : Journal) (hs : Sorted j) (ch : Chunk) (hm : ch ∈ j) (a b : Nat)
    (h : min a ch.cnt = min b ch.cnt) : flatIdx j ⟨ch.id, a⟩ = flatIdx j ⟨ch.id, b⟩ := by
  apply bw_flatIdx_congr
  intro d hd
  have h2 : d.id = ch.id → d.cnt = ch.cnt := fun e => by rw [bw_mem_unique j hs d ch hd hm e]
  simp only [bw_term]
  repeat' split
  all_goals omega

/-- loop measure: number of chunks with id ≤ `cid` -/
def bw_m (j : Journal) (cid : Nat) : Nat := j.countP (fun c => decide (c.id ≤ cid))

theorem bw_m_le_length (j : Journal) (cid : Nat) : bw_m j cid ≤ j.length := List.countP_le_length

theorem bw_m_mono (j : Journal) (a b : Nat) (h : a ≤ b) : bw_m j a ≤ bw_m j b := by
  induction j with
  | nil => simp [bw_m]
  | cons c rest ih =>
    simp only [bw_m, List.countP_cons] at ih ⊢
    have : (if decide (c.id ≤ a) = true then 1 else 0) ≤ (if decide (c.id ≤ b) = true then 1 else 0) := by
      repeat' split
      all_goals simp at *
      all_goals omega
    omega

theorem bw_m_lt (j : Journal) (ch : Chunk) (hm : ch ∈ j) (a : Nat) (h : a < ch.id) :
    bw_m j a < bw_m j ch.id := by
  induction j with
  | nil => simp at hm
  | cons c rest ih =>
    have hmono := bw_m_mono rest a ch.id (by omega)
    rcases List.mem_cons.mp hm with e | hm'
    · subst e
      simp only [bw_m, List.countP_cons] at hmono ⊢
      have h1 : (if decide (ch.id ≤ a) = true then 1 else 0) = 0 := by simp; omega
      have h2 : (if decide (ch.id ≤ ch.id) = true then 1 else 0) = 1 := by simp
      omega
    · have := ih hm'
      have hmono1 := bw_m_mono [c] a ch.id (by omega)
      simp only [bw_m, List.countP_cons, List.countP_nil] at this hmono1 ⊢
      omega

/-- what backward `get` owes when `n` records are at or before the position -/
def bw_Post (j : Journal) (n : Nat) (r : It × Option Rec) : Prop :=
  r.2 = (if n = 0 then none else (flat j)[n - 1]?) ∧
  WF j r.1 ∧ r.1.bkwd = true ∧ bCount j r.1 = n ∧
  (r.2.isSome → OnRecord j r.1) ∧ (r.2 = none → r.1.ci = none)

/-- backward `advanceChunk` from an open chunk `ch` -/
theorem bw_advance (j : Journal) (hs : Sorted j) (hp : PosIds j) (hb : bw_ChunkBound j)
    (it : It) (hbk : it.bkwd = true) (ch : Chunk) (hm : ch ∈ j) (hcid : it.cid = ch.id) :
    WF j (advance j it).1 ∧ (advance j it).1.bkwd = true ∧
    bCount j (advance j it).1 = flatIdx j ⟨ch.id, 0⟩ ∧
    (((advance j it).2 = true ∧ (advance j it).1.ci = none ∧ flatIdx j ⟨ch.id, 0⟩ = 0) ∨
     ((advance j it).2 = false ∧ (∃ c', (advance j it).1.ci = some c') ∧ (advance j it).1.cid < ch.id)) := by
  have hadv : advance j it = ensure j { cid := ch.id - 1, idx := maxU32, ci := none, bkwd := true } := by
    obtain ⟨cid, idx, ci, bkwd⟩ := it
    simp only at hbk hcid
    subst hbk hcid
    simp [advance]
  rw [hadv]
  have hpos := hp ch hm
  have hprev := bw_flatIdx_prev j hp hb ch hm
  rcases bw_ensure j hs { cid := ch.id - 1, idx := maxU32, ci := none, bkwd := true } rfl rfl with
    ⟨e1, e2, e3⟩ | ⟨e1, e2, e3, e4, e5, e6⟩
  · rw [bw_bCount_none _ _ rfl] at e3
    simp only at e3
    rw [hprev] at e3
    rw [e2]
    refine ⟨by simp [WF], rfl, ?_, Or.inl ⟨e1, ?_, e3⟩⟩
    · rw [bw_bCount_none _ _ rfl]; simp only; rw [hprev]
    · rfl
  · rw [bw_bCount_none _ { cid := ch.id - 1, idx := maxU32, ci := none, bkwd := true } rfl] at e5
    simp only at e5 e6
    rw [hprev] at e5
    exact ⟨e3, e4, e5, Or.inr ⟨e1, e2, by omega⟩⟩

/-- one backward chunk-iterator `Get` under an open, well-formed journal iterator -/
theorem bw_step (j : Journal) (hs : Sorted j) (it : It) (c : CIt) (hci : it.ci = some c) (hwf : WF j it) :
    ∃ ch, ch ∈ j ∧ it.cid = ch.id ∧ (ciGet j true c).1.chunk = ch.id ∧
      -1 ≤ (ciGet j true c).1.pos ∧ (ciGet j true c).1.pos < (ch.cnt : Int) ∧
      bCount j it = flatIdx j ⟨ch.id, ((ciGet j true c).1.pos + 1).toNat⟩ ∧
      ((ciGet j true c).1.pos < 0 → (ciGet j true c).2 = none ∧ (ciGet j true c).1.cached = false) ∧
      (0 ≤ (ciGet j true c).1.pos → (ciGet j true c).2 = recAt j ch.id (ciGet j true c).1.pos.toNat) := by
  simp only [WF, hci] at hwf
  obtain ⟨w1, ⟨ch, hm, w2⟩, w3, w4, w5⟩ := hwf
  have hcnt := bw_cntOf_mem j hs ch hm
  rw [← w2, hcnt] at w4 w5
  obtain ⟨g1, g2, g3, g4⟩ := bw_ciGet j hs c ch hm w2.symm w3 w4 w5
  refine ⟨ch, hm, by omega, g1, ?_, ?_, ?_, g3, fun h => (g4 h).1⟩
  · rw [g2]; split <;> omega
  · rw [g2]; split <;> omega
  · rw [bw_bCount_some j it c hci, ← w2, g2]
    apply bw_flatIdx_clamp j hs ch hm
    split <;> omega

theorem bw_getLoop (j : Journal) (hs : Sorted j) (hp : PosIds j) (hb : bw_ChunkBound j) :
    ∀ (fuel : Nat) (it : It) (c : CIt), it.ci = some c → WF j it → it.bkwd = true →
      bw_m j it.cid ≤ fuel → bw_Post j (bCount j it) (getLoop j fuel it) := by
  intro fuel
  induction fuel with
  | zero =>
    intro it c hci hwf hbk hfuel
    exfalso
    obtain ⟨ch, hm, hcid, _⟩ := bw_step j hs it c hci hwf
    have := bw_m_lt j ch hm (ch.id - 1) (by have := hp ch hm; omega)
    rw [hcid] at hfuel
    omega
  | succ fuel ih =>
    intro it c hci hwf hbk hfuel
    obtain ⟨cid, idx, ci, bkwd⟩ := it
    simp only at hci hbk
    subst hci hbk
    obtain ⟨ch, hm, hcid, s1, s2, s3, s4, s5, s6⟩ := bw_step j hs _ c rfl hwf
    simp only at hcid hfuel
    subst hcid
    rw [getLoop]
    simp only
    generalize ciGet j true c = g at s1 s2 s3 s4 s5 s6
    obtain ⟨c', r⟩ := g
    simp only at s1 s2 s3 s4 s5 s6 ⊢
    have hcnt := bw_cntOf_mem j hs ch hm
    by_cases hneg : c'.pos < 0
    · obtain ⟨hr, hcached⟩ := s5 hneg
      subst hr
      simp only
      have hpos : c'.pos = -1 := by omega
      rw [hpos] at s4
      simp only [Int.reduceNeg, Int.add_left_neg, Int.toNat_zero] at s4
      obtain ⟨a1, a2, a3, a4⟩ := bw_advance j hs hp hb
        { cid := ch.id, idx := idx, ci := some c', bkwd := true } rfl ch hm rfl
      generalize advance j { cid := ch.id, idx := idx, ci := some c', bkwd := true } = adv at a1 a2 a3 a4 ⊢
      obtain ⟨it', eof⟩ := adv
      simp only at a1 a2 a3 a4 ⊢
      rw [s4]
      rcases a4 with ⟨b1, b2, b3⟩ | ⟨b1, ⟨c2, b2⟩, b3⟩
      · subst b1
        simp only [if_true]
        refine ⟨by simp [b3], a1, a2, a3, by simp, fun _ => b2⟩
      · subst b1
        simp only [Bool.false_eq_true, if_false]
        rw [← a3]
        apply ih it' c2 b2 a1 a2
        have := bw_m_lt j ch hm it'.cid b3
        omega
    · have hnn : 0 ≤ c'.pos := by omega
      have hr := s6 hnn
      have hk : c'.pos.toNat < ch.cnt := by omega
      obtain ⟨f1, f2, f3⟩ := bw_recAt_flat j hs ch hm c'.pos.toNat hk
      have hsucc : (c'.pos + 1).toNat = c'.pos.toNat + 1 := by omega
      rw [hsucc, f2] at s4
      rw [← hr] at f1 f3
      obtain ⟨l, hl⟩ := Option.isSome_iff_exists.mp f3
      subst hl
      simp only
      rw [s4]
      refine ⟨?_, ?_, rfl, ?_, fun _ => ⟨c', rfl, hnn, ?_⟩, fun h => by simp at h⟩
      · simp [f1]
      · simp only [WF]
        refine ⟨s1, ⟨ch, hm, s1.symm⟩, s2, ?_, fun _ => ⟨hnn, ?_⟩⟩
        · rw [s1, hcnt]; omega
        · rw [s1, hcnt]; omega
      · rw [bw_bCount_some j _ c' rfl, s1, hsucc, f2]
      · rw [s1, hcnt]; omega

theorem bw_ensure_open (j : Journal) (it : It) (c : CIt) (hci : it.ci = some c) : ensure j it = (it, false) := by
  unfold ensure
  simp [hci]

theorem bw_get_eq (j : Journal) (it : It) :
    get j it = if (ensure j it).2 = true then ((ensure j it).1, none)
      else getLoop j (j.length + 2) (ensure j it).1 := by
  simp only [get]

/-- backward `get`, all conjuncts of `GetBwdSpec`, under the chunk-size bound -/
theorem bw_get (j : Journal) (it : It) (hs : Sorted j) (hp : PosIds j) (hb : bw_ChunkBound j)
    (hwf : WF j it) (hbk : it.bkwd = true) : bw_Post j (bCount j it) (get j it) := by
  rw [bw_get_eq]
  cases hci : it.ci with
  | some c =>
    rw [bw_ensure_open j it c hci]
    simp only [Bool.false_eq_true, if_false]
    apply bw_getLoop j hs hp hb _ it c hci hwf hbk
    have := bw_m_le_length j it.cid
    omega
  | none =>
    rcases bw_ensure j hs it hci hbk with ⟨e1, e2, e3⟩ | ⟨e1, ⟨c, e2⟩, e3, e4, e5, e6⟩
    · rw [e1, e2, e3]
      simp only [if_true]
      refine ⟨by simp, hwf, hbk, e3, by simp, fun _ => hci⟩
    · rw [e1]
      simp only [Bool.false_eq_true, if_false]
      rw [← e5]
      apply bw_getLoop j hs hp hb _ _ c e2 e3 e4
      have := bw_m_le_length j (ensure j it).1.cid
      omega

/-- backward chunk-iterator `Next` from a record: one step back, cache dropped -/
theorem bw_ciNext (j : Journal) (hs : Sorted j) (c : CIt) (ch : Chunk) (hm : ch ∈ j) (hc : c.chunk = ch.id)
    (h0 : 0 ≤ c.pos) (h1 : c.pos < (ch.cnt : Int)) :
    ciNext j true c = { chunk := ch.id, pos := c.pos - 1, cached := false } := by
  obtain ⟨g1, g2, _, g4⟩ := bw_ciGet j hs c ch hm hc (by omega) (by omega) (fun _ => ⟨h0, h1⟩)
  have hge : ¬ (c.pos ≥ (ch.cnt : Int)) := by omega
  rw [if_neg hge] at g2
  rw [g2] at g4
  obtain ⟨g5, g6⟩ := g4 h0
  obtain ⟨_, _, f3⟩ := bw_recAt_flat j hs ch hm c.pos.toNat (by omega)
  rw [← g5] at f3
  have hcnt := bw_cntOf_mem j hs ch hm
  unfold ciNext
  generalize ciGet j true c = g at g1 g2 g6 f3
  obtain ⟨⟨chunk, pos, cached⟩, r⟩ := g
  simp only at g1 g2 g6 f3
  subst g1 g2 g6
  obtain ⟨l, hl⟩ := Option.isSome_iff_exists.mp f3
  subst hl
  simp only [if_true]
  unfold ciSetPos
  have hne : ¬ (c.pos - 1 = c.pos) := by omega
  simp only [hne, if_false, hcnt]
  congr 1
  split <;> split <;> omega

theorem bw_next_eq (j : Journal) (it : It) :
    next j it = match (get j it).1.ci with
      | none => (get j it).1
      | some c =>
        if (ciNext j (get j it).1.bkwd c).pos < 0
        then (advance j { (get j it).1 with ci := some (ciNext j (get j it).1.bkwd c) }).1
        else { (get j it).1 with ci := some (ciNext j (get j it).1.bkwd c),
                                 idx := (ciNext j (get j it).1.bkwd c).pos.toNat } := by
  rfl

/-- backward `next`, all conjuncts of `NextBwdSpec`, under the chunk-size bound -/
theorem bw_next (j : Journal) (it : It) (hs : Sorted j) (hp : PosIds j) (hb : bw_ChunkBound j)
    (hwf : WF j it) (hbk : it.bkwd = true) :
    WF j (next j it) ∧ (next j it).bkwd = true ∧ bCount j (next j it) = bCount j it - 1 := by
  obtain ⟨g1, g2, g3, g4, g5, g6⟩ := bw_get j it hs hp hb hwf hbk
  rw [bw_next_eq]
  generalize get j it = g at g1 g2 g3 g4 g5 g6
  obtain ⟨⟨cid, idx, ci, bkwd⟩, r⟩ := g
  simp only at g1 g2 g3 g4 g5 g6 ⊢
  subst g3
  cases ci with
  | none =>
    simp only
    refine ⟨g2, trivial, ?_⟩
    cases r with
    | some l =>
      obtain ⟨c0, e, _⟩ := g5 rfl
      simp at e
    | none =>
      have hle : bCount j it ≤ (flat j).length := by
        unfold bCount
        split <;> exact bw_flatIdx_le _ _
      by_cases hz : bCount j it = 0
      · omega
      · rw [if_neg hz] at g1
        have : bCount j it - 1 < (flat j).length := by omega
        simp [this] at g1
  | some c =>
    simp only
    cases r with
    | none => simp at g6
    | some l =>
      obtain ⟨c0, e, h0, h1⟩ := g5 rfl
      simp only [Option.some.injEq] at e
      subst e
      have hwf1 := g2
      simp only [WF] at hwf1
      obtain ⟨w1, ⟨ch, hm, w2⟩, _, _, _⟩ := hwf1
      have hcnt := bw_cntOf_mem j hs ch hm
      rw [← w2, hcnt] at h1
      rw [bw_ciNext j hs c ch hm w2.symm h0 h1]
      rw [bw_bCount_some j _ c rfl, ← w2] at g4
      obtain ⟨_, f2, _⟩ := bw_recAt_flat j hs ch hm c.pos.toNat (by omega)
      have hsucc : (c.pos + 1).toNat = c.pos.toNat + 1 := by omega
      rw [hsucc, f2] at g4
      simp only
      by_cases hneg : c.pos - 1 < 0
      · rw [if_pos hneg]
        have hp0 : c.pos = 0 := by omega
        rw [hp0] at g4
        simp only [Int.toNat_zero] at g4
        obtain ⟨a1, a2, a3, _⟩ := bw_advance j hs hp hb
          { cid := cid, idx := idx, ci := some { chunk := ch.id, pos := c.pos - 1, cached := false }, bkwd := true }
          rfl ch hm (by simp only; omega)
        refine ⟨a1, a2, ?_⟩
        rw [a3, ← g4]
        omega
      · rw [if_neg hneg]
        refine ⟨?_, rfl, ?_⟩
        · simp only [WF]
          refine ⟨by omega, ⟨ch, hm, rfl⟩, by omega, by rw [hcnt]; omega, by simp⟩
        · rw [bw_bCount_some j _ _ rfl]
          simp only
          have : (c.pos - 1 + 1).toNat = c.pos.toNat := by omega
          rw [this, ← g4]
          omega

/-! ## the unbounded specs are false -/

/-- the counterexample journal: chunk 1 with `maxU32 + 2` records, chunk 2 empty -/
def bw_cexJ (recs : List Rec) : Journal := [{ id := 1, recs := recs }, { id := 2, recs := [] }]
def bw_cexIt : It := { cid := 2, idx := 0, ci := none, bkwd := true }

theorem bw_cex_recAt (recs : List Rec) (h : recs.length = maxU32 + 2) :
    ∃ l, recAt (bw_cexJ recs) 1 4294967295 = some l := by
  have : 4294967295 < recs.length := by rw [h, maxU32]; omega
  exact ⟨recs[4294967295], by simp [recAt, findChunk, bw_cexJ, this]⟩

theorem bw_cex_ensure1 (recs : List Rec) :
    ensure (bw_cexJ recs) bw_cexIt = ({ cid := 2, idx := 0, ci := some { chunk := 2, pos := 0, cached := false }, bkwd := true }, false) := by
  simp [ensure, orLess, ciSetPos, bw_cexJ, bw_cexIt]

theorem bw_cex_adv (recs : List Rec) (h : recs.length = maxU32 + 2) :
    advance (bw_cexJ recs) { cid := 2, idx := 0, ci := some { chunk := 2, pos := -1, cached := false }, bkwd := true } =
    ({ cid := 1, idx := maxU32, ci := some { chunk := 1, pos := (maxU32 : Int), cached := false }, bkwd := true }, false) := by
  simp [advance, ensure, orLess, ciSetPos, bw_cexJ, cntOf, findChunk, Chunk.cnt, h, maxU32]

theorem bw_cex_ciGet2 (recs : List Rec) :
    ciGet (bw_cexJ recs) true { chunk := 2, pos := 0, cached := false } =
      ({ chunk := 2, pos := -1, cached := false }, none) := by
  simp [ciGet, ciSetPos, bw_cexJ, cntOf, findChunk, Chunk.cnt]

theorem bw_cex_ciGet1 (recs : List Rec) (h : recs.length = maxU32 + 2) :
    ciGet (bw_cexJ recs) true { chunk := 1, pos := (maxU32 : Int), cached := false } =
      ({ chunk := 1, pos := (maxU32 : Int), cached := true }, recAt (bw_cexJ recs) 1 4294967295) := by
  simp [ciGet, bw_cexJ, cntOf, findChunk, Chunk.cnt, h, maxU32]

theorem bw_cex_get (recs : List Rec) (h : recs.length = maxU32 + 2) :
    (get (bw_cexJ recs) bw_cexIt).1 =
      { cid := 1, idx := maxU32, ci := some { chunk := 1, pos := (maxU32 : Int), cached := true }, bkwd := true } := by
  obtain ⟨l, hl⟩ := bw_cex_recAt recs h
  rw [bw_get_eq, bw_cex_ensure1]
  have hlen : (bw_cexJ recs).length + 2 = 2 + 1 + 1 := rfl
  simp only [Bool.false_eq_true, if_false]
  rw [hlen, getLoop]
  simp only [bw_cex_ciGet2, bw_cex_adv recs h, Bool.false_eq_true, if_false]
  rw [getLoop]
  simp only [bw_cex_ciGet1 recs h, hl]

theorem bw_cex_sorted (recs : List Rec) : Sorted (bw_cexJ recs) := by simp [Sorted, bw_cexJ]
theorem bw_cex_posIds (recs : List Rec) : PosIds (bw_cexJ recs) := by simp [PosIds, bw_cexJ]
theorem bw_cex_wf (recs : List Rec) : WF (bw_cexJ recs) bw_cexIt := by simp [WF, bw_cexIt]

theorem bw_cex_bCount0 (recs : List Rec) (h : recs.length = maxU32 + 2) :
    bCount (bw_cexJ recs) bw_cexIt = maxU32 + 2 := by
  simp [bCount, flatIdx, bw_cexJ, bw_cexIt, Chunk.cnt, h]

theorem bw_cex_bCount1 (recs : List Rec) (h : recs.length = maxU32 + 2) :
    bCount (bw_cexJ recs) (get (bw_cexJ recs) bw_cexIt).1 = maxU32 + 1 := by
  rw [bw_cex_get recs h]
  simp [bCount, flatIdx, bw_cexJ, Chunk.cnt, h, maxU32]

theorem bw_cex_next (recs : List Rec) (h : recs.length = maxU32 + 2) :
    bCount (bw_cexJ recs) (next (bw_cexJ recs) bw_cexIt) = maxU32 := by
  obtain ⟨l, hl⟩ := bw_cex_recAt recs h
  have hn : ciNext (bw_cexJ recs) true { chunk := 1, pos := (maxU32 : Int), cached := true } =
      { chunk := 1, pos := (maxU32 : Int) - 1, cached := false } := by
    have hl' : recAt (bw_cexJ recs) 1 4294967295 = some l := hl
    simp [ciNext, ciGet, ciSetPos, cntOf, findChunk, Chunk.cnt, maxU32, hl']
    simp [bw_cexJ, h, maxU32]
  rw [bw_next_eq, bw_cex_get recs h]
  simp only [hn]
  simp [bCount, flatIdx, bw_cexJ, Chunk.cnt, h, maxU32]

/-- `GetBwdSpec` as stated (no bound on chunk sizes) is false: a chunk with `maxU32 + 2` records before an
empty chunk; backward `advanceChunk` enters it at index `maxU32` and skips its last record -/
theorem bw_getBwdSpec_false : ¬ GetBwdSpec := by
  intro H
  have hlen : (List.replicate (maxU32 + 2) ({ lbl := 0 } : Rec)).length = maxU32 + 2 := List.length_replicate ..
  generalize List.replicate (maxU32 + 2) ({ lbl := 0 } : Rec) = recs at hlen
  obtain ⟨_, _, _, h4, _⟩ := H (bw_cexJ recs) bw_cexIt (bw_cex_sorted recs) (bw_cex_posIds recs) (bw_cex_wf recs) rfl
  rw [bw_cex_bCount0 recs hlen, bw_cex_bCount1 recs hlen] at h4
  omega

theorem bw_nextBwdSpec_false : ¬ NextBwdSpec := by
  intro H
  have hlen : (List.replicate (maxU32 + 2) ({ lbl := 0 } : Rec)).length = maxU32 + 2 := List.length_replicate ..
  generalize List.replicate (maxU32 + 2) ({ lbl := 0 } : Rec) = recs at hlen
  obtain ⟨_, _, h3⟩ := H (bw_cexJ recs) bw_cexIt (bw_cex_sorted recs) (bw_cex_posIds recs) (bw_cex_wf recs) rfl
  rw [bw_cex_bCount0 recs hlen, bw_cex_next recs hlen] at h3
  omega

/-! ## the specs with the chunk-size bound (the closest true statements) -/

/-- `GetBwdSpec` plus the hypothesis `bw_ChunkBound j` -/
def bw_GetBwdSpecB : Prop :=
  ∀ (j : Journal) (it : It), Sorted j → PosIds j → bw_ChunkBound j → WF j it → it.bkwd = true →
    (get j it).2 = (if bCount j it = 0 then none else (flat j)[bCount j it - 1]?) ∧
    WF j (get j it).1 ∧ (get j it).1.bkwd = true ∧
    bCount j (get j it).1 = bCount j it ∧
    ((get j it).2.isSome → OnRecord j (get j it).1) ∧
    ((get j it).2 = none → (get j it).1.ci = none)

/-- `NextBwdSpec` plus the hypothesis `bw_ChunkBound j` -/
def bw_NextBwdSpecB : Prop :=
  ∀ (j : Journal) (it : It), Sorted j → PosIds j → bw_ChunkBound j → WF j it → it.bkwd = true →
    WF j (next j it) ∧ (next j it).bkwd = true ∧
    bCount j (next j it) = bCount j it - 1

theorem bw_getBwd_bounded : bw_GetBwdSpecB :=
  fun j it hs hp hb hwf hbk => bw_get j it hs hp hb hwf hbk

theorem bw_nextBwd_bounded : bw_NextBwdSpecB :=
  fun j it hs hp hb hwf hbk => bw_next j it hs hp hb hwf hbk

/-- the real bound (`uint32` record counts) implies `bw_ChunkBound` -/
theorem bw_chunkBound_of_u32 (j : Journal) (h : ∀ c ∈ j, c.cnt ≤ maxU32) : bw_ChunkBound j :=
  fun c hc => Nat.le_succ_of_le (h c hc)

end Logrange.Rd
