import Logrange.Proofs.WipC20Pad
import Logrange.Props.C20Formats
/-! scratch (not imported) -/
namespace Logrange.Props.C20
open Logrange.Date Logrange.Generated

theorem lql_trims_blanks : gcfg.trim = true := by decide

/-- **C20 for LQL literals with surrounding blanks** (the only surrounding text `parseLqlDateTime` admits: it trims blanks): the
text of any valid instant in any format of the LQL list, padded with any number of blanks on either side, denotes the fields the
format carries -/
theorem C20_lql_padded (k : Nat) (hk : k < lqlFmts.length) (i : XInst) (hi : ValidX i) (now : Now) (a b : Nat) :
    ∃ ck txt c j', lqlFmts[k]? = some ck ∧ renderLayout ck.layout i = some txt ∧ projectX ck.layout i = .ok c ∧ j' ≤ k ∧
      parseLql gcfg lqlFmts now (List.replicate a 32 ++ txt ++ List.replicate b 32) = .abs j' (adjAll gadj ck now c) := by
  obtain ⟨ck, txt, c, j', hck, ht, hc, hj, hp⟩ := C20_lql k hk i hi now
  have hck' : ck = lqlFmts[k] := by
    rw [List.getElem?_eq_getElem hk] at hck; exact (Option.some.inj hck).symm
  subst hck'
  have hside := List.all_eq_true.mp lql_formats_own_ok _ (List.getElem_mem hk)
  simp only [Bool.and_eq_true] at hside
  obtain ⟨sh, hsh, hs⟩ := renderLayout_shape lqlFmts[k].layout i hi txt ht
  have hok := List.all_eq_true.mp hside.2 sh hsh
  simp only [lqlShapeOK, Bool.and_eq_true] at hok
  obtain ⟨⟨hhead, hlast⟩, _⟩ := hok
  have hh : txt.head? ≠ some 32 ∧ txt ≠ [] := by
    cases hx : sh.head? with
    | none => rw [hx] at hhead; simp at hhead
    | some x =>
      rw [hx] at hhead
      simp only [Bool.and_eq_true, Bool.not_eq_true'] at hhead
      obtain ⟨c0, hc0, hin0⟩ := hasShape_head hs hx
      refine ⟨?_, ?_⟩
      · rw [hc0]; intro e; cases e; rw [hhead.1] at hin0; cases hin0
      · intro e; rw [e] at hc0; cases hc0
  have hl : txt.getLast? ≠ some 32 := by
    cases hy : sh.getLast? with
    | none => rw [hy] at hlast; simp at hlast
    | some y =>
      rw [hy] at hlast
      simp only [Bool.not_eq_true'] at hlast
      obtain ⟨c1, hc1, hin1⟩ := hasShape_last hs hy
      rw [hc1]; intro e; cases e; rw [hlast] at hin1; cases hin1
  exact ⟨_, txt, c, j', hck, ht, hc, hj, by rw [parseLql_padded gcfg lql_trims_blanks lqlFmts now a b txt hh.2 hl hh.1]; exact hp⟩

end Logrange.Props.C20
