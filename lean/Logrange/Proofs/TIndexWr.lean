import Logrange.Model.TIndexProgWr
import Logrange.Proofs.TIndexProg
/-! The write lock adds no wait-for cycle: lemmas behind `Props.C14.write_lock_no_deadlock`. -/
namespace Logrange.TIndexProg
open Logrange.TIndexLts

theorem mark_some {c c' : Ctl} {s : Nat} {b : Bool} (h : mark c c' = some (s, b)) : c' = .rel s [] .fin ∧ b = false := by
  unfold mark at h
  split at h
  · simp only [Option.some.injEq, Prod.mk.injEq] at h; obtain ⟨rfl, rfl⟩ := h; exact ⟨rfl, rfl⟩
  · cases h

structure WInv (z : SysW) : Prop where
  /-- a writer between its acquisition and its `Release` stands right before the `Release` -/
  ctl : ∀ a s b, z.ph a = some (s, b) → z.x.ctl a = .rel s [] .fin
  /-- the write lock is held by a writer in the holding phase -/
  own : ∀ s a, z.wr s = some a → z.ph a = some (s, true)

theorem reachW_reach {z : SysW} (h : ReachW z) : Reach z.x := by
  induction h with
  | start ctl he => exact Reach.start ctl he
  | step _ s ih =>
    cases s with
    | base a hp st => exact Reach.step ih st.toStep
    | take a s hp hf => exact ih
    | rel a s hp st => exact Reach.step ih st.toStep
  | call _ a c hf he ih => exact Reach.call ih a c hf he
  | shutdown _ ih => exact Reach.shutdown ih

theorem winv_step {z z' : SysW} (ih : WInv z) (s : StepW z z') : WInv z' := by
  cases s with
  | @base y a hp st =>
    obtain ⟨l, c', ho, hst, hctl⟩ := st
    refine ⟨?_, ?_⟩
    · intro b s bb hb
      show y.ctl b = _
      by_cases e : b = a
      · subst e
        have hb' : mark (z.x.ctl b) (y.ctl b) = some (s, bb) := by
          have : upd z.ph b (mark (z.x.ctl b) (y.ctl b)) b = some (s, bb) := hb
          rwa [upd_same] at this
        exact (mark_some hb').1
      · have hb' : z.ph b = some (s, bb) := by
          have : upd z.ph a (mark (z.x.ctl a) (y.ctl a)) b = some (s, bb) := hb
          rwa [upd_other _ _ _ _ e] at this
        rw [hctl, upd_other _ _ _ _ e]; exact ih.ctl b s bb hb'
    · intro s b hw
      have hw' : z.wr s = some b := hw
      have hb := ih.own s b hw'
      have e : b ≠ a := by intro e; subst e; rw [hp] at hb; cases hb
      show upd z.ph a _ b = _
      rw [upd_other _ _ _ _ e]; exact hb
  | take a s hp hf =>
    refine ⟨?_, ?_⟩
    · intro b s' bb hb
      by_cases e : b = a
      · subst e
        have : upd z.ph b (some (s, true)) b = some (s', bb) := hb
        rw [upd_same] at this
        simp only [Option.some.injEq, Prod.mk.injEq] at this
        obtain ⟨rfl, _⟩ := this
        exact ih.ctl b s false hp
      · have : upd z.ph a (some (s, true)) b = some (s', bb) := hb
        rw [upd_other _ _ _ _ e] at this
        exact ih.ctl b s' bb this
    · intro s' b hw
      have hw' : upd z.wr s (some a) s' = some b := hw
      show upd z.ph a (some (s, true)) b = _
      by_cases es : s' = s
      · subst es; rw [upd_same] at hw'; cases hw'; rw [upd_same]
      · rw [upd_other _ _ _ _ es] at hw'
        have hb := ih.own s' b hw'
        have e : b ≠ a := by intro e; subst e; rw [hp] at hb; cases hb
        rw [upd_other _ _ _ _ e]; exact hb
  | @rel y a s hp st =>
    obtain ⟨l, c', ho, hst, hctl⟩ := st
    refine ⟨?_, ?_⟩
    · intro b s' bb hb
      have hb1 : upd z.ph a none b = some (s', bb) := hb
      have e : b ≠ a := by intro e; subst e; rw [upd_same] at hb1; cases hb1
      rw [upd_other _ _ _ _ e] at hb1
      show y.ctl b = _
      rw [hctl, upd_other _ _ _ _ e]; exact ih.ctl b s' bb hb1
    · intro s' b hw
      have hw' : upd z.wr s none s' = some b := hw
      have es : s' ≠ s := by intro es; subst es; rw [upd_same] at hw'; cases hw'
      rw [upd_other _ _ _ _ es] at hw'
      have hb := ih.own s' b hw'
      have e : b ≠ a := by
        intro e; subst e; rw [hp] at hb
        simp only [Option.some.injEq, Prod.mk.injEq] at hb; exact es hb.1.symm
      show upd z.ph a none b = _
      rw [upd_other _ _ _ _ e]; exact hb

theorem winv_reach {z : SysW} (h : ReachW z) : WInv z := by
  induction h with
  | start ctl he => exact ⟨(fun a s b hp => by cases hp), (fun s a hw => by cases hw)⟩
  | step _ s ih => exact winv_step ih s
  | @call z _ a c hf he ih =>
    refine ⟨?_, ih.own⟩
    intro b s bb hb
    have hb' : z.ph b = some (s, bb) := hb
    have hc := ih.ctl b s bb hb'
    have e : b ≠ a := by intro e; subst e; rw [hf] at hc; cases hc
    show upd z.x.ctl a c b = _
    rw [upd_other _ _ _ _ e]; exact hc
  | shutdown _ ih => exact ⟨ih.ctl, ih.own⟩

end Logrange.TIndexProg
