import Logrange.Proofs.RdRngPaging
/-!
Offset laws for a one-source RANGED cursor (C16 with RANGE), on top of `RdRngPaging.lean`. Forward part: `head + k`.
Same structure as `RdOffsetLaws.lean`, over the admitted records `wflat j`.
-/
set_option linter.unusedSectionVars false
set_option linter.unusedVariables false
namespace Logrange.Rd

/-- the cursor stands on a matching record or at the end -/
def SatAtR (lo hi : Option Int) (j : Journal) (w : Bool) (i : Nat) : Prop :=
  i = (wflat j).length ∨ ∃ r, (wflat j)[i]? = some r ∧ passR lo hi w r = true

theorem ro_FL_len (lo hi : Option Int) {j : Journal} {w : Bool} : FLR lo hi j w (wflat j).length = [] := by simp [FLR]

section fwd
variable (lo hi : Option Int) (HG : RGetFwdSpec) (HN : RNextFwdSpec)
include HG HN

/-- `curGet` in the form needed for navigation -/
theorem ro_get {name j w sy c i} (hs : Sorted j) (h : AbsR lo hi name j w sy c i) :
    ∃ i', AbsR lo hi name j w sy (curGet c).1 i' ∧ SatAtR lo hi j w i' ∧ FLR lo hi j w i' = FLR lo hi j w i ∧
      ((curGet c).2 = none ↔ FLR lo hi j w i = []) := by
  obtain ⟨i', it', v', l', m', e, st, _, f, r, d⟩ := rp_curGet_abs lo hi HG HN hs h
  refine ⟨i', ⟨it', v', l', m', e, st⟩, ?_, f, ?_⟩
  · rcases d with ⟨_, h2⟩ | ⟨r, _, h2, h3⟩
    · exact Or.inl h2
    · exact Or.inr ⟨r, h2, h3⟩
  · rw [r]; exact List.head?_eq_none_iff

/-- the step loop of `Offset`, forward: `k` matching events are skipped (or the end is reached) -/
theorem ro_steps_fwd {name j w sy} (hs : Sorted j) : ∀ (k : Nat) (c : Cur) (i : Nat) (pos : PosId),
    AbsR lo hi name j w sy c i → SatAtR lo hi j w i →
    ∃ i', AbsR lo hi name j w sy (offsetSteps k c pos).1 i' ∧ SatAtR lo hi j w i' ∧ FLR lo hi j w i' = (FLR lo hi j w i).drop k := by
  intro k
  induction k with
  | zero => intro c i pos h hsat; exact ⟨i, by simpa [offsetSteps] using h, hsat, by simp⟩
  | succ k ih =>
    intro c i pos h hsat
    have hn := rp_curNext_abs lo hi HG HN hs h
    -- where the cursor is after `Next`, and what is left there
    have hleft : FLR lo hi j w (min (i + 1) (wflat j).length) = (FLR lo hi j w i).drop 1 := by
      rcases hsat with he | ⟨r, hr, hk⟩
      · subst he; simp [ro_FL_len lo hi]
      · have hlt : i < (wflat j).length := (List.getElem?_eq_some_iff.mp hr).1
        have : min (i + 1) (wflat j).length = i + 1 := by omega
        rw [this, rp_FLR_some lo hi hr]; simp [hk]
    obtain ⟨i2, a2, s2, f2, n2⟩ := ro_get lo hi HG HN hs hn
    rw [offsetSteps]
    cases hg : (curGet (curNext c)).2 with
    | none =>
      simp only [hg]
      refine ⟨i2, a2, s2, ?_⟩
      have hnil := n2.mp hg
      rw [f2, hnil]
      rw [hleft] at hnil
      have : (FLR lo hi j w i).drop (k + 1) = ((FLR lo hi j w i).drop 1).drop k := by rw [List.drop_drop]; congr 1; omega
      rw [this, hnil]; simp
    | some x =>
      simp only [hg]
      obtain ⟨i', a', s', f'⟩ := ih _ i2 (curPos (curGet (curNext c)).1) a2 s2
      refine ⟨i', a', s', ?_⟩
      rw [f', f2, hleft, List.drop_drop]; congr 1; omega

/-- **head + k**: after `Offset(+k)` from any forward state the remaining output is the old one without its
first `k` events -/
theorem ro_offset_pos {name j w sy c i} (hs : Sorted j) (k : Nat) (h : AbsR lo hi name j w sy c i) :
    ∃ i', AbsR lo hi name j w sy (offset c (k : Int)) i' ∧ FLR lo hi j w i' = (FLR lo hi j w i).drop k := by
  cases k with
  | zero => exact ⟨i, by simpa [offset] using h, by simp⟩
  | succ k =>
    have h1 : ((((k + 1 : Nat) : Int)) == 0) = false := by
      simp only [beq_eq_false_iff_ne, ne_eq]; omega
    have h2 : ¬ (((k + 1 : Nat) : Int)) < 0 := by omega
    obtain ⟨i1, a1, s1, f1, _⟩ := ro_get lo hi HG HN hs h
    obtain ⟨i', a', _, f'⟩ := ro_steps_fwd lo hi HG HN hs (k + 1) _ i1 none a1 s1
    refine ⟨i', ?_, by rw [f', f1]⟩
    have : offset c ((k + 1 : Nat) : Int) = (offsetSteps (k + 1) (curGet c).1 none).1 := by
      rw [offset, h1]
      simp only [Bool.false_eq_true, if_false, h2]
      have : (((k + 1 : Nat) : Int)).natAbs = k + 1 := Int.natAbs_natCast _
      simp only [this]
    rw [this]; exact a'

end fwd
end Logrange.Rd
