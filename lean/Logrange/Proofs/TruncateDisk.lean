import Logrange.Model.TruncateDisk
/-! Lemmas about the drop step on disk (`Model/TruncateDisk.lean`). -/
namespace Logrange.Truncate
variable {α : Type} [DecidableEq α]

theorem mem_removeAll (p : List α) (files : List (List α)) (f : List α) :
    f ∈ removeAll p files ↔ f ∈ files ∧ ¬ p <+: f := by
  simp only [removeAll, List.mem_filter, Bool.not_eq_true', ← Bool.not_eq_true, List.isPrefixOf_iff_prefix]

omit [DecidableEq α] in
/-- two prefixes of the same length of one list are the same list -/
theorem prefix_same_length_eq {a b f : List α} (ha : a <+: f) (hb : b <+: f) (hl : a.length = b.length) : a = b := by
  have hab : a <+: b := List.prefix_of_prefix_length_le ha hb (by omega)
  exact hab.eq_of_length hl

omit [DecidableEq α] in
/-- the folders of two different partitions are not nested, whatever their buckets -/
theorem partFolder_not_prefix (bucket : α → α) (base : List α) (id other : α) (f : List α) (hne : other ≠ id)
    (hin : partFolder bucket base other <+: f) : ¬ partFolder bucket base id <+: f := by
  intro h
  have he := prefix_same_length_eq h hin (by simp [partFolder])
  simp [partFolder] at he
  exact hne he.2.symm

theorem keeps_other (bucket : α → α) (base : List α) (id other : α) (files : List (List α)) (f : List α)
    (hne : other ≠ id) (hf : f ∈ files) (hin : partFolder bucket base other <+: f) :
    f ∈ dropOnDisk true bucket base id files := by
  simp only [dropOnDisk, dropTarget, if_true]
  exact (mem_removeAll _ _ _).2 ⟨hf, partFolder_not_prefix bucket base id other f hne hin⟩

theorem removes_own (bucket : α → α) (base : List α) (id : α) (files : List (List α)) (f : List α)
    (hf : f ∈ dropOnDisk true bucket base id files) : f ∈ files ∧ ¬ partFolder bucket base id <+: f := by
  simp only [dropOnDisk, dropTarget, if_true] at hf
  exact (mem_removeAll _ _ _).1 hf

end Logrange.Truncate
