import Logrange.Model.Registry
/-! Invariant of the concurrent create + save transition system in its serialized shape. -/
namespace Logrange.Registry
open Go

/-- what must hold for one caller, by program counter -/
def SOk (s : SState) (a : Nat) : Pipe × SPc → Prop
  | (p, .snap) => p ∈ s.reg
  | (p, .write sn) => s.saver = some a ∧ p ∈ sn ∧ (∀ q ∈ s.disk, q ∈ sn) ∧ (∀ q ∈ sn, q ∈ s.reg)
  | (p, .done true) => p ∈ s.disk
  | _ => True

def SInv (s : SState) : Prop :=
  (∀ q ∈ s.disk, q ∈ s.reg) ∧
  (∀ (a : Nat) (x : Pipe × SPc), s.pcs[a]? = some x → SOk s a x) ∧
  (∀ a, s.saver = some a → ∃ p sn, s.pcs[a]? = some (p, SPc.write sn))

theorem getElem?_set_cases {α} (l : List α) (a b : Nat) (y x : α) (halt : a < l.length)
    (h : (l.set a y)[b]? = some x) : (b = a ∧ x = y) ∨ (b ≠ a ∧ l[b]? = some x) := by
  by_cases e : b = a
  · subst e; rw [List.getElem?_set_self halt] at h; left; exact ⟨rfl, (Option.some.inj h).symm⟩
  · rw [List.getElem?_set_ne (Ne.symm e)] at h; right; exact ⟨e, h⟩

theorem sstep_inv (s s' : SState) (a : Nat) (h : SInv s) (hs : sstep true s a = some s') : SInv s' := by
  unfold sstep at hs
  obtain ⟨hdr, hok, hsv⟩ := h
  cases hpa : s.pcs[a]? with
  | none => simp [hpa] at hs
  | some pp =>
    obtain ⟨p, pc⟩ := pp
    have halt : a < s.pcs.length := by
      rcases Nat.lt_or_ge a s.pcs.length with h | h
      · exact h
      · rw [List.getElem?_eq_none h] at hpa; cases hpa
    have hself := hok a (p, pc) hpa
    -- a caller that is not writing does not hold the mutex
    have notsaver : (∀ sn, pc ≠ SPc.write sn) → s.saver ≠ some a := by
      intro hne hsa
      obtain ⟨p', sn, hw⟩ := hsv a hsa
      rw [hpa] at hw; simp only [Option.some.injEq, Prod.mk.injEq] at hw
      exact hne sn hw.2
    -- moving `a` to a counter without obligations, nothing else changing
    have trivial_move : ∀ (pc' : SPc), (∀ sn, pc ≠ SPc.write sn) → SOk s a (p, pc') →
        SInv { s with pcs := s.pcs.set a (p, pc') } := by
      intro pc' hne hnew
      refine ⟨hdr, ?_, ?_⟩
      · intro b x hb
        rcases getElem?_set_cases _ a b _ x halt hb with ⟨rfl, rfl⟩ | ⟨_, hb'⟩
        · exact hnew
        · exact hok b x hb'
      · intro b hsb
        have hba : b ≠ a := by intro e; subst e; exact notsaver hne hsb
        obtain ⟨p', sn, hw⟩ := hsv b hsb
        exact ⟨p', sn, by simp only []; rw [List.getElem?_set_ne (Ne.symm hba)]; exact hw⟩
    cases pc with
    | start =>
      simp only [hpa] at hs
      cases hf : s.reg.find p.name with
      | some q => simp only [hf, Option.some.injEq] at hs; subst hs
                  exact trivial_move _ (by intro sn; simp) (by simp [SOk])
      | none => simp only [hf, Option.some.injEq] at hs; subst hs
                exact trivial_move _ (by intro sn; simp) (by simp [SOk])
    | checked =>
      simp only [hpa] at hs
      cases hf : s.reg.find p.name with
      | some q => simp only [hf, Option.some.injEq] at hs; subst hs
                  exact trivial_move _ (by intro sn; simp) (by simp [SOk])
      | none =>
        simp only [hf, Option.some.injEq] at hs; subst hs
        refine ⟨fun q hq => List.mem_cons_of_mem _ (hdr q hq), ?_, ?_⟩
        · intro b x hb
          rcases getElem?_set_cases _ a b _ x halt hb with ⟨rfl, rfl⟩ | ⟨_, hb'⟩
          · simp [SOk]
          · have := hok b x hb'
            obtain ⟨p', pc'⟩ := x
            cases pc' with
            | snap => simp only [SOk] at this ⊢; exact List.mem_cons_of_mem _ this
            | write sn =>
              simp only [SOk] at this ⊢
              exact ⟨this.1, this.2.1, this.2.2.1, fun q hq => List.mem_cons_of_mem _ (this.2.2.2 q hq)⟩
            | done ok => cases ok <;> simpa [SOk] using this
            | start => simp [SOk]
            | checked => simp [SOk]
        · intro b hsb
          have hba : b ≠ a := by intro e; subst e; exact notsaver (by intro sn; simp) hsb
          obtain ⟨p', sn, hw⟩ := hsv b hsb
          exact ⟨p', sn, by simp only []; rw [List.getElem?_set_ne (Ne.symm hba)]; exact hw⟩
    | snap =>
      simp only [hpa, if_true] at hs
      cases hsav : s.saver with
      | some c => simp [hsav] at hs
      | none =>
        simp only [hsav, Option.some.injEq] at hs; subst hs
        have hp : p ∈ s.reg := by simpa [SOk] using hself
        refine ⟨hdr, ?_, ?_⟩
        · intro b x hb
          rcases getElem?_set_cases _ a b _ x halt hb with ⟨rfl, rfl⟩ | ⟨hba, hb'⟩
          · exact ⟨rfl, hp, hdr, fun q hq => hq⟩
          · have := hok b x hb'
            obtain ⟨p', pc'⟩ := x
            cases pc' with
            | write sn => simp only [SOk] at this; rw [hsav] at this; cases this.1
            | snap => simpa [SOk] using this
            | done ok => cases ok <;> simpa [SOk] using this
            | start => simp [SOk]
            | checked => simp [SOk]
        · intro b hsb
          simp only [Option.some.injEq] at hsb; subst hsb
          exact ⟨p, s.reg, by simp only []; rw [List.getElem?_set_self halt]⟩
    | write sn =>
      simp only [hpa, if_true, Option.some.injEq] at hs; subst hs
      obtain ⟨hsa, hpsn, hdsn, hsnr⟩ : s.saver = some a ∧ p ∈ sn ∧ (∀ q ∈ s.disk, q ∈ sn) ∧ (∀ q ∈ sn, q ∈ s.reg) := by
        simpa [SOk] using hself
      refine ⟨hsnr, ?_, ?_⟩
      · intro b x hb
        rcases getElem?_set_cases _ a b _ x halt hb with ⟨rfl, rfl⟩ | ⟨hba, hb'⟩
        · simpa [SOk] using hpsn
        · have := hok b x hb'
          obtain ⟨p', pc'⟩ := x
          cases pc' with
          | write sn' =>
            simp only [SOk] at this; rw [hsa] at this
            exact absurd (Option.some.inj this.1).symm hba
          | snap => simpa [SOk] using this
          | done ok =>
            cases ok with
            | false => simp [SOk]
            | true => simp only [SOk] at this ⊢; exact hdsn _ this
          | start => simp [SOk]
          | checked => simp [SOk]
      · intro b hsb; cases hsb
    | done ok => simp [hpa] at hs

theorem srun_inv (s : SState) (sched : List Nat) (h : SInv s) : SInv (srun true s sched) := by
  induction sched generalizing s with
  | nil => simpa [srun] using h
  | cons a as ih =>
    simp only [srun]
    cases hs : sstep true s a with
    | none => exact ih s h
    | some s' => exact ih s' (sstep_inv s s' a h hs)

end Logrange.Registry
