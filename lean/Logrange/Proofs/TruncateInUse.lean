import Logrange.Proofs.TruncateDry
/-! DRYRUN announces what the run does up to the deleted flag — repaired accounting (`acct = true`), any holders. -/
namespace Logrange.Truncate

/-- forget the deleted flag of a report line -/
def unflag (i : Info) : Info := { i with deleted := false }

/-- two entries that agree up to the flag -/
theorem unflag_eq {a b : Info} (h : unflag a = unflag b) : b = { a with deleted := b.deleted } := by
  cases a; cases b
  simp only [unflag, Info.mk.injEq] at h
  obtain ⟨h1, h2, h3, h4, h5, _⟩ := h
  subst h1; subst h2; subst h3; subst h4; subst h5
  rfl

theorem unflag_flag (a : Info) (b : Bool) : unflag { a with deleted := b } = unflag a := rfl

theorem unflag_takenInfo (dry : Bool) (a : Info) (b : Bool) (cks : List Chunk) :
    unflag (takenInfo dry { a with deleted := b } cks) = unflag (takenInfo dry a cks) := rfl

/-! ### the sorted insertion does not look at the flag -/

theorem notBefore_unflag (infos : List Info) (ti : Info) (i : Nat) :
    notBefore ((infos.map unflag).getD i default) (unflag ti) = notBefore (infos.getD i default) ti := by
  simp only [List.getD_eq_getElem?_getD, List.getElem?_map]
  cases infos[i]? with
  | none => rfl
  | some x => rfl

theorem insertInfo_unflag (infos : List Info) (ti : Info) :
    insertInfo (infos.map unflag) (unflag ti) = (insertInfo infos ti).map unflag := by
  unfold insertInfo
  simp only [List.length_map]
  have e : (fun i => notBefore ((infos.map unflag).getD i default) (unflag ti)) =
      (fun i => notBefore (infos.getD i default) ti) := by
    funext i; exact notBefore_unflag infos ti i
  rw [e]
  simp [List.map_take, List.map_drop]

theorem foldl_insertInfo_unflag : ∀ (l acc : List Info),
    (l.map unflag).foldl insertInfo (acc.map unflag) = (l.foldl insertInfo acc).map unflag := by
  intro l
  induction l with
  | nil => intro acc; rfl
  | cons x xs ih =>
    intro acc
    simp only [List.map_cons, List.foldl_cons]
    rw [insertInfo_unflag, ih]

theorem sortInfos_unflag (l : List Info) : sortInfos (l.map unflag) = (sortInfos l).map unflag := by
  have := foldl_insertInfo_unflag l []
  simpa [sortInfos] using this

theorem totalAfter_unflag (l : List Info) : totalAfter (l.map unflag) = totalAfter l := by
  unfold totalAfter
  rw [List.foldl_map]
  rfl

/-! ### look-ups after `dbSet` -/

theorem dbFind_dbSet_ne (db : List Part) (s t : Nat) (cks : List Chunk) (h : s ≠ t) :
    dbFind (dbSet db s cks) t = dbFind db t := by
  unfold dbFind dbSet
  induction db with
  | nil => rfl
  | cons x xs ih =>
    simp only [List.map_cons, List.find?_cons]
    by_cases hx : x.src = s
    · have hxt : ¬ x.src = t := by omega
      simp only [hx, if_true]
      have e1 : (s == t) = false := by simp [h]
      simp only [e1]
      exact ih
    · simp only [hx, if_false]
      cases hb : (x.src == t) with
      | true => rfl
      | false => exact ih

/-! ### the MAXDBSIZE pass, repaired accounting: the dry pass on the untouched partitions simulates the real pass on the
reduced ones up to the flag, whoever holds the partitions -/

/-- how the dry database `D` and the real database `R` are related at a candidate of the pass (no condition on the
holders) -/
def LinkedU (D R : List Part) (ti : Info) : Prop :=
  0 < ti.after → ∃ q, dbFind D ti.src = some q ∧
    dbFind R ti.src = some { q with chunks := q.chunks.drop ti.chunksDeleted } ∧ ti.chunksDeleted ≤ q.chunks.length

theorem globalLoop_sim_in_use (strict : Bool) (p : Params) : ∀ (Id Ir : List Info) (ts : Nat) (D R : List Part),
    Id.map unflag = Ir.map unflag → (Id.map (·.src)).Nodup → (∀ ti ∈ Id, LinkedU D R ti) →
    (globalLoop true strict 0 1 { p with dryRun := true } Id ts D).1.map unflag =
      (globalLoop true strict 0 1 { p with dryRun := false } Ir ts R).1.map unflag := by
  intro Id
  induction Id with
  | nil =>
    intro Ir ts D R heq _ _
    cases Ir with
    | nil => simp [globalLoop]
    | cons a l => simp at heq
  | cons ti rest ih =>
    intro Ir ts D R heq hnd hl
    cases Ir with
    | nil => simp at heq
    | cons ti' rest' =>
      simp only [List.map_cons, List.cons.injEq] at heq
      obtain ⟨hti, hrest⟩ := heq
      have hti' := unflag_eq hti
      generalize ti'.deleted = b at hti'
      subst hti'
      rw [List.map_cons, List.nodup_cons] at hnd
      have hl' : ∀ tj ∈ rest, LinkedU D R tj := fun tj h => hl tj (List.mem_cons_of_mem _ h)
      unfold globalLoop
      by_cases h1 : p.maxDB < ts
      · simp only [h1, if_true]
        by_cases h2 : 0 < ti.after
        · simp only [h2, if_true]
          obtain ⟨q, hD, hR, hcd⟩ := hl ti (by simp) h2
          simp only [hD, hR, Bool.true_or, if_true, Bool.false_or]
          have hrec : ∀ R', (∀ tj ∈ rest, dbFind R' tj.src = dbFind R tj.src) →
              (globalLoop true strict 0 1 { p with dryRun := true } rest (sub64 ts ti.after) D).1.map unflag =
              (globalLoop true strict 0 1 { p with dryRun := false } rest' (sub64 ts ti.after) R').1.map unflag := by
            intro R' hR'
            apply ih rest' _ D R' hrest hnd.2
            intro tj htj ha
            obtain ⟨q2, hD2, hR2, rest2⟩ := hl' tj htj ha
            exact ⟨q2, hD2, by rw [hR' tj htj]; exact hR2, rest2⟩
          have hne : ∀ tj ∈ rest, ti.src ≠ tj.src := by
            intro tj htj e; apply hnd.1; rw [e]; exact List.mem_map_of_mem htj
          split
          · simp only [List.map_cons]
            congr 1
            · rw [takenInfo_dry_eq_run ti q.chunks hcd]; rfl
            · exact hrec _ (fun tj htj => dbFind_dbRemove_ne _ _ _ (hne tj htj))
          · simp only [List.map_cons]
            congr 1
            · show unflag (takenInfo true ti q.chunks) = unflag (takenInfo false { ti with deleted := b } _)
              rw [takenInfo_dry_eq_run ti q.chunks hcd]; rfl
            · exact hrec _ (fun tj htj => dbFind_dbSet_ne _ _ _ _ (hne tj htj))
        · simp only [h2, if_false, List.map_cons]
          congr 1
          exact ih rest' ts D R hrest hnd.2 hl'
      · simp only [h1, if_false, List.map_cons]
        rw [hrest]
        rfl

/-! ### phase I, one partition, any holders -/

theorem phase1Part_dry_eq_run_in_use (strict : Bool) (p : Params) (part : Part) (hs : Ascending part.chunks)
    (hu : part.users ≠ 0 → part.sel = true → 0 < psize part.chunks) :
    (phase1Part strict { p with dryRun := true } part).report =
      (phase1Part strict { p with dryRun := false } part).report ∧
    (phase1Part strict { p with dryRun := true } part).info.map unflag =
      (phase1Part strict { p with dryRun := false } part).info.map unflag := by
  have hch : ∀ b, choose strict { p with dryRun := b } part.chunks = choose strict p part.chunks := by
    intro b; rfl
  have hn : ∀ b, (truncate strict { p with dryRun := b } part.chunks).n = (choose strict p part.chunks).n := by
    intro b; rw [truncate_n _ _ _ hs, hch]
  have hr : ∀ b, (truncate strict { p with dryRun := b } part.chunks).removed =
      psize (part.chunks.take (choose strict p part.chunks).n) := by
    intro b; rw [truncate_removed, hch]
  unfold phase1Part
  by_cases hsel : part.sel = false
  · simp [hsel]
  · have hsel' : part.sel = true := by simpa using hsel
    simp only [hsel]
    by_cases hz : psize part.chunks = 0
    · have hu0 : part.users = 0 := by
        apply Classical.byContradiction
        intro hne
        have := hu hne hsel'
        omega
      simp [hz, canDelete, hu0]
    · simp only [hz, if_false, hn, hr]
      exact ⟨rfl, rfl⟩

/-- the phase-I entries of the two calls for one partition agree up to the flag -/
theorem p1_info_in_use (strict : Bool) (p : Params) (part : Part) (hs : Ascending part.chunks)
    (hu : part.users ≠ 0 → part.sel = true → 0 < psize part.chunks) (ti : Info)
    (h : (phase1Part strict { p with dryRun := true } part).info = some ti) :
    ∃ b, (phase1Part strict { p with dryRun := false } part).info = some { ti with deleted := b } := by
  have e := (phase1Part_dry_eq_run_in_use strict p part hs hu).2
  rw [h] at e
  cases hr : (phase1Part strict { p with dryRun := false } part).info with
  | none => rw [hr] at e; simp at e
  | some ti' =>
    rw [hr] at e
    simp only [Option.map_some, Option.some.injEq] at e
    exact ⟨ti'.deleted, congrArg some (unflag_eq e)⟩

theorem map_filterMap_unflag {α : Type} (f g : α → Option Info) : ∀ (l : List α),
    (∀ x ∈ l, (f x).map unflag = (g x).map unflag) →
    (l.filterMap f).map unflag = (l.filterMap g).map unflag := by
  intro l
  induction l with
  | nil => intro _; rfl
  | cons x xs ih =>
    intro h
    have hx := h x (by simp)
    have ih' := ih (fun y hy => h y (List.mem_cons_of_mem _ hy))
    cases hf : f x <;> cases hg : g x <;> simp [hf, hg] at hx ⊢
    · exact ih'
    · exact ⟨hx, ih'⟩

theorem filter_unflag (l : List Info) :
    (l.filter (fun ti => ti.after != ti.before)).map unflag =
      (l.map unflag).filter (fun ti => ti.after != ti.before) := by
  rw [List.filter_map]
  rfl

/-- with the repaired accounting, whoever holds the partitions: every report line of the dry run is a report line of the
run up to the deleted flag, and vice versa -/
theorem dryrun_equals_run_in_use (strict : Bool) (p : Params) (o1 o2 : List Part) (hp : o1.Perm o2)
    (hnd : (o1.map (·.src)).Nodup)
    (hq : ∀ q ∈ o1, Ascending q.chunks ∧ WellSized q ∧ (q.users ≠ 0 → q.sel = true → 0 < psize q.chunks)) :
    ∀ r, r ∈ ((run true strict 0 1 { p with dryRun := true } o1).reports.map unflag) ↔
         r ∈ ((run true strict 0 1 { p with dryRun := false } o2).reports.map unflag) := by
  have hnd2 : (o2.map (·.src)).Nodup := (hp.map _).nodup_iff.mp hnd
  have hq2 : ∀ q ∈ o2, Ascending q.chunks ∧ WellSized q ∧ (q.users ≠ 0 → q.sel = true → 0 < psize q.chunks) :=
    fun q h => hq q (hp.mem_iff.mpr h)
  have hrep : o2.filterMap (fun q => (phase1Part strict { p with dryRun := false } q).report) =
      o2.filterMap (fun q => (phase1Part strict { p with dryRun := true } q).report) := by
    apply filterMap_congr_mem
    intro q hq'
    exact ((phase1Part_dry_eq_run_in_use strict p q (hq2 q hq').1 (hq2 q hq').2.2).1).symm
  have hinf : (o2.filterMap (fun q => (phase1Part strict { p with dryRun := true } q).info)).map unflag =
      (o2.filterMap (fun q => (phase1Part strict { p with dryRun := false } q).info)).map unflag := by
    apply map_filterMap_unflag
    intro q hq'
    exact (phase1Part_dry_eq_run_in_use strict p q (hq2 q hq').1 (hq2 q hq').2.2).2
  -- the dry sorted list is the same for both visiting orders
  have hndI : ((o1.filterMap (fun q => (phase1Part strict { p with dryRun := true } q).info)).map (·.src)).Nodup :=
    nodup_filterMap_map _ _ (·.src) (fun x y h => p1_info_src strict _ x y h) o1 hnd
  obtain ⟨hI, _, hIperm⟩ := insert_perm_invariant _ _
    (hp.filterMap (fun q => (phase1Part strict { p with dryRun := true } q).info)) hndI
  -- the two sorted lists agree up to the flag
  have hsorted : (sortInfos (o1.filterMap (fun q => (phase1Part strict { p with dryRun := true } q).info))).map unflag =
      (sortInfos (o2.filterMap (fun q => (phase1Part strict { p with dryRun := false } q).info))).map unflag := by
    rw [hI, ← sortInfos_unflag, hinf, sortInfos_unflag]
  unfold run phase2
  simp only []
  rw [phase1_eq, phase1_eq]
  simp only [hrep]
  generalize hIdef : sortInfos (o1.filterMap (fun q => (phase1Part strict { p with dryRun := true } q).info)) = I at *
  generalize hJdef : sortInfos (o2.filterMap (fun q => (phase1Part strict { p with dryRun := false } q).info)) = J at *
  have hts : totalAfter I = totalAfter J := by
    rw [← totalAfter_unflag I, hsorted, totalAfter_unflag]
  have hndI' : (I.map (·.src)).Nodup := (hIperm.map _).nodup_iff.mpr hndI
  have hsim := globalLoop_sim_in_use strict p I J (totalAfter I)
    (o1.filterMap (fun q => (phase1Part strict { p with dryRun := true } q).part))
    (o2.filterMap (fun q => (phase1Part strict { p with dryRun := false } q).part)) hsorted hndI' (by
      intro ti hti ha
      have hti' := hIperm.mem_iff.mp hti
      obtain ⟨q, hqm, hqi⟩ := List.mem_filterMap.mp hti'
      have hqf := hq q hqm
      obtain ⟨b, hqi'⟩ := p1_info_in_use strict p q hqf.1 hqf.2.2 ti hqi
      obtain ⟨hpart, hcd, _⟩ := p1_linked strict { p with dryRun := false } rfl q _ hqf.1 hqi' ha
      have hsrc := p1_info_src strict _ q ti hqi
      refine ⟨q, ?_, ?_, hcd⟩
      · rw [hsrc]
        exact dbFind_filterMap _ (fun x y h => p1_part_src strict _ x y h) o1 hnd q hqm q
          (phase1Part_dry strict _ rfl q)
      · rw [hsrc]
        exact dbFind_filterMap _ (fun x y h => p1_part_src strict _ x y h) o2 hnd2 q (hp.mem_iff.mp hqm) _ hpart)
  intro r
  simp only [List.map_append, List.mem_append, filter_unflag, hsim, ← hts]
  have hmemrep : r ∈ (o1.filterMap (fun q => (phase1Part strict { p with dryRun := true } q).report)).map unflag ↔
      r ∈ (o2.filterMap (fun q => (phase1Part strict { p with dryRun := true } q).report)).map unflag :=
    ((hp.filterMap _).map _).mem_iff
  rw [hmemrep]

/-! ### non-vacuity: a partition in use taken by the MAXDBSIZE pass — the dry run announces its drop, the run empties it
and reports the same line with `deleted = false`; the two differ in the flag only -/

example :
    let order : List Part := [⟨1, true, 1, [⟨1, 10, 5⟩]⟩, ⟨2, true, 0, [⟨1, 4, 3⟩]⟩]
    let dry := (run true true 0 1 { maxDB := 5, dryRun := true } order).reports
    let real := (run true true 0 1 { maxDB := 5, dryRun := false } order).reports
    dry ≠ real ∧ dry.map unflag = real.map unflag ∧ dry.map (·.src) = [1] ∧
      dry.map (·.deleted) = [true] ∧ real.map (·.deleted) = [false] := by
  decide

end Logrange.Truncate
