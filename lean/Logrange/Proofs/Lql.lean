import Logrange.Model.LqlFindings
/-!
# Lemmas for C12: the direct parser inverts `tokensOf` on the parser's image (token level), any nesting depth
-/
namespace Logrange.Lql

/-- the next token (if any) does not match the literal `s` -/
def headNot (s : Bytes) : List Tok → Bool
  | [] => true
  | tk :: _ => !litMatch tk s

/-! ### fuel measures (an upper bound of the call depth of the direct parser on `toks… ast`) -/
mutual
def szIdent : Ident → Nat
  | .mk _ .nil => 1
  | .mk _ (.cons h t) => 1 + szIdent h + szIdentsTail t
def szIdentsTail : IdentList → Nat
  | .nil => 1
  | .cons h t => 1 + szIdent h + szIdentsTail t
end

theorem isOperandTok_operandTok (op : Bytes) : isOperandTok (operandTok op) = true := by
  unfold isOperandTok operandTok
  split <;> simp

theorem operandTok_v (op : Bytes) : (operandTok op).v = op := rfl

theorem litMatch_tLP : litMatch tLP LP = true := by decide
theorem litMatch_tRP : litMatch tRP RP = true := by decide
theorem litMatch_tCOMMA : litMatch tCOMMA COMMA = true := by decide
theorem litMatch_tRP_COMMA : litMatch tRP COMMA = false := by decide
theorem litMatch_tRP_LP : litMatch tRP LP = false := by decide
theorem litMatch_tCOMMA_LP : litMatch tCOMMA LP = false := by decide

theorem headNot_LP_tail (t : IdentList) (rest : List Tok) : headNot LP (toksIdentsTail t ++ (tRP :: rest)) = true := by
  cases t with
  | nil => simp [toksIdentsTail, headNot, litMatch_tRP_LP]
  | cons h t => simp [toksIdentsTail, headNot, litMatch_tCOMMA_LP]

mutual
theorem dIdent_toks : ∀ (i : Ident) (f : Nat) (rest : List Tok), szIdent i ≤ f → headNot LP rest = true →
    dIdent f (toksIdent i ++ rest) = some (i, rest)
  | .mk op .nil, f, rest, hf, hr => by
    cases f with
    | zero => simp [szIdent] at hf
    | succ f =>
      cases rest with
      | nil => simp [toksIdent, dIdent, isOperandTok_operandTok, operandTok_v]
      | cons p r =>
        have hp : litMatch p LP = false := by simpa [headNot] using hr
        simp [toksIdent, dIdent, isOperandTok_operandTok, operandTok_v, hp]
  | .mk op (.cons h t), f, rest, hf, _ => by
    cases f with
    | zero => simp [szIdent] at hf
    | succ f =>
      have hf' : 1 + szIdent h + szIdentsTail t ≤ f + 1 := by simpa [szIdent] using hf
      have h1 := dIdent_toks h f (toksIdentsTail t ++ (tRP :: rest)) (by omega) (headNot_LP_tail t rest)
      have h2 := dIdentTail_toks t f (tRP :: rest) (by omega) (by simp [headNot, litMatch_tRP_COMMA]) (by simp [headNot, litMatch_tRP_LP])
      simp only [toksIdent, List.cons_append, List.append_assoc] at h1 ⊢
      simp [dIdent, isOperandTok_operandTok, operandTok_v, litMatch_tLP, h1, h2, litMatch_tRP]
theorem dIdentTail_toks : ∀ (t : IdentList) (f : Nat) (rest : List Tok), szIdentsTail t ≤ f → headNot COMMA rest = true →
    headNot LP rest = true → dIdentTail f (toksIdentsTail t ++ rest) = some (t, rest)
  | .nil, f, rest, hf, hr, _ => by
    cases f with
    | zero => simp [szIdentsTail] at hf
    | succ f =>
      cases rest with
      | nil => simp [toksIdentsTail, dIdentTail]
      | cons p r =>
        have hp : litMatch p COMMA = false := by simpa [headNot] using hr
        simp [toksIdentsTail, dIdentTail, hp]
  | .cons h t, f, rest, hf, hr, hl => by
    cases f with
    | zero => simp [szIdentsTail] at hf
    | succ f =>
      have hf' : 1 + szIdent h + szIdentsTail t ≤ f + 1 := by simpa [szIdentsTail] using hf
      have hh : headNot LP (toksIdentsTail t ++ rest) = true := by
        cases t with
        | nil => simpa [toksIdentsTail] using hl
        | cons h' t' => simp [toksIdentsTail, headNot, litMatch_tCOMMA_LP]
      have h1 := dIdent_toks h f (toksIdentsTail t ++ rest) (by omega) hh
      have h2 := dIdentTail_toks t f rest (by omega) hr hl
      simp only [toksIdentsTail, List.cons_append, List.append_assoc] at h1 ⊢
      simp [dIdentTail, litMatch_tCOMMA, h1, h2]
end


/-! ### well-formedness = the parser's image (decidable; the harness checks it on every AST the real parser returns) -/

def operandOf : Ident → Bytes
  | .mk op _ => op

/-- the operator text is one of the ten `Condition.Op` literals (Keyword ones in any letter case) -/
def wfCond (c : Cond) : Bool := isOpTok (opTok c.op) && !litMatch (opTok c.op) LP

mutual
def wfExpr : Expr → Bool
  | .mk .nil => false
  | .mk (.cons h t) => wfOr h && wfOrs t
def wfOrs : OrList → Bool
  | .nil => true
  | .cons h t => wfOr h && wfOrs t
def wfOr : OrCond → Bool
  | .mk .nil => false
  | .mk (.cons h t) => wfX h && wfXs t
def wfXs : XList → Bool
  | .nil => true
  | .cons h t => wfX h && wfXs t
/-- an un-negated condition cannot start with the operand `NOT` (the optional `[@"NOT"]` would have taken it) -/
def wfX : XCond → Bool
  | .cond neg c => wfCond c && (neg || !litMatch (operandTok (operandOf c.ident)) kwNOT)
  | .paren _ e => wfExpr e
end

/-- `{…}` sources: the printed tag line is read back to the same set by `tag.Parse` (C08's round trip; holds for
every `safeTags` set — tested there — and is false for the F12b witnesses) -/
def wfSource : Source → Bool
  | .tags m => KV.tagParse (KV.LB :: (KV.line m ++ [KV.RB])) == some m
  | .expr e => wfExpr e

mutual
def szExpr : Expr → Nat
  | .mk .nil => 0
  | .mk (.cons h t) => 1 + szOr h + szOrs t
def szOrs : OrList → Nat
  | .nil => 1
  | .cons h t => 1 + szOr h + szOrs t
def szOr : OrCond → Nat
  | .mk .nil => 0
  | .mk (.cons h t) => 1 + szX h + szXs t
def szXs : XList → Nat
  | .nil => 1
  | .cons h t => 1 + szX h + szXs t
def szX : XCond → Nat
  | .cond _ c => 2 + szIdent c.ident
  | .paren _ e => 2 + szExpr e
end

theorem toksIdent_head (i : Ident) : ∃ tl, toksIdent i = operandTok (operandOf i) :: tl := by
  cases i with
  | mk op ps => cases ps with
    | nil => exact ⟨[], by simp [toksIdent, operandOf]⟩
    | cons h t => exact ⟨_, by simp [toksIdent, operandOf]; rfl⟩

theorem dCond_toks (c : Cond) (f : Nat) (rest : List Tok) (hf : szIdent c.ident ≤ f) (hw : wfCond c = true) :
    dCond f (toksCond c ++ rest) = some (c, rest) := by
  have hw' : isOpTok (opTok c.op) = true ∧ litMatch (opTok c.op) LP = false := by
    simpa [wfCond] using hw
  have h1 := dIdent_toks c.ident f (opTok c.op :: ⟨.string, c.value⟩ :: rest) hf (by simp [headNot, hw'.2])
  simp only [toksCond, List.append_assoc, List.cons_append, List.nil_append] at h1 ⊢
  rw [dCond, h1]
  have hv : (opTok c.op).v = c.op := rfl
  simp [hw'.1, isValueTok, hv]

theorem litMatch_tNOT : litMatch tNOT kwNOT = true := by decide
theorem litMatch_tAND : litMatch tAND kwAND = true := by decide
theorem litMatch_tOR : litMatch tOR kwOR = true := by decide
theorem litMatch_tOR_AND : litMatch tOR kwAND = false := by decide
theorem litMatch_tRP_OR : litMatch tRP kwOR = false := by decide
theorem litMatch_tRP_AND : litMatch tRP kwAND = false := by decide
theorem litMatch_tLP_NOT : litMatch tLP kwNOT = false := by decide
theorem isOperandTok_tLP : isOperandTok tLP = false := by decide

theorem headNot_AND_orsTail (t : OrList) (rest : List Tok) (h : headNot kwAND rest = true) :
    headNot kwAND (toksOrsTail t ++ rest) = true := by
  cases t with
  | nil => simpa [toksOrsTail] using h
  | cons h' t' => simp [toksOrsTail, headNot, litMatch_tOR_AND]

mutual
theorem dExpr_toks : ∀ (e : Expr) (f : Nat) (rest : List Tok), szExpr e ≤ f → wfExpr e = true →
    headNot kwOR rest = true → headNot kwAND rest = true → dExpr f (toksExpr e ++ rest) = some (e, rest)
  | .mk .nil, _, _, _, hw, _, _ => by simp [wfExpr] at hw
  | .mk (.cons h t), f, rest, hf, hw, ho, ha => by
    cases f with
    | zero => simp [szExpr] at hf
    | succ f =>
      have hf' : 1 + szOr h + szOrs t ≤ f + 1 := by simpa [szExpr] using hf
      have hw' : wfOr h = true ∧ wfOrs t = true := by simpa [wfExpr] using hw
      have h1 := dOr_toks h f (toksOrsTail t ++ rest) (by omega) hw'.1 (headNot_AND_orsTail t rest ha)
      have h2 := dOrTail_toks t f rest (by omega) hw'.2 ho ha
      simp only [toksExpr, List.append_assoc] at h1 ⊢
      simp [dExpr, h1, h2]
theorem dOrTail_toks : ∀ (t : OrList) (f : Nat) (rest : List Tok), szOrs t ≤ f → wfOrs t = true →
    headNot kwOR rest = true → headNot kwAND rest = true → dOrTail f (toksOrsTail t ++ rest) = some (t, rest)
  | .nil, f, rest, hf, _, ho, _ => by
    cases f with
    | zero => simp [szOrs] at hf
    | succ f =>
      cases rest with
      | nil => simp [toksOrsTail, dOrTail]
      | cons p r =>
        have hp : litMatch p kwOR = false := by simpa [headNot] using ho
        simp [toksOrsTail, dOrTail, hp]
  | .cons h t, f, rest, hf, hw, ho, ha => by
    cases f with
    | zero => simp [szOrs] at hf
    | succ f =>
      have hf' : 1 + szOr h + szOrs t ≤ f + 1 := by simpa [szOrs] using hf
      have hw' : wfOr h = true ∧ wfOrs t = true := by simpa [wfOrs] using hw
      have h1 := dOr_toks h f (toksOrsTail t ++ rest) (by omega) hw'.1 (headNot_AND_orsTail t rest ha)
      have h2 := dOrTail_toks t f rest (by omega) hw'.2 ho ha
      simp only [toksOrsTail, List.cons_append, List.append_assoc] at h1 ⊢
      simp [dOrTail, litMatch_tOR, h1, h2]
theorem dOr_toks : ∀ (o : OrCond) (f : Nat) (rest : List Tok), szOr o ≤ f → wfOr o = true →
    headNot kwAND rest = true → dOr f (toksOr o ++ rest) = some (o, rest)
  | .mk .nil, _, _, _, hw, _ => by simp [wfOr] at hw
  | .mk (.cons h t), f, rest, hf, hw, ha => by
    cases f with
    | zero => simp [szOr] at hf
    | succ f =>
      have hf' : 1 + szX h + szXs t ≤ f + 1 := by simpa [szOr] using hf
      have hw' : wfX h = true ∧ wfXs t = true := by simpa [wfOr] using hw
      have h1 := dX_toks h f (toksXsTail t ++ rest) (by omega) hw'.1
      have h2 := dAndTail_toks t f rest (by omega) hw'.2 ha
      simp only [toksOr, List.append_assoc] at h1 ⊢
      simp [dOr, h1, h2]
theorem dAndTail_toks : ∀ (t : XList) (f : Nat) (rest : List Tok), szXs t ≤ f → wfXs t = true →
    headNot kwAND rest = true → dAndTail f (toksXsTail t ++ rest) = some (t, rest)
  | .nil, f, rest, hf, _, ha => by
    cases f with
    | zero => simp [szXs] at hf
    | succ f =>
      cases rest with
      | nil => simp [toksXsTail, dAndTail]
      | cons p r =>
        have hp : litMatch p kwAND = false := by simpa [headNot] using ha
        simp [toksXsTail, dAndTail, hp]
  | .cons h t, f, rest, hf, hw, ha => by
    cases f with
    | zero => simp [szXs] at hf
    | succ f =>
      have hf' : 1 + szX h + szXs t ≤ f + 1 := by simpa [szXs] using hf
      have hw' : wfX h = true ∧ wfXs t = true := by simpa [wfXs] using hw
      have h1 := dX_toks h f (toksXsTail t ++ rest) (by omega) hw'.1
      have h2 := dAndTail_toks t f rest (by omega) hw'.2 ha
      simp only [toksXsTail, List.cons_append, List.append_assoc] at h1 ⊢
      simp [dAndTail, litMatch_tAND, h1, h2]
theorem dX_toks : ∀ (x : XCond) (f : Nat) (rest : List Tok), szX x ≤ f → wfX x = true →
    dX f (toksX x ++ rest) = some (x, rest)
  | .cond neg c, f, rest, hf, hw => by
    have hf' : 2 + szIdent c.ident ≤ f := by simpa [szX] using hf
    obtain ⟨f2, rfl⟩ : ∃ f2, f = f2 + 2 := ⟨f - 2, by omega⟩
    have hw' : wfCond c = true ∧ (neg = true ∨ litMatch (operandTok (operandOf c.ident)) kwNOT = false) := by
      simpa [wfX] using hw
    have hc := dCond_toks c f2 rest (by omega) hw'.1
    obtain ⟨tl, htl⟩ := toksIdent_head c.ident
    have hshape : toksCond c ++ rest = operandTok (operandOf c.ident) :: (tl ++ [opTok c.op, ⟨.string, c.value⟩] ++ rest) := by
      simp [toksCond, htl]
    cases neg with
    | true =>
      simp only [toksX, if_true, List.cons_append, List.nil_append]
      rw [dX]
      simp only [litMatch_tNOT, if_true]
      rw [hshape, dXBody]
      simp only [isOperandTok_operandTok, if_true]
      rw [← hshape, hc]
    | false =>
      have hn : litMatch (operandTok (operandOf c.ident)) kwNOT = false := by
        rcases hw'.2 with h | h
        · cases h
        · exact h
      simp only [toksX, Bool.false_eq_true, if_false, List.nil_append]
      rw [hshape, dX]
      simp only [hn, Bool.false_eq_true, if_false]
      rw [dXBody]
      simp only [isOperandTok_operandTok, if_true]
      rw [← hshape, hc]
  | .paren neg e, f, rest, hf, hw => by
    have hf' : 2 + szExpr e ≤ f := by simpa [szX] using hf
    obtain ⟨f2, rfl⟩ : ∃ f2, f = f2 + 2 := ⟨f - 2, by omega⟩
    have hw' : wfExpr e = true := by simpa [wfX] using hw
    have he := dExpr_toks e f2 (tRP :: rest) (by omega) hw' (by simp [headNot, litMatch_tRP_OR]) (by simp [headNot, litMatch_tRP_AND])
    cases neg with
    | true =>
      simp only [toksX, if_true, List.cons_append, List.nil_append, List.append_assoc]
      rw [dX]
      simp only [litMatch_tNOT, if_true]
      rw [dXBody]
      simp [isOperandTok_tLP, litMatch_tLP, he, litMatch_tRP]
    | false =>
      simp only [toksX, Bool.false_eq_true, if_false, List.nil_append, List.cons_append, List.append_assoc]
      rw [dX]
      simp only [litMatch_tLP_NOT, Bool.false_eq_true, if_false]
      rw [dXBody]
      simp [isOperandTok_tLP, litMatch_tLP, he, litMatch_tRP]
end

theorem operandTok_not_tags (op : Bytes) : (operandTok op).t ≠ .tags := by
  unfold operandTok; split <;> simp

theorem toksX_head (x : XCond) : ∃ t r, toksX x = t :: r ∧ t.t ≠ .tags := by
  cases x with
  | cond neg c =>
    obtain ⟨tl, htl⟩ := toksIdent_head c.ident
    cases neg with
    | true => exact ⟨tNOT, toksCond c, by simp [toksX], by decide⟩
    | false =>
      exact ⟨operandTok (operandOf c.ident), tl ++ [opTok c.op, ⟨.string, c.value⟩], by simp [toksX, toksCond, htl],
        operandTok_not_tags _⟩
  | paren neg e =>
    cases neg with
    | true => exact ⟨tNOT, tLP :: (toksExpr e ++ [tRP]), by simp [toksX], by decide⟩
    | false => exact ⟨tLP, toksExpr e ++ [tRP], by simp [toksX], by decide⟩

theorem toksExpr_head (e : Expr) (hw : wfExpr e = true) : ∃ t r, toksExpr e = t :: r ∧ t.t ≠ .tags := by
  cases e with
  | mk ors => cases ors with
    | nil => simp [wfExpr] at hw
    | cons o os => cases o with
      | mk xs => cases xs with
        | nil => simp [wfExpr, wfOr] at hw
        | cons x xt =>
          obtain ⟨t, r, h1, h2⟩ := toksX_head x
          exact ⟨t, r ++ (toksXsTail xt ++ toksOrsTail os), by simp [toksExpr, toksOr, h1], h2⟩

theorem dSource_toks (s : Source) (f : Nat) (hf : (match s with | .tags _ => 0 | .expr e => szExpr e) ≤ f)
    (hw : wfSource s = true) : dSource f (toksSource s) = some (s, []) := by
  cases s with
  | tags m =>
    have : KV.tagParse (KV.LB :: (KV.line m ++ [KV.RB])) = some m := by simpa [wfSource] using hw
    simp [toksSource, dSource, this]
  | expr e =>
    have hw' : wfExpr e = true := by simpa [wfSource] using hw
    have he := dExpr_toks e f [] hf hw' (by simp [headNot]) (by simp [headNot])
    simp only [List.append_nil] at he
    obtain ⟨t, r, h1, h2⟩ := toksExpr_head e hw'
    have h2' : (t.t == TT.tags) = false := by simpa using h2
    simp only [toksSource, h1, dSource, h2', Bool.false_eq_true, if_false]
    rw [← h1, he]; rfl


/-! ### TRUNCATE: token-level round trip of the whole statement -/

/-- a size the parser can produce: its decimal text is read back to it by `humanize.ParseBytes` (true for every uint64
that is a float64 value — `ParseBytes` computes in float64, so every `Size` in the parser's image is one; checked on
every parsed TRUNCATE by the harness), and that text is not mistaken for an operator or a parenthesis -/
def sizeOK (n : Nat) : Bool :=
  parseBytes (decNat n) == some n && !isOpTok ⟨.number, decNat n⟩ && !litMatch ⟨.number, decNat n⟩ LP

/-- the printed date text is not mistaken for an operator or a parenthesis -/
def dateTokOK (rd : Int → Bytes) (v : Int) : Bool := !isOpTok ⟨.string, rd v⟩ && !litMatch ⟨.string, rd v⟩ LP

def optAll {α} (p : α → Bool) : Option α → Bool
  | none => true
  | some a => p a

/-- the parser's image of `Truncate` (decidable) -/
def wfTruncate (rd : Int → Bytes) (t : Truncate) : Bool :=
  optAll wfSource t.source && optAll sizeOK t.minSize && optAll sizeOK t.maxSize && optAll sizeOK t.maxDbSize
  && optAll (dateTokOK rd) t.before
  && (t.dryRun || headNot kwDRYRUN (optSourceToks t.source ++ clauseToks rd t))

/-- the recorded contract of the date functions (C20's side of the boundary): the date parser reads the printed text
of the statement's BEFORE instant back to that instant -/
def DateContract (dp : Bytes → Option Int) (rd : Int → Bytes) (t : Truncate) : Prop :=
  ∀ v, t.before = some v → dp (rd v) = some v

theorem dSizeClause_toks (kw : Bytes) (hk : litMatch (tKw kw) kw = true) (o : Option Nat) (rest : List Tok)
    (ho : optAll sizeOK o = true) (hr : o = none → headNot kw rest = true) :
    dSizeClause kw (sizeToks kw o ++ rest) = some (o, rest) := by
  cases o with
  | none =>
    cases rest with
    | nil => simp [sizeToks, dSizeClause]
    | cons t r =>
      have : litMatch t kw = false := by simpa [headNot] using hr rfl
      simp [sizeToks, dSizeClause, this]
  | some n =>
    have h : parseBytes (decNat n) = some n := by
      have := ho; simp only [optAll, sizeOK, Bool.and_eq_true, beq_iff_eq] at this; exact this.1.1
    simp [sizeToks, dSizeClause, hk, h]

theorem dDateClause_toks (dp : Bytes → Option Int) (rd : Int → Bytes) (o : Option Int) (rest : List Tok)
    (ho : ∀ v, o = some v → dp (rd v) = some v) (hr : o = none → headNot kwBEFORE rest = true) :
    dDateClause dp kwBEFORE (beforeToks rd o ++ rest) = some (o, rest) := by
  cases o with
  | none =>
    cases rest with
    | nil => simp [beforeToks, dDateClause]
    | cons t r =>
      have : litMatch t kwBEFORE = false := by simpa [headNot] using hr rfl
      simp [beforeToks, dDateClause, this]
  | some v =>
    have hk : litMatch (tKw kwBEFORE) kwBEFORE = true := by decide
    simp [beforeToks, dDateClause, hk, ho v rfl]

theorem isOperandTok_tKw (k : Bytes) : isOperandTok (tKw k) = true := by simp [isOperandTok, tKw]

theorem dExpr_nil (f : Nat) : dExpr f [] = none := by
  cases f with
  | zero => simp [dExpr]
  | succ f => cases f with
    | zero => simp [dExpr, dOr]
    | succ f => cases f with
      | zero => simp [dExpr, dOr, dX]
      | succ f => simp [dExpr, dOr, dX]

/-- a clause (`KW number` / `BEFORE "date"`) is not the beginning of a source expression -/
theorem dExpr_clause_none (f : Nat) (k : Bytes) (x : Tok) (rest : List Tok) (hn : litMatch (tKw k) kwNOT = false)
    (hl : litMatch x LP = false) (ho : isOpTok x = false) : dExpr f (tKw k :: x :: rest) = none := by
  have hid : ∀ g, dIdent g (tKw k :: x :: rest) = none ∨ dIdent g (tKw k :: x :: rest) = some (.mk (tKw k).v .nil, x :: rest) := by
    intro g; cases g with
    | zero => left; simp [dIdent]
    | succ g => right; simp [dIdent, isOperandTok_tKw, hl]
  have hc : ∀ g, dCond g (tKw k :: x :: rest) = none := by
    intro g
    rcases hid g with h | h
    · simp [dCond, h]
    · cases rest with
      | nil => simp [dCond, h]
      | cons v r => simp [dCond, h, ho]
  have hb : ∀ g, dXBody g false (tKw k :: x :: rest) = none := by
    intro g; cases g with
    | zero => simp [dXBody]
    | succ g => simp [dXBody, isOperandTok_tKw, hc]
  have hx : ∀ g, dX g (tKw k :: x :: rest) = none := by
    intro g; cases g with
    | zero => simp [dX]
    | succ g => simp [dX, hn, hb]
  have hor : ∀ g, dOr g (tKw k :: x :: rest) = none := by
    intro g; cases g with
    | zero => simp [dOr]
    | succ g => simp [dOr, hx]
  cases f with
  | zero => simp [dExpr]
  | succ f => simp [dExpr, hor]

def clauseKws : List Bytes := [kwMINSIZE, kwMAXSIZE, kwBEFORE, kwMAXDBSIZE]

theorem clauseKw_facts (k : Bytes) (h : k ∈ clauseKws) :
    litMatch (tKw k) kwNOT = false ∧ litMatch (tKw k) kwOR = false ∧ litMatch (tKw k) kwAND = false ∧ (tKw k).t ≠ .tags := by
  simp only [clauseKws, List.mem_cons, List.not_mem_nil, or_false] at h
  rcases h with rfl | rfl | rfl | rfl <;> decide

/-- the clause tokens are empty or start with a clause keyword followed by a harmless token -/
theorem clauseToks_shape (rd : Int → Bytes) (t : Truncate)
    (h1 : optAll sizeOK t.minSize = true) (h2 : optAll sizeOK t.maxSize = true) (h3 : optAll sizeOK t.maxDbSize = true)
    (h4 : optAll (dateTokOK rd) t.before = true) :
    clauseToks rd t = [] ∨ ∃ k x r, clauseToks rd t = tKw k :: x :: r ∧ k ∈ clauseKws ∧ litMatch x LP = false ∧ isOpTok x = false := by
  have sz : ∀ n, sizeOK n = true → litMatch ⟨.number, decNat n⟩ LP = false ∧ isOpTok ⟨.number, decNat n⟩ = false := by
    intro n h; simp only [sizeOK, Bool.and_eq_true, Bool.not_eq_true'] at h; exact ⟨h.2, h.1.2⟩
  cases hmn : t.minSize with
  | some n =>
    right; rw [hmn] at h1
    exact ⟨kwMINSIZE, ⟨.number, decNat n⟩, sizeToks kwMAXSIZE t.maxSize ++ (beforeToks rd t.before ++ sizeToks kwMAXDBSIZE t.maxDbSize),
      by rw [clauseToks, hmn]; rfl, by simp [clauseKws], (sz n h1).1, (sz n h1).2⟩
  | none =>
    cases hmx : t.maxSize with
    | some n =>
      right; rw [hmx] at h2
      exact ⟨kwMAXSIZE, ⟨.number, decNat n⟩, beforeToks rd t.before ++ sizeToks kwMAXDBSIZE t.maxDbSize,
        by rw [clauseToks, hmn, hmx]; rfl, by simp [clauseKws], (sz n h2).1, (sz n h2).2⟩
    | none =>
      cases hbf : t.before with
      | some v =>
        right; rw [hbf] at h4
        have h4' : isOpTok ⟨.string, rd v⟩ = false ∧ litMatch ⟨.string, rd v⟩ LP = false := by
          simpa [optAll, dateTokOK] using h4
        exact ⟨kwBEFORE, ⟨.string, rd v⟩, sizeToks kwMAXDBSIZE t.maxDbSize,
          by rw [clauseToks, hmn, hmx, hbf]; rfl, by simp [clauseKws], h4'.2, h4'.1⟩
      | none =>
        cases hdb : t.maxDbSize with
        | some n =>
          right; rw [hdb] at h3
          exact ⟨kwMAXDBSIZE, ⟨.number, decNat n⟩, [],
            by rw [clauseToks, hmn, hmx, hbf, hdb]; rfl, by simp [clauseKws], (sz n h3).1, (sz n h3).2⟩
        | none => left; rw [clauseToks, hmn, hmx, hbf, hdb]; rfl

theorem dOptSource_toks (f : Nat) (src : Option Source) (c : List Tok)
    (hf : (match src with | some (.expr e) => szExpr e | _ => 0) ≤ f) (hw : optAll wfSource src = true)
    (hc : c = [] ∨ ∃ k x r, c = tKw k :: x :: r ∧ k ∈ clauseKws ∧ litMatch x LP = false ∧ isOpTok x = false) :
    dOptSource f (optSourceToks src ++ c) = some (src, c) := by
  have hOR : headNot kwOR c = true ∧ headNot kwAND c = true := by
    rcases hc with rfl | ⟨k, x, r, rfl, hk, _, _⟩
    · simp [headNot]
    · have := clauseKw_facts k hk; simp [headNot, this.2.1, this.2.2.1]
  cases src with
  | none =>
    rcases hc with rfl | ⟨k, x, r, rfl, hk, hl, ho⟩
    · simp [optSourceToks, dOptSource]
    · have hk' := clauseKw_facts k hk
      have ht : ((tKw k).t == TT.tags) = false := by simpa using hk'.2.2.2
      simp [optSourceToks, dOptSource, ht, dExpr_clause_none f k x r hk'.1 hl ho]
  | some s =>
    cases s with
    | tags m =>
      have : KV.tagParse (KV.LB :: (KV.line m ++ [KV.RB])) = some m := by simpa [optAll, wfSource] using hw
      simp [optSourceToks, toksSource, dOptSource, this]
    | expr e =>
      have hw' : wfExpr e = true := by simpa [optAll, wfSource] using hw
      have he := dExpr_toks e f c (by simpa using hf) hw' hOR.1 hOR.2
      obtain ⟨t, r, h1, h2⟩ := toksExpr_head e hw'
      have h2' : (t.t == TT.tags) = false := by simpa using h2
      have hshape : optSourceToks (some (.expr e)) ++ c = t :: (r ++ c) := by simp [optSourceToks, toksSource, h1]
      rw [hshape, dOptSource]
      simp only [h2', Bool.false_eq_true, if_false]
      rw [← List.cons_append, ← h1, he]

theorem dDryRun_toks (dry : Bool) (rest : List Tok) (h : dry = true ∨ headNot kwDRYRUN rest = true) :
    dDryRun ((if dry then [tKw kwDRYRUN] else []) ++ rest) = (dry, rest) := by
  cases dry with
  | true =>
    have : litMatch (tKw kwDRYRUN) kwDRYRUN = true := by decide
    simp [dDryRun, this]
  | false =>
    have h' : headNot kwDRYRUN rest = true := by rcases h with h | h; cases h; exact h
    cases rest with
    | nil => simp [dDryRun]
    | cons t r =>
      have : litMatch t kwDRYRUN = false := by simpa [headNot] using h'
      simp [dDryRun, this]

theorem headNot_clause_tail (kw : Bytes) (l : List Tok)
    (h : l = [] ∨ ∃ k x r, l = tKw k :: x :: r ∧ litMatch (tKw k) kw = false) : headNot kw l = true := by
  rcases h with rfl | ⟨k, x, r, rfl, hk⟩
  · simp [headNot]
  · simp [headNot, hk]

/-- **the direct parser inverts `tokensOf` on every TRUNCATE statement in the parser's image**, given the date
contract for its BEFORE instant -/
theorem dTruncate_toks (dp : Bytes → Option Int) (rd : Int → Bytes) (t : Truncate) (f : Nat)
    (hf : (match t.source with | some (.expr e) => szExpr e | _ => 0) ≤ f)
    (hw : wfTruncate rd t = true) (hd : DateContract dp rd t) :
    directTruncateFuel dp f (toksTruncate rd t) = some t := by
  simp only [wfTruncate, Bool.and_eq_true, Bool.or_eq_true] at hw
  obtain ⟨⟨⟨⟨⟨hsrc, hmn⟩, hmx⟩, hdb⟩, hbf⟩, hdry⟩ := hw
  have hT : litMatch (tKw kwTRUNCATE) kwTRUNCATE = true := by decide
  have h1 := dDryRun_toks t.dryRun (optSourceToks t.source ++ clauseToks rd t) hdry
  have h2 := dOptSource_toks f t.source (clauseToks rd t) hf hsrc (clauseToks_shape rd t hmn hmx hdb hbf)
  -- the clause chain
  have c4 := dSizeClause_toks kwMAXDBSIZE (by decide) t.maxDbSize [] hdb (by intro _; simp [headNot])
  have c3 := dDateClause_toks dp rd t.before (sizeToks kwMAXDBSIZE t.maxDbSize ++ []) (fun v hv => hd v hv) (by
    intro _; cases t.maxDbSize <;> simp [sizeToks, headNot] <;> decide)
  have c2 := dSizeClause_toks kwMAXSIZE (by decide) t.maxSize (beforeToks rd t.before ++ (sizeToks kwMAXDBSIZE t.maxDbSize ++ [])) hmx (by
    intro _; cases t.before <;> cases t.maxDbSize <;> simp [sizeToks, beforeToks, headNot] <;> decide)
  have c1 := dSizeClause_toks kwMINSIZE (by decide) t.minSize
    (sizeToks kwMAXSIZE t.maxSize ++ (beforeToks rd t.before ++ (sizeToks kwMAXDBSIZE t.maxDbSize ++ []))) hmn (by
    intro _; cases t.maxSize <;> cases t.before <;> cases t.maxDbSize <;> simp [sizeToks, beforeToks, headNot] <;> decide)
  simp only [List.append_nil] at c1 c2 c3 c4
  simp only [toksTruncate, directTruncateFuel, hT, if_true, dTruncBody, h1, h2]
  simp only [clauseToks, c1, c2, c3, c4]

end Logrange.Lql
